package main

// A small prover for the E-PANIC guard rules: difference constraints
// (x - y <= c) collected from dominating branch facts, non-negativity of
// lengths / unsigned values / induction variables, and a syntactic class of
// terminating loops. Integer overflow of "term + small constant" is assumed
// not to occur (terms are lengths and indices); anything of the form
// variable + variable is an opaque term.

import (
	"fmt"
	"go/ast"
	"go/parser"
	"go/token"
	"go/types"
	"os"
	"strconv"
	"strings"

	"golang.org/x/tools/go/cfg"
)

type prover struct {
	plain   bool // canonical strings without object pinning (reviewed-entry guards only)
	info    *types.Info
	vi      *varInfo
	fg      *FGraph
	body    *ast.BlockStmt
	assigns map[types.Object][]assignDesc
}

type assignDesc struct {
	kind string // define, assign, inc, dec, add, sub, range, other
	rhs  ast.Expr
	pos  token.Pos
	rng  *ast.RangeStmt
	def  bool
}

type term struct {
	base string // "" for the constant zero
	off  int64
	ok   bool
}

// canon renders an expression so that equal strings denote equal values at
// one program point: identifier objects are pinned by declaration position.
func (p *prover) canon(e ast.Expr) string {
	e = ast.Unparen(e)
	var sb strings.Builder
	sb.WriteString(exprStr(e))
	if p.plain {
		return sb.String()
	}
	ast.Inspect(e, func(n ast.Node) bool {
		if id, ok := n.(*ast.Ident); ok {
			if o := p.info.Uses[id]; o != nil {
				if _, isVar := o.(*types.Var); isVar {
					fmt.Fprintf(&sb, "@%d", o.Pos())
				}
			} else if o := p.info.Defs[id]; o != nil {
				fmt.Fprintf(&sb, "@%d", o.Pos())
			}
		}
		return true
	})
	return sb.String()
}

// linear splits e into base + constant offset.
func (p *prover) linear(e ast.Expr) term {
	e = ast.Unparen(e)
	if v, ok := constInt(p.info, e); ok {
		return term{"", v, true}
	}
	switch t := e.(type) {
	case *ast.BinaryExpr:
		if t.Op == token.ADD || t.Op == token.SUB {
			if c, ok := constInt(p.info, t.Y); ok {
				l := p.linear(t.X)
				if !l.ok {
					return l
				}
				if t.Op == token.ADD {
					l.off += c
				} else {
					l.off -= c
				}
				return l
			}
			if c, ok := constInt(p.info, t.X); ok && t.Op == token.ADD {
				l := p.linear(t.Y)
				if !l.ok {
					return l
				}
				l.off += c
				return l
			}
		}
	case *ast.CallExpr:
		// conversions between integer types keep the value for our purposes
		// only when widening; treat int(x)/uint64(x) of a len as opaque.
	}
	tv, ok := p.info.Types[e]
	if !ok || !isIntegerType(tv.Type) {
		return term{}
	}
	return term{p.canon(e), 0, true}
}

type dcs struct {
	w map[string]map[string]int64 // w[u][v] = c means u - v <= c
}

func newDCS() *dcs { return &dcs{w: map[string]map[string]int64{}} }

func (d *dcs) add(u, v string, c int64) {
	if u == v {
		return
	}
	m := d.w[u]
	if m == nil {
		m = map[string]int64{}
		d.w[u] = m
	}
	if old, ok := m[v]; !ok || c < old {
		m[v] = c
	}
	if d.w[v] == nil {
		d.w[v] = map[string]int64{}
	}
}

// le reports whether u - v <= c follows (Bellman-Ford style relaxation).
func (d *dcs) le(u, v string, c int64) bool {
	if u == v {
		return c >= 0
	}
	dist := map[string]int64{u: 0}
	for iter := 0; iter < len(d.w)+1; iter++ {
		changed := false
		for a, m := range d.w {
			da, ok := dist[a]
			if !ok {
				continue
			}
			for b, w := range m {
				if db, ok := dist[b]; !ok || da+w < db {
					dist[b] = da + w
					changed = true
				}
			}
		}
		if !changed {
			break
		}
	}
	dv, ok := dist[v]
	return ok && dv <= c
}

// addRel records A op B (already oriented for truth).
func (p *prover) addRel(d *dcs, a, b term, op token.Token) {
	if !a.ok || !b.ok {
		return
	}
	switch op {
	case token.LSS: // a < b : a.base - b.base <= b.off - a.off - 1
		d.add(a.base, b.base, b.off-a.off-1)
	case token.LEQ:
		d.add(a.base, b.base, b.off-a.off)
	case token.GTR:
		p.addRel(d, b, a, token.LSS)
	case token.GEQ:
		p.addRel(d, b, a, token.LEQ)
	case token.EQL:
		p.addRel(d, a, b, token.LEQ)
		p.addRel(d, b, a, token.LEQ)
	}
}

func negate(op token.Token) token.Token {
	switch op {
	case token.LSS:
		return token.GEQ
	case token.LEQ:
		return token.GTR
	case token.GTR:
		return token.LEQ
	case token.GEQ:
		return token.LSS
	case token.EQL:
		return token.NEQ
	case token.NEQ:
		return token.EQL
	}
	return token.ILLEGAL
}

// system builds the constraint system from facts, plus non-negativity of the
// terms mentioned in wanted expressions.
func (p *prover) system(facts []Fact, mention ...ast.Expr) *dcs {
	d := newDCS()
	type neq struct {
		base string
		c    int64
	}
	var neqs []neq
	var addFact func(cond ast.Expr, tag ast.Expr, truth bool)
	addFact = func(cond ast.Expr, tag ast.Expr, truth bool) {
		cond = ast.Unparen(cond)
		if tag != nil {
			if truth {
				p.addRel(d, p.linear(tag), p.linear(cond), token.EQL)
			}
			return
		}
		switch t := cond.(type) {
		case *ast.UnaryExpr:
			if t.Op == token.NOT {
				addFact(t.X, nil, !truth)
			}
		case *ast.BinaryExpr:
			op := t.Op
			switch op {
			case token.LAND:
				if truth {
					addFact(t.X, nil, true)
					addFact(t.Y, nil, true)
				}
				return
			case token.LOR:
				if !truth {
					addFact(t.X, nil, false)
					addFact(t.Y, nil, false)
				}
				return
			}
			if !truth {
				op = negate(op)
			}
			if op == token.NEQ {
				a, b := p.linear(t.X), p.linear(t.Y)
				if a.ok && b.ok && a.base != "" && b.base == "" {
					neqs = append(neqs, neq{a.base, b.off - a.off})
				} else if a.ok && b.ok && b.base != "" && a.base == "" {
					neqs = append(neqs, neq{b.base, a.off - b.off})
				}
			}
			p.addRel(d, p.linear(t.X), p.linear(t.Y), op)
			p.noteNonNeg(d, t.X)
			p.noteNonNeg(d, t.Y)
		case *ast.CallExpr:
			if calleeName(p.info, t) == "rare/pkg/expressions/stdlib.isArgCountBetween" && truth && len(t.Args) == 3 {
				l := term{p.lenCanon(t.Args[0]), 0, true}
				p.addRel(d, l, p.linear(t.Args[1]), token.GEQ)
				p.addRel(d, l, p.linear(t.Args[2]), token.LEQ)
			}
		}
	}
	for _, f := range facts {
		addFact(f.Cond, f.Tag, f.Truth)
	}
	for _, m := range mention {
		p.noteNonNeg(d, m)
		p.notePost(d, m)
	}
	// x != k combined with x >= k gives x >= k+1 (and symmetrically from above)
	for round := 0; round < 6; round++ {
		for _, n := range neqs {
			if d.le("", n.base, -n.c) { // base >= c
				d.add("", n.base, -n.c-1)
			}
			if d.le(n.base, "", n.c) { // base <= c
				d.add(n.base, "", n.c-1)
			}
		}
	}
	return d
}

// notePost adds library post-conditions for single-assignment locals:
// v := strings.Index*(X, ..) / bytes.Index*(X, ..) satisfies v <= len(X) and v >= -1.
func (p *prover) notePost(d *dcs, e ast.Expr) {
	if e == nil {
		return
	}
	p.collectAssigns()
	ast.Inspect(e, func(n ast.Node) bool {
		id, ok := n.(*ast.Ident)
		if !ok {
			return true
		}
		o := p.info.Uses[id]
		if o == nil || !p.vi.final[o] {
			return true
		}
		as := p.assigns[o]
		if len(as) == 1 && as[0].kind == "rangekey" && as[0].def && as[0].rng != nil {
			p.noteRangeKey(d, id, as[0])
			return true
		}
		if len(as) != 1 || as[0].kind != "assign" || as[0].rhs == nil {
			return true
		}
		if mk, ok := ast.Unparen(as[0].rhs).(*ast.CallExpr); ok && calleeName(p.info, mk) == "builtin.make" && len(mk.Args) >= 2 {
			p.noteMake(d, id, mk, as[0].pos)
			return true
		}
		call, ok := ast.Unparen(as[0].rhs).(*ast.CallExpr)
		if !ok || len(call.Args) < 1 {
			return true
		}
		switch calleeName(p.info, call) {
		case "strings.Index", "strings.IndexByte", "strings.IndexRune", "strings.IndexAny", "strings.LastIndex", "strings.LastIndexByte",
			"bytes.Index", "bytes.IndexByte", "bytes.IndexRune", "bytes.IndexAny", "bytes.LastIndex", "bytes.LastIndexByte":
			x := call.Args[0]
			dx := depsOf(p.info, p.vi, x)
			if dx.nonLocal {
				return true
			}
			for _, l := range dx.locals {
				if !p.vi.final[l] {
					return true
				}
			}
			v := p.linear(id)
			if v.ok {
				d.add(v.base, p.lenCanon(x), 0) // v <= len(X)
				d.add("", v.base, 1)            // v >= -1
			}
		}
		return true
	})
}

// lenCanon returns the canonical base string of len(x) for expression x.
func (p *prover) lenCanon(x ast.Expr) string {
	var sb strings.Builder
	sb.WriteString("len(" + exprStr(ast.Unparen(x)) + ")")
	if p.plain {
		return sb.String()
	}
	// identifiers: 'len' is a builtin (not a Var) so only x's idents are pinned
	ast.Inspect(x, func(n ast.Node) bool {
		if id, ok := n.(*ast.Ident); ok {
			if o := p.info.Uses[id]; o != nil {
				if _, isVar := o.(*types.Var); isVar {
					fmt.Fprintf(&sb, "@%d", o.Pos())
				}
			}
		}
		return true
	})
	return sb.String()
}

// noteNonNeg adds 0 <= t for every sub-term of e that is known non-negative.
func (p *prover) noteNonNeg(d *dcs, e ast.Expr) {
	if e == nil {
		return
	}
	ast.Inspect(e, func(n ast.Node) bool {
		x, ok := n.(ast.Expr)
		if !ok {
			return true
		}
		if p.nonNegTerm(x) {
			l := p.linear(x)
			if l.ok && l.base != "" {
				d.add("", l.base, 0) // 0 - base <= 0
			}
		}
		return true
	})
}

func (p *prover) nonNegTerm(e ast.Expr) bool {
	e = ast.Unparen(e)
	tv, ok := p.info.Types[e]
	if !ok || tv.Type == nil || !isIntegerType(tv.Type) {
		return false
	}
	if isUnsignedType(tv.Type) {
		return true
	}
	switch t := e.(type) {
	case *ast.CallExpr:
		n := calleeName(p.info, t)
		if n == "builtin.len" || n == "builtin.cap" || n == "strings.Count" || n == "unicode/utf8.RuneCountInString" || n == "rare/pkg/color.StrLen" {
			return true
		}
	case *ast.Ident:
		o := p.info.Uses[t]
		if o == nil {
			o = p.info.Defs[t]
		}
		if o != nil {
			return p.nonNegVar(o)
		}
	}
	return false
}

// collectAssigns gathers all assignments to local variables in the outermost
// function (including closures).
func (p *prover) collectAssigns() {
	if p.assigns != nil {
		return
	}
	p.assigns = map[types.Object][]assignDesc{}
	root := p.vi.outer
	if root == nil {
		root = p.body
	}
	obj := func(e ast.Expr) types.Object {
		id, ok := ast.Unparen(e).(*ast.Ident)
		if !ok {
			return nil
		}
		if o := p.info.Defs[id]; o != nil {
			return o
		}
		return p.info.Uses[id]
	}
	ast.Inspect(root, func(n ast.Node) bool {
		switch t := n.(type) {
		case *ast.AssignStmt:
			for i, l := range t.Lhs {
				o := obj(l)
				if o == nil {
					continue
				}
				var rhs ast.Expr
				if len(t.Rhs) == len(t.Lhs) {
					rhs = t.Rhs[i]
				}
				k := "other"
				switch t.Tok {
				case token.DEFINE, token.ASSIGN:
					k = "assign"
					if rhs == nil {
						k = "other"
					}
				case token.ADD_ASSIGN:
					k = "add"
				case token.SUB_ASSIGN:
					k = "sub"
				}
				p.assigns[o] = append(p.assigns[o], assignDesc{kind: k, rhs: rhs, pos: t.Pos(), def: t.Tok == token.DEFINE})
			}
		case *ast.IncDecStmt:
			if o := obj(t.X); o != nil {
				k := "inc"
				if t.Tok == token.DEC {
					k = "dec"
				}
				p.assigns[o] = append(p.assigns[o], assignDesc{kind: k, pos: t.Pos()})
			}
		case *ast.RangeStmt:
			if t.Key != nil {
				if o := obj(t.Key); o != nil {
					p.assigns[o] = append(p.assigns[o], assignDesc{kind: "rangekey", rhs: t.X, pos: t.Pos(), rng: t, def: t.Tok == token.DEFINE})
				}
			}
			if t.Value != nil {
				if o := obj(t.Value); o != nil {
					p.assigns[o] = append(p.assigns[o], assignDesc{kind: "other", pos: t.Pos()})
				}
			}
		case *ast.ValueSpec:
			for i, id := range t.Names {
				if o := p.info.Defs[id]; o != nil {
					if i < len(t.Values) && len(t.Values) == len(t.Names) {
						p.assigns[o] = append(p.assigns[o], assignDesc{kind: "assign", rhs: t.Values[i], pos: t.Pos(), def: true})
					} else if len(t.Values) == 0 {
						p.assigns[o] = append(p.assigns[o], assignDesc{kind: "zero", pos: t.Pos(), def: true})
					} else {
						p.assigns[o] = append(p.assigns[o], assignDesc{kind: "other", pos: t.Pos()})
					}
				}
			}
		}
		return true
	})
}

// nonNegVar: a stable local all of whose assignments keep it >= 0.
func (p *prover) nonNegVar(o types.Object) bool {
	return p.nonNegVarDepth(o, 0)
}

func (p *prover) nonNegVarDepth(o types.Object, depth int) bool {
	v, ok := o.(*types.Var)
	if !ok || v.IsField() || !p.vi.stable[o] || depth > 3 {
		return false
	}
	p.collectAssigns()
	as := p.assigns[o]
	if len(as) == 0 {
		return false // parameter or unknown
	}
	for _, a := range as {
		switch a.kind {
		case "inc", "zero":
		case "rangekey":
			// range key over slice/array/string/int is >= 0; over map it is the key
			if tv, ok := p.info.Types[a.rhs]; ok {
				switch tv.Type.Underlying().(type) {
				case *types.Map, *types.Chan, *types.Signature:
					return false
				}
			}
		case "add":
			if a.rhs == nil || !p.nonNegExprDepth(a.rhs, depth+1) {
				return false
			}
		case "assign":
			if a.rhs == nil || !p.nonNegExprDepth(a.rhs, depth+1) {
				return false
			}
		default:
			return false
		}
	}
	return true
}

func (p *prover) nonNegExprDepth(e ast.Expr, depth int) bool {
	e = ast.Unparen(e)
	if c, ok := constInt(p.info, e); ok {
		return c >= 0
	}
	switch t := e.(type) {
	case *ast.CallExpr:
		n := calleeName(p.info, t)
		if n == "builtin.len" || n == "builtin.cap" || n == "strings.Count" || n == "unicode/utf8.RuneCountInString" || n == "rare/pkg/color.StrLen" || n == "builtin.min" && false {
			return true
		}
		if n == "builtin.max" {
			for _, a := range t.Args {
				if p.nonNegExprDepth(a, depth+1) {
					return true
				}
			}
		}
		if n == "builtin.min" {
			for _, a := range t.Args {
				if !p.nonNegExprDepth(a, depth+1) {
					return false
				}
			}
			return true
		}
		if isConversion(p.info, t) && len(t.Args) == 1 {
			if tv, ok := p.info.Types[t.Args[0]]; ok && isIntegerType(tv.Type) {
				// int(x) of a non-negative int keeps the sign when not narrowing below 32 bits
				if b, ok := p.info.Types[t].Type.Underlying().(*types.Basic); ok {
					switch b.Kind() {
					case types.Int, types.Int64, types.Uint, types.Uint64, types.Uintptr:
						if !isUnsignedType(tv.Type) || b.Info()&types.IsUnsigned != 0 {
							return p.nonNegExprDepth(t.Args[0], depth+1)
						}
					}
				}
			}
		}
	case *ast.Ident:
		if o := p.info.Uses[t]; o != nil {
			return p.nonNegVarDepth(o, depth+1)
		}
	case *ast.BinaryExpr:
		switch t.Op {
		case token.ADD, token.MUL:
			return p.nonNegExprDepth(t.X, depth+1) && p.nonNegExprDepth(t.Y, depth+1)
		case token.REM:
			return p.nonNegExprDepth(t.X, depth+1)
		case token.QUO, token.SHR:
			return p.nonNegExprDepth(t.X, depth+1) && p.nonNegExprDepth(t.Y, depth+1)
		}
	}
	if tv, ok := p.info.Types[e]; ok && tv.Type != nil && isUnsignedType(tv.Type) {
		return true
	}
	return false
}

// ---------------------------------------------------------------- queries

func (p *prover) lenTerm(x ast.Expr) term {
	return term{p.lenCanon(x), 0, true}
}

// proveIndex: 0 <= i < len(x).
func (p *prover) proveIndex(ix *ast.IndexExpr, facts []Fact) string {
	tv := p.info.Types[ix.X]
	// arrays (and pointers to arrays) have a constant length
	var L term
	if n, ok := arrayLen(tv.Type); ok {
		L = term{"", n, true}
	} else {
		L = p.lenTerm(ix.X)
	}
	if be, ok := ast.Unparen(ix.Index).(*ast.BinaryExpr); ok && be.Op == token.REM && p.nonNegExprDepth(be.X, 0) {
		// x[e % len(x)] / x[e % N] with e >= 0
		if n, isArr := arrayLen(tv.Type); isArr && n > 0 {
			if c, isC := constInt(p.info, be.Y); isC && c > 0 && c <= n {
				return fmt.Sprintf("modulo: non-negative value %% %d indexes an array of %d elements", c, n)
			}
		}
	}
	i := p.linear(ix.Index)
	if !i.ok {
		return ""
	}
	d := p.system(facts, ix.Index, ix.X)
	d.add("", L.base, 0)
	lower := d.le("", i.base, i.off) // 0 - i.base <= i.off  <=> i.base+i.off >= 0
	upper := d.le(i.base, L.base, L.off-i.off-1)
	if lower && upper {
		return fmt.Sprintf("0 <= %s < len(%s) follows from dominating branch facts", exprStr(ix.Index), exprStr(ix.X))
	}
	return ""
}

func arrayLen(t types.Type) (int64, bool) {
	if t == nil {
		return 0, false
	}
	u := t.Underlying()
	if p, ok := u.(*types.Pointer); ok {
		u = p.Elem().Underlying()
	}
	if a, ok := u.(*types.Array); ok {
		return a.Len(), true
	}
	return 0, false
}

// proveSlice: 0 <= lo <= hi <= len(x) (cap for slices is >= len).
func (p *prover) proveSlice(sx *ast.SliceExpr, facts []Fact) string {
	if sx.Slice3 {
		return ""
	}
	tv := p.info.Types[sx.X]
	var L term
	if n, ok := arrayLen(tv.Type); ok {
		L = term{"", n, true}
	} else {
		L = p.lenTerm(sx.X)
	}
	d := p.system(facts, sx.Low, sx.High, sx.X)
	d.add("", L.base, 0)
	lo := term{"", 0, true}
	if sx.Low != nil {
		lo = p.linear(sx.Low)
	}
	hi := L
	if sx.High != nil {
		hi = p.linear(sx.High)
	}
	if !lo.ok || !hi.ok {
		return ""
	}
	c1 := d.le("", lo.base, lo.off)                  // 0 <= lo
	c2 := d.le(lo.base, hi.base, hi.off-lo.off)      // lo <= hi
	c3 := d.le(hi.base, L.base, L.off-hi.off)        // hi <= len
	if c1 && c2 && c3 {
		return fmt.Sprintf("0 <= lo <= hi <= len(%s) follows from dominating branch facts", exprStr(sx.X))
	}
	return ""
}

func (p *prover) proveNonZero(e ast.Expr, facts []Fact) string {
	if c, ok := constInt(p.info, e); ok {
		if c != 0 {
			return "constant: divisor is a non-zero constant"
		}
		return ""
	}
	t := p.linear(e)
	if !t.ok {
		return ""
	}
	d := p.system(facts, e)
	// e >= 1  or e <= -1
	if d.le("", t.base, t.off-1) || d.le(t.base, "", -1-t.off) {
		return "guard: divisor is non-zero by a dominating branch fact"
	}
	// explicit e != 0 / e == 0 facts
	for _, f := range facts {
		if be, ok := ast.Unparen(f.Cond).(*ast.BinaryExpr); ok && f.Tag == nil {
			if (be.Op == token.NEQ && f.Truth) || (be.Op == token.EQL && !f.Truth) {
				a, b := p.linear(be.X), p.linear(be.Y)
				if a.ok && b.ok {
					if a.base == t.base && b.base == "" && a.off-b.off == t.off {
						return "guard: divisor compared != 0 on every path"
					}
					if b.base == t.base && a.base == "" && b.off-a.off == t.off {
						return "guard: divisor compared != 0 on every path"
					}
				}
			}
		}
	}
	return ""
}

func (p *prover) proveNonNeg(e ast.Expr, facts []Fact) string {
	if c, ok := constInt(p.info, e); ok {
		if c >= 0 {
			return "constant: non-negative constant"
		}
		return ""
	}
	if p.nonNegExprDepth(e, 0) {
		return "guard: value is non-negative by construction (length, unsigned, or non-negative induction variable)"
	}
	t := p.linear(e)
	if !t.ok {
		return ""
	}
	d := p.system(facts, e)
	if d.le("", t.base, t.off) {
		return "guard: value >= 0 by a dominating branch fact"
	}
	return ""
}

func (p *prover) proveRange(e ast.Expr, facts []Fact, lo, hi int64) string {
	if c, ok := constInt(p.info, e); ok {
		if c >= lo && c <= hi {
			return "constant: within the required range"
		}
		return ""
	}
	t := p.linear(e)
	if !t.ok {
		return ""
	}
	d := p.system(facts, e)
	// lo <= e <= hi
	if d.le("", t.base, t.off-lo) && d.le(t.base, "", hi-t.off) {
		return fmt.Sprintf("guard: %d <= %s <= %d by dominating branch facts", lo, exprStr(e), hi)
	}
	return ""
}

// proveLoop classifies a for statement as trivially terminating.
func (p *prover) proveLoop(fs *ast.ForStmt) (by, detail string) {
	if fs.Cond == nil {
		if s := p.boundedCounterLoop(fs); s != "" {
			return s, ""
		}
		return "", "for without condition: termination depends on the body"
	}
	// conjuncts of the condition: the loop ends as soon as one is false
	var conj []ast.Expr
	var split func(e ast.Expr)
	split = func(e ast.Expr) {
		e = ast.Unparen(e)
		if be, ok := e.(*ast.BinaryExpr); ok && be.Op == token.LAND {
			split(be.X)
			split(be.Y)
			return
		}
		conj = append(conj, e)
	}
	split(fs.Cond)
	for _, cj := range conj {
		if s := p.loopConjunct(fs, cj); s != "" {
			return s, ""
		}
	}
	return "", "loop is not of a recognised terminating form (`v < bound` with v only increasing and a bound the body does not move; `!splitter.Done()` with Next() on every iteration; library scanner)"
}

// dirOfAssign: +1 when statement s strictly increases o, -1 when it strictly
// decreases it, 0 when s does not assign o, 2 when it assigns it otherwise.
func (p *prover) dirOfAssign(s ast.Node, o types.Object) int {
	switch t := s.(type) {
	case *ast.IncDecStmt:
		if identObj(p.info, t.X) == o {
			if t.Tok == token.INC {
				return 1
			}
			return -1
		}
	case *ast.AssignStmt:
		for i, l := range t.Lhs {
			if identObj(p.info, l) != o {
				continue
			}
			if len(t.Lhs) != 1 || len(t.Rhs) != 1 {
				return 2
			}
			_ = i
			c, isConst := constInt(p.info, t.Rhs[0])
			switch t.Tok {
			case token.ADD_ASSIGN:
				if isConst && c > 0 {
					return 1
				}
				if tv, ok := p.info.Types[t.Rhs[0]]; ok && isUnsignedType(tv.Type) {
					return 2
				}
				return 2
			case token.SUB_ASSIGN:
				if isConst && c > 0 {
					return -1
				}
				return 2
			default:
				return 2
			}
		}
	}
	return 0
}

func (p *prover) loopConjunct(fs *ast.ForStmt, cond ast.Expr) string {
	cond = ast.Unparen(cond)
	// library / repository iterators
	if ue, ok := cond.(*ast.UnaryExpr); ok && ue.Op == token.NOT {
		if call, ok := ast.Unparen(ue.X).(*ast.CallExpr); ok {
			if calleeName(p.info, call) == "(*rare/pkg/stringSplitter.Splitter).Done" {
				recv := exprStr(call.Fun.(*ast.SelectorExpr).X)
				if p.everyIterationCalls(fs, recv, "(*rare/pkg/stringSplitter.Splitter).Next", "(*rare/pkg/stringSplitter.Splitter).NextOk") {
					return "loop: runs while !" + recv + ".Done() and calls " + recv + ".Next() on every iteration (each Next consumes at least one byte of a finite string or marks the splitter done)"
				}
			}
		}
	}
	if call, ok := cond.(*ast.CallExpr); ok {
		switch calleeName(p.info, call) {
		case "(*bufio.Scanner).Scan":
			return "loop: driven by (*bufio.Scanner).Scan, which ends with its reader (library contract)"
		}
	}
	be, ok := cond.(*ast.BinaryExpr)
	if !ok {
		return ""
	}
	try := func(v, bound ast.Expr, op token.Token) string {
		lv := ast.Unparen(v)
		// allow v + const on the variable side
		if b2, ok := lv.(*ast.BinaryExpr); ok && (b2.Op == token.ADD || b2.Op == token.SUB) {
			if _, isC := constInt(p.info, b2.Y); isC {
				lv = ast.Unparen(b2.X)
			}
		}
		o := identObj(p.info, lv)
		if o == nil {
			return ""
		}
		if _, isVar := o.(*types.Var); !isVar || !p.vi.stable[o] {
			return ""
		}
		// direction of every assignment to o inside the loop (post + body)
		want := 0
		if op == token.LSS || op == token.LEQ {
			want = 1
		} else if op == token.GTR || op == token.GEQ {
			want = -1
		} else {
			return ""
		}
		okDir := true
		steps := 0
		visit := func(n ast.Node) bool {
			if _, isLit := n.(*ast.FuncLit); isLit {
				return false
			}
			if d := p.dirOfAssign(n, o); d != 0 {
				if d != want {
					okDir = false
				}
			}
			return true
		}
		ast.Inspect(fs.Body, visit)
		// a strictly monotone step must happen on every iteration: the post
		// statement, or an unconditional top-level statement of the body with
		// no continue in the body
		if fs.Post != nil && p.dirOfAssign(fs.Post, o) == want {
			steps++
		} else if fs.Post == nil {
			hasContinue := false
			ast.Inspect(fs.Body, func(x ast.Node) bool {
				switch t := x.(type) {
				case *ast.BranchStmt:
					if t.Tok == token.CONTINUE || t.Tok == token.GOTO {
						hasContinue = true
					}
				case *ast.FuncLit, *ast.ForStmt, *ast.RangeStmt:
					return false
				}
				return true
			})
			if !hasContinue {
				for _, s := range fs.Body.List {
					if p.dirOfAssign(s, o) == want {
						steps++
					}
				}
			}
		}
		if !okDir || steps == 0 {
			return ""
		}
		// the bound must not be moved by the body
		okb := true
		ast.Inspect(bound, func(x ast.Node) bool {
			switch t := x.(type) {
			case *ast.CallExpr:
				n := calleeName(p.info, t)
				if n != "builtin.len" && n != "builtin.cap" && !isConversion(p.info, t) {
					okb = false
				}
			case *ast.Ident:
				if bo, isVar := p.info.Uses[t].(*types.Var); isVar && !bo.IsField() {
					ast.Inspect(fs.Body, func(y ast.Node) bool {
						if p.dirOfAssign(y, bo) != 0 {
							okb = false
						}
						return true
					})
				}
			case *ast.SelectorExpr:
				if fv := fieldVar(p.info, t); fv != nil {
					// a field in the bound: no store to that field in the body
					ast.Inspect(fs.Body, func(y ast.Node) bool {
						if as, ok := y.(*ast.AssignStmt); ok {
							for _, l := range as.Lhs {
								if fieldVar(p.info, l) == fv {
									okb = false
								}
							}
						}
						return true
					})
				}
			}
			return true
		})
		if !okb {
			return ""
		}
		if want > 0 {
			return "loop: induction variable " + exprStr(lv) + " only increases, by at least one per iteration, towards a bound that the body does not move"
		}
		return "loop: induction variable " + exprStr(lv) + " only decreases, by at least one per iteration, towards a bound that the body does not move"
	}
	if s := try(be.X, be.Y, be.Op); s != "" {
		return s
	}
	mir := map[token.Token]token.Token{token.LSS: token.GTR, token.LEQ: token.GEQ, token.GTR: token.LSS, token.GEQ: token.LEQ}
	if m, ok := mir[be.Op]; ok {
		if s := try(be.Y, be.X, m); s != "" {
			return s
		}
	}
	return ""
}

// everyIterationCalls reports whether every path through the loop body from
// its start back to the loop head (or to a continue) calls recv.<one of names>.
func (p *prover) everyIterationCalls(fs *ast.ForStmt, recv string, names ...string) bool {
	isTarget := func(n *FNode) bool {
		if n.N == nil {
			return false
		}
		found := false
		inspectNoLit(n.N, func(x ast.Node) bool {
			if ce, ok := x.(*ast.CallExpr); ok {
				cn := calleeName(p.info, ce)
				for _, nm := range names {
					if cn == nm {
						if se, ok := ce.Fun.(*ast.SelectorExpr); ok && exprStr(se.X) == recv {
							found = true
						}
					}
				}
			}
			return true
		})
		return found
	}
	bodyHead, backHeads := -1, map[int]bool{}
	for _, n := range p.fg.Nodes {
		if n.N != nil || n.Block == nil || n.Block.Stmt != ast.Stmt(fs) {
			continue
		}
		switch n.Block.Kind {
		case cfg.KindForBody:
			bodyHead = n.ID
		case cfg.KindForLoop, cfg.KindForPost:
			backHeads[n.ID] = true
		}
	}
	if bodyHead < 0 || len(backHeads) == 0 {
		return false
	}
	seen := p.fg.ReachSet(bodyHead, isTarget, nil)
	for id := range seen {
		if backHeads[id] {
			return false
		}
	}
	return true
}

// boundedCounterLoop recognises `for { ...; v++; if v > CONST { return|break } ... }`
// where the increment and the test are unconditional top-level statements of
// the body, v is a stable local not otherwise assigned in the loop and no
// continue skips them.
func (p *prover) boundedCounterLoop(fs *ast.ForStmt) string {
	hasContinue := false
	ast.Inspect(fs.Body, func(x ast.Node) bool {
		switch t := x.(type) {
		case *ast.BranchStmt:
			if t.Tok == token.CONTINUE || t.Tok == token.GOTO {
				hasContinue = true
			}
		case *ast.FuncLit:
			return false
		}
		return true
	})
	if hasContinue {
		return ""
	}
	for i, st := range fs.Body.List {
		inc, ok := st.(*ast.IncDecStmt)
		if !ok || inc.Tok != token.INC {
			continue
		}
		o := identObj(p.info, inc.X)
		if o == nil || !p.vi.stable[o] {
			continue
		}
		// no other assignment to o in the loop
		n := 0
		ast.Inspect(fs.Body, func(x ast.Node) bool {
			if p.dirOfAssign(x, o) != 0 {
				n++
			}
			return true
		})
		if n != 1 {
			continue
		}
		for _, st2 := range fs.Body.List[i+1:] {
			ifs, ok := st2.(*ast.IfStmt)
			if !ok || ifs.Init != nil {
				continue
			}
			be, ok := ast.Unparen(ifs.Cond).(*ast.BinaryExpr)
			if !ok || (be.Op != token.GTR && be.Op != token.GEQ) || identObj(p.info, be.X) != o {
				continue
			}
			if _, isC := constInt(p.info, be.Y); !isC {
				continue
			}
			if len(ifs.Body.List) == 0 {
				continue
			}
			switch last := ifs.Body.List[len(ifs.Body.List)-1].(type) {
			case *ast.ReturnStmt:
				return "loop: counter " + exprStr(inc.X) + " is incremented on every iteration and the loop is left when it exceeds the constant " + exprStr(be.Y)
			case *ast.BranchStmt:
				if last.Tok == token.BREAK && last.Label == nil {
					return "loop: counter " + exprStr(inc.X) + " is incremented on every iteration and the loop is left when it exceeds the constant " + exprStr(be.Y)
				}
			}
		}
	}
	return ""
}

// varsSettledBefore reports whether every local variable mentioned in e is
// stable and all its assignments lie textually before pos, and e mentions no
// fields, globals or calls other than len/cap.
func (p *prover) varsSettledBefore(e ast.Expr, pos token.Pos) bool {
	d := depsOf(p.info, p.vi, e)
	if d.nonLocal {
		return false
	}
	p.collectAssigns()
	for _, l := range d.locals {
		if !p.vi.stable[l] {
			return false
		}
		for _, a := range p.assigns[l] {
			if a.pos >= pos {
				return false
			}
		}
	}
	return true
}

// noteMake: x := make([]T, L) with x never reassigned gives len(x) == L.
func (p *prover) noteMake(d *dcs, x *ast.Ident, mk *ast.CallExpr, pos token.Pos) {
	if tv, ok := p.info.Types[mk.Args[0]]; !ok || tv.Type == nil {
		return
	} else if _, isSlice := tv.Type.Underlying().(*types.Slice); !isSlice {
		return
	}
	L := p.linear(mk.Args[1])
	if !L.ok || !p.varsSettledBefore(mk.Args[1], pos) {
		return
	}
	p.noteNonNeg(d, mk.Args[1])
	lx := term{p.lenCanon(x), 0, true}
	p.addRel(d, lx, L, token.EQL)
}

// noteRangeKey: `for i := range Y` (i declared by the statement and assigned
// nowhere else) gives 0 <= i <= len(Y)-1 inside the loop, provided Y is not
// re-bound in the loop body.
func (p *prover) noteRangeKey(d *dcs, i *ast.Ident, a assignDesc) {
	rs := a.rng
	if !within(rs.Body, i.Pos()) {
		return
	}
	tv, ok := p.info.Types[rs.X]
	if !ok || tv.Type == nil {
		return
	}
	iv := p.linear(i)
	if !iv.ok {
		return
	}
	switch tv.Type.Underlying().(type) {
	case *types.Slice, *types.Array, *types.Pointer:
	case *types.Basic:
		if isIntegerType(tv.Type) {
			// range over an integer n: 0 <= i < n
			if p.varsSettledBefore(rs.X, rs.Pos()) {
				n := p.linear(rs.X)
				if n.ok {
					d.add("", iv.base, 0)
					p.addRel(d, iv, n, token.LSS)
				}
			}
			return
		}
		if b := tv.Type.Underlying().(*types.Basic); b.Info()&types.IsString == 0 {
			return
		}
	default:
		return
	}
	// Y must denote the same value throughout the body
	yText := exprStr(ast.Unparen(rs.X))
	rebound := false
	ast.Inspect(rs.Body, func(n ast.Node) bool {
		switch t := n.(type) {
		case *ast.AssignStmt:
			for _, l := range t.Lhs {
				lt := exprStr(ast.Unparen(l))
				if lt == yText || strings.HasPrefix(yText, lt+".") {
					rebound = true
				}
			}
		}
		return true
	})
	if rebound {
		return
	}
	ok2 := true
	ast.Inspect(rs.X, func(n ast.Node) bool {
		switch t := n.(type) {
		case *ast.CallExpr:
			ok2 = false
		case *ast.Ident:
			if o, isVar := p.info.Uses[t].(*types.Var); isVar && !o.IsField() && o.Parent() != o.Pkg().Scope() {
				if !p.vi.stable[o] {
					ok2 = false
				}
				p.collectAssigns()
				for _, as := range p.assigns[o] {
					if within(rs.Body, as.pos) {
						ok2 = false
					}
				}
			}
		}
		return true
	})
	if !ok2 {
		return
	}
	var L term
	if n, isArr := arrayLen(tv.Type); isArr {
		L = term{"", n, true}
	} else {
		L = term{p.lenCanon(rs.X), 0, true}
	}
	d.add("", iv.base, 0)
	p.addRel(d, iv, L, token.LSS)
}

// proveAtLeast: e >= k follows from the facts.
func (p *prover) proveAtLeast(e ast.Expr, facts []Fact, k int64) bool {
	if c, ok := constInt(p.info, e); ok {
		return c >= k
	}
	e = ast.Unparen(e)
	// A - B >= k  <=>  B - A <= -k
	if be, ok := e.(*ast.BinaryExpr); ok && be.Op == token.SUB {
		a, b := p.linear(be.X), p.linear(be.Y)
		if a.ok && b.ok {
			d := p.system(facts, be.X, be.Y)
			return d.le(b.base, a.base, a.off-b.off-k)
		}
	}
	t := p.linear(e)
	if !t.ok {
		return false
	}
	d := p.system(facts, e)
	return d.le("", t.base, t.off-k)
}

// holdsText decides a guard relation given as source text against the facts:
// "a < b" style comparisons through the difference-constraint system over
// plain expression texts, "f(x)" / "!f(x)" as boolean facts.
func (p *prover) holdsText(rel string, facts []Fact) bool {
	if os.Getenv("RARECHECK_DEBUG_NEEDS") != "" {
		fmt.Fprintf(os.Stderr, "needs %q facts:", rel)
		for _, f := range facts {
			fmt.Fprintf(os.Stderr, " [%s=%v]", exprStr(f.Cond), f.Truth)
		}
		fmt.Fprintln(os.Stderr)
	}
	if strings.HasPrefix(rel, "fact:") {
		txt := strings.TrimPrefix(rel, "fact:")
		want := true
		if strings.HasPrefix(txt, "!") {
			want, txt = false, txt[1:]
		}
		for _, f := range facts {
			if f.Tag == nil && exprStr(ast.Unparen(f.Cond)) == txt && f.Truth == want {
				return true
			}
		}
		return false
	}
	e, err := parser.ParseExpr(rel)
	if err != nil {
		return false
	}
	q := &prover{plain: true, info: p.info, vi: p.vi, fg: p.fg, body: p.body}
	lin := func(x ast.Expr) term {
		x = ast.Unparen(x)
		off := int64(0)
		for {
			be, ok := x.(*ast.BinaryExpr)
			if !ok || (be.Op != token.ADD && be.Op != token.SUB) {
				break
			}
			lit, ok := be.Y.(*ast.BasicLit)
			if !ok || lit.Kind != token.INT {
				break
			}
			v, _ := strconv.ParseInt(lit.Value, 0, 64)
			if be.Op == token.ADD {
				off += v
			} else {
				off -= v
			}
			x = ast.Unparen(be.X)
		}
		if lit, ok := x.(*ast.BasicLit); ok && lit.Kind == token.INT {
			v, _ := strconv.ParseInt(lit.Value, 0, 64)
			return term{"", off + v, true}
		}
		return term{exprStr(x), off, true}
	}
	if be, ok := e.(*ast.BinaryExpr); ok {
		switch be.Op {
		case token.LSS, token.LEQ, token.GTR, token.GEQ, token.EQL, token.NEQ:
			d := q.system(facts)
			a, b := lin(be.X), lin(be.Y)
			// non-negativity of len(..) terms
			for _, t := range []term{a, b} {
				if strings.HasPrefix(t.base, "len(") {
					d.add("", t.base, 0)
				}
			}
			switch be.Op {
			case token.LSS:
				return d.le(a.base, b.base, b.off-a.off-1)
			case token.LEQ:
				return d.le(a.base, b.base, b.off-a.off)
			case token.GTR:
				return d.le(b.base, a.base, a.off-b.off-1)
			case token.GEQ:
				return d.le(b.base, a.base, a.off-b.off)
			case token.EQL:
				return d.le(a.base, b.base, b.off-a.off) && d.le(b.base, a.base, a.off-b.off)
			case token.NEQ:
				if d.le(a.base, b.base, b.off-a.off-1) || d.le(b.base, a.base, a.off-b.off-1) {
					return true
				}
				for _, f := range facts {
					if fe, ok := ast.Unparen(f.Cond).(*ast.BinaryExpr); ok && f.Tag == nil {
						if (fe.Op == token.NEQ && f.Truth) || (fe.Op == token.EQL && !f.Truth) {
							x, y := exprStr(fe.X), exprStr(fe.Y)
							if (x == exprStr(be.X) && y == exprStr(be.Y)) || (x == exprStr(be.Y) && y == exprStr(be.X)) {
								return true
							}
						}
					}
				}
				return false
			}
		}
	}
	// literal fact text: "fact:<expr>" / "fact:!<expr>"
	// boolean fact
	want := true
	if ue, ok := e.(*ast.UnaryExpr); ok && ue.Op == token.NOT {
		want = false
		e = ue.X
	}
	txt := exprStr(e)
	for _, f := range facts {
		if f.Tag != nil {
			continue
		}
		c, truth := ast.Unparen(f.Cond), f.Truth
		for {
			ue, ok := c.(*ast.UnaryExpr)
			if !ok || ue.Op != token.NOT {
				break
			}
			c, truth = ast.Unparen(ue.X), !truth
		}
		if exprStr(c) == txt && truth == want {
			return true
		}
	}
	return false
}
