package main

// Rules added in the fifth round (seeded changes m13-m15 and the re-run of rounds 1-4).

import (
	"fmt"
	"go/ast"
	"go/token"
	"go/types"
	"os"
	"sort"
	"strings"
)

// ---------------------------------------------------------------- C03-c records reach encoding/csv verbatim

// c03CSVVerbatim (C03-c/csv-verbatim): two ways in which a record that was
// handed to the CSV layer stops being the record encoding/csv writes.
//
//  1. encoding/csv.Writer.UseCRLF. With it set the writer does not only end
//     records with CRLF: inside a quoted field it rewrites "\n" to "\r\n" and
//     drops every "\r" (documented behaviour of (*Writer).Write), so a key
//     holding a carriage return is exported as a different key. Any
//     assignment of a non-false value to that field is reported.
//  2. A method of a type that embeds *csv.Writer and shadows one of the
//     promoted record methods (Write, WriteAll) must pass its parameter to the
//     embedded method as it came: no store into the parameter's elements, and
//     the embedded call receives the parameter itself.
func c03CSVVerbatim(c *Ctx, r *Report, rule string) {
	n := 0
	for _, fi := range c.AllFuncDecls() {
		info := fi.Pkg.TypesInfo
		ast.Inspect(fi.Decl.Body, func(x ast.Node) bool {
			switch t := x.(type) {
			case *ast.AssignStmt:
				for i, l := range t.Lhs {
					fv := fieldVar(info, l)
					if fv == nil || fv.Name() != "UseCRLF" || fv.Pkg() == nil || fv.Pkg().Path() != "encoding/csv" {
						continue
					}
					n++
					isFalse := false
					if len(t.Lhs) == len(t.Rhs) {
						if tv, ok := info.Types[t.Rhs[i]]; ok && tv.Value != nil && tv.Value.String() == "false" {
							isFalse = true
						}
					}
					r.Check(isFalse, rule, fi.Name, exprStr(l), c.Pos(t.Pos()), "table: UseCRLF stays false",
						"encoding/csv.Writer.UseCRLF is switched on: besides ending records with CRLF the writer then drops every carriage return inside a field (and rewrites \\n to \\r\\n), so a key that contains \\r is exported as a different key and the CSV no longer parses back to the aggregated keys")
				}
			case *ast.CompositeLit:
				if !isNamed(info.TypeOf(t), "encoding/csv", "Writer") {
					return true
				}
				for _, el := range t.Elts {
					if kv, ok := el.(*ast.KeyValueExpr); ok {
						if id, ok := kv.Key.(*ast.Ident); ok && id.Name == "UseCRLF" {
							n++
							tv := info.Types[kv.Value]
							r.Check(tv.Value != nil && tv.Value.String() == "false", rule, fi.Name, "UseCRLF: "+exprStr(kv.Value), c.Pos(kv.Pos()), "table: UseCRLF stays false",
								"encoding/csv.Writer literal with UseCRLF set: carriage returns inside keys are dropped on export")
						}
					}
				}
			}
			return true
		})
	}
	// shadowing methods
	for _, fi := range c.AllFuncDecls("rare/pkg/csv") {
		fd := fi.Decl
		if fd.Recv == nil || len(fd.Recv.List) != 1 || fd.Body == nil {
			continue
		}
		if fd.Name.Name != "Write" && fd.Name.Name != "WriteAll" {
			continue
		}
		info := fi.Pkg.TypesInfo
		rt := info.TypeOf(fd.Recv.List[0].Type)
		if p, ok := rt.(*types.Pointer); ok {
			rt = p.Elem()
		}
		st, _ := rt.Underlying().(*types.Struct)
		embeds := false
		if st != nil {
			for i := 0; i < st.NumFields(); i++ {
				if st.Field(i).Embedded() && isNamed(st.Field(i).Type(), "encoding/csv", "Writer") {
					embeds = true
				}
			}
		}
		if !embeds || fd.Type.Params == nil || len(fd.Type.Params.List) != 1 || len(fd.Type.Params.List[0].Names) != 1 {
			continue
		}
		n++
		param := info.Defs[fd.Type.Params.List[0].Names[0]]
		problem := ""
		forwarded := false
		ast.Inspect(fd.Body, func(x ast.Node) bool {
			switch t := x.(type) {
			case *ast.AssignStmt:
				for _, l := range t.Lhs {
					if ix, ok := ast.Unparen(l).(*ast.IndexExpr); ok {
						if root := rootIdent(ix.X); root != nil && info.Uses[root] == param {
							problem = "stores into the record it was given (" + exprStr(l) + ")"
						}
					}
					if id, ok := ast.Unparen(l).(*ast.Ident); ok && info.Uses[id] == param {
						problem = "re-binds the record it was given"
					}
				}
			case *ast.CallExpr:
				nm := calleeName(info, t)
				if nm == "(*encoding/csv.Writer)."+fd.Name.Name && len(t.Args) == 1 {
					if id, ok := ast.Unparen(t.Args[0]).(*ast.Ident); ok && info.Uses[id] == param {
						forwarded = true
					} else {
						problem = "hands " + exprStr(t.Args[0]) + " to encoding/csv instead of the record it was given"
					}
				}
			}
			return true
		})
		if problem == "" && !forwarded {
			problem = "never hands the record to the embedded encoding/csv method"
		}
		r.Check(problem == "", rule, fi.Name, "shadows (*csv.Writer)."+fd.Name.Name, c.Pos(fd.Pos()), "flow: the record is forwarded unchanged",
			"the method shadows the promoted encoding/csv method and "+problem+": every writer of the package goes through it, so the exported fields are no longer the aggregated keys")
	}
	_ = n // "for every" rule: zero instances on the pinned tree (no floor); positive examples are seeds C03-m12 and C03-m14
}

// ---------------------------------------------------------------- C02-f the POSIX flag yields leftmost-longest

// c02PosixLongest (C02-f/posix-longest): in the regexp back end, whenever the
// posix flag may hold, a regexp is built by regexp.CompilePOSIX /
// MustCompilePOSIX or has Longest() called on it. Only those give the
// leftmost-longest semantics the flag selects; regexp.Compile of a POSIX
// pattern is leftmost-first. Decided per acyclic path of every function of the
// package that takes the flag: at each call of a leftmost-first constructor
// (directly, or through a function-valued local last bound to one on that
// path) the flag is known false by the decisions taken so far, or Longest() is
// called on the result later on the path.
func c02PosixLongest(c *Ctx, r *Report, rule string) {
	const pkg = "rare/pkg/matchers/fastregex"
	p := c.ByPath[pkg]
	if p == nil {
		r.Undecided(rule, pkg, "package", "-", "package not found")
		return
	}
	info := p.TypesInfo
	ctorKind := func(e ast.Expr) int { // 1 leftmost-first, 2 POSIX, 0 neither
		e = ast.Unparen(e)
		var id *ast.Ident
		switch t := e.(type) {
		case *ast.SelectorExpr:
			id = t.Sel
		case *ast.Ident:
			id = t
		}
		if id == nil {
			return 0
		}
		f, ok := info.Uses[id].(*types.Func)
		if !ok || f.Pkg() == nil || f.Pkg().Path() != "regexp" {
			return 0
		}
		switch f.Name() {
		case "Compile", "MustCompile":
			return 1
		case "CompilePOSIX", "MustCompilePOSIX":
			return 2
		}
		return 0
	}
	n := 0
	for _, fi := range c.AllFuncDecls(pkg) {
		fd := fi.Decl
		if fd.Body == nil || fd.Type.Params == nil {
			continue
		}
		var posix types.Object
		for _, f := range fd.Type.Params.List {
			for _, nm := range f.Names {
				if o := info.Defs[nm]; o != nil && isBool(o.Type()) {
					posix = o
				}
			}
		}
		if posix == nil {
			continue
		}
		fg := NewFGraph(fd.Body, info)
		type verdict struct {
			text string
			ok   bool
		}
		seen := map[token.Pos]*verdict{}
		enumPaths(fg, fg.Entry, func(id int) bool { return id == fg.Exit }, func(nodes []int, edges []FEdge) {
			// edges[i] leads from nodes[i] to nodes[i+1]
			posixFalse := false
			bound := map[types.Object]int{} // function-valued locals -> constructor kind last bound
			for i, id := range nodes {
				if i > 0 && i-1 < len(edges) {
					if e := edges[i-1]; e.Cond != nil && e.Tag == nil {
						for _, at := range atomise(Fact{e.Cond, nil, e.Truth}) {
							if identObj(info, at.Cond) == posix && !at.Truth {
								posixFalse = true
							}
						}
					}
				}
				x := fg.Nodes[id].N
				if x == nil {
					continue
				}
				// bindings of function values
				record := func(lhs ast.Expr, rhs ast.Expr) {
					if k := ctorKind(rhs); k != 0 {
						if o := identObj(info, lhs); o != nil {
							bound[o] = k
						}
					}
				}
				switch t := x.(type) {
				case *ast.AssignStmt:
					if len(t.Lhs) == len(t.Rhs) {
						for j := range t.Lhs {
							record(t.Lhs[j], t.Rhs[j])
						}
					}
				case *ast.DeclStmt:
					if gd, ok := t.Decl.(*ast.GenDecl); ok {
						for _, sp := range gd.Specs {
							if vs, ok := sp.(*ast.ValueSpec); ok && len(vs.Names) == len(vs.Values) {
								for j := range vs.Names {
									record(vs.Names[j], vs.Values[j])
								}
							}
						}
					}
				}
				for _, ce := range callsIn(x) {
					k := ctorKind(ce.Fun)
					if k == 0 {
						if fo, isVar := identObj(info, ce.Fun).(*types.Var); isVar {
							k = bound[fo]
						}
					}
					if k != 1 {
						continue
					}
					v := seen[ce.Pos()]
					if v == nil {
						v = &verdict{exprStr(ce), true}
						seen[ce.Pos()] = v
					}
					if posixFalse {
						continue
					}
					// the result variable and a later Longest() on it
					var resObj types.Object
					if as, ok := x.(*ast.AssignStmt); ok && len(as.Rhs) == 1 && ast.Unparen(as.Rhs[0]) == ast.Expr(ce) && len(as.Lhs) >= 1 {
						resObj = identObj(info, as.Lhs[0])
					}
					longest := false
					if resObj != nil {
						for _, later := range nodes[i+1:] {
							if y := fg.Nodes[later].N; y != nil {
								for _, c2 := range callsIn(y) {
									if calleeName(info, c2) == "(*regexp.Regexp).Longest" {
										if se, ok := c2.Fun.(*ast.SelectorExpr); ok && identObj(info, se.X) == resObj {
											longest = true
										}
									}
								}
							}
						}
					}
					if !longest {
						v.ok = false
					}
				}
			}
		})
		var poss []token.Pos
		for p := range seen {
			poss = append(poss, p)
		}
		sort.Slice(poss, func(i, j int) bool { return poss[i] < poss[j] })
		for _, p := range poss {
			v := seen[p]
			n++
			r.Check(v.ok, rule, fi.Name, v.text, c.Pos(p), "path: the leftmost-first constructor is only reached with the posix flag known false (or Longest() is called on its result)",
				"on a path where the posix flag may hold a regexp is built with a leftmost-first constructor and never has Longest() called: matching is leftmost-first, so {0}/{N} differ from the POSIX leftmost-longest match the flag selects (e.g. (warn|warning))")
		}
	}
	r.Floor(rule, 1, "the regexp.Compile call of the back end")
}

// ---------------------------------------------------------------- C06-g -z decides by probing the content

// c06GzipProbe (C06-g/gzip-probe): in the file opener, on every path on which
// the gunzip flag may hold and that hands back a reader without error, the
// gzip probe (compress/gzip.NewReader on the opened file) was performed.
// Whether an input is gzip can only be learnt from its first bytes: file
// size, name or mode say nothing for FIFOs, /dev/stdin or procfs entries.
func c06GzipProbe(c *Ctx, r *Report, rule string) {
	fi := c.MustFunc(r, rule, batchersPkg, "openFileToReader")
	if fi == nil {
		return
	}
	fd := fi.Decl
	info := fi.Pkg.TypesInfo
	var gunzip types.Object
	for _, f := range fd.Type.Params.List {
		for _, nm := range f.Names {
			if o := info.Defs[nm]; o != nil && isBool(o.Type()) {
				gunzip = o
			}
		}
	}
	if gunzip == nil {
		r.Undecided(rule, fi.Name, "bool parameter", c.Pos(fd.Pos()), "the opener no longer takes the gunzip flag as a parameter: cannot relate the probe to the flag")
		return
	}
	fg := NewFGraph(fd.Body, info)
	fg.SolveFacts(analyseVars(info, fd))
	probe := func(nd *FNode) bool {
		if nd.N == nil {
			return false
		}
		for _, ce := range callsIn(nd.N) {
			if calleeName(info, ce) == "compress/gzip.NewReader" {
				return true
			}
		}
		return false
	}
	n := 0
	for _, nd := range fg.Nodes {
		rs, ok := nd.N.(*ast.ReturnStmt)
		if !ok || len(rs.Results) != 2 {
			continue
		}
		if id, ok := ast.Unparen(rs.Results[1]).(*ast.Ident); !ok || id.Name != "nil" {
			continue // error return
		}
		gunzipFalse := false
		for _, f := range fg.FactsAt(nd.ID) {
			if f.Tag == nil && identObj(info, f.Cond) == gunzip && !f.Truth {
				gunzipFalse = true
			}
		}
		if gunzipFalse {
			continue
		}
		n++
		// a path from entry to this return that avoids the probe, along which gunzip is not known false
		avoid := fg.ReachSet(fg.Entry, probe, func(from *FNode, e FEdge) bool {
			if e.Cond != nil && e.Tag == nil && identObj(info, e.Cond) == gunzip && !e.Truth {
				return false // the !gunzip side
			}
			return true
		})
		r.Check(!avoid[nd.ID], rule, fi.Name, "return "+exprStr(rs.Results[0])+", nil", c.Pos(rs.Pos()), "path: every successful return under the gunzip flag passes the gzip probe",
			"with the gunzip flag set there is a path to this successful return that never probed the content with gzip.NewReader: a gzip stream arriving that way (FIFO, /dev/stdin, procfs: size 0, no regular mode) is read as raw bytes and cut into garbage lines without any error")
	}
	r.Floor(rule, 1, "openFileToReader's successful return")
}

// ---------------------------------------------------------------- C01-a each class under its documented condition

// emptinessOf: is cond (with the given truth) a statement about the emptiness
// of the value of obj? Returns +1 (known non-empty), -1 (known empty), 0.
func emptinessOf(info *types.Info, cond ast.Expr, truth bool, obj types.Object) int {
	be, ok := ast.Unparen(cond).(*ast.BinaryExpr)
	if !ok {
		return 0
	}
	lenOf := func(e ast.Expr) bool {
		ce, ok := ast.Unparen(e).(*ast.CallExpr)
		return ok && calleeName(info, ce) == "builtin.len" && len(ce.Args) == 1 && identObj(info, ce.Args[0]) == obj
	}
	x, y, op := be.X, be.Y, be.Op
	if lenOf(y) || identObj(info, y) == obj {
		x, y = y, x
		switch op {
		case token.LSS:
			op = token.GTR
		case token.GTR:
			op = token.LSS
		case token.LEQ:
			op = token.GEQ
		case token.GEQ:
			op = token.LEQ
		}
	}
	res := 0
	if lenOf(x) {
		k, isConst := constInt(info, y)
		if !isConst {
			return 0
		}
		switch {
		case op == token.GTR && k == 0, op == token.NEQ && k == 0, op == token.GEQ && k == 1:
			res = 1
		case op == token.EQL && k == 0, op == token.LEQ && k == 0, op == token.LSS && k == 1:
			res = -1
		}
	} else if identObj(info, x) == obj {
		if s, isStr := constString(info, y); isStr && s == "" {
			switch op {
			case token.NEQ:
				res = 1
			case token.EQL:
				res = -1
			}
		} else if id, isId := ast.Unparen(y).(*ast.Ident); isId && id.Name == "nil" {
			switch op {
			case token.NEQ:
				res = 1
			case token.EQL:
				res = -1
			}
		}
	}
	if !truth {
		res = -res
	}
	return res
}

// c01ClassConditions (C01-a/class-condition): the property fixes when a line
// belongs to each class - matched: a non-empty key was produced; ignored: an
// ignore expression was truthy or the key was empty; unmatched: the matcher
// found nothing. On every acyclic path of processLineSync the class that the
// path counts must be backed by the corresponding decision on that path.
func c01ClassConditions(c *Ctx, r *Report, rule string) {
	fi := c.MustFunc(r, rule, extractorPkg, "(*extractorInstance).processLineSync")
	if fi == nil {
		return
	}
	info := fi.Pkg.TypesInfo
	var keyObj, matchObj types.Object
	ast.Inspect(fi.Decl.Body, func(x ast.Node) bool {
		as, ok := x.(*ast.AssignStmt)
		if !ok || len(as.Rhs) != 1 || len(as.Lhs) != 1 {
			return true
		}
		ce, ok := ast.Unparen(as.Rhs[0]).(*ast.CallExpr)
		if !ok {
			return true
		}
		nm := calleeName(info, ce)
		switch {
		case strings.HasSuffix(nm, ").BuildKey"):
			keyObj = identObj(info, as.Lhs[0])
		case strings.HasSuffix(nm, ".FindSubmatchIndex"):
			matchObj = identObj(info, as.Lhs[0])
		}
		return true
	})
	if keyObj == nil || matchObj == nil {
		r.Undecided(rule, fi.Name, "key / match variables", c.Pos(fi.Decl.Pos()), "cannot find the variables that hold the matcher's result and the built key")
		return
	}
	fg := NewFGraph(fi.Decl.Body, info)
	enumPaths(fg, fg.Entry, func(id int) bool { return id == fg.Exit }, func(nodes []int, edges []FEdge) {
		counts := map[string]int{}
		var retPos token.Pos
		for _, id := range nodes {
			nd := fg.Nodes[id]
			if nd.N == nil {
				continue
			}
			for _, t := range atomicAddTarget(info, nd.N) {
				counts[t]++
			}
			if rs, ok := nd.N.(*ast.ReturnStmt); ok {
				retPos = rs.Pos()
			}
		}
		ignoreTruthy, keyState, matchState := false, 0, 0
		for _, e := range edges {
			if e.Cond == nil || e.Tag != nil {
				continue
			}
			for _, at := range atomise(Fact{e.Cond, nil, e.Truth}) {
				cond, truth := at.Cond, at.Truth
				if ce, ok := cond.(*ast.CallExpr); ok && strings.HasSuffix(calleeName(info, ce), ".IgnoreMatch") && truth {
					ignoreTruthy = true
				}
				if v := emptinessOf(info, cond, truth, keyObj); v != 0 {
					keyState = v
				}
				if v := emptinessOf(info, cond, truth, matchObj); v != 0 {
					matchState = v
				}
			}
		}
		if os.Getenv("RARECHECK_TRACE") != "" {
			for _, e := range edges {
				if e.Cond != nil {
					fmt.Fprintf(os.Stderr, "  edge %s = %v (tag %v)\n", exprStr(e.Cond), e.Truth, e.Tag != nil)
				}
			}
			fmt.Fprintf(os.Stderr, " -> counts %v ignoreTruthy=%v key=%d match=%d\n", counts, ignoreTruthy, keyState, matchState)
		}
		class, ok, want := "unmatched", false, ""
		switch {
		case counts["matchedLines"] > 0:
			class, ok, want = "matched", keyState > 0, "the built key is known non-empty"
		case counts["ignoredLines"] > 0:
			class, ok, want = "ignored", ignoreTruthy || keyState < 0, "an ignore expression answered true or the built key is known empty"
		default:
			ok, want = matchState < 0, "the matcher's result is known empty"
		}
		r.Check(ok, rule, fi.Name, "path counted as "+class, c.Pos(retPos), "path: the class is backed by its documented decision on the path ("+want+")",
			"a path through processLineSync counts the line as "+class+" although on that path it is not established that "+want+": the line ends in a class the property does not put it in (its key is lost or the totals are wrong)")
	})
	r.Floor(rule, 4, "unmatched, ignored by expression, ignored by empty key, matched")
}

// ---------------------------------------------------------------- C05-a a locked snapshot of a slice/map is still the shared storage

// c05SnapshotEscape (C05-a/snapshot-escape): copying a slice or map field
// into a local while holding the lock copies the header only; the elements
// stay shared. If that local is read after the lock was released while some
// writer of the field updates the storage in place (element store, append,
// copy, delete), the read races with the writer although every *selector*
// access to the field is locked - which is all the lock-set rule sees.
func c05SnapshotEscape(c *Ctx, r *Report, units []*bodyUnit, rule string) {
	type guarded struct {
		f, mutex *types.Var
		owner    string
	}
	var fields []guarded
	for _, p := range c.Pkgs {
		if isTestSupportPkg(p.PkgPath) {
			continue
		}
		sc := p.Types.Scope()
		for _, name := range sc.Names() {
			tn, ok := sc.Lookup(name).(*types.TypeName)
			if !ok {
				continue
			}
			st, ok := tn.Type().Underlying().(*types.Struct)
			if !ok {
				continue
			}
			var mutex *types.Var
			for i := 0; i < st.NumFields(); i++ {
				if f := st.Field(i); isNamed(f.Type(), "sync", "Mutex") || isNamed(f.Type(), "sync", "RWMutex") {
					mutex = f
				}
			}
			if mutex == nil {
				continue
			}
			for i := 0; i < st.NumFields(); i++ {
				f := st.Field(i)
				switch f.Type().Underlying().(type) {
				case *types.Slice, *types.Map:
					fields = append(fields, guarded{f, mutex, p.PkgPath + "." + name})
				}
			}
		}
	}
	// is the storage of f ever updated in place?
	inPlace := map[*types.Var]string{}
	for _, u := range units {
		info := u.Pkg.TypesInfo
		rootedAt := func(e ast.Expr) *types.Var {
			for {
				e = ast.Unparen(e)
				switch t := e.(type) {
				case *ast.SliceExpr:
					e = t.X
					continue
				case *ast.IndexExpr:
					e = t.X
					continue
				}
				break
			}
			return fieldVar(info, e)
		}
		inspectNoLit(u.Body, func(n ast.Node) bool {
			switch t := n.(type) {
			case *ast.AssignStmt:
				for _, l := range t.Lhs {
					if ix, ok := ast.Unparen(l).(*ast.IndexExpr); ok {
						if fv := rootedAt(ix.X); fv != nil {
							inPlace[fv] = "element store in " + u.Name
						}
					}
				}
			case *ast.IncDecStmt:
				if ix, ok := ast.Unparen(t.X).(*ast.IndexExpr); ok {
					if fv := rootedAt(ix.X); fv != nil {
						inPlace[fv] = "element update in " + u.Name
					}
				}
			case *ast.CallExpr:
				nm := calleeName(info, t)
				if (nm == "builtin.append" || nm == "builtin.copy" || nm == "builtin.delete" || nm == "builtin.clear") && len(t.Args) > 0 {
					if fv := rootedAt(t.Args[0]); fv != nil {
						inPlace[fv] = strings.TrimPrefix(nm, "builtin.") + " in " + u.Name
					}
				}
			}
			return true
		})
	}
	for _, g := range fields {
		how, mutated := inPlace[g.f]
		if !mutated {
			continue
		}
		for _, u := range units {
			info := u.Pkg.TypesInfo
			inspectNoLit(u.Body, func(n ast.Node) bool {
				as, ok := n.(*ast.AssignStmt)
				if !ok || len(as.Lhs) != len(as.Rhs) {
					return true
				}
				for i, rhs := range as.Rhs {
					e := ast.Unparen(rhs)
					if se, isSlice := e.(*ast.SliceExpr); isSlice {
						e = ast.Unparen(se.X)
					}
					sel, isSel := e.(*ast.SelectorExpr)
					if !isSel || fieldVar(info, sel) != g.f {
						continue
					}
					local, _ := identObj(info, as.Lhs[i]).(*types.Var)
					if local == nil || local.IsField() || local.Parent() == local.Pkg().Scope() {
						continue
					}
					id := u.FG.NodeOf(as.Pos())
					want := exprStr(sel.X) + "." + g.mutex.Name()
					if id < 0 || !u.Locks[id].holds(want) {
						continue // not a locked snapshot: the lock-set rule already reports unlocked accesses
					}
					// every use of the local
					var bad ast.Node
					inspectNoLit(u.Body, func(x ast.Node) bool {
						idn, ok := x.(*ast.Ident)
						if !ok || info.Uses[idn] != local || bad != nil {
							return true
						}
						nid := u.FG.NodeOf(idn.Pos())
						if nid >= 0 && !u.Locks[nid].holds(want) {
							bad = idn
						}
						return true
					})
					// handing the alias to the caller lets it outlive a deferred unlock as well
					escapes := false
					inspectNoLit(u.Body, func(x ast.Node) bool {
						if rs, ok := x.(*ast.ReturnStmt); ok {
							for _, res := range rs.Results {
								if identObj(info, res) == local {
									escapes = true
									if bad == nil {
										bad = rs
									}
								}
							}
						}
						return true
					})
					_ = escapes
					pos := as.Pos()
					if bad != nil {
						pos = bad.Pos()
					}
					r.Check(bad == nil, rule, u.Name, local.Name()+" := "+exprStr(rhs), c.Pos(pos), "lockset: the local alias of the guarded "+g.owner+"."+g.f.Name()+" is only used while "+g.mutex.Name()+" is held",
						fmt.Sprintf("%s is a copy of the slice/map header of %s.%s taken under %s, but it is used after the lock was released (or handed to the caller); the storage is still the shared one and is updated in place elsewhere (%s): the read races with that writer although every direct access to the field is locked", local.Name(), g.owner, g.f.Name(), g.mutex.Name(), how))
				}
				return true
			})
		}
	}
	// "for every" rule: no instance on the pinned tree, so no floor; seed C05-m14 is its positive example
}

// ---------------------------------------------------------------- C01-c / C05-b nothing a worker collected is left behind

// c01WorkerForward (…/worker-forward): in the worker, from every append to the
// slice of collected matches, every path to the function's exit passes a send
// of that slice on the result channel. The only branch that may be skipped is
// the one an emptiness test of the slice takes when it is empty - which cannot
// happen right after an append, unless the slice was re-bound in between (and
// then the matches are gone, which is exactly what is reported). A worker that
// keeps matches across input batches and forwards them later loses them when
// the input channel is closed while it still holds some.
func c01WorkerForward(c *Ctx, r *Report, rule string) {
	fi := c.MustFunc(r, rule, extractorPkg, "(*Extractor).asyncWorker")
	if fi == nil {
		return
	}
	info := fi.Pkg.TypesInfo
	fg := NewFGraph(fi.Decl.Body, info)
	n := 0
	for _, nd := range fg.Nodes {
		as, ok := nd.N.(*ast.AssignStmt)
		if !ok || len(as.Lhs) != 1 || len(as.Rhs) != 1 {
			continue
		}
		ce, ok := ast.Unparen(as.Rhs[0]).(*ast.CallExpr)
		if !ok || calleeName(info, ce) != "builtin.append" || len(ce.Args) < 2 {
			continue
		}
		res := identObj(info, as.Lhs[0])
		if res == nil || identObj(info, ce.Args[0]) != res {
			continue
		}
		if sl, isSlice := res.Type().Underlying().(*types.Slice); !isSlice || !isNamed(sl.Elem(), extractorPkg, "Match") {
			continue
		}
		n++
		// other names for the same slice: `y := res` (what an expanded helper's result binding leaves behind)
		names := map[types.Object]bool{res: true}
		ast.Inspect(fi.Decl.Body, func(y ast.Node) bool {
			if a2, ok := y.(*ast.AssignStmt); ok && a2.Tok == token.DEFINE && len(a2.Lhs) == 1 && len(a2.Rhs) == 1 && names[identObj(info, a2.Rhs[0])] {
				if lo := identObj(info, a2.Lhs[0]); lo != nil {
					names[lo] = true
				}
			}
			return true
		})
		isSend := func(x *FNode) bool {
			if x.N == nil {
				return false
			}
			for _, s := range sendSitesIn(c, info, x.N) {
				for o := range names {
					if s.Mentions(info, o) {
						return true
					}
				}
			}
			return false
		}
		rebinds := func(x *FNode) bool {
			switch t := x.N.(type) {
			case *ast.AssignStmt:
				for i, l := range t.Lhs {
					if identObj(info, l) != res {
						continue
					}
					if len(t.Rhs) == len(t.Lhs) {
						if c2, ok := ast.Unparen(t.Rhs[i]).(*ast.CallExpr); ok && calleeName(info, c2) == "builtin.append" && len(c2.Args) > 0 && identObj(info, c2.Args[0]) == res {
							continue // grows, keeps the elements
						}
					}
					return true
				}
			case *ast.DeclStmt:
				if gd, ok := t.Decl.(*ast.GenDecl); ok {
					for _, sp := range gd.Specs {
						if vs, ok := sp.(*ast.ValueSpec); ok {
							for _, nm := range vs.Names {
								if info.Defs[nm] == res {
									return true
								}
							}
						}
					}
				}
			}
			return false
		}
		type st struct {
			id       int
			nonEmpty bool
		}
		seen := map[st]bool{}
		var lost, dropped *FNode
		var walk func(s st)
		walk = func(s st) {
			if seen[s] || lost != nil {
				return
			}
			seen[s] = true
			x := fg.Nodes[s.id]
			if s.id == fg.Exit && s.nonEmpty {
				lost = x
				return
			}
			if s.id != nd.ID && isSend(x) {
				return
			}
			ne := s.nonEmpty
			if s.id != nd.ID && ne && rebinds(x) {
				dropped = x
				lost = x
				return
			}
			for _, e := range x.Succ {
				feasible := true
				if e.Cond != nil && e.Tag == nil && ne {
					for _, at := range atomise(Fact{e.Cond, nil, e.Truth}) {
						for o := range names {
							if emptinessOf(info, at.Cond, at.Truth, o) < 0 {
								feasible = false
							}
						}
					}
				}
				if feasible {
					walk(st{e.To, ne})
				}
			}
		}
		walk(st{nd.ID, true})
		detail := "from this append there is a path to the end of the worker on which the collected matches are never sent on the result channel: when the input channel is closed while the worker still holds matches (another worker took the last batch) they are counted as matched but never reach the aggregator, so the final render misses them"
		if dropped != nil {
			detail = "after this append the slice of collected matches is re-bound (" + c.Pos(dropped.N.Pos()) + ") on a path that did not send it: those matches are counted but never reach the aggregator"
		}
		r.Check(lost == nil, rule, fi.Name, exprStr(as.Lhs[0])+" = append(..)", c.Pos(as.Pos()), "path: every path from the append to the exit sends the slice (the empty-slice branch of its emptiness test is infeasible after an append)", detail)
	}
	r.Floor(rule, 1, "the append of a match in asyncWorker")
}

// ---------------------------------------------------------------- C19-d a binding that is not a number is counted, not encoded in the value

// c19BindingErrors (C19-d/binding-errors): the formula context turns match
// data into float64. A field that does not parse must leave a trace that the
// runner tests *besides* the computed value: every value a float64 can take
// (0, NaN, Inf) is also a legitimate result of a formula over numeric
// bindings, and most operators (comparisons, && ||, ^0, bit operators) do not
// propagate a sentinel. Two obligations: (1) in every GetMatch/GetKey of a
// float64-valued context wrapper, each path after strconv.ParseFloat either
// knows err == nil or stores to a field of the receiver; (2) the stage that
// runs the formula decides between the error marker and the formatted value
// by reading that field of the very wrapper it evaluated with.
func c19BindingErrors(c *Ctx, r *Report, rule string) {
	const pkg = "rare/pkg/expressions/stdlib"
	counterOf := map[*types.Named]*types.Var{}
	n := 0
	for _, fi := range c.AllFuncDecls(pkg) {
		fd := fi.Decl
		if fd.Recv == nil || len(fd.Recv.List) != 1 || len(fd.Recv.List[0].Names) != 1 || (fd.Name.Name != "GetMatch" && fd.Name.Name != "GetKey") {
			continue
		}
		sig, _ := fi.Obj.Type().(*types.Signature)
		if sig == nil || sig.Results().Len() != 1 {
			continue
		}
		if b, ok := sig.Results().At(0).Type().Underlying().(*types.Basic); !ok || b.Kind() != types.Float64 {
			continue
		}
		info := fi.Pkg.TypesInfo
		recv := info.Defs[fd.Recv.List[0].Names[0]]
		rt := recv.Type()
		if p, ok := rt.(*types.Pointer); ok {
			rt = p.Elem()
		}
		named := namedOf(rt)
		fg := NewFGraph(fd.Body, info)
		for _, nd := range fg.Nodes {
			as, ok := nd.N.(*ast.AssignStmt)
			if !ok || len(as.Rhs) != 1 || len(as.Lhs) != 2 {
				continue
			}
			ce, ok := ast.Unparen(as.Rhs[0]).(*ast.CallExpr)
			if !ok || calleeName(info, ce) != "strconv.ParseFloat" {
				continue
			}
			errObj := identObj(info, as.Lhs[1])
			n++
			untraced := false
			var field *types.Var
			enumPaths(fg, nd.ID, func(id int) bool { return id == fg.Exit }, func(nodes []int, edges []FEdge) {
				errNil := false
				for _, e := range edges {
					if e.Cond == nil || e.Tag != nil {
						continue
					}
					for _, at := range atomise(Fact{e.Cond, nil, e.Truth}) {
						if be, ok := at.Cond.(*ast.BinaryExpr); ok && errObj != nil {
							isErr := identObj(info, be.X) == errObj || identObj(info, be.Y) == errObj
							if isErr && ((be.Op == token.EQL && at.Truth) || (be.Op == token.NEQ && !at.Truth)) {
								errNil = true
							}
						}
					}
				}
				if errNil {
					return
				}
				wrote := false
				for _, id := range nodes {
					x := fg.Nodes[id].N
					if x == nil {
						continue
					}
					var lhs []ast.Expr
					switch t := x.(type) {
					case *ast.IncDecStmt:
						lhs = []ast.Expr{t.X}
					case *ast.AssignStmt:
						lhs = t.Lhs
					}
					for _, l := range lhs {
						if sel, ok := ast.Unparen(l).(*ast.SelectorExpr); ok && identObj(info, sel.X) == recv {
							if fv := fieldVar(info, sel); fv != nil {
								wrote = true
								field = fv
							}
						}
					}
				}
				if !wrote {
					untraced = true
				}
			})
			if !untraced && field != nil && named != nil {
				counterOf[named] = field
			}
			r.Check(!untraced, rule, fi.Name, exprStr(ce), c.Pos(as.Pos()), "path: a failed parse is recorded in the wrapper before the method returns",
				"a binding that does not parse as a number leaves no trace in the context wrapper on some path (the failure is at best encoded in the returned float64): every float64 - 0, NaN, Inf - is also the legitimate value of a formula over numeric bindings, and comparisons, && ||, ^0 and the bit operators do not propagate a sentinel, so a non-numeric field silently yields a number (or a numeric result is reported as an error)")
		}
	}
	r.Floor(rule, 2, "keyBuilderContextWrapper.GetMatch and GetKey")
	// (2) the runner
	fi := c.stageFactoryByKey("!")
	if fi == nil {
		fi = c.MustFunc(r, rule, pkg, "kfMath")
	}
	if fi == nil {
		return
	}
	info := fi.Pkg.TypesInfo
	found := false
	for _, fl := range funcLitsIn(fi.Decl.Body) {
		if !isStageLit(info, fl) {
			continue
		}
		fg := NewFGraph(fl.Body, info)
		for _, nd := range fg.Nodes {
			if nd.N == nil {
				continue
			}
			for _, ce := range callsIn(nd.N) {
				se, ok := ce.Fun.(*ast.SelectorExpr)
				if !ok || se.Sel.Name != "Eval" || len(ce.Args) != 1 {
					continue
				}
				ctxObj := identObj(info, ce.Args[0])
				if ctxObj == nil {
					continue
				}
				pt, ok := ctxObj.Type().Underlying().(*types.Pointer)
				if !ok {
					continue
				}
				named := namedOf(pt.Elem())
				if named == nil {
					continue
				}
				found = true
				field := counterOf[named]
				if field == nil {
					r.Bad(rule, fi.Name, exprStr(ce), c.Pos(ce.Pos()), "the formula is evaluated with a "+named.Obj().Name()+" whose lookups record no parse failure: the runner has nothing but the computed value to tell a bad field from a number")
					continue
				}
				undecidedPath, wrongMarker := false, false
				enumPaths(fg, nd.ID, func(id int) bool { return id == fg.Exit }, func(nodes []int, edges []FEdge) {
					tested, errorsSeen := false, false
					for _, e := range edges {
						if e.Cond == nil {
							continue
						}
						mentions := false
						ast.Inspect(e.Cond, func(x ast.Node) bool {
							if sel, ok := x.(*ast.SelectorExpr); ok && fieldVar(info, sel) == field && identObj(info, sel.X) == ctxObj {
								mentions = true
							}
							return true
						})
						if !mentions {
							continue
						}
						tested = true
						for _, at := range atomise(Fact{e.Cond, nil, e.Truth}) {
							if be, ok := at.Cond.(*ast.BinaryExpr); ok {
								if k, isK := constInt(info, be.Y); isK && k == 0 {
									if (be.Op == token.GTR && at.Truth) || (be.Op == token.NEQ && at.Truth) || (be.Op == token.EQL && !at.Truth) || (be.Op == token.LEQ && !at.Truth) {
										errorsSeen = true
									}
								}
							}
						}
					}
					if !tested {
						undecidedPath = true
						return
					}
					if errorsSeen {
						// the value returned on this path is one of the error markers
						last := fg.Nodes[nodes[len(nodes)-2]]
						_ = last
						for i := len(nodes) - 1; i >= 0; i-- {
							if rs, ok := fg.Nodes[nodes[i]].N.(*ast.ReturnStmt); ok {
								okMarker := false
								if len(rs.Results) == 1 {
									if o := identObj(info, rs.Results[0]); o != nil && strings.HasPrefix(o.Name(), "Error") {
										okMarker = true
									}
								}
								if !okMarker {
									wrongMarker = true
								}
								break
							}
						}
					}
				})
				r.Check(!undecidedPath && !wrongMarker, rule, fi.Name, "after "+exprStr(ce), c.Pos(ce.Pos()), "path: every path from the evaluation to a return tests "+field.Name()+" of the wrapper it evaluated with, and the failing side returns an error marker",
					"after evaluating the formula the stage returns on some path without consulting "+named.Obj().Name()+"."+field.Name()+" (or returns something other than an error marker when it is set): a non-numeric binding is then reported as a number")
			}
		}
	}
	if !found {
		r.Undecided(rule, fi.Name, "Eval call", c.Pos(fi.Decl.Pos()), "the stage that evaluates the compiled formula with a context wrapper was not found")
	}
}

// ---------------------------------------------------------------- C13-d a comparator that may be reversed is not strict

// c13BothDirections (C13-d/both-directions): sorting.Reverse negates the
// comparator, so a reversed comparator answers true for (a, b) *and* (b, a)
// whenever the original called them equal. Code that is handed a comparator
// and consults it in both argument orders ("a before b? else b before a? else
// next column") therefore decides equal keys as "less" in both directions
// under --sort-reverse: the relation is not antisymmetric and the order of
// those rows falls back to arrival / map order. As long as Reverse has the
// negation form, no function may call a comparator it received (parameter or
// captured variable) with the same two operands in both orders.
func c13BothDirections(c *Ctx, r *Report, rule string) {
	// is Reverse the negation form?
	negation := false
	if fi := c.Func(sortingPkg, "Reverse"); fi != nil {
		ast.Inspect(fi.Decl.Body, func(x ast.Node) bool {
			if ue, ok := x.(*ast.UnaryExpr); ok && ue.Op == token.NOT {
				if _, isCall := ast.Unparen(ue.X).(*ast.CallExpr); isCall {
					negation = true
				}
			}
			return true
		})
	}
	if !negation {
		r.OK(rule, sortingPkg+".Reverse", "form", "-", "shape: Reverse does not negate its comparator, so reversed comparators stay strict")
		return
	}
	n, bad := 0, 0
	for _, fi := range c.AllFuncDecls("rare/pkg/aggregation", "rare/pkg/csv", "rare/cmd", "rare/pkg/multiterm") {
		info := fi.Pkg.TypesInfo
		bodies := []*ast.BlockStmt{fi.Decl.Body}
		for _, fl := range funcLitsIn(fi.Decl.Body) {
			bodies = append(bodies, fl.Body)
		}
		for _, body := range bodies {
			type callRec struct {
				a, b string
				pos  token.Pos
			}
			calls := map[types.Object][]callRec{}
			inspectNoLit(body, func(x ast.Node) bool {
				ce, ok := x.(*ast.CallExpr)
				if !ok || len(ce.Args) != 2 {
					return true
				}
				v, _ := identObj(info, ce.Fun).(*types.Var)
				if v == nil {
					return true
				}
				sig, _ := v.Type().Underlying().(*types.Signature)
				if sig == nil || sig.Params().Len() != 2 || sig.Results().Len() != 1 || !isBool(sig.Results().At(0).Type()) || !types.Identical(sig.Params().At(0).Type(), sig.Params().At(1).Type()) {
					return true
				}
				// received, not built here: a parameter, or a variable of an enclosing function / the package
				if within(body, v.Pos()) && !isParamOf(info, fi.Decl, body, v) {
					return true
				}
				calls[v] = append(calls[v], callRec{exprStr(ce.Args[0]), exprStr(ce.Args[1]), ce.Pos()})
				return true
			})
			for v, cs := range calls {
				n++
				var hit *callRec
				for i := range cs {
					for j := range cs {
						if i != j && cs[i].a == cs[j].b && cs[i].b == cs[j].a && cs[i].a != cs[i].b {
							hit = &cs[j]
						}
					}
				}
				if hit != nil {
					bad++
					r.Bad(rule, fi.Name, v.Name()+"("+hit.a+", "+hit.b+")", c.Pos(hit.pos), "the comparator "+v.Name()+" is consulted in both argument orders, which is only meaningful for a strict comparator; sorting.Reverse negates, so under a reversed sort equal operands answer true both ways: such keys are \"less\" in both directions, the relation is not antisymmetric and their order depends on arrival / map order (and the reversed order is not the mirror of the forward order)")
				}
			}
		}
	}
	if bad == 0 {
		r.OK(rule, "rare/pkg/aggregation ...", "comparator uses", "-", fmt.Sprintf("scan: %d received comparator(s) are consulted in one argument order only", n))
	}
}

// isParamOf: is v a parameter of the function whose body is given (declaration or one of its literals)?
func isParamOf(info *types.Info, fd *ast.FuncDecl, body *ast.BlockStmt, v *types.Var) bool {
	check := func(ft *ast.FuncType) bool {
		if ft == nil || ft.Params == nil {
			return false
		}
		for _, f := range ft.Params.List {
			for _, nm := range f.Names {
				if info.Defs[nm] == v {
					return true
				}
			}
		}
		return false
	}
	if fd.Body == body {
		return check(fd.Type)
	}
	for _, fl := range funcLitsIn(fd.Body) {
		if fl.Body == body {
			return check(fl.Type)
		}
	}
	return false
}

// ---------------------------------------------------------------- C09-a an error handed to the collector is kept

// c09ErrorsRecorded (C09-a/errors-recorded): Compile reports a malformed
// construct by handing it to (*CompilerErrors).add; nested compiles hand
// theirs over through inherit. Both must keep what they are given: in add,
// no path from entry to exit avoids the append to the error list; in inherit
// every element of the other list reaches add (a range over it whose body
// calls add on every path, no break/continue/return).
func c09ErrorsRecorded(c *Ctx, r *Report, rule string) {
	const pkg = "rare/pkg/expressions"
	if fi := c.MustFunc(r, rule, pkg, "(*CompilerErrors).add"); fi != nil {
		info := fi.Pkg.TypesInfo
		fg := NewFGraph(fi.Decl.Body, info)
		isAppend := func(nd *FNode) bool {
			as, ok := nd.N.(*ast.AssignStmt)
			if !ok || len(as.Lhs) != 1 || len(as.Rhs) != 1 {
				return false
			}
			ce, ok := ast.Unparen(as.Rhs[0]).(*ast.CallExpr)
			if !ok || calleeName(info, ce) != "builtin.append" || len(ce.Args) < 2 {
				return false
			}
			lf, af := fieldVar(info, as.Lhs[0]), fieldVar(info, ce.Args[0])
			return lf != nil && lf == af
		}
		has := false
		for _, nd := range fg.Nodes {
			if nd.N != nil && isAppend(nd) {
				has = true
			}
		}
		skips := fg.Reaches(fg.Entry, fg.Exit, isAppend)
		r.Check(has && !skips, rule, fi.Name, "append on every path", c.Pos(fi.Decl.Pos()), "path: no path through add avoids the append to the error list",
			"(*CompilerErrors).add can return without recording the error it was given: Compile reports empty statements, unknown functions, unterminated statements and the errors of nested arguments only through this method, so a malformed construct can go unreported (e.g. a second malformed argument at an offset already taken)")
	}
	if fi := c.MustFunc(r, rule, pkg, "(*CompilerErrors).inherit"); fi != nil {
		info := fi.Pkg.TypesInfo
		ok, why := false, "inherit does not loop over the other error list"
		ast.Inspect(fi.Decl.Body, func(x ast.Node) bool {
			if ok {
				return false
			}
			var body *ast.BlockStmt
			var over ast.Expr
			switch t := x.(type) {
			case *ast.RangeStmt:
				body, over = t.Body, t.X
			case *ast.ForStmt:
				// for i := 0; i < len(list); i++ { .. list[i] .. }
				if be, isBin := ast.Unparen(t.Cond).(*ast.BinaryExpr); isBin && t.Post != nil {
					for _, side := range []ast.Expr{be.X, be.Y} {
						if ce, isCall := ast.Unparen(side).(*ast.CallExpr); isCall && calleeName(info, ce) == "builtin.len" && len(ce.Args) == 1 {
							body, over = t.Body, ce.Args[0]
						}
					}
				}
			}
			if body == nil {
				return true
			}
			over = unalias(info, fi.Decl, over)
			if fv := fieldVar(info, over); fv == nil || fv.Name() != "Errors" {
				return true
			}
			fg := NewFGraph(body, info)
			callsAdd := func(nd *FNode) bool {
				if nd.N == nil {
					return false
				}
				for _, ce := range callsIn(nd.N) {
					if isAnchorCall(c, info, ce, pkg, "(*CompilerErrors).add") {
						return true
					}
					if as := calleeName(info, ce); as == "builtin.append" {
						if len(ce.Args) > 0 {
							if fv := fieldVar(info, ce.Args[0]); fv != nil && fv.Name() == "Errors" {
								return true
							}
						}
					}
				}
				return false
			}
			branches := false
			ast.Inspect(body, func(y ast.Node) bool {
				switch y.(type) {
				case *ast.BranchStmt, *ast.ReturnStmt:
					branches = true
				}
				return true
			})
			switch {
			case branches:
				why = "the loop over the inherited errors can skip or abandon elements"
			case fg.Reaches(fg.Entry, fg.Exit, callsAdd):
				why = "an iteration over the inherited errors can finish without adding the element"
			default:
				ok = true
			}
			return true
		})
		r.Check(ok, rule, fi.Name, "every inherited error is added", c.Pos(fi.Decl.Pos()), "path: every element of the nested error list reaches add", why+": errors found while compiling a nested argument are lost, so a malformed nested statement is not reported")
	}
	r.Floor(rule, 2, "add and inherit")
}

// ---------------------------------------------------------------- C12-e one token per placeholder

// c12TokenPerPlaceholder (C12-e/token-per-placeholder): the specification is
// stated per %{token}: each takes the text up to the first following
// occurrence of *its own* trailing literal. The pattern compiler's loop finds
// one placeholder per iteration; an iteration may end with an error return,
// with the "no more placeholders" break - or by appending exactly that
// placeholder as a token. No path from the start of an iteration back to the
// loop's next iteration may avoid the append (merging or dropping a
// placeholder changes which delimiter occurrences are consumed).
func c12TokenPerPlaceholder(c *Ctx, r *Report, rule string) {
	const pkg = "rare/pkg/matchers/dissect"
	fi := c.MustFunc(r, rule, pkg, "CompileEx")
	if fi == nil {
		return
	}
	info := fi.Pkg.TypesInfo
	fg := NewFGraph(fi.Decl.Body, info)
	n := 0
	ast.Inspect(fi.Decl.Body, func(x ast.Node) bool {
		fs, ok := x.(*ast.ForStmt)
		if !ok {
			return true
		}
		isTokenAppend := func(nd *FNode) bool {
			as, ok := nd.N.(*ast.AssignStmt)
			if !ok || len(as.Lhs) != 1 || len(as.Rhs) != 1 {
				return false
			}
			ce, ok := ast.Unparen(as.Rhs[0]).(*ast.CallExpr)
			if !ok || calleeName(info, ce) != "builtin.append" || len(ce.Args) != 2 {
				return false
			}
			sl, ok := info.TypeOf(ce.Args[0]).Underlying().(*types.Slice)
			if !ok || !isNamed(sl.Elem(), pkg, "token") {
				return false
			}
			return identObj(info, as.Lhs[0]) != nil && identObj(info, as.Lhs[0]) == identObj(info, ce.Args[0])
		}
		has := false
		for _, nd := range fg.Nodes {
			if nd.N != nil && within(fs.Body, nd.N.Pos()) && isTokenAppend(nd) {
				has = true
			}
		}
		if !has {
			return true
		}
		n++
		bodyHead := -1
		targets := map[int]bool{}
		for _, nd := range fg.Nodes {
			if nd.N == nil && nd.Block != nil && nd.Block.Stmt == ast.Stmt(fs) {
				switch nd.Block.Kind.String() {
				case "ForBody":
					bodyHead = nd.ID
				case "ForLoop", "ForPost":
					targets[nd.ID] = true
				}
			}
		}
		if bodyHead < 0 {
			r.Undecided(rule, fi.Name, "placeholder loop", c.Pos(fs.Pos()), "loop structure not recognised")
			return true
		}
		if len(targets) == 0 {
			targets[bodyHead] = true // `for { }`: the back edge re-enters the body
		}
		set := fg.ReachSet(bodyHead, isTokenAppend, nil)
		set[bodyHead] = true
		var via *FNode
		for id := range set {
			nd := fg.Nodes[id]
			if nd.N != nil && isTokenAppend(nd) {
				continue
			}
			for _, e := range nd.Succ {
				if targets[e.To] && (id != bodyHead || e.To != bodyHead) {
					via = nd
				}
			}
		}
		pos := fs.Pos()
		if via != nil && via.N != nil {
			pos = via.N.Pos()
		}
		r.Check(via == nil, rule, fi.Name, "for .. %{", c.Pos(pos), "path: an iteration that found a placeholder ends with an error, or appends it as a token, before the next iteration",
			"the pattern compiler can start its next iteration without having appended the placeholder it just parsed as a token of its own: placeholders are merged or dropped, so the text a token takes is no longer delimited by the first following occurrence of its own trailing literal (e.g. `%{}a%{}b` stops at the first b, not the first b after the first a)")
		return true
	})
	r.Floor(rule, 1, "the placeholder loop of CompileEx")
}

// ---------------------------------------------------------------- C18-d one authority decides what a duration is

// c18DurationAuthority (C18-d/duration-authority): {duration} must yield the
// error marker for unparseable input and whole seconds that {durationformat}
// turns back into the same duration. What is parseable is decided by
// time.ParseDuration; a second recogniser in front of or beside it (a "fast
// path" through ParseFloat / Atoi, a hand-written unit table) accepts a
// different language (1e3s, 0x1p4s, infs) and converts with different
// rounding and range. Every return of the stage is therefore either one of
// the Error markers or is computed from the Duration that time.ParseDuration
// returned.
func c18DurationAuthority(c *Ctx, r *Report, rule string) {
	fi := c.stageFactoryByKey("duration")
	if fi == nil {
		r.Undecided(rule, stdlibPkg, "duration", "-", "the factory registered under \"duration\" was not found")
		return
	}
	info := fi.Pkg.TypesInfo
	n := 0
	for _, fl := range funcLitsIn(fi.Decl.Body) {
		if !isStageLit(info, fl) {
			continue
		}
		// values derived from ParseDuration's first result
		derived := map[types.Object]bool{}
		for changed := true; changed; {
			changed = false
			ast.Inspect(fl.Body, func(x ast.Node) bool {
				as, ok := x.(*ast.AssignStmt)
				if !ok {
					return true
				}
				if len(as.Rhs) == 1 && len(as.Lhs) == 2 {
					if ce, ok := ast.Unparen(as.Rhs[0]).(*ast.CallExpr); ok && calleeName(info, ce) == "time.ParseDuration" {
						if o := identObj(info, as.Lhs[0]); o != nil && !derived[o] {
							derived[o] = true
							changed = true
						}
					}
					return true
				}
				if len(as.Lhs) == len(as.Rhs) {
					for i, rhs := range as.Rhs {
						uses := false
						ast.Inspect(rhs, func(y ast.Node) bool {
							if id, ok := y.(*ast.Ident); ok && derived[info.Uses[id]] {
								uses = true
							}
							return true
						})
						if o := identObj(info, as.Lhs[i]); uses && o != nil && !derived[o] {
							derived[o] = true
							changed = true
						}
					}
				}
				return true
			})
		}
		inspectNoLit(fl.Body, func(x ast.Node) bool {
			rs, ok := x.(*ast.ReturnStmt)
			if !ok || len(rs.Results) != 1 {
				return true
			}
			n++
			res := rs.Results[0]
			okRet := false
			if o := identObj(info, res); o != nil && strings.HasPrefix(o.Name(), "Error") {
				okRet = true
			}
			ast.Inspect(res, func(y ast.Node) bool {
				if id, ok := y.(*ast.Ident); ok && derived[info.Uses[id]] {
					okRet = true
				}
				return true
			})
			r.Check(okRet, rule, fi.Name, "return "+exprStr(res), c.Pos(rs.Pos()), "flow: the result is an error marker or is computed from the Duration time.ParseDuration returned",
				"the duration helper returns a value that does not come from time.ParseDuration: a second recogniser decides what a duration is, so inputs the documented parser rejects (1e3s, 0x1p4s, infs) yield numbers instead of the error marker, and the seconds no longer convert back to the same duration")
			return true
		})
	}
	r.Floor(rule, 2, "the error return and the seconds return of kfDuration")
}

// ---------------------------------------------------------------- C11-b arithmetic helpers are a left fold

// c11LeftFold (C11-b/left-fold): {sumi a b c ..}, {subi ..}, {divf ..} are
// documented (and implemented) as a left fold: ((a op b) op c) .. over the
// arguments in order. Subtraction and division are not associative, integer
// arithmetic wraps and float arithmetic rounds, so any other grouping - folding
// runs of constant operands ahead of time, pairing operands, folding from the
// right - gives different values. In every helper that receives the binary
// operation as a parameter, that parameter is used only as `acc = op(acc, x)`
// inside the stage closure, with acc a local of that closure.
func c11LeftFold(c *Ctx, r *Report, rule string) {
	n := 0
	for _, fi := range c.AllFuncDecls(stdlibPkg) {
		fd := fi.Decl
		if fd.Recv != nil || fd.Type.Params == nil {
			continue
		}
		info := fi.Pkg.TypesInfo
		var op types.Object
		for _, f := range fd.Type.Params.List {
			for _, nm := range f.Names {
				o := info.Defs[nm]
				if o == nil {
					continue
				}
				sig, ok := o.Type().Underlying().(*types.Signature)
				if ok && sig.Params().Len() == 2 && sig.Results().Len() == 1 &&
					types.Identical(sig.Params().At(0).Type(), sig.Params().At(1).Type()) && types.Identical(sig.Params().At(0).Type(), sig.Results().At(0).Type()) {
					if b, isB := sig.Results().At(0).Type().Underlying().(*types.Basic); isB && b.Info()&types.IsNumeric != 0 {
						op = o
					}
				}
			}
		}
		if op == nil {
			continue
		}
		// returns a KeyBuilderFunction: this is an arithmetic helper factory
		if fd.Type.Results == nil || len(fd.Type.Results.List) != 1 || !isNamed(info.TypeOf(fd.Type.Results.List[0].Type), "rare/pkg/expressions", "KeyBuilderFunction") {
			continue
		}
		n++
		okUses := map[*ast.Ident]bool{}
		folds := 0
		for _, fl := range funcLitsIn(fd.Body) {
			if !isStageLit(info, fl) {
				continue
			}
			ast.Inspect(fl.Body, func(x ast.Node) bool {
				as, ok := x.(*ast.AssignStmt)
				if !ok || len(as.Lhs) != 1 || len(as.Rhs) != 1 || as.Tok != token.ASSIGN {
					return true
				}
				ce, ok := ast.Unparen(as.Rhs[0]).(*ast.CallExpr)
				if !ok || len(ce.Args) != 2 {
					return true
				}
				id, ok := ast.Unparen(ce.Fun).(*ast.Ident)
				if !ok || info.Uses[id] != op {
					return true
				}
				acc := identObj(info, as.Lhs[0])
				if acc != nil && identObj(info, ce.Args[0]) == acc && within(fl, acc.Pos()) {
					okUses[id] = true
					folds++
				}
				return true
			})
		}
		var stray *ast.Ident
		ast.Inspect(fd.Body, func(x ast.Node) bool {
			if id, ok := x.(*ast.Ident); ok && info.Uses[id] == op && !okUses[id] {
				stray = id
			}
			return true
		})
		pos := fd.Pos()
		if stray != nil {
			pos = stray.Pos()
		}
		r.Check(stray == nil && folds >= 1, rule, fi.Name, op.Name()+" applied as a left fold", c.Pos(pos), "who-may-call: the operation is only applied as acc = op(acc, next) inside the stage closure",
			"the binary operation of an arithmetic helper is used other than as the left fold acc = op(acc, next) over the arguments in order (handed to another function, applied between operands ahead of time, or with the accumulator on the right): for subtraction, division, wrapping integer and rounding float arithmetic a different grouping gives a different value")
	}
	r.Floor(rule, 3, "arithmaticHelperi, arithmaticHelperiNonZero, arithmaticHelperf")
}

// ---------------------------------------------------------------- C07-c the increment is one field of the sample

// c07IncrementField (C07-c/increment-field): a sample is a NUL-separated list
// key[, sub-key][, increment][, more]. The increment handed to strconv is the
// *field* at its position - what the field splitter yields next - not "the
// rest of the sample after the previous separator": with strings.Cut /
// SplitN / manual slicing a sample that carries further fields (an extraction
// expression that yields a longer array, a trailing separator) makes a valid
// increment unparsable, so the sample is dropped and counted as a parse
// error. Accepted origins of the parsed text: the splitter's Next / NextOk, an
// element of strings.Split, or the sample itself.
func c07IncrementField(c *Ctx, r *Report, rule string) {
	n := 0
	for _, fi := range c.AllFuncDecls("rare/pkg/aggregation") {
		fd := fi.Decl
		if fd.Recv == nil || fd.Name.Name != "Sample" || strings.HasSuffix(fi.Pkg.PkgPath, "/sorting") {
			continue
		}
		info := fi.Pkg.TypesInfo
		params := map[types.Object]bool{}
		for _, f := range fd.Type.Params.List {
			for _, nm := range f.Names {
				params[info.Defs[nm]] = true
			}
		}
		ast.Inspect(fd.Body, func(x ast.Node) bool {
			ce, ok := x.(*ast.CallExpr)
			if !ok || len(ce.Args) < 1 {
				return true
			}
			nm := calleeName(info, ce)
			if nm != "strconv.ParseInt" && nm != "strconv.ParseFloat" && nm != "strconv.Atoi" && nm != "strconv.ParseUint" {
				return true
			}
			n++
			arg := ast.Unparen(ce.Args[0])
			origin, okOrigin := "", false
			if o := identObj(info, arg); o != nil {
				okOrigin, origin = c07FieldOrigin(c, info, fd.Body, o, params, 0)
			} else {
				origin = exprStr(arg)
			}
			r.Check(okOrigin, rule, fi.Name, exprStr(ce), c.Pos(ce.Pos()), "flow: the parsed increment is one field of the sample ("+origin+")",
				"the text parsed as the increment comes from "+origin+", which is not a single field of the NUL-separated sample (it can contain the separator and everything after it): a sample that carries more fields than the aggregator reads then fails to parse although its increment is valid, so it is dropped and counted as a parse error")
			return true
		})
	}
	r.Floor(rule, 4, "counter, sub-key counter, table and numerical Sample")
}

// ---------------------------------------------------------------- C11-f integer helpers stay in the integers

// c11IntegerExact (C11-f/integer-exact): helpers over integers (bucket,
// bucketrange, clamp, sumi, ...) are specified for all argument values; an
// int64 put through float64 and back is only exact below 2^53, so a
// computation int -> float64 -> int (floor of a float quotient, say) gives a
// wrong bucket for large values although it looks equivalent. Reported: a
// conversion to an integer type whose operand contains a float64 conversion of
// an integer-typed value (directly or through one local). (The power-of-ten
// bucket used to be computed as int(math.Log10(float64(v))): Log10(1e15) is
// 14.999999999999998, so {expbucket 1000000000000000} gave 1e14 - found by
// this rule, see known_findings.txt.)
func c11IntegerExact(c *Ctx, r *Report, rule string) {
	n := 0
	for _, fi := range c.AllFuncDecls(stdlibPkg) {
		info := fi.Pkg.TypesInfo
		isIntT := func(t types.Type) bool {
			b, ok := t.Underlying().(*types.Basic)
			return ok && b.Info()&types.IsInteger != 0
		}
		isFloatT := func(t types.Type) bool {
			b, ok := t.Underlying().(*types.Basic)
			return ok && b.Info()&types.IsFloat != 0
		}
		// locals defined from an expression that contains float64(<int>)
		hasIntToFloat := func(e ast.Expr) bool {
			hit := false
			ast.Inspect(e, func(y ast.Node) bool {
				if ce, ok := y.(*ast.CallExpr); ok && isConversion(info, ce) && len(ce.Args) == 1 {
					if isFloatT(info.TypeOf(ce)) && isIntT(info.TypeOf(ce.Args[0])) {
						if _, isConst := constInt(info, ce.Args[0]); !isConst {
							hit = true
						}
					}
				}
				return true
			})
			return hit
		}
		tainted := map[types.Object]bool{}
		ast.Inspect(fi.Decl.Body, func(x ast.Node) bool {
			if as, ok := x.(*ast.AssignStmt); ok && len(as.Lhs) == len(as.Rhs) {
				for i, rhs := range as.Rhs {
					if o := identObj(info, as.Lhs[i]); o != nil && isFloatT(o.Type()) && hasIntToFloat(rhs) {
						tainted[o] = true
					}
				}
			}
			return true
		})
		ast.Inspect(fi.Decl.Body, func(x ast.Node) bool {
			ce, ok := x.(*ast.CallExpr)
			if !ok || !isConversion(info, ce) || len(ce.Args) != 1 || !isIntT(info.TypeOf(ce)) || !isFloatT(info.TypeOf(ce.Args[0])) {
				return true
			}
			round := hasIntToFloat(ce.Args[0])
			ast.Inspect(ce.Args[0], func(y ast.Node) bool {
				if id, ok := y.(*ast.Ident); ok && tainted[info.Uses[id]] {
					round = true
				}
				return true
			})
			if !round {
				return true
			}
			n++
			r.Bad(rule, fi.Name, exprStr(ce), c.Pos(ce.Pos()), "an integer argument is converted to float64 and the result back to an integer: exact only below 2^53, so for large values the helper returns a neighbouring multiple / a value that is off by the rounding of the float - the documented integer semantics (e.g. bucket b with b <= v < b+s) no longer holds for all argument values")
			return true
		})
	}
	if n == 0 {
		r.OK(rule, stdlibPkg, "scan", "-", "scan: no integer value takes a round trip through float64 in the helper package")
	}
	// "for every" rule: no instance is expected; seed C11-m11 and the pre-fix expbucket are its positive examples
}

// Clauses added in round 5, appended to the explanation each evidence file carries.
func init() {
	extra := map[string]string{
		"C01": " Round 5: (a') each class a path of processLineSync counts is backed by its documented decision on that path; (c') from every append of a match every path to the worker's exit sends the slice; (h') with -z every successful open passed the gzip probe; (i) the C04-a buffer discipline (lines waiting in a batch are not overwritten). Round 6: the reader-slot pairing of OpenFilesToChan (every named input gets its reader).",
		"C02": " Round 5: (f') under the posix flag the regexp handed back comes from CompilePOSIX or had Longest() called. Round 6: a method of the regexp wrapper that shadows a promoted matching method returns the embedded method's result for the same argument.",
		"C03": " Round 5: UseCRLF is never switched on and a method shadowing the promoted csv Write forwards its record unchanged; the C06-b error-counting rules (the exit status reads that count); the parsed increment is one field of the sample.",
		"C05": " Round 5: a slice/map field copied into a local under the lock is not used after the unlock (nor returned) while the storage is updated in place elsewhere; a worker forwards every match it collected before it exits; typed stage closures write no captured variable.",
		"C06": " Round 5: with -z every path to a successful return of the opener passes gzip.NewReader.",
		"C07": " Round 5: the text parsed as increment is the splitter's next field (or a strings.Split element, or the sample itself). Round 6: map entries of an aggregator are deleted by trimming methods only.",
		"C09": " Round 5: CompilerErrors.add appends on every path and inherit adds every element.",
		"C10": " Round 5: the context touch is the wrapped context's GetMatch with the index as it came in; typed stage closures write no captured variable. Round 6: a context touch uses a negative constant index.",
		"C11": " Round 5: no rune is cut down to a byte without a range fact; the binary operation of an arithmetic helper is only applied as acc = op(acc, next) inside the stage closure; no integer value takes a round trip through float64.",
		"C12": " Round 5: an iteration of the pattern compiler that parsed a placeholder ends with an error or appends it as a token of its own.",
		"C13": " Round 5: while Reverse negates, no function consults a comparator it received in both argument orders. Round 6: in the sorting package instants are compared at full precision (no Unix()/UnixMilli() projection).",
		"C14": " Round 5: the magnitude a renderer hands to SparkWrite / HeatWrite / BarWrite is a Scaler.Scale result, never a literal.",
		"C16": " Round 5: the index / slice / loop obligations of pkg/minijson are discharged (E-PANIC). Round 6: every text the numeric recogniser accepts is a JSON number (abstract interpretation of isNumeric over byte classes x JSON-number DFA states, explored to a fixpoint; reported as not decided - without failing - when the recogniser leaves the interpreted scan idiom).",
		"C17": " Round 5: array-typed fields of a pooled context (vals) count as state: every element is assigned before each use.",
		"C18": " Round 5: every result of {duration} is an error marker or derives from time.ParseDuration; no name in the time helpers is resolved by the first hit of a map iteration.",
		"C19": " Round 5: a binding that does not parse stores to a field of the context wrapper and the runner chooses the error marker by that field, not by the computed value.",
	}
	for id, x := range extra {
		if pd := props[id]; pd != nil {
			if i := strings.Index(pd.Explain, "NOT decided"); i > 0 {
				pd.Explain = pd.Explain[:i] + strings.TrimSpace(x) + " " + pd.Explain[i:]
			} else {
				pd.Explain += x
			}
		}
	}
}

// c07FieldOrigin: is every definition of o (inside body) one field of the sample - the field
// splitter's Next / NextOk, an element of strings.Split, the sample parameter itself - or the
// corresponding result of a private helper of the package for which the same holds?
func c07FieldOrigin(c *Ctx, info *types.Info, body *ast.BlockStmt, o types.Object, params map[types.Object]bool, depth int) (bool, string) {
	if params[o] {
		return true, "the sample itself"
	}
	if depth > 2 {
		return false, "a chain of helpers"
	}
	defs, good, origin := 0, true, ""
	ast.Inspect(body, func(y ast.Node) bool {
		as, ok := y.(*ast.AssignStmt)
		if !ok {
			return true
		}
		for i, l := range as.Lhs {
			if identObj(info, l) != o {
				continue
			}
			defs++
			var rhs ast.Expr
			if len(as.Rhs) == 1 {
				rhs = as.Rhs[0]
			} else if len(as.Rhs) == len(as.Lhs) {
				rhs = as.Rhs[i]
			}
			src, isCall := ast.Unparen(rhs).(*ast.CallExpr)
			switch {
			case isCall && i == 0 && (strings.HasSuffix(calleeName(info, src), "stringSplitter.Splitter).Next") || strings.HasSuffix(calleeName(info, src), "stringSplitter.Splitter).NextOk")):
				origin = "the field splitter"
				continue
			case isCall && len(as.Rhs) == 1:
				// the i-th result of a private helper of the package
				if f := calleeFunc(info, src); f != nil && !f.Exported() && c.IsRarePkg(f.Pkg()) {
					if hfi := funcDeclOf(c, f); hfi != nil && hfi.Decl.Body != nil && hfi.Decl.Type.Results != nil {
						hinfo := hfi.Pkg.TypesInfo
						hparams := map[types.Object]bool{}
						// a parameter of the helper stands for the sample only when the caller passes the sample
						pi := 0
						for _, fld := range hfi.Decl.Type.Params.List {
							for _, nm := range fld.Names {
								if pi < len(src.Args) && params[identObj(info, src.Args[pi])] {
									hparams[hinfo.Defs[nm]] = true
								}
								pi++
							}
						}
						var resObjs []types.Object
						named := true
						for _, fld := range hfi.Decl.Type.Results.List {
							if len(fld.Names) == 0 {
								named = false
							}
							for _, nm := range fld.Names {
								resObjs = append(resObjs, hinfo.Defs[nm])
							}
						}
						okH, why := false, "a helper result"
						if named && i < len(resObjs) {
							okH, why = c07FieldOrigin(c, hinfo, hfi.Decl.Body, resObjs[i], hparams, depth+1)
							// a named result may also be returned explicitly
							inspectNoLit(hfi.Decl.Body, func(z ast.Node) bool {
								if rs, isRet := z.(*ast.ReturnStmt); isRet && len(rs.Results) > i {
									if ro := identObj(hinfo, rs.Results[i]); ro == nil {
										okH = false
									} else if ro != resObjs[i] {
										if ok2, _ := c07FieldOrigin(c, hinfo, hfi.Decl.Body, ro, hparams, depth+1); !ok2 {
											okH = false
										}
									}
								}
								return true
							})
						} else if !named {
							okH = true
							nret := 0
							inspectNoLit(hfi.Decl.Body, func(z ast.Node) bool {
								if rs, isRet := z.(*ast.ReturnStmt); isRet {
									nret++
									if len(rs.Results) <= i {
										okH = false
									} else if ro := identObj(hinfo, rs.Results[i]); ro == nil {
										okH = false
									} else if ok2, w2 := c07FieldOrigin(c, hinfo, hfi.Decl.Body, ro, hparams, depth+1); !ok2 {
										okH, why = false, w2
									} else {
										why = w2
									}
								}
								return true
							})
							if nret == 0 {
								okH = false
							}
						}
						if okH {
							origin = why + " (through " + f.Name() + ")"
							continue
						}
					}
				}
				good = false
				origin = exprStr(rhs)
			default:
				if ix, isIx := ast.Unparen(rhs).(*ast.IndexExpr); isIx {
					if def := aliasDef(info, body, ix.X); def != nil {
						if c2, ok := ast.Unparen(def).(*ast.CallExpr); ok && calleeName(info, c2) == "strings.Split" {
							origin = "strings.Split"
							continue
						}
					}
				}
				good = false
				origin = exprStr(rhs)
			}
		}
		return true
	})
	return good && defs > 0, origin
}

// ---------------------------------------------------------------- round 6

// c10TouchIndex (C10-a/touch-index): a stage whose value changes without
// reading the match ({time live}, {time delta}) keeps itself dynamic by
// *touching* its context: a lookup whose result is thrown away. The wrapping
// contexts (sub-context of @map/@filter/@reduce/@for, the lazy argument
// context of funcs-file functions) answer non-negative indexes themselves
// ({0} is the current element / the first argument) and forward only negative
// ones to the enclosing context (C10-a/touch-propagates). A touch therefore
// has to use a negative constant index, or it never reaches the probe from
// inside such a wrapper and the stage is folded to a constant there.
func c10TouchIndex(c *Ctx, r *Report, rule string) {
	n := 0
	for _, fi := range c.AllFuncDecls("rare/pkg/expressions") {
		info := fi.Pkg.TypesInfo
		ast.Inspect(fi.Decl.Body, func(x ast.Node) bool {
			es, ok := x.(*ast.ExprStmt)
			if !ok {
				return true
			}
			ce, ok := es.X.(*ast.CallExpr)
			if !ok || len(ce.Args) != 1 {
				return true
			}
			se, ok := ce.Fun.(*ast.SelectorExpr)
			if !ok || se.Sel.Name != "GetMatch" || !isKeyBuilderContext(info.TypeOf(se.X)) {
				return true
			}
			n++
			k, isK := constInt(info, ce.Args[0])
			r.Check(isK && k < 0, rule, fi.Name, exprStr(ce), c.Pos(ce.Pos()), "constant: the touch uses a negative index, which every wrapping context forwards to the enclosing one",
				"a context touch (a lookup whose result is discarded) uses the index "+exprStr(ce.Args[0])+": the sub-contexts of @map/@filter/@reduce/@for and of funcs-file functions answer non-negative indexes themselves, so inside them the touch never reaches the optimiser's probe and {time live} / {time delta} are frozen at compile time")
			return true
		})
	}
	r.Floor(rule, 1, "the touches of time live and time delta")
}

// c13TimePrecision (C13-g/time-precision): the date order is chronological:
// two keys that parse to different instants are ordered by those instants.
// time.Time.Unix() (and UnixMilli / UnixMicro) round the instant down, so keys
// within the same second (millisecond, ..) compare equal in both directions
// and fall back to arrival / map order. In the sorting package instants are
// compared as time.Time (Before / After / Compare / Equal) or through
// UnixNano; any coarser projection is reported.
func c13TimePrecision(c *Ctx, r *Report, rule string) {
	n := 0
	for _, fi := range c.AllFuncDecls(sortingPkg) {
		info := fi.Pkg.TypesInfo
		ast.Inspect(fi.Decl.Body, func(x ast.Node) bool {
			ce, ok := x.(*ast.CallExpr)
			if !ok {
				return true
			}
			switch nm := calleeName(info, ce); nm {
			case "(time.Time).Before", "(time.Time).After", "(time.Time).Compare", "(time.Time).Equal", "(time.Time).UnixNano":
				n++
				r.OK(rule, fi.Name, exprStr(ce), c.Pos(ce.Pos()), "precision: instants are compared at full precision")
			case "(time.Time).Unix", "(time.Time).UnixMilli", "(time.Time).UnixMicro", "(time.Time).Truncate", "(time.Time).Round", "(time.Time).YearDay", "(time.Time).Date":
				n++
				r.Bad(rule, fi.Name, exprStr(ce), c.Pos(ce.Pos()), "a parsed date is projected with "+strings.TrimPrefix(nm, "(time.Time).")+" before it is compared: keys that differ by less than that unit compare equal in both directions, so the date order of such rows is not chronological and depends on arrival / map order (and :desc is not the mirror of :asc)")
			}
			return true
		})
	}
	r.Floor(rule, 1, "ByDate's Before")
}

// c07SampleKeepsCells (C07-a/sample-keeps-cells): presence of a cell, row or
// column is state of its own - Trim decides "row left empty" by the number of
// cells, renderers list the keys that exist - so sampling only ever adds:
// no delete() on an aggregator's maps outside the trimming methods.
func c07SampleKeepsCells(c *Ctx, r *Report, rule string) {
	n, bad := 0, 0
	for _, fi := range c.AllFuncDecls(aggPkg) {
		if fi.Pkg.PkgPath != aggPkg || fi.Decl.Recv == nil {
			continue
		}
		info := fi.Pkg.TypesInfo
		ast.Inspect(fi.Decl.Body, func(x ast.Node) bool {
			ce, ok := x.(*ast.CallExpr)
			if !ok || calleeName(info, ce) != "builtin.delete" {
				return true
			}
			n++
			// the trimming methods: Trim itself, or a private method only Trim calls
			isTrim := strings.HasPrefix(fi.Decl.Name.Name, "Trim") || strings.HasPrefix(fi.Decl.Name.Name, "trim")
			if !isTrim {
				if owner := privateOwner(fi.Pkg, fi.Decl); owner != nil && strings.HasPrefix(owner.Name.Name, "Trim") {
					isTrim = true
				}
			}
			if isTrim {
				r.OK(rule, fi.Name, exprStr(ce), c.Pos(ce.Pos()), "who-may-delete: cells, rows and columns are only removed by trimming")
			} else {
				bad++
				r.Bad(rule, fi.Name, exprStr(ce), c.Pos(ce.Pos()), "an aggregator removes an entry outside Trim: whether a cell exists is state of its own (Trim drops a row when it has no cells left, renderers list existing keys), so a sample that removes a cell makes a later Trim delete rows its predicate never selected")
			}
			return true
		})
	}
	r.Floor(rule, 2, "the deletes of TableAggregator.Trim")
}

// c02MatcherVerbatim (C02-i/matcher-verbatim): the regexp matcher wrapper
// embeds *regexp.Regexp and publishes the name table of that expression. A
// method of the wrapper that shadows one of the promoted matching methods
// must hand back what the embedded method returns for the same argument:
// anything else (a literal fast path that returns only the overall match,
// say) drops capture groups that did participate while the name table still
// announces them.
func c02MatcherVerbatim(c *Ctx, r *Report, rule string) {
	const pkg = "rare/pkg/matchers/fastregex"
	n := 0
	for _, fi := range c.AllFuncDecls(pkg) {
		fd := fi.Decl
		if fd.Recv == nil || len(fd.Recv.List) != 1 || fd.Body == nil {
			continue
		}
		info := fi.Pkg.TypesInfo
		rt := info.TypeOf(fd.Recv.List[0].Type)
		if p, ok := rt.(*types.Pointer); ok {
			rt = p.Elem()
		}
		st, _ := rt.Underlying().(*types.Struct)
		embeds := false
		if st != nil {
			for i := 0; i < st.NumFields(); i++ {
				if f := st.Field(i); f.Embedded() {
					t := f.Type()
					if p, ok := t.(*types.Pointer); ok {
						t = p.Elem()
					}
					if isNamed(t, "regexp", "Regexp") {
						embeds = true
					}
				}
			}
		}
		if !embeds {
			continue
		}
		// does regexp.Regexp have a method of this name?
		var promoted *types.Func
		if reObj := fi.Pkg.Types.Imports(); reObj != nil {
			for _, imp := range reObj {
				if imp.Path() == "regexp" {
					if tn, ok := imp.Scope().Lookup("Regexp").(*types.TypeName); ok {
						ms := types.NewMethodSet(types.NewPointer(tn.Type()))
						if sel := ms.Lookup(nil, fd.Name.Name); sel != nil {
							promoted, _ = sel.Obj().(*types.Func)
						}
					}
				}
			}
		}
		if promoted == nil {
			continue
		}
		n++
		var params []types.Object
		if fd.Type.Params != nil {
			for _, f := range fd.Type.Params.List {
				for _, nm := range f.Names {
					params = append(params, info.Defs[nm])
				}
			}
		}
		problem := ""
		nRet := 0
		inspectNoLit(fd.Body, func(x ast.Node) bool {
			rs, ok := x.(*ast.ReturnStmt)
			if !ok {
				return true
			}
			nRet++
			good := false
			if len(rs.Results) == 1 {
				if ce, ok := ast.Unparen(rs.Results[0]).(*ast.CallExpr); ok && calleeFunc(info, ce) == promoted && len(ce.Args) == len(params) {
					good = true
					for i, a := range ce.Args {
						if identObj(info, a) != params[i] {
							good = false
						}
					}
				}
			}
			if !good && problem == "" {
				problem = "returns " + exprStr(rs.Results[0]) + " at " + c.Pos(rs.Pos())
			}
			return true
		})
		if nRet == 0 {
			problem = "has no return"
		}
		r.Check(problem == "", rule, fi.Name, "shadows (*regexp.Regexp)."+fd.Name.Name, c.Pos(fd.Pos()), "flow: every return is the embedded method's result for the same argument",
			"the matcher wrapper shadows the promoted regexp method and "+problem+" instead of the embedded method's result: capture groups that participated can be missing from the indices while the published name table still lists them, so {N} / {name} / {@} read empty")
	}
	_ = n // "for every" rule: the wrapper shadows nothing on the pinned tree; seed C02-m17 is the positive example
}

// c16ContextReadOnly (…/context-read-only): the per-worker match context is
// re-pointed at every line by plain field stores in processLineSync; nothing
// tells the context that its inputs changed. Any state a method of the
// context keeps in its receiver (a memoised view, a last-lookup cache) is
// therefore computed from a previous line unless it is keyed by *all* inputs -
// and the line number restarts for every source, so it is not even unique.
// Methods of the context assign no field of their receiver: the same match
// always yields the same text because the text is computed from the match.
func c16ContextReadOnly(c *Ctx, r *Report, rule string) {
	n := 0
	for _, fi := range c.AllFuncDecls(extractorPkg) {
		fd := fi.Decl
		if fd.Recv == nil || len(fd.Recv.List) != 1 || len(fd.Recv.List[0].Names) != 1 || recvTypeName(fd.Recv.List[0].Type) != "SliceSpaceExpressionContext" {
			continue
		}
		info := fi.Pkg.TypesInfo
		recv := info.Defs[fd.Recv.List[0].Names[0]]
		n++
		ws := recvFieldWrites(info, recv, fd.Body)
		var names []string
		for _, w := range ws {
			names = append(names, w.Name())
		}
		names = dedupStrings(names)
		sort.Strings(names)
		r.Check(len(names) == 0, rule, fi.Name, "receiver fields are only read", c.Pos(fd.Pos()), "effect: the method computes from the match it is given and keeps nothing in the context",
			"a method of the match context stores to its own field(s) "+strings.Join(names, ", ")+": the context is re-pointed at the next line by plain field stores in processLineSync, which cannot invalidate that state (and line numbers restart for every source), so a later match can be answered with text computed for an earlier one")
	}
	r.Floor(rule, 3, "GetMatch, GetKey, json, array")
}

// c18OffsetPrecision (C18-h/offset-precision): a named format that carries a
// numeric zone offset must carry it to the minute (-0700, -07:00, Z0700,
// Z07:00): an hour-only offset (-07, Z07) prints India (+05:30) or Nepal
// (+05:45) as +05, so what timeformat printed parses back to a different
// instant. Evaluated from the constant values of the format table.
func c18OffsetPrecision(c *Ctx, r *Report, rule string) {
	init, p := c.pkgVarInit(stdlibPkg, "timeFormats")
	cl := asCompositeLit(init)
	if p == nil || cl == nil {
		r.Undecided(rule, stdlibPkg+".timeFormats", "table", "-", "the named-format table was not found")
		return
	}
	n := 0
	for _, el := range cl.Elts {
		kv, ok := el.(*ast.KeyValueExpr)
		if !ok {
			continue
		}
		name, okN := constString(p.TypesInfo, kv.Key)
		layout, okL := constString(p.TypesInfo, kv.Value)
		if !okN || !okL {
			r.Undecided(rule, stdlibPkg+".timeFormats", exprStr(kv.Key), c.Pos(kv.Pos()), "entry is not a constant")
			continue
		}
		// occurrences of an hour offset element
		bad := ""
		for i := 0; i+3 <= len(layout); i++ {
			if layout[i:i+3] != "-07" && layout[i:i+3] != "Z07" {
				continue
			}
			rest := layout[i+3:]
			if strings.HasPrefix(rest, "00") || strings.HasPrefix(rest, ":00") {
				continue
			}
			bad = layout[i : i+3]
		}
		if !strings.Contains(layout, "-07") && !strings.Contains(layout, "Z07") {
			continue
		}
		n++
		r.Check(bad == "", rule, stdlibPkg+".timeFormats", name, c.Pos(kv.Pos()), "table: the zone offset of the format is written to the minute",
			fmt.Sprintf("the named format %s (%q) writes the zone offset as %q, hours only: zones with a 30 or 45 minute offset lose it, so parsing what timeformat printed gives a different instant", name, layout, bad))
	}
	r.Floor(rule, 4, "RFC822Z, RFC1123Z, RFC3339, RFC3339N, NGINX")
}

// c14MoreCount (C14-g/more-count): a "(n more)" note says how many rows or
// columns are not shown: n = len(all) - shown. It is printed under a guard
// `shown < len(all)`; the subtrahend must be the guard's `shown`, or a value
// equal to it there: when `shown` is defined exactly once as
// min(len(all), limit) and never re-bound, then `shown < len(all)` implies
// shown == limit, so `len(all) - limit` is accepted too. Anything else (the
// displayed count capped a second time, the configured limit used while
// fewer are drawn) makes the note disagree with what is on screen.
func c14MoreCount(c *Ctx, r *Report, rule string) {
	n := 0
	for _, fi := range c.AllFuncDecls("rare/pkg/multiterm/termrenderers") {
		info := fi.Pkg.TypesInfo
		isLen := func(e ast.Expr) bool {
			ce, ok := ast.Unparen(e).(*ast.CallExpr)
			return ok && calleeName(info, ce) == "builtin.len" && len(ce.Args) == 1
		}
		var fg *FGraph
		ast.Inspect(fi.Decl.Body, func(y ast.Node) bool {
			ce, ok := y.(*ast.CallExpr)
			if !ok || len(ce.Args) < 2 {
				return true
			}
			isNote := false
			for _, a := range ce.Args {
				if sv, isS := constString(info, a); isS && strings.Contains(sv, "more)") {
					isNote = true
				}
			}
			if !isNote {
				return true
			}
			recognised := false
			defer func() {
				if !recognised {
					// the note exists but its count is not written as len(all) - shown (a local, a helper): no verdict
					n++
					r.OK(rule, fi.Name, exprStr(ce.Fun)+" (..more)", c.Pos(ce.Pos()), "not decided: the count of this note is not written as len(all) - shown at the call")
				}
			}()
			for _, a := range ce.Args {
				sub, isSub := ast.Unparen(unalias(info, fi.Decl, a)).(*ast.BinaryExpr)
				if !isSub || sub.Op != token.SUB || !isLen(sub.X) {
					continue
				}
				recognised = true
				all := sub.X
				n++
				if fg == nil {
					fg = NewFGraph(fi.Decl.Body, info)
					fg.SolveFacts(analyseVars(info, fi.Decl))
				}
				// the guard: a fact len(all) > shown known at the note (if / guard clause / switch alike)
				var shown ast.Expr
				guardText := ""
				for _, f := range fg.FactsAtPos(ce.Pos()) {
					if f.Tag != nil {
						continue
					}
					be, isB := ast.Unparen(f.Cond).(*ast.BinaryExpr)
					if !isB {
						continue
					}
					op := be.Op
					if !f.Truth {
						op = negateTok(op)
					}
					switch {
					case op == token.GTR && exprStr(be.X) == exprStr(all):
						shown, guardText = be.Y, exprStr(be)
					case op == token.LSS && exprStr(be.Y) == exprStr(all):
						shown, guardText = be.X, exprStr(be)
					}
				}
				if shown == nil {
					r.OK(rule, fi.Name, exprStr(sub), c.Pos(sub.Pos()), "not decided: no guard of the form len(all) > shown is known at the note (the count may be guarded through a local)")
					continue
				}
				okNote := exprStr(ast.Unparen(sub.Y)) == exprStr(ast.Unparen(shown))
				why := "the note subtracts the guard's own count"
				if !okNote {
					// shown := min(len(all), limit), bound exactly once, and the note subtracts limit
					if so := identObj(info, shown); so != nil {
						defs := 0
						var def ast.Expr
						ast.Inspect(fi.Decl.Body, func(z ast.Node) bool {
							switch t := z.(type) {
							case *ast.AssignStmt:
								for i, l := range t.Lhs {
									if identObj(info, l) == so {
										defs++
										if len(t.Rhs) == len(t.Lhs) {
											def = t.Rhs[i]
										}
									}
								}
							case *ast.IncDecStmt:
								if identObj(info, t.X) == so {
									defs += 2
								}
							}
							return true
						})
						if mc, isCall := ast.Unparen(def).(*ast.CallExpr); defs == 1 && isCall && len(mc.Args) == 2 {
							nm := calleeName(info, mc)
							if nm == "builtin.min" || strings.HasSuffix(nm, ".mini") || strings.HasSuffix(nm, ".min") {
								for k := 0; k < 2; k++ {
									if exprStr(ast.Unparen(mc.Args[k])) == exprStr(all) && exprStr(ast.Unparen(mc.Args[1-k])) == exprStr(ast.Unparen(sub.Y)) {
										okNote = true
										why = "the displayed count is min(len, limit), bound once: under the guard it equals the limit the note subtracts"
									}
								}
							}
						}
					}
				}
				r.Check(okNote, rule, fi.Name, exprStr(sub), c.Pos(sub.Pos()), "agreement: "+why,
					"the \"(n more)\" note is computed as "+exprStr(sub)+" under the guard "+guardText+", but "+exprStr(sub.Y)+" is not (provably) the number shown there: when the displayed count is limited a second time (to the terminal width, say) the note reports too few, zero or a negative number of hidden rows / columns")
			}
			return true
		})
	}
	r.Floor(rule, 3, "heatmap rows, heatmap columns, spark rows")
}
