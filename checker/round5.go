package main

// Rules added in the fifth round (seeded changes m13-m15 and the re-run of rounds 1-4).

import (
	"go/ast"
	"go/token"
	"go/types"
)

// ---------------------------------------------------------------- C03-c records reach encoding/csv verbatim

// c03CSVVerbatim (C03-c/csv-verbatim): two ways in which a record that was
// handed to the CSV layer stops being the record encoding/csv writes.
//
//  1. encoding/csv.Writer.UseCRLF. With it set the writer does not only end
//     records with CRLF: inside a quoted field it rewrites "\n" to "\r\n" and
//     drops every "\r" (documented behaviour of (*Writer).Write), so a key
//     holding a carriage return is exported as a different key. Any
//     assignment of a non-false value to that field is reported.
//  2. A method of a type that embeds *csv.Writer and shadows one of the
//     promoted record methods (Write, WriteAll) must pass its parameter to the
//     embedded method as it came: no store into the parameter's elements, and
//     the embedded call receives the parameter itself.
func c03CSVVerbatim(c *Ctx, r *Report, rule string) {
	n := 0
	for _, fi := range c.AllFuncDecls() {
		info := fi.Pkg.TypesInfo
		ast.Inspect(fi.Decl.Body, func(x ast.Node) bool {
			switch t := x.(type) {
			case *ast.AssignStmt:
				for i, l := range t.Lhs {
					fv := fieldVar(info, l)
					if fv == nil || fv.Name() != "UseCRLF" || fv.Pkg() == nil || fv.Pkg().Path() != "encoding/csv" {
						continue
					}
					n++
					isFalse := false
					if len(t.Lhs) == len(t.Rhs) {
						if tv, ok := info.Types[t.Rhs[i]]; ok && tv.Value != nil && tv.Value.String() == "false" {
							isFalse = true
						}
					}
					r.Check(isFalse, rule, fi.Name, exprStr(l), c.Pos(t.Pos()), "table: UseCRLF stays false",
						"encoding/csv.Writer.UseCRLF is switched on: besides ending records with CRLF the writer then drops every carriage return inside a field (and rewrites \\n to \\r\\n), so a key that contains \\r is exported as a different key and the CSV no longer parses back to the aggregated keys")
				}
			case *ast.CompositeLit:
				if !isNamed(info.TypeOf(t), "encoding/csv", "Writer") {
					return true
				}
				for _, el := range t.Elts {
					if kv, ok := el.(*ast.KeyValueExpr); ok {
						if id, ok := kv.Key.(*ast.Ident); ok && id.Name == "UseCRLF" {
							n++
							tv := info.Types[kv.Value]
							r.Check(tv.Value != nil && tv.Value.String() == "false", rule, fi.Name, "UseCRLF: "+exprStr(kv.Value), c.Pos(kv.Pos()), "table: UseCRLF stays false",
								"encoding/csv.Writer literal with UseCRLF set: carriage returns inside keys are dropped on export")
						}
					}
				}
			}
			return true
		})
	}
	// shadowing methods
	for _, fi := range c.AllFuncDecls("rare/pkg/csv") {
		fd := fi.Decl
		if fd.Recv == nil || len(fd.Recv.List) != 1 || fd.Body == nil {
			continue
		}
		if fd.Name.Name != "Write" && fd.Name.Name != "WriteAll" {
			continue
		}
		info := fi.Pkg.TypesInfo
		rt := info.TypeOf(fd.Recv.List[0].Type)
		if p, ok := rt.(*types.Pointer); ok {
			rt = p.Elem()
		}
		st, _ := rt.Underlying().(*types.Struct)
		embeds := false
		if st != nil {
			for i := 0; i < st.NumFields(); i++ {
				if st.Field(i).Embedded() && isNamed(st.Field(i).Type(), "encoding/csv", "Writer") {
					embeds = true
				}
			}
		}
		if !embeds || fd.Type.Params == nil || len(fd.Type.Params.List) != 1 || len(fd.Type.Params.List[0].Names) != 1 {
			continue
		}
		n++
		param := info.Defs[fd.Type.Params.List[0].Names[0]]
		problem := ""
		forwarded := false
		ast.Inspect(fd.Body, func(x ast.Node) bool {
			switch t := x.(type) {
			case *ast.AssignStmt:
				for _, l := range t.Lhs {
					if ix, ok := ast.Unparen(l).(*ast.IndexExpr); ok {
						if root := rootIdent(ix.X); root != nil && info.Uses[root] == param {
							problem = "stores into the record it was given (" + exprStr(l) + ")"
						}
					}
					if id, ok := ast.Unparen(l).(*ast.Ident); ok && info.Uses[id] == param {
						problem = "re-binds the record it was given"
					}
				}
			case *ast.CallExpr:
				nm := calleeName(info, t)
				if nm == "(*encoding/csv.Writer)."+fd.Name.Name && len(t.Args) == 1 {
					if id, ok := ast.Unparen(t.Args[0]).(*ast.Ident); ok && info.Uses[id] == param {
						forwarded = true
					} else {
						problem = "hands " + exprStr(t.Args[0]) + " to encoding/csv instead of the record it was given"
					}
				}
			}
			return true
		})
		if problem == "" && !forwarded {
			problem = "never hands the record to the embedded encoding/csv method"
		}
		r.Check(problem == "", rule, fi.Name, "shadows (*csv.Writer)."+fd.Name.Name, c.Pos(fd.Pos()), "flow: the record is forwarded unchanged",
			"the method shadows the promoted encoding/csv method and "+problem+": every writer of the package goes through it, so the exported fields are no longer the aggregated keys")
	}
	_ = n // "for every" rule: zero instances on the pinned tree (no floor); positive examples are seeds C03-m12 and C03-m14
}

// ---------------------------------------------------------------- C02-f the POSIX flag yields leftmost-longest

// c02PosixLongest (C02-f/posix-longest): in the regexp back end, whenever the
// posix flag holds, the regexp handed back was built by regexp.CompilePOSIX /
// MustCompilePOSIX or had Longest() called on it. Only those give the
// leftmost-longest semantics the flag selects; regexp.Compile of a POSIX
// pattern is leftmost-first.
func c02PosixLongest(c *Ctx, r *Report, rule string) {
	const pkg = "rare/pkg/matchers/fastregex"
	p := c.ByPath[pkg]
	if p == nil {
		r.Undecided(rule, pkg, "package", "-", "package not found")
		return
	}
	info := p.TypesInfo
	n := 0
	for _, fi := range c.AllFuncDecls(pkg) {
		fd := fi.Decl
		if fd.Body == nil || fd.Type.Params == nil {
			continue
		}
		// functions with a bool parameter that return a *regexp.Regexp
		var posix types.Object
		for _, f := range fd.Type.Params.List {
			for _, nm := range f.Names {
				if o := info.Defs[nm]; o != nil && isBool(o.Type()) {
					posix = o
				}
			}
		}
		if posix == nil || fd.Type.Results == nil {
			continue
		}
		retRe := false
		for _, f := range fd.Type.Results.List {
			if pt, ok := info.TypeOf(f.Type).(*types.Pointer); ok && isNamed(pt.Elem(), "regexp", "Regexp") {
				retRe = true
			}
		}
		if !retRe {
			continue
		}
		fg := NewFGraph(fd.Body, info)
		fg.SolveFacts(analyseVars(info, fd))
		// locals on which Longest() is called
		longest := map[types.Object]bool{}
		ast.Inspect(fd.Body, func(x ast.Node) bool {
			if ce, ok := x.(*ast.CallExpr); ok && calleeName(info, ce) == "(*regexp.Regexp).Longest" {
				if se, ok := ce.Fun.(*ast.SelectorExpr); ok {
					if o := identObj(info, se.X); o != nil {
						longest[o] = true
					}
				}
			}
			return true
		})
		ast.Inspect(fd.Body, func(x ast.Node) bool {
			if _, isLit := x.(*ast.FuncLit); isLit {
				return false
			}
			rs, ok := x.(*ast.ReturnStmt)
			if !ok || len(rs.Results) == 0 {
				return true
			}
			res := ast.Unparen(rs.Results[0])
			if id, ok := res.(*ast.Ident); ok && id.Name == "nil" {
				return true
			}
			// may posix hold here?
			posixFalse := false
			for _, f := range fg.FactsAtPos(rs.Pos()) {
				if f.Tag != nil {
					continue
				}
				if identObj(info, f.Cond) == posix && !f.Truth {
					posixFalse = true
				}
				if ue, ok := ast.Unparen(f.Cond).(*ast.UnaryExpr); ok && ue.Op == token.NOT && identObj(info, ue.X) == posix && f.Truth {
					posixFalse = true
				}
			}
			if posixFalse {
				return true
			}
			n++
			okOrigin := false
			switch t := res.(type) {
			case *ast.CallExpr:
				nm := calleeName(info, t)
				okOrigin = nm == "regexp.CompilePOSIX" || nm == "regexp.MustCompilePOSIX"
			case *ast.Ident:
				o := info.Uses[t]
				if longest[o] {
					okOrigin = true
				} else if def := aliasDef(info, fd.Body, t); def != nil {
					if ce, ok := ast.Unparen(def).(*ast.CallExpr); ok {
						nm := calleeName(info, ce)
						okOrigin = nm == "regexp.CompilePOSIX" || nm == "regexp.MustCompilePOSIX"
					}
				}
			}
			r.Check(okOrigin, rule, fi.Name, "return "+exprStr(res), c.Pos(rs.Pos()), "flow: under the posix flag the expression comes from regexp.CompilePOSIX (or Longest() was called on it)",
				"on a path where the posix flag may hold the function returns a regexp that was not built by regexp.CompilePOSIX and never had Longest() called: matching is leftmost-first, so {0}/{N} differ from the POSIX leftmost-longest match the flag selects (e.g. (warn|warning))")
			return true
		})
	}
	r.Floor(rule, 1, "buildRegexp's POSIX return")
}


// ---------------------------------------------------------------- C06-g -z decides by probing the content

// c06GzipProbe (C06-g/gzip-probe): in the file opener, on every path on which
// the gunzip flag may hold and that hands back a reader without error, the
// gzip probe (compress/gzip.NewReader on the opened file) was performed.
// Whether an input is gzip can only be learnt from its first bytes: file
// size, name or mode say nothing for FIFOs, /dev/stdin or procfs entries.
func c06GzipProbe(c *Ctx, r *Report, rule string) {
	fi := c.MustFunc(r, rule, batchersPkg, "openFileToReader")
	if fi == nil {
		return
	}
	fd := fi.Decl
	info := fi.Pkg.TypesInfo
	var gunzip types.Object
	for _, f := range fd.Type.Params.List {
		for _, nm := range f.Names {
			if o := info.Defs[nm]; o != nil && isBool(o.Type()) {
				gunzip = o
			}
		}
	}
	if gunzip == nil {
		r.Undecided(rule, fi.Name, "bool parameter", c.Pos(fd.Pos()), "the opener no longer takes the gunzip flag as a parameter: cannot relate the probe to the flag")
		return
	}
	fg := NewFGraph(fd.Body, info)
	fg.SolveFacts(analyseVars(info, fd))
	probe := func(nd *FNode) bool {
		if nd.N == nil {
			return false
		}
		for _, ce := range callsIn(nd.N) {
			if calleeName(info, ce) == "compress/gzip.NewReader" {
				return true
			}
		}
		return false
	}
	n := 0
	for _, nd := range fg.Nodes {
		rs, ok := nd.N.(*ast.ReturnStmt)
		if !ok || len(rs.Results) != 2 {
			continue
		}
		if id, ok := ast.Unparen(rs.Results[1]).(*ast.Ident); !ok || id.Name != "nil" {
			continue // error return
		}
		gunzipFalse := false
		for _, f := range fg.FactsAt(nd.ID) {
			if f.Tag == nil && identObj(info, f.Cond) == gunzip && !f.Truth {
				gunzipFalse = true
			}
		}
		if gunzipFalse {
			continue
		}
		n++
		// a path from entry to this return that avoids the probe, along which gunzip is not known false
		avoid := fg.ReachSet(fg.Entry, probe, func(from *FNode, e FEdge) bool {
			if e.Cond != nil && e.Tag == nil && identObj(info, e.Cond) == gunzip && !e.Truth {
				return false // the !gunzip side
			}
			return true
		})
		r.Check(!avoid[nd.ID], rule, fi.Name, "return "+exprStr(rs.Results[0])+", nil", c.Pos(rs.Pos()), "path: every successful return under the gunzip flag passes the gzip probe",
			"with the gunzip flag set there is a path to this successful return that never probed the content with gzip.NewReader: a gzip stream arriving that way (FIFO, /dev/stdin, procfs: size 0, no regular mode) is read as raw bytes and cut into garbage lines without any error")
	}
	r.Floor(rule, 1, "openFileToReader's successful return")
}
