package main

import (
	"fmt"
	"go/ast"
	"go/token"
	"go/types"
	"strings"
)

// ---------------------------------------------------------------- pooled contexts

func isPoolCall(info *types.Info, call *ast.CallExpr, method string) bool {
	f := calleeFunc(info, call)
	if f == nil {
		return false
	}
	o := f.Origin()
	return o.Name() == method && o.Pkg() != nil && o.Pkg().Path() == "rare/pkg/slicepool" && strings.Contains(o.FullName(), "ObjectPool")
}

func isKeyBuilderContext(t types.Type) bool {
	return isNamed(t, "rare/pkg/expressions", "KeyBuilderContext")
}

// contextFields lists the fields of struct type t whose type is the
// KeyBuilderContext interface.
func contextFields(t types.Type) []*types.Var {
	if p, ok := t.Underlying().(*types.Pointer); ok {
		t = p.Elem()
	}
	st, ok := t.Underlying().(*types.Struct)
	if !ok {
		return nil
	}
	var out []*types.Var
	for i := 0; i < st.NumFields(); i++ {
		if isKeyBuilderContext(st.Field(i).Type()) {
			out = append(out, st.Field(i))
		}
	}
	return out
}

// c05PoolTypestate: every pooled object that holds a context is initialised
// with the caller's context before any other use and returned on every exit.
// poolAcquireWrapper: call is `W(args..)` where W is a repository function that
// takes an object from a pool, binds the object's context field(s) to one of
// its own parameters on every path, and returns the object. Returns the
// pool's text, the index of that parameter and the wrapper's declaration.
func poolAcquireWrapper(c *Ctx, info *types.Info, call *ast.CallExpr) (pool string, ctxArg int, w *FuncInfo) {
	f := calleeFunc(info, call)
	if f == nil || !c.IsRarePkg(f.Pkg()) {
		return "", -1, nil
	}
	fi := funcDeclOf(c, f)
	if fi == nil {
		return "", -1, nil
	}
	return poolAcquireWrapperDecl(c, fi)
}

// poolAcquireWrapperDecl decides whether fi itself is such a wrapper.
func poolAcquireWrapperDecl(c *Ctx, fi *FuncInfo) (pool string, ctxArg int, w *FuncInfo) {
	if fi == nil || fi.Decl.Body == nil || fi.Decl.Type.Results == nil || len(fi.Decl.Type.Results.List) != 1 {
		return "", -1, nil
	}
	winfo := fi.Pkg.TypesInfo
	var v types.Object
	var getPos token.Pos
	for _, st := range fi.Decl.Body.List {
		as, ok := st.(*ast.AssignStmt)
		if !ok || len(as.Lhs) != 1 || len(as.Rhs) != 1 {
			continue
		}
		if ce, ok := ast.Unparen(as.Rhs[0]).(*ast.CallExpr); ok && isPoolCall(winfo, ce, "Get") && v == nil {
			v = identObj(winfo, as.Lhs[0])
			getPos = as.Pos()
			if se, ok := ce.Fun.(*ast.SelectorExpr); ok {
				pool = exprStr(se.X)
			}
		}
	}
	if v == nil {
		return "", -1, nil
	}
	cfs := contextFields(v.Type())
	if len(cfs) == 0 {
		return "", -1, nil
	}
	// parameters of context type
	var params []types.Object
	if fi.Decl.Type.Params != nil {
		for _, fl := range fi.Decl.Type.Params.List {
			for _, id := range fl.Names {
				params = append(params, winfo.Defs[id])
			}
		}
	}
	ctxArg = -1
	fg := NewFGraph(fi.Decl.Body, winfo)
	var initNodes []int
	for _, nd := range fg.Nodes {
		as, ok := nd.N.(*ast.AssignStmt)
		if !ok || len(as.Lhs) != 1 || len(as.Rhs) != 1 {
			continue
		}
		lhs := ast.Unparen(as.Lhs[0])
		bind := func(val ast.Expr) {
			for i, p := range params {
				if p != nil && identObj(winfo, val) == p && isKeyBuilderContext(p.Type()) {
					ctxArg = i
					initNodes = append(initNodes, nd.ID)
				}
			}
		}
		if st, ok := lhs.(*ast.StarExpr); ok && identObj(winfo, st.X) == v {
			if cl, ok := ast.Unparen(as.Rhs[0]).(*ast.CompositeLit); ok {
				for _, el := range cl.Elts {
					if kv, ok := el.(*ast.KeyValueExpr); ok {
						if kid, ok := kv.Key.(*ast.Ident); ok {
							for _, cf := range cfs {
								if winfo.Uses[kid] == cf {
									bind(kv.Value)
								}
							}
						}
					}
				}
			}
		}
		if se, ok := lhs.(*ast.SelectorExpr); ok && identObj(winfo, se.X) == v {
			fv := fieldVar(winfo, se)
			for _, cf := range cfs {
				if fv == cf {
					bind(as.Rhs[0])
				}
			}
		}
	}
	if ctxArg < 0 {
		return "", -1, nil
	}
	// every return returns v and is preceded by the binding on every path
	okAll := true
	getNode := fg.NodeOf(getPos)
	isInit := func(nd *FNode) bool {
		for _, id := range initNodes {
			if id == nd.ID {
				return true
			}
		}
		return false
	}
	for _, nd := range fg.Nodes {
		rs, ok := nd.N.(*ast.ReturnStmt)
		if !ok {
			continue
		}
		if len(rs.Results) != 1 || identObj(winfo, rs.Results[0]) != v {
			okAll = false
		}
		if fg.Reaches(getNode, nd.ID, isInit) {
			okAll = false
		}
	}
	if !okAll {
		return "", -1, nil
	}
	return pool, ctxArg, fi
}

func c05PoolTypestate(c *Ctx, r *Report, rulePrefix string) {
	rule := rulePrefix + "/pool-init"
	rule2 := rulePrefix + "/pool-return"
	for _, fi := range c.AllFuncDecls("rare/pkg/expressions") {
		info := fi.Pkg.TypesInfo
		for _, fl := range funcLitsIn(fi.Decl.Body) {
			// the literal's own context parameter
			var ctxParam types.Object
			if fl.Type.Params != nil {
				for _, f := range fl.Type.Params.List {
					for _, id := range f.Names {
						if o := info.Defs[id]; o != nil && isKeyBuilderContext(o.Type()) {
							ctxParam = o
						}
					}
				}
			}
			var fg *FGraph
			inspectNoLit(fl.Body, func(n ast.Node) bool {
				as, ok := n.(*ast.AssignStmt)
				if !ok || len(as.Lhs) != 1 || len(as.Rhs) != 1 {
					return true
				}
				call, ok := ast.Unparen(as.Rhs[0]).(*ast.CallExpr)
				if !ok {
					return true
				}
				wrapPool, wrapArg := "", -1
				if !isPoolCall(info, call, "Get") {
					wrapPool, wrapArg, _ = poolAcquireWrapper(c, info, call)
					if wrapArg < 0 {
						return true
					}
				}
				v := identObj(info, as.Lhs[0])
				if v == nil {
					return true
				}
				cfs := contextFields(v.Type())
				if len(cfs) == 0 {
					return true
				}
				if fg == nil {
					fg = NewFGraph(fl.Body, info)
				}
				getNode := fg.NodeOf(as.Pos())
				poolText := ""
				if se, ok := call.Fun.(*ast.SelectorExpr); ok {
					poolText = exprStr(se.X)
				}
				if wrapArg >= 0 {
					poolText = wrapPool
				}
				// initialisation nodes
				isInit := func(n ast.Node) bool {
					found := false
					inspectNoLit(n, func(x ast.Node) bool {
						a2, ok := x.(*ast.AssignStmt)
						if !ok || len(a2.Lhs) != 1 || len(a2.Rhs) != 1 {
							return true
						}
						lhs := ast.Unparen(a2.Lhs[0])
						// *v = T{ field: ctx }
						if st, ok := lhs.(*ast.StarExpr); ok && identObj(info, st.X) == v {
							if cl, ok := ast.Unparen(a2.Rhs[0]).(*ast.CompositeLit); ok {
								for _, el := range cl.Elts {
									if kv, ok := el.(*ast.KeyValueExpr); ok && ctxParam != nil && identObj(info, kv.Value) == ctxParam {
										if kid, ok := kv.Key.(*ast.Ident); ok {
											for _, cf := range cfs {
												if info.Uses[kid] == cf {
													found = true
												}
											}
										}
									}
								}
							}
						}
						// v.field = ctx
						if se, ok := lhs.(*ast.SelectorExpr); ok && identObj(info, se.X) == v && ctxParam != nil && identObj(info, a2.Rhs[0]) == ctxParam {
							fv := fieldVar(info, se)
							for _, cf := range cfs {
								if fv == cf {
									found = true
								}
							}
						}
						return true
					})
					return found
				}
				var initNodes []int
				for _, nd := range fg.Nodes {
					if nd.N != nil && isInit(nd.N) {
						initNodes = append(initNodes, nd.ID)
					}
				}
				// acquired through a wrapper that binds the context field to the argument passed here
				if wrapArg >= 0 && wrapArg < len(call.Args) && ctxParam != nil && identObj(info, call.Args[wrapArg]) == ctxParam {
					initNodes = append(initNodes, getNode)
				}
				// uses of v (incl. nested literals): every use must be dominated by an init node
				okAll := true
				detail := ""
				ast.Inspect(fl.Body, func(x ast.Node) bool {
					id, ok := x.(*ast.Ident)
					if !ok || info.Uses[id] != v {
						return true
					}
					un := fg.NodeOf(id.Pos())
					if un < 0 || un == getNode {
						return true
					}
					nd := fg.Nodes[un]
					// the init statement itself and Return/defer Return are fine
					if isInit(nd.N) {
						return true
					}
					isReturn := false
					ast.Inspect(nd.N, func(y ast.Node) bool {
						if ce, ok := y.(*ast.CallExpr); ok && isPoolCall(info, ce, "Return") {
							for _, a := range ce.Args {
								if identObj(info, a) == v {
									isReturn = true
								}
							}
						}
						return true
					})
					if isReturn {
						return true
					}
					dom := false
					for _, in := range initNodes {
						if fg.Dominates(in, un) {
							dom = true
						}
					}
					if !dom {
						okAll = false
						detail = c.Pos(id.Pos())
					}
					return true
				})
				where := fi.Name
				if ctxParam == nil {
					okAll = false
					detail = "no context parameter in the enclosing literal"
				}
				r.Check(okAll && len(initNodes) > 0, rule, where, exprStr(as.Lhs[0])+" := "+exprStr(call), c.Pos(as.Pos()),
					"typestate: the pooled context is bound to the caller's context before any use",
					"a pooled context object is used (at "+detail+") before its context field is re-bound to the caller's context: it still refers to whatever match the previous user (possibly another goroutine) evaluated, or is nil on a fresh pool")
				// Return on every exit: a defer of pool.Return(v) that dominates... or every path passes Return
				retBarrier := func(nd *FNode) bool {
					if nd.N == nil {
						return false
					}
					hit := false
					ast.Inspect(nd.N, func(y ast.Node) bool {
						if ce, ok := y.(*ast.CallExpr); ok && isPoolCall(info, ce, "Return") {
							if se, ok := ce.Fun.(*ast.SelectorExpr); ok && exprStr(se.X) == poolText {
								for _, a := range ce.Args {
									if identObj(info, a) == v {
										hit = true
									}
								}
							}
						}
						return true
					})
					return hit
				}
				leaks := fg.Reaches(getNode, fg.Exit, retBarrier)
				r.Check(!leaks, rule2, where, exprStr(as.Lhs[0])+" := "+exprStr(call), c.Pos(as.Pos()),
					"pairing: Return is deferred or executed on every path to the exit",
					"a path from Get to the function's exit does not return the object to the pool")
				// exactly once: no path carries two Returns of the same object (a deferred Return counts where it is registered)
				var retNodes []int
				for _, nd := range fg.Nodes {
					if retBarrier(nd) {
						retNodes = append(retNodes, nd.ID)
					}
				}
				double := ""
				for _, a := range retNodes {
					for _, b := range retNodes {
						if a != b && fg.Reaches(a, b, func(nd *FNode) bool { return nd.ID == getNode }) {
							double = c.Pos(fg.Nodes[b].N.Pos())
						}
					}
				}
				r.Check(double == "", rule2+"-once", where, exprStr(as.Lhs[0])+" := "+exprStr(call), c.Pos(as.Pos()),
					"pairing: no path returns the pooled object twice",
					"the pooled object is returned to the pool twice on one path (second Return at "+double+"; a deferred Return still runs at exit): the pool then hands the same object to two users at once - nested or concurrent evaluations overwrite each other's {0}/{1} and a context can become its own parent (unbounded recursion)")
				return true
			})
		}
	}
	r.Floor(rule, 6, "5 sub-context sites in funcsRange, kfMath and the funcs-file stage")
	r.Floor(rule2, 6, "same sites")
	r.Floor(rule2+"-once", 6, "same sites")
}

// c05StagePurity: stage closures (func(KeyBuilderContext) string) write no
// captured variable and no package-level variable.
func c05StagePurity(c *Ctx, r *Report, rulePrefix string) {
	rule := rulePrefix + "/stage-writes"
	n := 0
	for _, p := range c.Pkgs {
		if !strings.HasPrefix(p.PkgPath, "rare/pkg/expressions") {
			continue
		}
		info := p.TypesInfo
		for _, file := range p.Syntax {
			var visit func(n ast.Node, name string)
			for _, d := range file.Decls {
				name := p.PkgPath
				if fd, ok := d.(*ast.FuncDecl); ok {
					name = funcDisplayName(p.PkgPath, fd)
				}
				visit = func(root ast.Node, name string) {
					ast.Inspect(root, func(x ast.Node) bool {
						fl, ok := x.(*ast.FuncLit)
						if !ok {
							return true
						}
						if !isStageLit(info, fl) {
							return true
						}
						n++
						bad := ""
						ast.Inspect(fl.Body, func(y ast.Node) bool {
							var lhs []ast.Expr
							switch t := y.(type) {
							case *ast.AssignStmt:
								lhs = t.Lhs
							case *ast.IncDecStmt:
								lhs = []ast.Expr{t.X}
							case *ast.RangeStmt:
								if t.Tok == token.ASSIGN {
									lhs = []ast.Expr{t.Key, t.Value}
								}
							}
							for _, l := range lhs {
								if l == nil {
									continue
								}
								id := rootIdent(l)
								if id == nil || id.Name == "_" {
									continue
								}
								o := info.Uses[id]
								if o == nil {
									continue // a definition
								}
								v, isVar := o.(*types.Var)
								if !isVar {
									continue
								}
								if v.Pkg() != nil && v.Parent() == v.Pkg().Scope() {
									bad = "package-level variable " + v.Name()
								} else if !within(fl, v.Pos()) {
									bad = "captured variable " + v.Name()
								}
							}
							return true
						})
						r.Check(bad == "", rule, name, "stage literal", c.Pos(fl.Pos()), "effect: assigns only its own locals", "a stage closure assigns "+bad+": stages are shared by all worker goroutines (data race) and by the constant-folding probe (the write makes evaluation history-dependent)")
						return false // nested literals are part of this stage
					})
				}
				visit(d, name)
			}
		}
	}
	r.Extra["stage_literals"] = n
	r.Floor(rule, 70, "78 stage literals in pkg/expressions on the pinned tree")
}

func isStageLit(info *types.Info, fl *ast.FuncLit) bool {
	sig, ok := info.TypeOf(fl).(*types.Signature)
	if !ok || sig.Params().Len() != 1 || sig.Results().Len() < 1 {
		return false
	}
	if !isKeyBuilderContext(sig.Params().At(0).Type()) {
		return false
	}
	if sig.Results().Len() == 2 {
		// typed stage: func(ctx) (T, bool) - evaluated per line by every worker like any other stage
		b, ok := sig.Results().At(1).Type().Underlying().(*types.Basic)
		return ok && b.Kind() == types.Bool
	}
	b, ok := sig.Results().At(0).Type().Underlying().(*types.Basic)
	return ok && sig.Results().Len() == 1 && b.Kind() == types.String
}

// ---------------------------------------------------------------- close discipline

type closeSite struct {
	unit   *bodyUnit
	call   *ast.CallExpr
	chanOb types.Object // field var or local var of the channel
	recv   string       // receiver text for wrapper closes ("out")
	defer_ bool
}

// chanObjOf resolves a channel expression to its variable (field or local).
func chanObjOf(info *types.Info, e ast.Expr) types.Object {
	e = ast.Unparen(e)
	if fv := fieldVar(info, e); fv != nil {
		return fv
	}
	return identObj(info, e)
}

func c05CloseDiscipline(c *Ctx, r *Report, units []*bodyUnit, rulePrefix string) {
	rule := rulePrefix + "/close-after-senders"
	// 1. direct closes and sends, by channel object
	type fnFacts struct {
		closes map[types.Object]bool
		sends  map[types.Object]bool
	}
	declFacts := map[*types.Func]*fnFacts{}
	for _, u := range units {
		if isTestSupportPkg(u.Pkg.PkgPath) || u.Lit != nil {
			continue
		}
		info := u.Pkg.TypesInfo
		obj, _ := info.Defs[u.Decl.Name].(*types.Func)
		if obj == nil {
			continue
		}
		ff := &fnFacts{closes: map[types.Object]bool{}, sends: map[types.Object]bool{}}
		// only statements directly in the declaration body (not in literals) make a wrapper
		inspectNoLit(u.Decl.Body, func(n ast.Node) bool {
			switch t := n.(type) {
			case *ast.CallExpr:
				if calleeName(info, t) == "builtin.close" && len(t.Args) == 1 {
					if o := chanObjOf(info, t.Args[0]); o != nil {
						ff.closes[o] = true
					}
				}
			case *ast.SendStmt:
				if o := chanObjOf(info, t.Chan); o != nil {
					ff.sends[o] = true
				}
			}
			return true
		})
		declFacts[obj] = ff
	}
	// wrapper closers / sender helpers on struct fields
	closerFns := map[*types.Func]types.Object{}
	senderFns := map[*types.Func]types.Object{}
	for f, ff := range declFacts {
		for o := range ff.closes {
			if v, ok := o.(*types.Var); ok && v.IsField() {
				closerFns[f] = o
			}
		}
		for o := range ff.sends {
			if v, ok := o.(*types.Var); ok && v.IsField() {
				senderFns[f] = o
			}
		}
	}
	// a method that calls a sender helper on its own receiver (outside closures) is
	// itself a sender helper of that channel (helpers extracted from the send loops)
	for changed := true; changed; {
		changed = false
		for _, u := range units {
			if isTestSupportPkg(u.Pkg.PkgPath) || u.Lit != nil {
				continue
			}
			info := u.Pkg.TypesInfo
			obj, _ := info.Defs[u.Decl.Name].(*types.Func)
			if obj == nil || senderFns[obj] != nil {
				continue
			}
			if u.Decl.Recv == nil {
				// a private plain function that calls a sender helper on one of its parameters (the body of a
				// reader goroutine moved into a named function that is handed the batcher)
				if u.Decl.Name.IsExported() || u.Decl.Type.Params == nil {
					continue
				}
				params := map[types.Object]bool{}
				for _, f := range u.Decl.Type.Params.List {
					for _, nm := range f.Names {
						params[info.Defs[nm]] = true
					}
				}
				inspectNoLit(u.Decl.Body, func(n ast.Node) bool {
					if _, isGo := n.(*ast.GoStmt); isGo {
						return false
					}
					call, ok := n.(*ast.CallExpr)
					if !ok {
						return true
					}
					f := calleeFunc(info, call)
					if f == nil || senderFns[f] == nil || senderFns[obj] != nil {
						return true
					}
					if se, ok := call.Fun.(*ast.SelectorExpr); ok && params[identObj(info, se.X)] {
						senderFns[obj] = senderFns[f]
						changed = true
					}
					return true
				})
				continue
			}
			if len(u.Decl.Recv.List) != 1 || len(u.Decl.Recv.List[0].Names) != 1 {
				continue
			}
			recvObj := info.Defs[u.Decl.Recv.List[0].Names[0]]
			inspectNoLit(u.Decl.Body, func(n ast.Node) bool {
				if _, isGo := n.(*ast.GoStmt); isGo {
					return false
				}
				call, ok := n.(*ast.CallExpr)
				if !ok {
					return true
				}
				f := calleeFunc(info, call)
				if f == nil || senderFns[f] == nil || senderFns[obj] != nil {
					return true
				}
				if se, ok := call.Fun.(*ast.SelectorExpr); ok && recvObj != nil && identObj(info, se.X) == recvObj {
					senderFns[obj] = senderFns[f]
					changed = true
				}
				return true
			})
		}
	}
	// 2. enumerate close sites
	var sites []closeSite
	for _, u := range units {
		if isTestSupportPkg(u.Pkg.PkgPath) {
			continue
		}
		info := u.Pkg.TypesInfo
		deferCalls := map[*ast.CallExpr]bool{}
		inspectNoLit(u.Body, func(n ast.Node) bool {
			if d, ok := n.(*ast.DeferStmt); ok {
				deferCalls[d.Call] = true
			}
			return true
		})
		inspectNoLit(u.Body, func(n ast.Node) bool {
			ce, ok := n.(*ast.CallExpr)
			if !ok {
				return true
			}
			if calleeName(info, ce) == "builtin.close" && len(ce.Args) == 1 {
				o := chanObjOf(info, ce.Args[0])
				if o == nil {
					return true
				}
				// the close inside a wrapper method itself is judged at the wrapper's call sites
				if u.Lit == nil {
					if obj, _ := info.Defs[u.Decl.Name].(*types.Func); obj != nil && closerFns[obj] == o {
						return true
					}
				}
				recv := ""
				if se, ok := ast.Unparen(ce.Args[0]).(*ast.SelectorExpr); ok {
					recv = exprStr(se.X)
				}
				sites = append(sites, closeSite{unit: u, call: ce, chanOb: o, recv: recv, defer_: deferCalls[ce]})
				return true
			}
			if f := calleeFunc(info, ce); f != nil && closerFns[f] != nil {
				recv := ""
				if se, ok := ce.Fun.(*ast.SelectorExpr); ok {
					recv = exprStr(se.X)
				}
				sites = append(sites, closeSite{unit: u, call: ce, chanOb: closerFns[f], recv: recv, defer_: deferCalls[ce]})
			}
			return true
		})
	}
	// 3. judge each site
	coveredDecl := map[*ast.FuncDecl]map[types.Object]bool{}
	for _, s := range sites {
		u := s.unit
		info := u.Pkg.TypesInfo
		decl := u.Decl
		where := u.Name
		text := exprStr(s.call)
		pos := c.Pos(s.call.Pos())
		if coveredDecl[decl] == nil {
			coveredDecl[decl] = map[types.Object]bool{}
		}
		coveredDecl[decl][s.chanOb] = true
		// sender sites within the enclosing declaration
		type sender struct {
			pos  token.Pos
			unit *bodyUnit // innermost body containing the sender
		}
		var senders []sender
		isSameChan := func(e ast.Expr) bool {
			o := chanObjOf(info, e)
			if o != s.chanOb {
				return false
			}
			if v, ok := o.(*types.Var); ok && v.IsField() {
				if se, ok := ast.Unparen(e).(*ast.SelectorExpr); ok {
					return exprStr(se.X) == s.recv
				}
			}
			return true
		}
		ast.Inspect(decl.Body, func(n ast.Node) bool {
			switch t := n.(type) {
			case *ast.SendStmt:
				if isSameChan(t.Chan) {
					senders = append(senders, sender{t.Pos(), innermostUnit(units, t.Pos())})
				}
			case *ast.CallExpr:
				if f := calleeFunc(info, t); f != nil && senderFns[f] == s.chanOb {
					if se, ok := t.Fun.(*ast.SelectorExpr); ok && exprStr(se.X) == s.recv {
						senders = append(senders, sender{t.Pos(), innermostUnit(units, t.Pos())})
					}
				}
			}
			return true
		})
		// goroutine of a body: the nearest enclosing go-literal (or the declaration)
		goOf := func(b *bodyUnit) *bodyUnit {
			cur := b
			for cur != nil && cur.Lit != nil && !cur.IsGo {
				// parent body
				var parent *bodyUnit
				for _, cand := range units {
					if cand.Decl == cur.Decl && cand != cur && cand.Body.Pos() <= cur.Body.Pos() && cur.Body.End() <= cand.Body.End() {
						if parent == nil || cand.Body.End()-cand.Body.Pos() < parent.Body.End()-parent.Body.Pos() {
							parent = cand
						}
					}
				}
				cur = parent
			}
			return cur
		}
		closerGo := goOf(u)
		okAll := true
		var why []string
		nCross := 0
		for _, sd := range senders {
			sg := goOf(sd.unit)
			if sg == closerGo {
				// same goroutine: a deferred close runs at exit; otherwise no sender reachable after the close
				if s.defer_ {
					continue
				}
				if sd.unit == u {
					cn := u.FG.NodeOf(s.call.Pos())
					sn := u.FG.NodeOf(sd.pos)
					if cn >= 0 && sn >= 0 && u.FG.Reaches(cn, sn, nil) {
						okAll = false
						why = append(why, "a send at "+c.Pos(sd.pos)+" is reachable after the close")
					}
				} else {
					// sender inside a synchronous callback literal: the statement holding the literal must not follow the close
					cn := u.FG.NodeOf(s.call.Pos())
					sn := u.FG.NodeOf(sd.unit.Lit.Pos())
					if cn >= 0 && sn >= 0 && u.FG.Reaches(cn, sn, nil) {
						okAll = false
						why = append(why, "a callback that sends (at "+c.Pos(sd.pos)+") can run after the close")
					}
				}
				continue
			}
			nCross++
		}
		// cross-goroutine senders: WaitGroup discipline
		crossOK := true
		if nCross > 0 || hasGoMethodSenders(info, decl, senderFns, s.chanOb) {
			wgName, waitDom := waitDominates(info, u, s.call)
			if !waitDom {
				crossOK = false
				why = append(why, "the close is not dominated by a WaitGroup.Wait()")
			} else {
				// every go statement in the declaration that starts a sender must follow Add/Done
				ast.Inspect(decl.Body, func(n ast.Node) bool {
					g, ok := n.(*ast.GoStmt)
					if !ok {
						return true
					}
					isSenderGo := false
					var bodyToCheck *ast.BlockStmt
					var doneName string
					if fl, ok := ast.Unparen(g.Call.Fun).(*ast.FuncLit); ok {
						for _, sd := range senders {
							if within(fl, sd.pos) && goOf(sd.unit) != nil && goOf(sd.unit).Lit == fl {
								isSenderGo = true
							}
						}
						bodyToCheck = fl.Body
						doneName = wgName
					} else if f := calleeFunc(info, g.Call); f != nil {
						// go x.method(&wg, ...): method that sends on the channel field
						if reachesSender(c, f, senderFns, s.chanOb, declFacts) {
							isSenderGo = true
							if fi := funcDeclOf(c, f); fi != nil {
								bodyToCheck = fi.Decl.Body
								// parameter that receives &wg
								for i, a := range g.Call.Args {
									if ue, ok := ast.Unparen(a).(*ast.UnaryExpr); ok && ue.Op == token.AND && exprStr(ue.X) == wgName {
										idx := 0
										for _, pf := range fi.Decl.Type.Params.List {
											for _, id := range pf.Names {
												if idx == i {
													doneName = id.Name
												}
												idx++
											}
										}
									}
								}
							}
						}
					}
					if !isSenderGo {
						return true
					}
					if !addPrecedesGo(info, decl.Body, g, wgName) {
						crossOK = false
						why = append(why, "the go statement at "+c.Pos(g.Pos())+" is not preceded by "+wgName+".Add in the same block")
					}
					if bodyToCheck == nil || doneName == "" || !doneDeferredFirst(info, bodyToCheck, doneName) {
						crossOK = false
						why = append(why, "the goroutine started at "+c.Pos(g.Pos())+" does not defer "+wgName+".Done() before its first possible return")
					}
					// the waiter must be started/reached after this go statement in program text of the same function
					if u.Lit != nil && u.Lit.Pos() < g.Pos() && !within(u.Lit, g.Pos()) {
						crossOK = false
						why = append(why, "the goroutine that waits and closes is started before the sender goroutine at "+c.Pos(g.Pos()))
					}
					return true
				})
			}
		}
		r.Check(okAll && crossOK, rule, where, text, pos, fmt.Sprintf("order: %d sender site(s) in the same goroutine precede the close, %d in other goroutines are joined through a WaitGroup", len(senders)-nCross, nCross),
			"channel can be closed while a sender is still running (send on closed channel / lost data): "+strings.Join(why, "; "))
	}
	r.Floor(rule, 6, "Batcher.c (3 batchers), readChan, GlobExpand, bufferChan")
	// 4. who may send: every call of a sender helper lies in a declaration that also closes that channel
	rule2 := rulePrefix + "/senders-covered"
	forEachCall(c, func(p *packagesPkg, fd *ast.FuncDecl, call *ast.CallExpr) {
		if isTestSupportPkg(p.PkgPath) || fd == nil {
			return
		}
		f := calleeFunc(p.TypesInfo, call)
		if f == nil || senderFns[f] == nil {
			return
		}
		// calls from other sender helpers of the same channel are transitively covered
		if obj, _ := p.TypesInfo.Defs[fd.Name].(*types.Func); obj != nil && senderFns[obj] == senderFns[f] {
			return
		}
		ok := coveredDecl[fd] != nil && coveredDecl[fd][senderFns[f]]
		// go x.method(): the spawning declaration must cover it
		r.Check(ok, rule2, funcDisplayName(p.PkgPath, fd), exprStr(call), c.Pos(call.Pos()), "who-may-send: the calling declaration also orders the close of this channel after the call", "a function that sends on "+senderFns[f].Name()+" is called from a declaration that does not order the channel's close after it")
	})
	r.Floor(rule2, 3, "syncReaderToBatcher* call sites and asyncWorker spawn")
}

func hasGoMethodSenders(info *types.Info, decl *ast.FuncDecl, senderFns map[*types.Func]types.Object, ch types.Object) bool {
	found := false
	ast.Inspect(decl.Body, func(n ast.Node) bool {
		if g, ok := n.(*ast.GoStmt); ok {
			if f := calleeFunc(info, g.Call); f != nil && senderFns[f] == ch {
				found = true
			}
		}
		return true
	})
	return found
}

func funcDeclOf(c *Ctx, f *types.Func) *FuncInfo {
	if f.Pkg() == nil {
		return nil
	}
	for _, fi := range c.AllFuncDecls(f.Pkg().Path()) {
		if fi.Obj == f {
			return fi
		}
	}
	return nil
}

func reachesSender(c *Ctx, f *types.Func, senderFns map[*types.Func]types.Object, ch types.Object, _ interface{}) bool {
	return senderFns[f] == ch
}

// waitDominates: is the call dominated, in its own body, by a X.Wait() on a
// sync.WaitGroup? Returns the WaitGroup's text.
func waitDominates(info *types.Info, u *bodyUnit, call *ast.CallExpr) (string, bool) {
	cn := u.FG.NodeOf(call.Pos())
	if cn < 0 {
		return "", false
	}
	for _, nd := range u.FG.Nodes {
		if nd.N == nil {
			continue
		}
		for _, ce := range callsIn(nd.N) {
			if calleeName(info, ce) == "(*sync.WaitGroup).Wait" {
				if se, ok := ce.Fun.(*ast.SelectorExpr); ok && nd.ID != cn && u.FG.Dominates(nd.ID, cn) {
					return exprStr(se.X), true
				}
			}
		}
	}
	return "", false
}

// addPrecedesGo: in the block that directly contains the go statement, an
// earlier statement is `wg.Add(<positive constant>)`.
func addPrecedesGo(info *types.Info, body *ast.BlockStmt, g *ast.GoStmt, wg string) bool {
	ok := false
	ast.Inspect(body, func(n ast.Node) bool {
		var list []ast.Stmt
		switch t := n.(type) {
		case *ast.BlockStmt:
			list = t.List
		case *ast.CaseClause:
			list = t.Body
		case *ast.CommClause:
			list = t.Body
		}
		for i, st := range list {
			if st != ast.Stmt(g) {
				continue
			}
			for _, prev := range list[:i] {
				if es, isE := prev.(*ast.ExprStmt); isE {
					if ce, isC := es.X.(*ast.CallExpr); isC && calleeName(info, ce) == "(*sync.WaitGroup).Add" {
						if se, isS := ce.Fun.(*ast.SelectorExpr); isS && exprStr(se.X) == wg {
							if v, isK := constInt(info, ce.Args[0]); isK && v >= 1 {
								ok = true
							}
						}
					}
				}
			}
		}
		return true
	})
	return ok
}

// doneDeferredFirst: among the top-level statements of body, before any
// statement that may return, there is `defer wg.Done()` or a deferred literal
// whose body calls wg.Done() unconditionally.
func doneDeferredFirst(info *types.Info, body *ast.BlockStmt, wg string) bool {
	isDone := func(ce *ast.CallExpr) bool {
		if calleeName(info, ce) != "(*sync.WaitGroup).Done" {
			return false
		}
		se, ok := ce.Fun.(*ast.SelectorExpr)
		return ok && exprStr(se.X) == wg
	}
	for _, st := range body.List {
		if d, ok := st.(*ast.DeferStmt); ok {
			if isDone(d.Call) {
				return true
			}
			if fl, ok := ast.Unparen(d.Call.Fun).(*ast.FuncLit); ok {
				// Done must be reached on every path of the deferred literal: it is a top-level
				// statement not preceded by a statement that can return or panic-prone blocking receive is fine
				for _, s2 := range fl.Body.List {
					if es, ok := s2.(*ast.ExprStmt); ok {
						if ce, ok := es.X.(*ast.CallExpr); ok && isDone(ce) {
							return true
						}
					}
					if _, isRet := s2.(*ast.ReturnStmt); isRet {
						break
					}
					if _, isIf := s2.(*ast.IfStmt); isIf {
						hasRet := false
						ast.Inspect(s2, func(x ast.Node) bool {
							if _, ok := x.(*ast.ReturnStmt); ok {
								hasRet = true
							}
							return true
						})
						if hasRet {
							break
						}
					}
				}
			}
			continue
		}
		// any other statement that can leave the function before the defer is registered
		canLeave := false
		ast.Inspect(st, func(x ast.Node) bool {
			switch x.(type) {
			case *ast.ReturnStmt:
				canLeave = true
			case *ast.FuncLit:
				return false
			}
			return true
		})
		if canLeave {
			return false
		}
	}
	return false
}

// ---------------------------------------------------------------- semaphore pairing

// semaphorePairing: a slot acquired by sending on a local buffered channel
// right before a `go` statement must be released by the spawned goroutine on
// every exit, i.e. by a receive inside a deferred call that is registered
// before the goroutine's first possible return.
func semaphorePairing(c *Ctx, r *Report, rule string, pkgPrefixes ...string) {
	for _, fi := range c.AllFuncDecls(pkgPrefixes...) {
		if isTestSupportPkg(fi.Pkg.PkgPath) {
			continue
		}
		info := fi.Pkg.TypesInfo
		ast.Inspect(fi.Decl.Body, func(n ast.Node) bool {
			var list []ast.Stmt
			switch t := n.(type) {
			case *ast.BlockStmt:
				list = t.List
			case *ast.CaseClause:
				list = t.Body
			}
			for i, st := range list {
				ss, ok := st.(*ast.SendStmt)
				if !ok {
					continue
				}
				ch := identObj(info, ss.Chan)
				if ch == nil {
					continue
				}
				cht, isChan := ch.Type().Underlying().(*types.Chan)
				if !isChan {
					continue
				}
				if st2, isStruct := cht.Elem().Underlying().(*types.Struct); !isStruct || st2.NumFields() != 0 {
					continue
				}
				// the next go statement in the same block
				var g *ast.GoStmt
				for _, later := range list[i+1:] {
					if gs, ok := later.(*ast.GoStmt); ok {
						g = gs
						break
					}
				}
				if g == nil {
					continue
				}
				fl, ok := ast.Unparen(g.Call.Fun).(*ast.FuncLit)
				if !ok {
					r.Undecided(rule, fi.Name, stmtStrSend(ss), c.Pos(ss.Pos()), "slot is handed to a goroutine that is not a literal; release cannot be checked")
					continue
				}
				released := false
				for _, bst := range fl.Body.List {
					if d, ok := bst.(*ast.DeferStmt); ok {
						if dl, ok := ast.Unparen(d.Call.Fun).(*ast.FuncLit); ok {
							for _, s2 := range dl.Body.List {
								if es, ok := s2.(*ast.ExprStmt); ok {
									if ue, ok := ast.Unparen(es.X).(*ast.UnaryExpr); ok && ue.Op == token.ARROW && identObj(info, ue.X) == ch {
										released = true
									}
								}
								if _, isRet := s2.(*ast.ReturnStmt); isRet {
									break
								}
							}
						}
						continue
					}
					canLeave := false
					ast.Inspect(bst, func(x ast.Node) bool {
						switch x.(type) {
						case *ast.ReturnStmt:
							canLeave = true
						case *ast.FuncLit:
							return false
						}
						return true
					})
					if canLeave {
						break
					}
				}
				r.Check(released, rule, fi.Name, stmtStrSend(ss), c.Pos(ss.Pos()), "pairing: the goroutine releases the slot in a deferred function registered before its first return",
					"a reader slot acquired before `go` is not released on every exit of the goroutine (e.g. the open-error return): after as many failures as there are slots the dispatcher blocks forever and the remaining inputs are never read")
			}
			return true
		})
	}
}

func stmtStrSend(s *ast.SendStmt) string {
	return exprStr(s.Chan) + " <- " + exprStr(s.Value)
}
