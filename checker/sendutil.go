package main

// Sends seen through one level of helper extraction: `s.c <- InputBatch{..}`
// and `s.sendBatch(name, batch, start)` (a repository function whose own body
// performs the send, outside any closure) are the same event for the ordering
// and flow rules. Expressions of the helper's send are mapped back to the
// caller's arguments when they are bare parameters.

import (
	"go/ast"
	"go/types"
)

type sendSite struct {
	Stmt   *ast.SendStmt
	Call   *ast.CallExpr // nil for a direct send
	Helper *FuncInfo
	hInfo  *types.Info
	subst  map[types.Object]ast.Expr
}

// Pos is the position of the event in the analysed function.
func (s sendSite) Node() ast.Node {
	if s.Call != nil {
		return s.Call
	}
	return s.Stmt
}

// callerExpr maps an expression of the send to the analysed function: the
// expression itself for a direct send, the argument bound to it when it is a
// bare parameter of the helper, nil otherwise.
func (s sendSite) callerExpr(e ast.Expr) ast.Expr {
	if e == nil {
		return nil
	}
	if s.Call == nil {
		return e
	}
	if id, ok := ast.Unparen(e).(*ast.Ident); ok {
		if a, ok := s.subst[s.hInfo.Uses[id]]; ok {
			return a
		}
	}
	return nil
}

// Field returns the caller-side expression of a composite-literal field of the
// sent value.
func (s sendSite) Field(name string) ast.Expr {
	cl, ok := ast.Unparen(s.Stmt.Value).(*ast.CompositeLit)
	if !ok {
		return nil
	}
	for _, el := range cl.Elts {
		if kv, ok := el.(*ast.KeyValueExpr); ok && exprStr(kv.Key) == name {
			return s.callerExpr(kv.Value)
		}
	}
	return nil
}

// Mentions reports whether the sent value is built from the caller's object o.
func (s sendSite) Mentions(info *types.Info, o types.Object) bool {
	found := false
	if s.Call == nil {
		ast.Inspect(s.Stmt.Value, func(x ast.Node) bool {
			if id, ok := x.(*ast.Ident); ok && info.Uses[id] == o {
				found = true
			}
			return true
		})
		return found
	}
	ast.Inspect(s.Stmt.Value, func(x ast.Node) bool {
		if id, ok := x.(*ast.Ident); ok {
			if a, ok := s.subst[s.hInfo.Uses[id]]; ok {
				ast.Inspect(a, func(y ast.Node) bool {
					if id2, ok := y.(*ast.Ident); ok && info.Uses[id2] == o {
						found = true
					}
					return true
				})
			}
		}
		return true
	})
	return found
}

// SentType is the type of the sent value.
func (s sendSite) SentType(info *types.Info) types.Type {
	if s.Call != nil {
		return s.hInfo.TypeOf(s.Stmt.Value)
	}
	return info.TypeOf(s.Stmt.Value)
}

// ChanObj is the channel object (variable or field) sent on.
func (s sendSite) ChanObj(info *types.Info) types.Object {
	i := info
	if s.Call != nil {
		i = s.hInfo
	}
	if o := identObj(i, s.Stmt.Chan); o != nil {
		return o
	}
	if fv := fieldVar(i, s.Stmt.Chan); fv != nil {
		return fv
	}
	return nil
}

// directSends lists the sends a function body performs itself (closures and
// `go` statements excluded).
func directSends(body ast.Node) []*ast.SendStmt {
	var out []*ast.SendStmt
	inspectNoLit(body, func(n ast.Node) bool {
		if _, ok := n.(*ast.GoStmt); ok {
			return false
		}
		if ss, ok := n.(*ast.SendStmt); ok {
			out = append(out, ss)
		}
		return true
	})
	return out
}

// sendSitesIn returns the send events of node n of a function analysed with
// info: direct sends and calls to repository helpers whose body sends.
func sendSitesIn(c *Ctx, info *types.Info, n ast.Node) []sendSite {
	var out []sendSite
	if n == nil {
		return nil
	}
	inspectNoLit(n, func(x ast.Node) bool {
		switch t := x.(type) {
		case *ast.GoStmt:
			return false
		case *ast.SendStmt:
			out = append(out, sendSite{Stmt: t})
		case *ast.CallExpr:
			f := calleeFunc(info, t)
			if f == nil || f.Pkg() == nil || !c.IsRarePkg(f.Pkg()) {
				return true
			}
			fi := funcDeclOf(c, f)
			if fi == nil {
				return true
			}
			ds := directSends(fi.Decl.Body)
			if len(ds) == 0 {
				return true
			}
			subst := map[types.Object]ast.Expr{}
			idx := 0
			if fi.Decl.Type.Params != nil {
				for _, fld := range fi.Decl.Type.Params.List {
					for _, nm := range fld.Names {
						if idx < len(t.Args) {
							subst[fi.Pkg.TypesInfo.Defs[nm]] = t.Args[idx]
						}
						idx++
					}
				}
			}
			for _, ss := range ds {
				out = append(out, sendSite{Stmt: ss, Call: t, Helper: fi, hInfo: fi.Pkg.TypesInfo, subst: subst})
			}
		}
		return true
	})
	return out
}

// nodeSends is sendSitesIn for one CFG node (statement-level nodes carry whole
// simple statements; conditions carry expressions).
func nodeSends(c *Ctx, info *types.Info, nd *FNode) []sendSite {
	if nd == nil || nd.N == nil {
		return nil
	}
	return sendSitesIn(c, info, nd.N)
}
