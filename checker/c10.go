package main

// C10 - optimisation and user-defined functions never change a value.

import (
	"fmt"
	"go/ast"
	"go/token"
	"go/types"
	"strings"
)

func init() {
	register(&propDef{
		ID:  "C10",
		Run: runC10,
		Explain: "Decided: (a) probe soundness: in every stage closure of pkg/expressions/** every ambient read (clock, random source, environment, files, package variables that are written at run time outside program start-up) - directly or through repository helpers - is dominated by a touch of the closure's own context (a GetMatch/GetKey call or the evaluation of an argument stage with that context), so the lookup-counting probe classifies the stage as dynamic; ambient reads in the factory (compile time) are allowed; (b) the probe counts: both monitorContext methods count unconditionally, EvalStaticStage reports ok exactly when the count is zero, and every caller uses the value only where ok is known true (and never discards ok); optimize folds only under ok; (c) the switch is wired: Compile optimises only under the builder's autoOptimize field, which is set only from the constructor argument, and the CLI passes !noOptimize; (d) pooled contexts of user functions and array helpers are re-bound to the caller's context before use, returned by a deferred call (never while still in use); the lazy argument context forwards keys to the caller's context and evaluates the caller's arguments with it; (e) funcs-file definitions are registered into the very builder that compiles later definitions, and the shared table is installed after the built-ins. (f) the formula engine's constant folding obeys the same probe discipline (C19-c rules); pooled contexts are returned at most once. " +
			"NOT decided: value equivalence of a call with its substituted body for every body/argument pair, the funcs-file lexical layer (comments/continuations), stages that read ambient state through interfaces the call graph cannot resolve.",
		Assume: []string{"package variables written only from main/cmd start-up code are constant during evaluation"},
	})
}

// ambientCallees are library calls whose result is not a function of their arguments.
func isAmbientCall(name string) bool {
	if hasPrefixAny(name, "time.Now", "time.Since", "time.Until", "math/rand.", "math/rand/v2.", "crypto/rand.", "os.Getenv", "os.LookupEnv", "os.ReadFile", "os.Open", "os.Stat", "os.Hostname", "os.Getpid", "os.Getwd", "runtime.NumGoroutine", "runtime.NumCPU", "io/ioutil.ReadFile", "os/user.") {
		return true
	}
	return false
}

// ambientFuncs: repository functions that perform an ambient read (directly
// or through callees), with a one-line reason.
func ambientFuncs(c *Ctx) map[*types.Func]string {
	out := map[*types.Func]string{}
	decls := c.AllFuncDecls()
	startup := func(name string) bool {
		return strings.HasPrefix(name, "rare.") || strings.HasPrefix(name, "rare/cmd.") || strings.HasPrefix(name, "rare/cmd/helpers.") || strings.HasSuffix(name, ".init")
	}
	mutableGlobal := map[*types.Var]string{}
	for _, p := range c.Pkgs {
		if isTestSupportPkg(p.PkgPath) {
			continue
		}
		sc := p.Types.Scope()
		for _, n := range sc.Names() {
			v, ok := sc.Lookup(n).(*types.Var)
			if !ok || isSyncType(v.Type()) {
				continue
			}
			for _, w := range writersOfGlobal(c, v) {
				if !startup(w) && !strings.Contains(w, "/testutil") {
					mutableGlobal[v] = w
				}
			}
		}
	}
	direct := func(fi *FuncInfo) string {
		info := fi.Pkg.TypesInfo
		why := ""
		ast.Inspect(fi.Decl.Body, func(n ast.Node) bool {
			switch t := n.(type) {
			case *ast.CallExpr:
				if name := calleeName(info, t); isAmbientCall(name) {
					why = "calls " + name
				}
			case *ast.Ident:
				if v, ok := info.Uses[t].(*types.Var); ok {
					if w, isMut := mutableGlobal[v]; isMut {
						why = "reads " + v.Pkg().Name() + "." + v.Name() + " (written by " + w + ")"
					}
				}
			}
			return true
		})
		return why
	}
	for _, fi := range decls {
		if w := direct(fi); w != "" {
			out[fi.Obj] = w
		}
	}
	for round := 0; round < 3; round++ {
		for _, fi := range decls {
			if _, done := out[fi.Obj]; done {
				continue
			}
			info := fi.Pkg.TypesInfo
			ast.Inspect(fi.Decl.Body, func(n ast.Node) bool {
				if ce, ok := n.(*ast.CallExpr); ok {
					if f := calleeFunc(info, ce); f != nil {
						if w, amb := out[f.Origin()]; amb {
							out[fi.Obj] = "calls " + f.Name() + ", which " + w
						}
					}
				}
				return true
			})
		}
	}
	return out
}

func runC10(c *Ctx, r *Report) {
	c10TouchIndex(c, r, "C10-a/touch-index")
	c10ProbeSoundness(c, r)
	c10TouchPropagates(c, r)
	c10ProbeCounts(c, r)
	c10Switch(c, r)
	c05PoolTypestate(c, r, "C10-d")
	c10PoolUseAfterReturn(c, r)
	c10LazyContext(c, r)
	c10Registration(c, r)
	// (f) the formula engine's constant folding obeys the same probe discipline
	borrow(c, r, c19Simplifier, "C19-c", "C10-f", nil, true)
	okResultLive(c, r, "C10-b/ok-live", "rare/pkg/expressions")
	c10TableCopy(c, r, "C10-e/table-copy")
	// (g) both equivalences also hold with several workers: shared compiled stages keep no state
	c05StagePurity(c, r, "C10-g")
	// (a) what a stage remembers from the probe's dummy evaluation survives into the run
	stageKeepsNoAtomicState(c, r, "C10-a/probe-state", nil, false)
}

// ---------------------------------------------------------------- (a)

func c10ProbeSoundness(c *Ctx, r *Report) {
	const rule = "C10-a/ambient-after-touch"
	amb := ambientFuncs(c)
	nStages, nAmb := 0, 0
	for _, fi := range c.AllFuncDecls("rare/pkg/expressions") {
		info := fi.Pkg.TypesInfo
		for _, fl := range funcLitsIn(fi.Decl.Body) {
			if !isStageLit(info, fl) {
				continue
			}
			nStages++
			var ctx types.Object
			if len(fl.Type.Params.List) == 1 && len(fl.Type.Params.List[0].Names) == 1 {
				ctx = info.Defs[fl.Type.Params.List[0].Names[0]]
			}
			var fg *FGraph
			isTouch := func(nd *FNode) bool {
				if nd.N == nil || ctx == nil {
					return false
				}
				hit := false
				inspectNoLit(nd.N, func(x ast.Node) bool {
					ce, ok := x.(*ast.CallExpr)
					if !ok {
						return true
					}
					if se, ok := ce.Fun.(*ast.SelectorExpr); ok && identObj(info, se.X) == ctx && (se.Sel.Name == "GetMatch" || se.Sel.Name == "GetKey") {
						hit = true
					}
					for _, a := range ce.Args {
						if identObj(info, a) == ctx {
							// evaluating a stage (or anything else) with our context: the callee may look something up;
							// only stage-typed callees are certain to be counted by the probe when they are dynamic, and a
							// constant argument stage makes the result a function of that constant
							hit = true
						}
					}
					return true
				})
				return hit
			}
			inspectNoLit(fl.Body, func(x ast.Node) bool {
				var why string
				var pos token.Pos
				switch t := x.(type) {
				case *ast.CallExpr:
					name := calleeName(info, t)
					if isAmbientCall(name) {
						why, pos = "calls "+name, t.Pos()
					} else if f := calleeFunc(info, t); f != nil {
						if w, ok := amb[f.Origin()]; ok {
							why, pos = "calls "+f.Name()+", which "+w, t.Pos()
						}
					}
				}
				if why == "" {
					return true
				}
				nAmb++
				if fg == nil {
					fg = NewFGraph(fl.Body, info)
				}
				id := fg.NodeOf(pos)
				// every path from the closure's entry to the read passes a touch (a touch in the same node before the read counts)
				ok := false
				if id >= 0 {
					seen := fg.ReachSet(fg.Entry, isTouch, nil)
					ok = !seen[id] || isTouchBefore(info, fg.Nodes[id].N, pos, ctx)
				}
				r.Check(ok, rule, fi.Name, nodeText(x), c.Pos(pos), "order: a context touch precedes the ambient read on every path, so the probe sees the stage as dynamic",
					"a stage "+why+" without first touching its context: the constant-folding probe sees no lookup and freezes the value at compile time, while --no-optimize evaluates it afresh for every line")
				return true
			})
		}
	}
	r.Extra["stage_literals"] = nStages
	r.Extra["ambient_reads_in_stages"] = nAmb
	r.Floor(rule, 2, "time live and time delta")
}

func nodeText(n ast.Node) string {
	if e, ok := n.(ast.Expr); ok {
		return exprStr(e)
	}
	return fmt.Sprintf("%T", n)
}

// isTouchBefore: within one statement, a context call textually before pos.
func isTouchBefore(info *types.Info, stmt ast.Node, pos token.Pos, ctx types.Object) bool {
	hit := false
	if stmt == nil {
		return false
	}
	inspectNoLit(stmt, func(x ast.Node) bool {
		if ce, ok := x.(*ast.CallExpr); ok && ce.End() <= pos {
			if se, ok := ce.Fun.(*ast.SelectorExpr); ok && identObj(info, se.X) == ctx {
				hit = true
			}
		}
		return true
	})
	return hit
}

// ---------------------------------------------------------------- (b)

func c10ProbeCounts(c *Ctx, r *Report) {
	const rule = "C10-b/probe"
	const pkg = "rare/pkg/expressions"
	for _, m := range []string{"GetMatch", "GetKey"} {
		fi := c.MustFunc(r, rule, pkg, "(*monitorContext)."+m)
		if fi == nil {
			continue
		}
		info := fi.Pkg.TypesInfo
		counts := false
		for _, st := range fi.Decl.Body.List {
			if id, ok := st.(*ast.IncDecStmt); ok && id.Tok == token.INC {
				if fv := fieldVar(info, id.X); fv != nil && fv.Name() == "keyLookups" {
					counts = true
				}
			}
			if _, isRet := st.(*ast.ReturnStmt); isRet {
				break
			}
		}
		r.Check(counts, rule, fi.Name, "keyLookups++", c.Pos(fi.Decl.Pos()), "effect: every lookup is counted before returning", "the probe context does not count this kind of lookup: stages that read it would be folded as constants")
	}
	if fi := c.MustFunc(r, rule, pkg, "EvalStaticStage"); fi != nil {
		info := fi.Pkg.TypesInfo
		okShape := false
		fresh := false
		ast.Inspect(fi.Decl.Body, func(n ast.Node) bool {
			switch t := n.(type) {
			case *ast.BinaryExpr:
				if t.Op == token.EQL {
					if fv := fieldVar(info, t.X); fv != nil && fv.Name() == "keyLookups" {
						if v, ok := constInt(info, t.Y); ok && v == 0 {
							okShape = true
						}
					}
				}
			case *ast.ValueSpec:
				for _, id := range t.Names {
					if o := info.Defs[id]; o != nil && isNamed(o.Type(), pkg, "monitorContext") && len(t.Values) == 0 {
						fresh = true
					}
				}
			case *ast.CompositeLit:
				if isNamed(info.TypeOf(t), pkg, "monitorContext") && len(t.Elts) == 0 {
					fresh = true
				}
			}
			return true
		})
		r.Check(okShape && fresh, rule, fi.Name, "ok = (keyLookups == 0) on a fresh monitor", c.Pos(fi.Decl.Pos()), "shape: constant exactly when a fresh probe counted no lookup", "EvalStaticStage no longer reports ok exactly when a fresh probe context counted zero lookups")
	}
	// callers: value used only under ok
	const rule2 = "C10-b/ok-respected"
	staticEval := map[string]bool{
		pkg + ".EvalStaticStage":                     true,
		"rare/pkg/expressions/stdlib.EvalStageInt":   true,
		"rare/pkg/expressions/stdlib.EvalStageInt64": true,
		"rare/pkg/expressions/stdlib.EvalArgInt":     true,
		"rare/pkg/expressions/stdlib.evalTypedStage": true,
		"rare/pkg/expressions/stdlib.mapTypedArgs":   true,
	}
	for _, fi := range c.AllFuncDecls("rare/pkg/expressions", "rare/pkg/multiterm/termformat", "rare/cmd") {
		info := fi.Pkg.TypesInfo
		bodies := []*ast.BlockStmt{fi.Decl.Body}
		for _, fl := range funcLitsIn(fi.Decl.Body) {
			bodies = append(bodies, fl.Body)
		}
		vi := analyseVars(info, fi.Decl)
		for _, body := range bodies {
			var fg *FGraph
			inspectNoLit(body, func(n ast.Node) bool {
				as, ok := n.(*ast.AssignStmt)
				if !ok || len(as.Lhs) != 2 || len(as.Rhs) != 1 {
					return true
				}
				ce, ok := as.Rhs[0].(*ast.CallExpr)
				if !ok {
					return true
				}
				f := calleeFunc(info, ce)
				if f == nil || !staticEval[f.Origin().FullName()] {
					return true
				}
				valObj, okObj := identObj(info, as.Lhs[0]), identObj(info, as.Lhs[1])
				where := fi.Name
				if okObj == nil || exprStr(as.Lhs[1]) == "_" {
					r.Bad(rule2, where, stmtStr(as), c.Pos(as.Pos()), "the ok result of a static evaluation is discarded: a dynamic argument is treated as the constant the empty probe produced")
					return true
				}
				if valObj == nil || exprStr(as.Lhs[0]) == "_" {
					r.OK(rule2, where, stmtStr(as), c.Pos(as.Pos()), "value unused")
					return true
				}
				if fg == nil {
					fg = NewFGraph(body, info)
					fg.SolveFacts(vi)
				}
				// every use of val is dominated by the fact ok == true
				defNode := fg.NodeOf(as.Pos())
				reach := map[int]bool{}
				if defNode >= 0 {
					reach = fg.ReachSet(defNode, nil, nil)
				}
				isLHS := map[*ast.Ident]bool{}
				ast.Inspect(body, func(m ast.Node) bool {
					if a2, ok := m.(*ast.AssignStmt); ok {
						for _, l := range a2.Lhs {
							if id, ok := ast.Unparen(l).(*ast.Ident); ok {
								isLHS[id] = true
							}
						}
					}
					return true
				})
				bad := token.NoPos
				var uses int
				ast.Inspect(body, func(m ast.Node) bool {
					id, ok := m.(*ast.Ident)
					if !ok || info.Uses[id] != valObj {
						return true
					}
					if id.Pos() <= as.End() {
						return true
					}
					// only uses the definition can reach, and not re-definitions
					if isLHS[id] {
						return true
					}
					un := fg.NodeOf(id.Pos())
					if un >= 0 && defNode >= 0 && !reach[un] {
						return true
					}
					uses++
					good := false
					for _, ft := range fg.FactsAtPos(id.Pos()) {
						if ft.Tag == nil && identObj(info, ft.Cond) == okObj && ft.Truth {
							good = true
						}
					}
					// returning (val, ok) together hands the decision to the caller
					if !good {
						ast.Inspect(body, func(q ast.Node) bool {
							if rs, isRet := q.(*ast.ReturnStmt); isRet && within(rs, id.Pos()) && len(rs.Results) == 2 && identObj(info, rs.Results[1]) == okObj {
								good = true
							}
							return true
						})
					}
					// a plain copy into a local container, immediately followed by the ok test whose failing
					// side never looks at that container again (ret[i] = typed; if !ok { return nil, false })
					if !good {
						good = copyThenOkTest(info, fg, body, id, okObj)
					}
					if !good && bad == token.NoPos {
						bad = id.Pos()
					}
					return true
				})
				r.Check(bad == token.NoPos, rule2, where, stmtStr(as), c.Pos(as.Pos()), fmt.Sprintf("guard: all %d use(s) of the value lie under ok == true", uses),
					"the value of a static evaluation is used at "+c.Pos(bad)+" where ok is not known to be true: for a dynamic argument that value is only what the empty probe context produced, so the expression is frozen to it")
				return true
			})
		}
	}
	r.Floor(rule, 3, "monitorContext methods and EvalStaticStage")
	r.Floor(rule2, 20, "callers of the static evaluation helpers")
	// optimize folds only under ok: covered by the rule above (optimize calls EvalStaticStage)
}

// ---------------------------------------------------------------- (c)

func c10Switch(c *Ctx, r *Report) {
	const rule = "C10-c/switch"
	const pkg = "rare/pkg/expressions"
	if fi := c.MustFunc(r, rule, pkg, "(*KeyBuilder).Compile"); fi != nil {
		info := fi.Pkg.TypesInfo
		vi := analyseVars(info, fi.Decl)
		fg := NewFGraph(fi.Decl.Body, info)
		fg.SolveFacts(vi)
		found := false
		inspectNoLit(fi.Decl.Body, func(n ast.Node) bool {
			ce, ok := n.(*ast.CallExpr)
			if !ok || !strings.HasSuffix(calleeName(info, ce), ".CompiledKeyBuilder).optimize") {
				return true
			}
			found = true
			okG := false
			for _, f := range fg.FactsAtPos(ce.Pos()) {
				if fv := fieldVar(info, f.Cond); fv != nil && fv.Name() == "autoOptimize" && f.Truth && f.Tag == nil {
					okG = true
				}
			}
			r.Check(okG, rule, fi.Name, exprStr(ce), c.Pos(ce.Pos()), "guard: optimisation runs only when the builder's autoOptimize is set", "Compile optimises regardless of the builder's autoOptimize setting: --no-optimize no longer disables folding")
			return true
		})
		if !found {
			r.Bad(rule, fi.Name, "optimize()", c.Pos(fi.Decl.Pos()), "Compile never optimises: the switch has no effect")
		}
	}
	// autoOptimize written only by the constructor from its parameter
	if fi := c.MustFunc(r, rule, pkg, "NewKeyBuilderEx"); fi != nil {
		info := fi.Pkg.TypesInfo
		var param types.Object
		if len(fi.Decl.Type.Params.List) == 1 && len(fi.Decl.Type.Params.List[0].Names) == 1 {
			param = info.Defs[fi.Decl.Type.Params.List[0].Names[0]]
		}
		ok := false
		ast.Inspect(fi.Decl.Body, func(n ast.Node) bool {
			if kv, isKV := n.(*ast.KeyValueExpr); isKV && exprStr(kv.Key) == "autoOptimize" && identObj(info, kv.Value) == param {
				ok = true
			}
			return true
		})
		immut := false
		for f := range immutableFields {
			if f.Name() == "autoOptimize" && f.Pkg().Path() == pkg {
				immut = true
			}
		}
		r.Check(ok && immut, rule, fi.Name, "autoOptimize: optimize", c.Pos(fi.Decl.Pos()), "flow: the field is set from the constructor argument and never reassigned", "the builder's autoOptimize field is not simply the constructor's argument")
	}
	// funclib forwards, cmd passes !noOptimize
	if fi := c.MustFunc(r, rule, "rare/pkg/expressions/funclib", "NewKeyBuilderEx"); fi != nil {
		info := fi.Pkg.TypesInfo
		var param types.Object
		if len(fi.Decl.Type.Params.List) == 1 && len(fi.Decl.Type.Params.List[0].Names) == 1 {
			param = info.Defs[fi.Decl.Type.Params.List[0].Names[0]]
		}
		ok := false
		ast.Inspect(fi.Decl.Body, func(n ast.Node) bool {
			if ce, isC := n.(*ast.CallExpr); isC && calleeName(info, ce) == pkg+".NewKeyBuilderEx" && len(ce.Args) == 1 && identObj(info, ce.Args[0]) == param {
				ok = true
			}
			return true
		})
		r.Check(ok, rule, fi.Name, "forwards autoOptimize", c.Pos(fi.Decl.Pos()), "flow: the argument is forwarded to the builder", "funclib.NewKeyBuilderEx does not forward its optimisation argument")
	}
	if fi := c.MustFunc(r, rule, "rare/cmd", "expressionFunction"); fi != nil {
		info := fi.Pkg.TypesInfo
		var flagObj types.Object
		ast.Inspect(fi.Decl.Body, func(n ast.Node) bool {
			if vs, ok := n.(*ast.ValueSpec); ok {
				for i, id := range vs.Names {
					if i < len(vs.Values) {
						if ce, ok := vs.Values[i].(*ast.CallExpr); ok && len(ce.Args) == 1 {
							if s, isS := constString(info, ce.Args[0]); isS && s == "no-optimize" {
								flagObj = info.Defs[id]
							}
						}
					}
				}
			}
			return true
		})
		ok := false
		ast.Inspect(fi.Decl.Body, func(n ast.Node) bool {
			if ce, isC := n.(*ast.CallExpr); isC && calleeName(info, ce) == "rare/pkg/expressions/funclib.NewKeyBuilderEx" && len(ce.Args) == 1 {
				if ue, isU := ast.Unparen(ce.Args[0]).(*ast.UnaryExpr); isU && ue.Op == token.NOT && identObj(info, ue.X) == flagObj && flagObj != nil {
					ok = true
				}
			}
			return true
		})
		r.Check(ok, rule, fi.Name, "NewKeyBuilderEx(!noOptimize)", c.Pos(fi.Decl.Pos()), "flow: the --no-optimize flag reaches the builder negated", "the --no-optimize flag does not reach the builder as !noOptimize")
	}
	r.Floor(rule, 4, "Compile guard, constructor, funclib forward, CLI flag")
}

// ---------------------------------------------------------------- (d)

// c10PoolUseAfterReturn: a non-deferred pool.Return(v) must not be followed by a use of v.
func c10PoolUseAfterReturn(c *Ctx, r *Report) {
	const rule = "C10-d/pool-return-deferred"
	n := 0
	for _, fi := range c.AllFuncDecls("rare/pkg/expressions") {
		info := fi.Pkg.TypesInfo
		for _, fl := range funcLitsIn(fi.Decl.Body) {
			var fg *FGraph
			inDefer := map[*ast.CallExpr]bool{}
			inspectNoLit(fl.Body, func(x ast.Node) bool {
				if d, ok := x.(*ast.DeferStmt); ok {
					inDefer[d.Call] = true
				}
				return true
			})
			inspectNoLit(fl.Body, func(x ast.Node) bool {
				ce, ok := x.(*ast.CallExpr)
				if !ok || !isPoolCall(info, ce, "Return") || len(ce.Args) != 1 {
					return true
				}
				n++
				v := identObj(info, ce.Args[0])
				if inDefer[ce] {
					r.OK(rule, fi.Name, exprStr(ce), c.Pos(ce.Pos()), "deferred: the object goes back to the pool when the evaluation is over")
					return true
				}
				if fg == nil {
					fg = NewFGraph(fl.Body, info)
				}
				rn := fg.NodeOf(ce.Pos())
				used := token.NoPos
				if rn >= 0 && v != nil {
					after := fg.ReachSet(rn, nil, nil)
					for id := range after {
						nd := fg.Nodes[id]
						if nd.N == nil || id == rn {
							continue
						}
						ast.Inspect(nd.N, func(y ast.Node) bool {
							if id2, ok := y.(*ast.Ident); ok && info.Uses[id2] == v && used == token.NoPos {
								used = id2.Pos()
							}
							return true
						})
					}
				}
				r.Check(used == token.NoPos, rule, fi.Name, exprStr(ce), c.Pos(ce.Pos()), "order: nothing uses the object after it was returned", "a pooled context is handed back to the pool and then still used (at "+c.Pos(used)+"): a concurrent evaluation takes the same object and re-binds it, so arguments resolve in another worker's match")
				return true
			})
		}
	}
	r.Floor(rule, 6, "pool Return sites")
	_ = n
}

func c10LazyContext(c *Ctx, r *Report) {
	const rule = "C10-d/lazy-context"
	const pkg = "rare/pkg/expressions/funcfile"
	if fi := c.MustFunc(r, rule, pkg, "(*lazySubContext).GetKey"); fi != nil {
		info := fi.Pkg.TypesInfo
		ok := false
		var p0 types.Object
		if len(fi.Decl.Type.Params.List) == 1 && len(fi.Decl.Type.Params.List[0].Names) == 1 {
			p0 = info.Defs[fi.Decl.Type.Params.List[0].Names[0]]
		}
		ast.Inspect(fi.Decl.Body, func(n ast.Node) bool {
			if rs, isRet := n.(*ast.ReturnStmt); isRet && len(rs.Results) == 1 {
				if ce, isC := ast.Unparen(rs.Results[0]).(*ast.CallExpr); isC && len(ce.Args) == 1 && identObj(info, ce.Args[0]) == p0 {
					if se, isS := ce.Fun.(*ast.SelectorExpr); isS && se.Sel.Name == "GetKey" {
						if fv := fieldVar(info, se.X); fv != nil && isKeyBuilderContext(fv.Type()) {
							ok = true
						}
					}
				}
			}
			return true
		})
		r.Check(ok, rule, fi.Name, "forwards GetKey", c.Pos(fi.Decl.Pos()), "flow: named keys resolve in the caller's context", "named keys inside a user-defined function are not resolved in the caller's match")
	}
	if fi := c.MustFunc(r, rule, pkg, "(*lazySubContext).GetMatch"); fi != nil {
		info := fi.Pkg.TypesInfo
		ok := false
		ast.Inspect(fi.Decl.Body, func(n ast.Node) bool {
			if rs, isRet := n.(*ast.ReturnStmt); isRet && len(rs.Results) == 1 {
				// s.args[idx](s.sub)
				if ce, isC := ast.Unparen(rs.Results[0]).(*ast.CallExpr); isC && len(ce.Args) == 1 {
					if fv := fieldVar(info, ce.Args[0]); fv != nil && isKeyBuilderContext(fv.Type()) {
						if ix, isIx := ast.Unparen(ce.Fun).(*ast.IndexExpr); isIx {
							if av := fieldVar(info, ix.X); av != nil {
								ok = true
							}
						}
					}
				}
			}
			return true
		})
		r.Check(ok, rule, fi.Name, "evaluates the caller's argument", c.Pos(fi.Decl.Pos()), "flow: {n} inside the body evaluates the call's n-th argument with the caller's context", "{n} inside a user-defined function does not evaluate the call's argument in the caller's context")
	}
	r.Floor(rule, 2, "GetKey and GetMatch of lazySubContext")
}

// ---------------------------------------------------------------- (e)

func c10Registration(c *Ctx, r *Report) {
	const rule = "C10-e/registration"
	if fi := c.MustFunc(r, rule, "rare/pkg/expressions/funcfile", "createAndAddFunc"); fi != nil {
		info := fi.Pkg.TypesInfo
		var compiler types.Object
		if len(fi.Decl.Type.Params.List) > 0 && len(fi.Decl.Type.Params.List[0].Names) > 0 {
			compiler = info.Defs[fi.Decl.Type.Params.List[0].Names[0]]
		}
		compiles, registers := false, false
		ast.Inspect(fi.Decl.Body, func(n ast.Node) bool {
			if ce, ok := n.(*ast.CallExpr); ok {
				if se, ok := ce.Fun.(*ast.SelectorExpr); ok && identObj(info, se.X) == compiler {
					switch se.Sel.Name {
					case "Compile":
						compiles = true
					case "Func":
						registers = true
					}
				}
			}
			return true
		})
		r.Check(compiles && registers, rule, fi.Name, "compile and register on the same builder", c.Pos(fi.Decl.Pos()), "flow: a definition is compiled by and registered into the same builder, so later definitions can call earlier ones", "a funcs-file definition is not registered into the builder that compiles the following definitions")
	}
	if fi := c.MustFunc(r, rule, "rare/pkg/expressions/funclib", "NewKeyBuilderEx"); fi != nil {
		info := fi.Pkg.TypesInfo
		var order []string
		ast.Inspect(fi.Decl.Body, func(n ast.Node) bool {
			if ce, ok := n.(*ast.CallExpr); ok {
				if se, ok := ce.Fun.(*ast.SelectorExpr); ok && se.Sel.Name == "Funcs" && len(ce.Args) == 1 {
					order = append(order, exprStr(ce.Args[0]))
				}
			}
			return true
		})
		_ = info
		r.Check(len(order) == 2 && order[0] == "Builtins" && order[1] == "Additional", rule, fi.Name, "Builtins then Additional", c.Pos(fi.Decl.Pos()), "order: user functions are installed after (and may override) the built-ins", fmt.Sprintf("function tables are installed as %v instead of Builtins then Additional", order))
	}
	r.Floor(rule, 2, "createAndAddFunc and funclib.NewKeyBuilderEx")
}

// c10TouchPropagates: a context that wraps another context must let lookups it
// does not bind itself (negative indexes) reach the wrapped context, otherwise
// the "touch" that keeps {time live} dynamic is swallowed.
func c10TouchPropagates(c *Ctx, r *Report) {
	const rule = "C10-a/touch-propagates"
	n := 0
	for _, fi := range c.AllFuncDecls() {
		if isTestSupportPkg(fi.Pkg.PkgPath) || fi.Decl.Recv == nil || fi.Decl.Name.Name != "GetMatch" {
			continue
		}
		info := fi.Pkg.TypesInfo
		recvT := info.TypeOf(fi.Decl.Recv.List[0].Type)
		if recvT == nil {
			continue
		}
		cfs := contextFields(recvT)
		if len(cfs) == 0 {
			continue
		}
		// must be a KeyBuilderContext implementation: GetMatch(int) string
		sig, _ := fi.Obj.Type().(*types.Signature)
		if sig == nil || sig.Params().Len() != 1 || !isIntegerType(sig.Params().At(0).Type()) {
			continue
		}
		n++
		var idx types.Object
		if len(fi.Decl.Type.Params.List[0].Names) == 1 {
			idx = info.Defs[fi.Decl.Type.Params.List[0].Names[0]]
		}
		vi := analyseVars(info, fi.Decl)
		fg := NewFGraph(fi.Decl.Body, info)
		pr := &prover{info: info, vi: vi, fg: fg, body: fi.Decl.Body}
		usesParent := func(nd *FNode) bool {
			if nd.N == nil {
				return false
			}
			hit := false
			ast.Inspect(nd.N, func(x ast.Node) bool {
				if se, ok := x.(*ast.SelectorExpr); ok {
					if fv := fieldVar(info, se); fv != nil {
						for _, cf := range cfs {
							if fv == cf {
								hit = true
							}
						}
					}
				}
				return true
			})
			return hit
		}
		bad := false
		enumPaths(fg, fg.Entry, func(id int) bool { return id == fg.Exit }, func(nodes []int, edges []FEdge) {
			var facts []Fact
			for _, e := range edges {
				if e.Cond != nil {
					facts = append(facts, atomise(Fact{e.Cond, e.Tag, e.Truth})...)
				}
			}
			// is idx >= 0 implied on this path?
			nonNeg := false
			if idx != nil {
				id := &ast.Ident{Name: idx.Name()}
				_ = id
				nonNeg = pr.holdsText(idx.Name()+" >= 0", facts)
			}
			if nonNeg {
				return
			}
			// the touch is the wrapped context's own GetMatch with the index as it came in: evaluating
			// something else against the wrapped context (a lazily bound argument, say) need not look anything up
			touched := false
			for _, nid := range nodes {
				nd := fg.Nodes[nid]
				if nd.N == nil {
					continue
				}
				if usesParent(nd) {
					for _, ce := range callsIn(nd.N) {
						se, isSel := ce.Fun.(*ast.SelectorExpr)
						if !isSel || se.Sel.Name != "GetMatch" || len(ce.Args) != 1 || fieldVar(info, se.X) == nil {
							continue
						}
						if idx == nil || identObj(info, ce.Args[0]) == idx {
							touched = true
						}
					}
				}
				if touched {
					break
				}
				if idx != nil {
					if objs, _ := assignedObjs(info, nd.N); len(objs) > 0 {
						for _, o := range objs {
							if o == idx {
								nid = -1
							}
						}
					}
					if nid == -1 {
						break // the index was re-bound before any touch: what is forwarded later is not the lookup that was asked
					}
				}
			}
			if !touched {
				bad = true
			}
		})
		r.Check(!bad, rule, fi.Name, "negative lookups reach the wrapped context", c.Pos(fi.Decl.Pos()), "path: every path that can be taken with a negative index consults the wrapped context", "a wrapping context answers a negative-index lookup itself: the context touch of {time live} / {time delta} never reaches the probe, so those stages are folded to constants inside this wrapper")
	}
	r.Floor(rule, 3, "subContext, lazySubContext, keyBuilderContextWrapper")
	_ = n
}

// copyThenOkTest: the use `id` is the whole right-hand side of `dst.. = id` with dst a local, the
// next decision after that statement is on okObj, and on its failing side nothing mentions dst.
func copyThenOkTest(info *types.Info, fg *FGraph, body *ast.BlockStmt, id *ast.Ident, okObj types.Object) bool {
	var cp *ast.AssignStmt
	var dst types.Object
	ast.Inspect(body, func(n ast.Node) bool {
		if a, ok := n.(*ast.AssignStmt); ok && len(a.Lhs) == 1 && len(a.Rhs) == 1 && ast.Unparen(a.Rhs[0]) == ast.Expr(id) {
			if root := rootIdent(a.Lhs[0]); root != nil {
				if v, isVar := info.Uses[root].(*types.Var); isVar && !v.IsField() && v.Pkg() != nil && v.Parent() != v.Pkg().Scope() {
					cp, dst = a, v
				}
			}
		}
		return true
	})
	if cp == nil {
		return false
	}
	cur := fg.NodeOf(cp.Pos())
	if cur < 0 {
		return false
	}
	for steps := 0; steps < 20; steps++ {
		nd := fg.Nodes[cur]
		if len(nd.Succ) == 1 && nd.Succ[0].Cond == nil {
			cur = nd.Succ[0].To
			// nothing but the test itself may sit in between
			if x := fg.Nodes[cur].N; x != nil {
				if _, isExpr := x.(ast.Expr); !isExpr {
					return false
				}
			}
			continue
		}
		if len(nd.Succ) != 2 {
			return false
		}
		for _, e := range nd.Succ {
			if e.Cond == nil || e.Tag != nil {
				return false
			}
			okFalse := false
			for _, at := range atomise(Fact{e.Cond, nil, e.Truth}) {
				if identObj(info, at.Cond) == okObj && !at.Truth {
					okFalse = true
				}
			}
			if !okFalse {
				continue
			}
			// the failing side: no mention of dst
			mention := false
			check := func(n *FNode) {
				if n.N != nil {
					ast.Inspect(n.N, func(y ast.Node) bool {
						if i2, ok := y.(*ast.Ident); ok && info.Uses[i2] == dst {
							mention = true
						}
						return true
					})
				}
			}
			check(fg.Nodes[e.To])
			for rid := range fg.ReachSet(e.To, func(n *FNode) bool { return n.ID == nd.ID }, nil) {
				check(fg.Nodes[rid])
			}
			return !mention
		}
		return false
	}
	return false
}
