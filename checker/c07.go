package main

// C07 - aggregators: redundant state updated together, parallel slices
// aligned, parse errors counted and not sampled, independent min/max.

import (
	"fmt"
	"go/ast"
	"go/token"
	"go/types"
	"sort"
	"strings"
)

func init() {
	register(&propDef{
		ID:  "C07",
		Run: runC07,
		Explain: "Decided (redundant-state clauses): (a) paired updates: in every sampling method that takes the increment as a parameter, all acyclic paths perform the same set of `x += increment` accumulations (cell, row total, column total / count and grand total / count and sub-count) - no path that skips one, assigns instead of accumulating, or seeds an accumulated field with a non-zero constant; (b) the sub-key counter keeps its parallel structures aligned: the name->index table is rebuilt from the ordered key slice after an insert, every existing item gets a zero inserted at the same index, new items are created with len(subKeys) cells; (c) every Sample method counts a non-integer increment as a parse error and does not sample it, and samples exactly once otherwise; (d) the numerical aggregator updates min and max independently on every sample and counts the sample before it is used as divisor; (e) all index/slice expressions of pkg/aggregation are discharged. (f) a freshly made accumulator row is filled with the columns' initial values before any column expression can read it. " +
			"NOT decided (value level): that counts, totals, mean, variance, median, mode and quantiles equal the fold of the sample history; order independence; Trim semantics.",
		Assume: []string{"reviewed entries (checker/c07.go, c08.go, c14.go) are correct"},
	})
}

const aggPkg = "rare/pkg/aggregation"

func runC07(c *Ctx, r *Report) {
	c07PairedUpdates(c, r)
	c07SubkeyAlignment(c, r)
	c07ParseErrors(c, r)
	c07IncrementField(c, r, "C07-c/increment-field")
	c07SampleKeepsCells(c, r, "C07-a/sample-keeps-cells")
	c07Numerical(c, r)
	c07RowInit(c, r)
	c07Bounds(c, r)
	c07DerivedState(c, r, "C07-g")
}

func c07PairedUpdates(c *Ctx, r *Report) {
	const rule = "C07-a/paired-updates"
	n := 0
	for _, fi := range c.AllFuncDecls(aggPkg) {
		if fi.Pkg.PkgPath != aggPkg || fi.Decl.Recv == nil || !strings.HasPrefix(fi.Decl.Name.Name, "Sample") {
			continue
		}
		info := fi.Pkg.TypesInfo
		// the int64 increment parameter
		var inc types.Object
		for _, f := range fi.Decl.Type.Params.List {
			for _, id := range f.Names {
				if o := info.Defs[id]; o != nil {
					if b, ok := o.Type().Underlying().(*types.Basic); ok && b.Kind() == types.Int64 {
						inc = o
					}
				}
			}
		}
		if inc == nil {
			continue
		}
		n++
		fg := NewFGraph(fi.Decl.Body, info)
		var sets []string
		var first []string
		nPaths := 0
		consistent := true
		enumPaths(fg, fg.Entry, func(id int) bool { return id == fg.Exit }, func(nodes []int, _ []FEdge) {
			nPaths++
			var adds []string
			for _, id := range nodes {
				as, ok := fg.Nodes[id].N.(*ast.AssignStmt)
				if !ok || len(as.Lhs) != 1 || len(as.Rhs) != 1 {
					continue
				}
				if as.Tok == token.ADD_ASSIGN && identObj(info, as.Rhs[0]) == inc {
					adds = append(adds, exprStr(as.Lhs[0]))
				}
			}
			sort.Strings(adds)
			key := strings.Join(adds, ", ")
			sets = append(sets, key)
			if nPaths == 1 {
				first = adds
			} else if key != strings.Join(first, ", ") {
				consistent = false
			}
		})
		uniq := dedupStrings(sets)
		r.Check(consistent && len(first) >= 2, rule, fi.Name, "accumulations with "+inc.Name(), c.Pos(fi.Decl.Pos()),
			fmt.Sprintf("path: all %d paths accumulate {%s}", nPaths, strings.Join(first, ", ")),
			fmt.Sprintf("the paths through %s do not all perform the same accumulations of the increment (%s): a total gets out of step with the cells it sums", fi.Decl.Name.Name, strings.Join(uniq, " | ")))
		// assignments (not accumulations) of the increment, and non-zero seeds of accumulated fields
		accumulated := map[string]bool{}
		for _, a := range first {
			if i := strings.LastIndex(a, "."); i >= 0 {
				accumulated[strings.TrimSuffix(strings.SplitN(a[i+1:], "[", 2)[0], "]")] = true
			}
		}
		ast.Inspect(fi.Decl.Body, func(x ast.Node) bool {
			switch t := x.(type) {
			case *ast.AssignStmt:
				if t.Tok == token.ASSIGN && len(t.Rhs) == 1 && identObj(info, t.Rhs[0]) == inc {
					r.Bad(rule, fi.Name, stmtStr(t), c.Pos(t.Pos()), "the increment is assigned instead of accumulated")
				}
			case *ast.KeyValueExpr:
				if id, ok := t.Key.(*ast.Ident); ok && accumulated[id.Name] {
					if v, isC := constInt(info, t.Value); isC && v != 0 {
						r.Bad(rule, fi.Name, id.Name+": "+exprStr(t.Value), c.Pos(t.Pos()), "an accumulated field is seeded with the non-zero constant "+exprStr(t.Value)+" when the object is created: the total no longer equals the sum of its cells")
					}
					if identObj(info, t.Value) == inc {
						r.Bad(rule, fi.Name, id.Name+": "+exprStr(t.Value), c.Pos(t.Pos()), "an accumulated field is seeded with the increment in the constructor literal while other paths accumulate it")
					}
				}
			case *ast.CompositeLit:
				// map literal seeded with the increment
				if _, isMap := info.TypeOf(t).Underlying().(*types.Map); isMap {
					for _, el := range t.Elts {
						if kv, ok := el.(*ast.KeyValueExpr); ok && identObj(info, kv.Value) == inc {
							r.Bad(rule, fi.Name, exprStr(t), c.Pos(t.Pos()), "a cell map is created already holding the increment: this path bypasses the accumulations the other paths perform")
						}
					}
				}
			}
			return true
		})
	}
	r.Floor(rule, 3, "MatchCounter.SampleValue, SubKeyCounter.SampleValue, TableAggregator.SampleItem")
	_ = n
}

func c07SubkeyAlignment(c *Ctx, r *Report) {
	const rule = "C07-b/subkey-alignment"
	fi := c.MustFunc(r, rule, aggPkg, "(*SubKeyCounter).getOrCreateSubkeyIndex")
	if fi == nil {
		return
	}
	info := fi.Pkg.TypesInfo
	// idx is produced together with the new subKeys by one call
	var idxObj types.Object
	insertPos := token.NoPos
	ast.Inspect(fi.Decl.Body, func(n ast.Node) bool {
		as, ok := n.(*ast.AssignStmt)
		if !ok || len(as.Lhs) != 2 || len(as.Rhs) != 1 {
			return true
		}
		if fieldNamed(info, as.Lhs[0], "subKeys") {
			if ce, ok := as.Rhs[0].(*ast.CallExpr); ok && len(ce.Args) >= 1 && fieldNamed(info, ce.Args[0], "subKeys") {
				idxObj = identObj(info, as.Lhs[1])
				insertPos = as.Pos()
			}
		}
		return true
	})
	r.Check(idxObj != nil, rule, fi.Name, "s.subKeys, idx = insert(s.subKeys, key)", c.Pos(fi.Decl.Pos()), "shape: the ordered insert yields the new slice and the insertion index together", "the ordered insert of a new sub-key no longer yields the new key slice together with its index")
	// the table is rebuilt from the new slice
	rebuilt := false
	ast.Inspect(fi.Decl.Body, func(n ast.Node) bool {
		rs, ok := n.(*ast.RangeStmt)
		if !ok || rs.Pos() < insertPos || !fieldNamed(info, rs.X, "subKeys") || rs.Key == nil || rs.Value == nil {
			return true
		}
		for _, st := range rs.Body.List {
			if as, ok := st.(*ast.AssignStmt); ok && len(as.Lhs) == 1 && len(as.Rhs) == 1 {
				if ix, ok := ast.Unparen(as.Lhs[0]).(*ast.IndexExpr); ok && fieldNamed(info, ix.X, "subKeyIdx") &&
					identObj(info, ix.Index) == identObj(info, rs.Value) && identObj(info, as.Rhs[0]) == identObj(info, rs.Key) {
					rebuilt = true
				}
			}
		}
		return true
	})
	r.Check(rebuilt, rule, fi.Name, "subKeyIdx rebuilt from subKeys", c.Pos(fi.Decl.Pos()), "agreement by construction: after the insert every name is mapped to its position in the new slice", "after inserting a sub-key the name->index table is not rebuilt from the new key slice (an incremental update that reads the pre-insert slice sees already-shifted names when the slice had spare capacity): later samples land in the wrong column")
	// every item gets a zero at idx
	shifted := false
	ast.Inspect(fi.Decl.Body, func(n ast.Node) bool {
		rs, ok := n.(*ast.RangeStmt)
		if !ok || !fieldNamed(info, rs.X, "matches") || rs.Value == nil {
			return true
		}
		okBody := len(rs.Body.List) == 1
		if okBody {
			if as, ok := rs.Body.List[0].(*ast.AssignStmt); ok && len(as.Rhs) == 1 {
				if ce, ok := as.Rhs[0].(*ast.CallExpr); ok && len(ce.Args) == 3 && identObj(info, ce.Args[1]) == idxObj {
					if v, isC := constInt(info, ce.Args[2]); isC && v == 0 && fieldNamed(info, as.Lhs[0], "submatches") && fieldNamed(info, ce.Args[0], "submatches") {
						shifted = true
					}
				}
			}
		}
		// the same insertion written out: w := append(item.submatches, 0); copy(w[idx+1:], w[idx:]); w[idx] = 0; item.submatches = w
		if !shifted {
			var w types.Object
			grown, moved, zeroed, stored := false, false, false, false
			for _, st := range rs.Body.List {
				switch t := st.(type) {
				case *ast.AssignStmt:
					if len(t.Lhs) != 1 || len(t.Rhs) != 1 {
						continue
					}
					if ce, ok := ast.Unparen(t.Rhs[0]).(*ast.CallExpr); ok && calleeName(info, ce) == "builtin.append" && len(ce.Args) == 2 && fieldNamed(info, ce.Args[0], "submatches") {
						if v, isC := constInt(info, ce.Args[1]); isC && v == 0 {
							w = identObj(info, t.Lhs[0])
							grown = w != nil
						}
					}
					if ix, ok := ast.Unparen(t.Lhs[0]).(*ast.IndexExpr); ok && w != nil && identObj(info, ix.X) == w && identObj(info, ix.Index) == idxObj {
						if v, isC := constInt(info, t.Rhs[0]); isC && v == 0 {
							zeroed = true
						}
					}
					if fieldNamed(info, t.Lhs[0], "submatches") && w != nil && identObj(info, t.Rhs[0]) == w {
						stored = true
					}
				case *ast.ExprStmt:
					if ce, ok := t.X.(*ast.CallExpr); ok && calleeName(info, ce) == "builtin.copy" && len(ce.Args) == 2 && w != nil {
						d, ok1 := ast.Unparen(ce.Args[0]).(*ast.SliceExpr)
						sr, ok2 := ast.Unparen(ce.Args[1]).(*ast.SliceExpr)
						if ok1 && ok2 && identObj(info, d.X) == w && identObj(info, sr.X) == w && d.High == nil && sr.High == nil && identObj(info, sr.Low) == idxObj {
							if be, isB := ast.Unparen(d.Low).(*ast.BinaryExpr); isB && be.Op == token.ADD && identObj(info, be.X) == idxObj {
								if v, isC := constInt(info, be.Y); isC && v == 1 {
									moved = true
								}
							}
						}
					}
				}
			}
			if grown && moved && zeroed && stored {
				shifted = true
			}
		}
		return true
	})
	r.Check(shifted, rule, fi.Name, "every item gets a 0 at idx", c.Pos(fi.Decl.Pos()), "agreement: each existing row's cells are shifted at the same index, unconditionally", "not every existing item gets a zero cell inserted at the index of the new sub-key")
	// new items have len(subKeys) cells
	if mk := c.MustFunc(r, rule, aggPkg, "(*SubKeyCounter).getOrCreateKeyItem"); mk != nil {
		ok := false
		ast.Inspect(mk.Decl.Body, func(n ast.Node) bool {
			if kv, isKV := n.(*ast.KeyValueExpr); isKV && exprStr(kv.Key) == "submatches" {
				if ce, isC := ast.Unparen(kv.Value).(*ast.CallExpr); isC && calleeName(info, ce) == "builtin.make" && len(ce.Args) == 2 {
					if ln, isL := ast.Unparen(ce.Args[1]).(*ast.CallExpr); isL && calleeName(info, ln) == "builtin.len" && fieldNamed(info, ln.Args[0], "subKeys") {
						ok = true
					}
				}
			}
			return true
		})
		r.Check(ok, rule, mk.Name, "submatches: make(len(subKeys))", c.Pos(mk.Decl.Pos()), "agreement: a new row has one cell per known sub-key", "a new item is not created with len(subKeys) cells")
	}
	r.Floor(rule, 4, "insert, rebuild, shift, new rows")
}

func c07ParseErrors(c *Ctx, r *Report) {
	const rule = "C07-c/parse-errors"
	n := 0
	for _, fi := range c.AllFuncDecls(aggPkg) {
		if fi.Pkg.PkgPath != aggPkg || fi.Decl.Recv == nil || fi.Decl.Name.Name != "Sample" {
			continue
		}
		info := fi.Pkg.TypesInfo
		hasParse := false
		ast.Inspect(fi.Decl.Body, func(x ast.Node) bool {
			if ce, ok := x.(*ast.CallExpr); ok && strings.HasPrefix(calleeName(info, ce), "strconv.Parse") {
				hasParse = true
			}
			return true
		})
		if !hasParse {
			continue
		}
		n++
		fg := NewFGraph(fi.Decl.Body, info)
		nPaths := 0
		enumPaths(fg, fg.Entry, func(id int) bool { return id == fg.Exit }, func(nodes []int, edges []FEdge) {
			nPaths++
			errs, samples := 0, 0
			errPath := 0 // +1: err != nil known, -1: err == nil known
			for _, e := range edges {
				if e.Cond == nil {
					continue
				}
				for _, a := range atomise(Fact{e.Cond, e.Tag, e.Truth}) {
					be, ok := ast.Unparen(a.Cond).(*ast.BinaryExpr)
					if !ok || exprStr(be.Y) != "nil" {
						continue
					}
					if t := info.TypeOf(be.X); t == nil || t.String() != "error" {
						continue
					}
					if (be.Op == token.NEQ && a.Truth) || (be.Op == token.EQL && !a.Truth) {
						errPath = 1
					} else {
						errPath = -1
					}
				}
			}
			for _, id := range nodes {
				nd := fg.Nodes[id]
				if nd.N == nil {
					continue
				}
				if inc, ok := nd.N.(*ast.IncDecStmt); ok && inc.Tok == token.INC {
					if fv := fieldVar(info, inc.X); fv != nil && strings.Contains(strings.ToLower(fv.Name()), "error") {
						errs++
					}
				}
				for _, ce := range callsIn(nd.N) {
					if f := calleeFunc(info, ce); f != nil && f.Pkg() != nil && f.Pkg().Path() == aggPkg && strings.HasPrefix(f.Name(), "Sample") && f.Name() != "Sample" {
						samples++
					}
				}
			}
			ok := false
			switch errPath {
			case 1:
				ok = errs == 1 && samples == 0
			default:
				ok = errs == 0 && samples == 1
			}
			r.Check(ok, rule, fi.Name, fmt.Sprintf("path err=%d", errPath), c.Pos(fi.Decl.Pos()), "path: a parse failure is counted and not sampled; otherwise exactly one sample",
				fmt.Sprintf("on a path of %s with parse-failure state %d the error counter is incremented %d time(s) and %d sample call(s) are made: a non-integer increment must be counted as an error and not sampled, anything else sampled exactly once", fi.Name, errPath, errs, samples))
		})
	}
	r.Floor(rule, 8, "paths of the four Sample methods")
	_ = n
}

func c07Numerical(c *Ctx, r *Report) {
	const rule = "C07-d/numerical"
	fi := c.MustFunc(r, rule, aggPkg, "(*MatchNumerical).Samplef")
	if fi == nil {
		return
	}
	info := fi.Pkg.TypesInfo
	fg := NewFGraph(fi.Decl.Body, info)
	// guarded extremum conditions: `val < s.min` / `val > s.max` style conditions guarding an assignment of val to that field
	type ext struct {
		cond  ast.Expr
		field string
	}
	var exts []ext
	ast.Inspect(fi.Decl.Body, func(n ast.Node) bool {
		is, ok := n.(*ast.IfStmt)
		if !ok || len(is.Body.List) != 1 {
			return true
		}
		as, ok := is.Body.List[0].(*ast.AssignStmt)
		if !ok || len(as.Lhs) != 1 || as.Tok != token.ASSIGN {
			return true
		}
		fv := fieldVar(info, as.Lhs[0])
		be, ok2 := ast.Unparen(is.Cond).(*ast.BinaryExpr)
		if fv == nil || !ok2 {
			return true
		}
		if (fieldVar(info, be.Y) == fv && exprStr(be.X) == exprStr(as.Rhs[0])) || (fieldVar(info, be.X) == fv && exprStr(be.Y) == exprStr(as.Rhs[0])) {
			exts = append(exts, ext{is.Cond, fv.Name()})
		}
		return true
	})
	for _, e := range exts {
		id := -1
		for _, nd := range fg.Nodes {
			if nd.N == ast.Node(e.cond) {
				id = nd.ID
			}
		}
		every := id >= 0 && !fg.Reaches(fg.Entry, fg.Exit, func(n *FNode) bool { return n.ID == id })
		r.Check(every, rule, fi.Name, "every sample is compared with "+e.field, c.Pos(e.cond.Pos()), "path: the comparison is evaluated on every path through the function", "the update of "+e.field+" is skipped on some path (e.g. chained with else to another extremum): a sample that is both the smallest and the largest so far - the first one - updates only one of them")
	}
	r.Floor(rule, 3, "min, max and the sample count order")
	// samples++ dominates its use as divisor
	incNode, divNode := -1, -1
	for _, nd := range fg.Nodes {
		if nd.N == nil {
			continue
		}
		if inc, ok := nd.N.(*ast.IncDecStmt); ok && fieldNamed(info, inc.X, "samples") && inc.Tok == token.INC {
			incNode = nd.ID
		}
		ast.Inspect(nd.N, func(x ast.Node) bool {
			if be, ok := x.(*ast.BinaryExpr); ok && be.Op == token.QUO && strings.Contains(exprStr(be.Y), "samples") {
				divNode = nd.ID
			}
			return true
		})
	}
	r.Check(incNode >= 0 && divNode >= 0 && incNode != divNode && fg.Dominates(incNode, divNode), rule, fi.Name, "samples++ before /samples", c.Pos(fi.Decl.Pos()), "order: the sample is counted before the running mean divides by the count", "the running mean divides by the sample count before the current sample was counted (division by zero on the first sample / wrong weights)")
}

var reviewedAgg = []reviewedEntry{
	rv("index", "rare/pkg/aggregation.(*AccumulatingGroup).GroupCols", "ret[i]", 1, "ret was made with len(s.groupDef) and i ranges over s.groupDef"),
	rv("index", "rare/pkg/aggregation.(*SubKeyCounter).SampleValue", "item.submatches[subKeyIndex]", 1, "every item has len(subKeys) cells (created so, and grown at each sub-key insert - C07-b); subKeyIndex is a position in subKeys returned by getOrCreateSubkeyIndex, which runs after the item exists"),
	rv("slice", "rare/pkg/aggregation.insertAt", "ret[idx + 1:]", 1, "ret = append(slice, ..) has len(slice)+1 elements and idx <= len(slice) (an insertion position)"),
	rv("slice", "rare/pkg/aggregation.insertAt", "ret[idx:]", 1, "idx <= len(slice) < len(ret)"),
	rv("slice", "rare/pkg/aggregation.insertAti64", "ret[idx + 1:]", 1, "ret = append(slice, 0) has len(slice)+1 elements and idx <= len(slice): idx is a position in the pre-insert key slice, which has the same length as every item's cells"),
	rv("slice", "rare/pkg/aggregation.insertAti64", "ret[idx:]", 1, "idx <= len(slice) < len(ret)"),
	rv("index", "rare/pkg/aggregation/sorting.(*wrappedSorter).Swap", "s.arr[i]", 2, "sort.Sort only passes indexes in [0, Len()) and Len() is len(s.arr)"),
	rv("index", "rare/pkg/aggregation/sorting.(*wrappedSorter).Swap", "s.arr[j]", 2, "sort.Sort only passes indexes in [0, Len())"),
	rv("index", "rare/pkg/aggregation/sorting.(*wrappedSorter).Less", "s.arr[i]", 1, "sort.Sort only passes indexes in [0, Len())"),
	rv("index", "rare/pkg/aggregation/sorting.(*wrappedSorter).Less", "s.arr[j]", 1, "sort.Sort only passes indexes in [0, Len())"),
}

func c07Bounds(c *Ctx, r *Report) {
	bce, err := bceList(c)
	if err != nil {
		r.Undecided("C07-e/bce", "compiler", "listing", "-", err.Error())
		return
	}
	rev := append(append(append([]reviewedEntry{}, reviewedExpr...), reviewedRender...), reviewedAgg...)
	pe := &panicEngine{c: c, bce: bce, reviewed: rev}
	pe.run(aggPkg)
	pe.emit(r, "C07-e", nil)
	c14Clamp2(c, r)
	r.Floor("C07-e/index", 15, "index expressions of the aggregators")
}

func c14Clamp2(c *Ctx, r *Report) {
	sub := NewReport(r.Prop, r.Tier)
	sub.curCfg = r.curCfg
	c14Clamp(c, sub)
	for _, o := range sub.Obs {
		o.Rule = strings.Replace(o.Rule, "C14-a", "C07-e", 1)
		o.Key = strings.Replace(o.Key, "C14-a", "C07-e", 1)
		r.Obs = append(r.Obs, o)
	}
}

// c07RowInit (C07-f/row-init): the accumulating group folds every column from
// its initial value. A freshly made row must be filled with the columns'
// initial values - a loop over the column definitions that stores each
// definition's initial into the cell of its own index - before the row is
// visible to the column expressions (which may read *other* columns).
func c07RowInit(c *Ctx, r *Report) {
	const rule = "C07-f/row-init"
	fi := c.MustFunc(r, rule, aggPkg, "(*AccumulatingGroup).Sample")
	if fi == nil {
		return
	}
	info := fi.Pkg.TypesInfo
	fg := NewFGraph(fi.Decl.Body, info)
	n := 0
	ast.Inspect(fi.Decl.Body, func(x ast.Node) bool {
		as, ok := x.(*ast.AssignStmt)
		if !ok || len(as.Lhs) != 1 || len(as.Rhs) != 1 {
			return true
		}
		mk, ok := ast.Unparen(as.Rhs[0]).(*ast.CallExpr)
		if !ok || calleeName(info, mk) != "builtin.make" || len(mk.Args) < 2 {
			return true
		}
		sl, ok := info.TypeOf(mk).Underlying().(*types.Slice)
		if !ok {
			return true
		}
		if b, ok := sl.Elem().Underlying().(*types.Basic); !ok || b.Kind() != types.String {
			return true
		}
		row := identObj(info, as.Lhs[0])
		if row == nil {
			return true
		}
		n++
		// initialisation loops: for i, d := range X { row[i] = d.initial }
		var initNodes []int
		ast.Inspect(fi.Decl.Body, func(y ast.Node) bool {
			rs, ok := y.(*ast.RangeStmt)
			if !ok || rs.Key == nil || rs.Value == nil {
				return true
			}
			k, v := identObj(info, rs.Key), identObj(info, rs.Value)
			for _, st := range rs.Body.List {
				a2, ok := st.(*ast.AssignStmt)
				if !ok || a2.Tok != token.ASSIGN || len(a2.Lhs) != 1 || len(a2.Rhs) != 1 {
					continue
				}
				ix, ok := ast.Unparen(a2.Lhs[0]).(*ast.IndexExpr)
				if !ok || identObj(info, ix.X) != row || identObj(info, ix.Index) != k {
					continue
				}
				if se, ok := ast.Unparen(a2.Rhs[0]).(*ast.SelectorExpr); ok && identObj(info, se.X) == v {
					if fv := fieldVar(info, se); fv != nil && strings.Contains(strings.ToLower(fv.Name()), "init") {
						// the loop as a whole is the barrier (zero iterations = zero columns = nothing to fill)
						for _, nd := range fg.Nodes {
							if nd.Block != nil && nd.Block.Stmt == ast.Stmt(rs) {
								initNodes = append(initNodes, nd.ID)
							}
						}
					}
				}
			}
			return true
		})
		// every path from the make to a read of the row by an expression (BuildKey call / closure creation) crosses the init loop
		mkNode := fg.NodeOf(as.Pos())
		isInit := func(nd *FNode) bool {
			for _, id := range initNodes {
				if nd.ID == id {
					return true
				}
			}
			return false
		}
		leak := ""
		for _, nd := range fg.Nodes {
			if nd.N == nil || nd.ID == mkNode || isInit(nd) {
				continue
			}
			reads := false
			ast.Inspect(nd.N, func(y ast.Node) bool {
				if ce, ok := y.(*ast.CallExpr); ok {
					if se, ok := ce.Fun.(*ast.SelectorExpr); ok && se.Sel.Name == "BuildKey" {
						reads = true
					}
				}
				return true
			})
			if reads && fg.Reaches(mkNode, nd.ID, isInit) {
				leak = c.Pos(nd.N.Pos())
			}
		}
		r.Check(len(initNodes) > 0 && leak == "", rule, fi.Name, stmtStr(as), c.Pos(as.Pos()), "order: the new row is filled with the columns' initial values before any column expression is evaluated",
			"a freshly made row can reach the evaluation of the column expressions (at "+leak+") without having been filled with the columns' initial values: a column that refers to another column sees an empty cell instead of that column's initial value on the first sample of a group, and the fold starts from the wrong state")
		return true
	})
	if n == 0 {
		r.Bad(rule, fi.Name, "row creation", c.Pos(fi.Decl.Pos()), "creation of a new row not found")
	}
	r.Floor(rule, 1, "row creation in AccumulatingGroup.Sample")
}
