package main

// C09 - template syntax: error reporting, variable dispatch, escape table,
// consistent character handling. C11 - scalar helpers: error markers, docs.

import (
	"fmt"
	"go/ast"
	"go/token"
	"go/types"
	"os"
	"path/filepath"
	"regexp"
	"sort"
	"strings"
)

func init() {
	register(&propDef{
		ID:  "C09",
		Run: runC09,
		Explain: "Decided: (a) every malformed construct is reported: Compile adds ErrorEmptyStatement exactly under an empty argument list, ErrorMissingFunction under an unknown function name, ErrorUnterminated when the scan ends inside a statement, inherits the errors of nested compiles and adds factory errors under err != nil, and returns a non-nil error set exactly when it is not empty; (b) variable dispatch: a lone word is handed to stageSimpleVariable as the split argument itself; that function returns a GetMatch(index) stage on the integer path and a GetKey(word) stage otherwise; (c) the escape table maps exactly n, r, t to newline, carriage return, tab and every other character to itself; (d) characters are handled as runes consistently: the scanner never converts an indexed byte of the template to a rune, and the argument splitter classifies white space with one predicate in all its branches. Every argument of a statement is compiled by the recursive Compile on every path through the argument loop; no byte of the template is ever treated as a code point. " +
			"NOT decided: literal round trip, argument splitting, quoting and nesting equivalence for every template - language-equivalence claims about two hand-written scanners.",
		Assume: []string{},
	})
	register(&propDef{
		ID:  "C11",
		Run: runC11,
		Explain: "Decided: (a) non-numeric input yields the error marker, never a number: in every stage closure of pkg/expressions/stdlib each (value, ok) or (value, err) result of a parse or typed-argument evaluation is tested before it can be overwritten or the closure returns, and on the failure branch the closure returns one of the Error* markers without using the value; (b) registry and documentation agree: every documented helper is registered (registered-but-undocumented helpers are listed as advisory); (c) two documented laws that are visible as branch guards: clamp answers min/max only strictly outside the bounds and the value exactly inside them, and the csv helper emits a field without doubling its quotes only where the field is known to contain none. (c') the csv helper evaluates every argument as the operand of its encoder and never returns an argument stage unchanged; unit scaling divides in floating point only; (d) stage closures keep no state between evaluations. " +
			"NOT decided: every numeric and string law of the ~60 helpers (bucket floors, clamp bounds, separators, unit scaling, CSV quoting) - these are value-level.",
		Assume: []string{},
	})
}

const exprPkg = "rare/pkg/expressions"

func runC09(c *Ctx, r *Report) {
	c09Errors(c, r)
	c09ErrorsRecorded(c, r, "C09-a/errors-recorded")
	c09ArgsCompiled(c, r)
	c09Dispatch(c, r)
	c09Unescape(c, r)
	c09Runes(c, r)
	c09Metacharacters(c, r, "C09-e/metacharacters")
}

func c09Errors(c *Ctx, r *Report) {
	const rule = "C09-a/errors-reported"
	fi := c.MustFunc(r, rule, exprPkg, "(*KeyBuilder).Compile")
	if fi == nil {
		return
	}
	info := fi.Pkg.TypesInfo
	vi := analyseVars(info, fi.Decl)
	fg := NewFGraph(fi.Decl.Body, info)
	fg.SolveFacts(vi)
	pr := &prover{info: info, vi: vi, fg: fg, body: fi.Decl.Body}
	want := map[string]string{
		"ErrorEmptyStatement":  "len(args) == 0",
		"ErrorMissingFunction": "fact:!f != nil",
		"ErrorUnterminated":    "fact:inStatement != 0",
	}
	found := map[string]bool{}
	ast.Inspect(fi.Decl.Body, func(n ast.Node) bool {
		ce, ok := n.(*ast.CallExpr)
		if !ok {
			return true
		}
		se, ok := ce.Fun.(*ast.SelectorExpr)
		if !ok {
			return true
		}
		name := calleeName(info, ce)
		if strings.HasSuffix(name, "CompilerErrors).add") && len(ce.Args) >= 1 {
			sent := exprStr(ce.Args[0])
			facts := fg.FactsAtPos(ce.Pos())
			if guard, isSent := want[sent]; isSent {
				found[sent] = true
				ok2 := pr.holdsText(guard, facts)
				if !ok2 && sent == "ErrorMissingFunction" {
					ok2 = pr.holdsText("fact:f == nil", facts)
				}
				r.Check(ok2, rule, fi.Name, "errs.add("+sent+")", c.Pos(ce.Pos()), "guard: reported exactly under "+strings.TrimPrefix(guard, "fact:"), sent+" is reported under a different condition than the one that defines it")
			} else {
				// factory error: under err != nil
				ok2 := pr.holdsText(sent+" != nil", facts)
				r.Check(ok2, rule, fi.Name, "errs.add("+sent+")", c.Pos(ce.Pos()), "guard: a factory error is added when it is non-nil", "a stage factory's error is added without testing it")
			}
		}
		if strings.HasSuffix(name, "CompilerErrors).inherit") && len(ce.Args) >= 1 {
			facts := fg.FactsAtPos(ce.Pos())
			r.Check(pr.holdsText(exprStr(ce.Args[0])+" != nil", facts), rule, fi.Name, "errs.inherit(..)", c.Pos(ce.Pos()), "guard: nested compile errors are inherited when present", "errors of a nested compile are inherited without a nil test (or not at all)")
			found["inherit"] = true
		}
		_ = se
		return true
	})
	for _, k := range []string{"ErrorEmptyStatement", "ErrorMissingFunction", "ErrorUnterminated", "inherit"} {
		if !found[k] {
			r.Bad(rule, fi.Name, k, c.Pos(fi.Decl.Pos()), "Compile never reports "+k+": that malformed construct compiles silently")
		}
	}
	// returns: (kb, &errs) under !errs.empty(); (kb, nil) otherwise
	nRet := 0
	inspectNoLit(fi.Decl.Body, func(n ast.Node) bool {
		rs, ok := n.(*ast.ReturnStmt)
		if !ok || len(rs.Results) != 2 {
			return true
		}
		nRet++
		facts := fg.FactsAtPos(rs.Pos())
		e := exprStr(rs.Results[1])
		if e == "nil" {
			r.Check(pr.holdsText("fact:errs.empty()", facts), rule, fi.Name, "return kb, nil", c.Pos(rs.Pos()), "guard: nil errors only when the error set is empty", "Compile can return a nil error although errors were recorded")
		} else {
			r.Check(pr.holdsText("fact:!errs.empty()", facts), rule, fi.Name, "return kb, "+e, c.Pos(rs.Pos()), "guard: the error set is returned when it is not empty", "Compile returns its error set although it may be empty (callers treat any non-nil value as failure)")
		}
		return true
	})
	r.Floor(rule, 6, "three sentinels, inherit, factory error, two returns")
}

func c09Dispatch(c *Ctx, r *Report) {
	const rule = "C09-b/variable-dispatch"
	if fi := c.MustFunc(r, rule, exprPkg, "stageSimpleVariable"); fi != nil {
		info := fi.Pkg.TypesInfo
		vi := analyseVars(info, fi.Decl)
		fg := NewFGraph(fi.Decl.Body, info)
		fg.SolveFacts(vi)
		pr := &prover{info: info, vi: vi, fg: fg, body: fi.Decl.Body}
		var param, idxObj types.Object
		if len(fi.Decl.Type.Params.List) == 1 && len(fi.Decl.Type.Params.List[0].Names) == 1 {
			param = info.Defs[fi.Decl.Type.Params.List[0].Names[0]]
		}
		ast.Inspect(fi.Decl.Body, func(n ast.Node) bool {
			if as, ok := n.(*ast.AssignStmt); ok && len(as.Lhs) == 2 && len(as.Rhs) == 1 {
				if ce, ok := as.Rhs[0].(*ast.CallExpr); ok && calleeName(info, ce) == "strconv.Atoi" && identObj(info, ce.Args[0]) == param {
					idxObj = identObj(info, as.Lhs[0])
				}
			}
			return true
		})
		okKey, okMatch := false, false
		inspectNoLit(fi.Decl.Body, func(n ast.Node) bool {
			rs, ok := n.(*ast.ReturnStmt)
			if !ok || len(rs.Results) != 1 {
				return true
			}
			facts := fg.FactsAtPos(rs.Pos())
			ast.Inspect(rs.Results[0], func(m ast.Node) bool {
				ce, ok := m.(*ast.CallExpr)
				if !ok {
					return true
				}
				se, ok := ce.Fun.(*ast.SelectorExpr)
				if !ok || len(ce.Args) != 1 {
					return true
				}
				if se.Sel.Name == "GetKey" && identObj(info, ce.Args[0]) == param && pr.holdsText("err != nil", facts) {
					okKey = true
				}
				if se.Sel.Name == "GetMatch" && identObj(info, ce.Args[0]) == idxObj && idxObj != nil && !pr.holdsText("err != nil", facts) {
					okMatch = true
				}
				return true
			})
			return true
		})
		r.Check(okKey && okMatch, rule, fi.Name, "integer -> GetMatch(index), otherwise GetKey(word)", c.Pos(fi.Decl.Pos()), "flow: the parsed index selects a group, any other word is a key lookup", "a lone word is not dispatched as documented (integer: group lookup with the parsed value; otherwise: key lookup with the word)")
	}
	if fi := c.MustFunc(r, rule, exprPkg, "(*KeyBuilder).Compile"); fi != nil {
		info := fi.Pkg.TypesInfo
		// stageSimpleVariable(args[0]) where args is the result of splitTokenizedArguments
		var argsObj types.Object
		ast.Inspect(fi.Decl.Body, func(n ast.Node) bool {
			if as, ok := n.(*ast.AssignStmt); ok && len(as.Lhs) == 1 && len(as.Rhs) == 1 {
				if ce, ok := as.Rhs[0].(*ast.CallExpr); ok && calleeName(info, ce) == exprPkg+".splitTokenizedArguments" {
					argsObj = identObj(info, as.Lhs[0])
				}
			}
			return true
		})
		found := false
		ast.Inspect(fi.Decl.Body, func(n ast.Node) bool {
			ce, ok := n.(*ast.CallExpr)
			if !ok || calleeName(info, ce) != exprPkg+".stageSimpleVariable" || len(ce.Args) != 1 {
				return true
			}
			found = true
			ok2 := false
			if ix, isIx := ast.Unparen(ce.Args[0]).(*ast.IndexExpr); isIx && identObj(info, ix.X) == argsObj && argsObj != nil {
				if v, isC := constInt(info, ix.Index); isC && v == 0 {
					ok2 = true
				}
			}
			r.Check(ok2, rule, fi.Name, exprStr(ce), c.Pos(ce.Pos()), "flow: the lone word is the (unquoted, trimmed) split argument", "the lone word handed to the variable lookup is not the split argument: padded or quoted forms such as { 1 } or {\"key\"} no longer resolve")
			return true
		})
		if !found {
			r.Bad(rule, fi.Name, "stageSimpleVariable", c.Pos(fi.Decl.Pos()), "a one-word statement is never compiled into a variable lookup")
		}
	}
	r.Floor(rule, 2, "stageSimpleVariable and its call")
}

func c09Unescape(c *Ctx, r *Report) {
	const rule = "C09-c/escape-table"
	fi := c.MustFunc(r, rule, exprPkg, "unescape")
	if fi == nil {
		return
	}
	info := fi.Pkg.TypesInfo
	want := map[int64]int64{'n': '\n', 'r': '\r', 't': '\t'}
	got := map[int64]int64{}
	identityDefault := false
	var param types.Object
	if len(fi.Decl.Type.Params.List) == 1 && len(fi.Decl.Type.Params.List[0].Names) == 1 {
		param = info.Defs[fi.Decl.Type.Params.List[0].Names[0]]
	}
	ast.Inspect(fi.Decl.Body, func(n ast.Node) bool {
		cc, ok := n.(*ast.CaseClause)
		if !ok {
			return true
		}
		for _, e := range cc.List {
			k, isC := constInt(info, e)
			if !isC {
				continue
			}
			for _, st := range cc.Body {
				if rs, ok := st.(*ast.ReturnStmt); ok && len(rs.Results) == 1 {
					if v, isC2 := constInt(info, rs.Results[0]); isC2 {
						got[k] = v
					}
				}
			}
		}
		return true
	})
	for _, st := range fi.Decl.Body.List {
		if rs, ok := st.(*ast.ReturnStmt); ok && len(rs.Results) == 1 && identObj(info, rs.Results[0]) == param {
			identityDefault = true
		}
	}
	okTable := len(got) == len(want)
	for k, v := range want {
		if got[k] != v {
			okTable = false
		}
	}
	var ks []string
	for k, v := range got {
		ks = append(ks, fmt.Sprintf("%q->%q", rune(k), rune(v)))
	}
	sort.Strings(ks)
	r.Check(okTable && identityDefault, rule, fi.Name, strings.Join(ks, " "), c.Pos(fi.Decl.Pos()), "table: n, r, t map to the control characters, everything else to itself", "the escape table is not {n: newline, r: carriage return, t: tab, anything else: itself}")
	r.Floor(rule, 1, "unescape")
}

func c09Runes(c *Ctx, r *Report) {
	const rule = "C09-d/rune-handling"
	n := 0
	for _, name := range []string{"(*KeyBuilder).Compile", "splitTokenizedArguments"} {
		fi := c.MustFunc(r, rule, exprPkg, name)
		if fi == nil {
			continue
		}
		info := fi.Pkg.TypesInfo
		// (1) no byte of the template is treated as a code point (rune(s[i]), or rune(b) with b := s[i])
		bad := token.NoPos
		vi := analyseVars(info, fi.Decl)
		fgR := NewFGraph(fi.Decl.Body, info)
		fgR.SolveFacts(vi)
		prR := &prover{info: info, vi: vi, fg: fgR, body: fi.Decl.Body}
		for _, ce := range byteAsRuneSites(info, fi.Decl.Body, func(arg ast.Expr, pos token.Pos) bool {
			facts := fgR.FactsAtPos(pos)
			return prR.proveRange(arg, facts, 0, 0x7f) != "" || prR.holdsText(exprStr(arg)+" < 128", facts)
		}) {
			bad = ce.Pos()
		}
		n++
		r.Check(bad == token.NoPos, rule, fi.Name, "no byte-as-rune", c.Pos(fi.Decl.Pos()), "scan: no byte of the template is converted to a rune", "a byte of the template string is treated as a code point (at "+c.Pos(bad)+"): continuation bytes of multi-byte characters are misclassified (0x85 and 0xA0 count as white space) or the wrong byte is read after any multi-byte character")
		// (2) one whitespace predicate
		usesIsSpace := false
		var adhoc []string
		ast.Inspect(fi.Decl.Body, func(x ast.Node) bool {
			switch t := x.(type) {
			case *ast.CallExpr:
				if calleeName(info, t) == "unicode.IsSpace" {
					usesIsSpace = true
				}
			case *ast.BinaryExpr:
				if t.Op == token.EQL || t.Op == token.NEQ {
					for _, e := range []ast.Expr{t.X, t.Y} {
						if v, isC := constInt(info, e); isC && (v == ' ' || v == '\t' || v == '\n' || v == '\r') {
							adhoc = append(adhoc, exprStr(t))
						}
					}
				}
			}
			return true
		})
		if usesIsSpace {
			n++
			r.Check(len(adhoc) == 0, rule, fi.Name, "one whitespace predicate", c.Pos(fi.Decl.Pos()), "consistency: every branch classifies white space with unicode.IsSpace", "white space is classified by unicode.IsSpace in one branch and by the ad-hoc test "+strings.Join(adhoc, ", ")+" in another: characters that are white space for one branch and not for the other (tab, newline) are split inconsistently")
		}
	}
	r.Floor(rule, 3, "byte-as-rune in both scanners, whitespace predicate in the splitter")
	_ = n
}

// ================================================================ C11

const stdlibPkg = "rare/pkg/expressions/stdlib"

func runC11(c *Ctx, r *Report) {
	c11ErrorMarkers(c, r)
	c11Docs(c, r)
	c11Clamp(c, r)
	c11Csv(c, r)
	c11CsvEncoded(c, r)
	c11UnitScaling(c, r)
	c11LeftFold(c, r, "C11-b/left-fold")
	c11IntegerExact(c, r, "C11-f/integer-exact")
	// (d) a helper is a function of its arguments: stage closures keep no state between evaluations
	c05StagePurity(c, r, "C11-d")
	okResultLive(c, r, "C11-a/ok-live", "rare/pkg/expressions/stdlib")
	c11Coalesce(c, r, "C11-c/coalesce-empty")
	c11DecimalBase(c, r, "C11-a/decimal-base", stdlibPkg)
	stageKeepsNoAtomicState(c, r, "C11-d/atomic-state", nil, true)
	// (e) characters are whole code points: a rune is never cut down to its low byte to be classified or emitted
	nn := runeNarrowingSites(c, r, "C11-e/rune-narrowing", "a rune of the argument is truncated to a byte (table index, comparison or output): a non-ASCII character is then taken for the ASCII character that shares its low 8 bits (U+2020 for a blank, U+010A for a newline), so the helper mis-splits or mangles text the documentation says it handles", stdlibPkg, "rare/pkg/humanize", "rare/pkg/stringSplitter")
	r.OK("C11-e/rune-narrowing", stdlibPkg, "scan", "-", fmt.Sprintf("scan: %d rune-to-byte conversion(s) of non-constant runes examined", nn))
}

func c11ErrorMarkers(c *Ctx, r *Report) {
	const rule = "C11-a/ok-checked"
	p := c.ByPath[stdlibPkg]
	if p == nil {
		r.Undecided(rule, stdlibPkg, "package", "-", "package not found")
		return
	}
	info := p.TypesInfo
	errMarkers := map[types.Object]bool{}
	for _, n := range p.Types.Scope().Names() {
		if strings.HasPrefix(n, "Error") {
			if cst, ok := p.Types.Scope().Lookup(n).(*types.Const); ok {
				errMarkers[cst] = true
			}
		}
	}
	for _, fi := range c.AllFuncDecls(stdlibPkg) {
		for _, fl := range funcLitsIn(fi.Decl.Body) {
			if !isStageLit(info, fl) {
				continue
			}
			var fg *FGraph
			inspectNoLit(fl.Body, func(n ast.Node) bool {
				as, ok := n.(*ast.AssignStmt)
				if !ok || len(as.Lhs) != 2 || len(as.Rhs) != 1 {
					return true
				}
				ce, ok := as.Rhs[0].(*ast.CallExpr)
				if !ok {
					return true
				}
				// the second result is a bool (ok) or an error
				t2 := info.TypeOf(as.Lhs[1])
				if t2 == nil {
					return true
				}
				isOK := isBool(t2)
				isErr := t2.String() == "error"
				if !isOK && !isErr {
					return true
				}
				name := calleeName(info, ce)
				// parses and typed-stage evaluations only (map lookups etc. have their own semantics)
				typed := false
				if name == "" {
					if ft, ok := info.TypeOf(ce.Fun).Underlying().(*types.Signature); ok && ft.Results().Len() == 2 && isBool(ft.Results().At(1).Type()) && ft.Params().Len() == 1 && isKeyBuilderContext(ft.Params().At(0).Type()) {
						typed = true
					}
				}
				if !typed && !strings.HasPrefix(name, "strconv.") && !strings.HasPrefix(name, "time.Parse") && !strings.Contains(name, "dateparse.") {
					return true
				}
				flag := identObj(info, as.Lhs[1])
				if flag == nil || exprStr(as.Lhs[1]) == "_" {
					r.Bad(rule, fi.Name, stmtStr(as), c.Pos(as.Pos()), "the failure flag of a parse is discarded: non-numeric input is used as the zero value instead of yielding the error marker")
					return true
				}
				if fg == nil {
					fg = NewFGraph(fl.Body, info)
				}
				def := fg.NodeOf(as.Pos())
				// the flag must be read before it is overwritten or the closure returns
				readsFlag := func(nd *FNode) bool {
					if nd.N == nil || nd.ID == def {
						return false
					}
					hit := false
					ast.Inspect(nd.N, func(x ast.Node) bool {
						if id, ok := x.(*ast.Ident); ok && info.Uses[id] == flag {
							// an assignment's LHS is not a read
							hit = true
						}
						return true
					})
					if a2, ok := nd.N.(*ast.AssignStmt); ok {
						onlyLHS := true
						for _, rr := range a2.Rhs {
							ast.Inspect(rr, func(x ast.Node) bool {
								if id, ok := x.(*ast.Ident); ok && info.Uses[id] == flag {
									onlyLHS = false
								}
								return true
							})
						}
						if onlyLHS {
							hit = false
						}
					}
					return hit
				}
				redefOrExit := func(nd *FNode) bool {
					if nd.ID == fg.Exit {
						return true
					}
					if a2, ok := nd.N.(*ast.AssignStmt); ok && nd.ID != def {
						for _, l := range a2.Lhs {
							if identObj(info, l) == flag {
								return true
							}
						}
					}
					return false
				}
				seen := fg.ReachSet(def, readsFlag, nil)
				unchecked := false
				for id := range seen {
					if redefOrExit(fg.Nodes[id]) && !readsFlag(fg.Nodes[id]) {
						unchecked = true
					}
				}
				r.Check(!unchecked, rule, fi.Name, stmtStr(as), c.Pos(as.Pos()), "checked: the failure flag is tested before it is overwritten or the stage returns",
					"the failure flag of "+exprStr(ce.Fun)+" can be overwritten or abandoned without being tested: a non-numeric argument is silently used as zero and a plausible number comes out instead of the error marker")
				return true
			})
		}
	}
	r.Floor(rule, 30, "parse / typed-argument results in stage closures")
	// failure branches return an error marker
	const rule2 = "C11-a/marker-returned"
	nChecked := 0
	for _, fi := range c.AllFuncDecls(stdlibPkg) {
		for _, fl := range funcLitsIn(fi.Decl.Body) {
			if !isStageLit(info, fl) {
				continue
			}
			ast.Inspect(fl.Body, func(n ast.Node) bool {
				is, ok := n.(*ast.IfStmt)
				if !ok || len(is.Body.List) != 1 {
					return true
				}
				// if !ok { return X }  /  if err != nil { return X }
				failing := false
				for _, a := range atomise(Fact{is.Cond, nil, true}) {
					if id, isId := ast.Unparen(a.Cond).(*ast.Ident); isId && !a.Truth && isBool(info.TypeOf(id)) && (id.Name == "ok" || strings.HasSuffix(id.Name, "Ok")) {
						failing = true
					}
					if be, isB := ast.Unparen(a.Cond).(*ast.BinaryExpr); isB && a.Truth && be.Op == token.NEQ && exprStr(be.Y) == "nil" {
						if t := info.TypeOf(be.X); t != nil && t.String() == "error" {
							failing = true
						}
					}
				}
				rs, isRet := is.Body.List[0].(*ast.ReturnStmt)
				if !failing || !isRet || len(rs.Results) != 1 {
					return true
				}
				nChecked++
				o := identObj(info, rs.Results[0])
				okM := o != nil && errMarkers[o]
				if s, isS := constString(info, rs.Results[0]); isS && !okM {
					// a marker literal, or the empty/falsy string of a predicate helper (never a number)
					okM = (strings.HasPrefix(s, "<") && strings.HasSuffix(s, ">")) || s == ""
				}
				r.Check(okM, rule2, fi.Name, "failure => return "+exprStr(rs.Results[0]), c.Pos(rs.Pos()), "marker: the failure branch returns a documented <ERROR> marker", "the failure branch of a parse returns "+exprStr(rs.Results[0])+" instead of an error marker")
				return true
			})
		}
	}
	r.Floor(rule2, 30, "failure branches in stage closures")
	_ = nChecked
}

func c11Docs(c *Ctx, r *Report) {
	const rule = "C11-b/registry-docs"
	init, p := c.pkgVarInit(stdlibPkg, "StandardFunctions")
	cl := asCompositeLit(init)
	if p == nil || cl == nil {
		r.Undecided(rule, stdlibPkg, "StandardFunctions", "-", "function registry is not a composite literal")
		return
	}
	reg := map[string]bool{}
	for _, e := range mapLitEntries(p.TypesInfo, cl) {
		if e.KeyOK {
			reg[e.Key] = true
		}
	}
	doc := map[string]bool{}
	re := regexp.MustCompile("`\\{([A-Za-z@$!#.][A-Za-z0-9@$!#._]*)[ }]")
	for _, f := range []string{"docs/usage/expressions.md", "docs/usage/json.md", "docs/usage/math.md"} {
		data, err := os.ReadFile(filepath.Join(c.Repo, f))
		if err != nil {
			r.Undecided(rule, f, "read", "-", "documentation file missing: "+err.Error())
			continue
		}
		for _, ln := range strings.Split(string(data), "\n") {
			if !strings.Contains(ln, "Syntax") {
				continue
			}
			for _, m := range re.FindAllStringSubmatch(ln, -1) {
				doc[m[1]] = true
			}
		}
	}
	var names []string
	for k := range reg {
		names = append(names, k)
	}
	sort.Strings(names)
	nDoc := 0
	for _, k := range names {
		if doc[k] {
			nDoc++
			r.OK(rule, stdlibPkg+".var StandardFunctions", fmt.Sprintf("%q", k), c.Pos(cl.Pos()), "documented: has a Syntax line in docs/usage")
		} else {
			r.add(Ob{Rule: rule, Key: r.mkKey(rule, stdlibPkg+".var StandardFunctions", fmt.Sprintf("%q", k)), Pos: c.Pos(cl.Pos()), Status: "discharged", By: "advisory: registered helper without a `Syntax:` line (alias or undocumented); not a violation"})
		}
	}
	var dn []string
	for k := range doc {
		dn = append(dn, k)
	}
	sort.Strings(dn)
	for _, k := range dn {
		if !reg[k] && k != "." && k != "#" && k != ".#" && k != "@" {
			r.Bad(rule, "docs/usage", fmt.Sprintf("%q", k), "-", "the documentation gives a Syntax line for helper {"+k+" ..} but no such helper is registered: templates written from the docs fail to compile")
		}
	}
	r.Extra["registered_helpers"] = len(reg)
	r.Extra["documented_helpers"] = nDoc
	r.Floor(rule, 60, "about 80 registered helpers")
}

// c11Clamp: clamp returns the value exactly when min <= v <= max: the "min"
// result needs v < min (strict), the "max" result v > max (strict), and the
// value itself is returned only with both comparisons known false.
func c11Clamp(c *Ctx, r *Report) {
	const rule = "C11-c/clamp-bounds"
	fi := c.MustFunc(r, rule, stdlibPkg, "kfClamp")
	if fi == nil {
		return
	}
	info := fi.Pkg.TypesInfo
	vi := analyseVars(info, fi.Decl)
	n := 0
	for _, fl := range funcLitsIn(fi.Decl.Body) {
		if !isStageLit(info, fl) {
			continue
		}
		fg := NewFGraph(fl.Body, info)
		fg.SolveFacts(vi)
		pr := &prover{info: info, vi: vi, fg: fg, body: fl.Body}
		inspectNoLit(fl.Body, func(x ast.Node) bool {
			rs, ok := x.(*ast.ReturnStmt)
			if !ok || len(rs.Results) != 1 {
				return true
			}
			facts := fg.FactsAtPos(rs.Pos())
			if s, isS := constString(info, rs.Results[0]); isS {
				switch s {
				case "min":
					n++
					r.Check(pr.holdsText("val < min", facts), rule, fi.Name, `return "min"`, c.Pos(rs.Pos()), "guard: only for values strictly below the lower bound", "clamp answers \"min\" for a value that is not strictly below the lower bound (the bound itself must be returned unchanged)")
				case "max":
					n++
					r.Check(pr.holdsText("val > max", facts), rule, fi.Name, `return "max"`, c.Pos(rs.Pos()), "guard: only for values strictly above the upper bound", "clamp answers \"max\" for a value that is not strictly above the upper bound")
				}
				return true
			}
			if o := identObj(info, rs.Results[0]); o != nil && !strings.HasPrefix(o.Name(), "Error") {
				if _, isConst := o.(*types.Const); !isConst {
					n++
					r.Check(pr.holdsText("val >= min", facts) && pr.holdsText("val <= max", facts), rule, fi.Name, "return the value", c.Pos(rs.Pos()), "guard: the value is returned exactly inside [min, max]", "clamp returns the value although it may lie outside [min, max]")
				}
			}
			return true
		})
	}
	if n < 3 {
		r.Notes = append(r.Notes, "kfClamp does not have the three-way return shape; clamp bounds were not checked")
	}
}

// c11Csv: a field is wrapped in quotes without doubling embedded quotes only
// where it is known to contain none.
func c11Csv(c *Ctx, r *Report) {
	const rule = "C11-c/csv-quoting"
	fi := c.MustFunc(r, rule, stdlibPkg, "csvItemEncode")
	if fi == nil {
		return
	}
	info := fi.Pkg.TypesInfo
	vi := analyseVars(info, fi.Decl)
	fg := NewFGraph(fi.Decl.Body, info)
	fg.SolveFacts(vi)
	var param types.Object
	if len(fi.Decl.Type.Params.List) == 1 && len(fi.Decl.Type.Params.List[0].Names) == 1 {
		param = info.Defs[fi.Decl.Type.Params.List[0].Names[0]]
	}
	n := 0
	inspectNoLit(fi.Decl.Body, func(x ast.Node) bool {
		rs, ok := x.(*ast.ReturnStmt)
		if !ok || len(rs.Results) != 1 {
			return true
		}
		// does the result contain the raw parameter (not through ReplaceAll)?
		raw := false
		var walk func(e ast.Expr)
		walk = func(e ast.Expr) {
			e = ast.Unparen(e)
			switch t := e.(type) {
			case *ast.Ident:
				if info.Uses[t] == param {
					raw = true
				}
			case *ast.BinaryExpr:
				walk(t.X)
				walk(t.Y)
			}
		}
		walk(rs.Results[0])
		if !raw {
			return true
		}
		n++
		// no quote known: a ContainsAny/Contains(s, ...) with a needle that includes the quote is known false
		noQuote := false
		for _, f := range fg.FactsAtPos(rs.Pos()) {
			ce, ok := ast.Unparen(f.Cond).(*ast.CallExpr)
			if !ok || f.Truth || f.Tag != nil || len(ce.Args) != 2 || identObj(info, ce.Args[0]) != param {
				continue
			}
			name := calleeName(info, ce)
			if needle, isS := constString(info, ce.Args[1]); isS && strings.Contains(needle, "\"") {
				if name == "strings.ContainsAny" || (name == "strings.Contains" && needle == "\"") || name == "strings.ContainsRune" {
					noQuote = true
				}
			}
		}
		r.Check(noQuote, rule, fi.Name, "return "+exprStr(rs.Results[0]), c.Pos(rs.Pos()), "guard: the raw field is emitted only where it is known to contain no quote", "a CSV field is emitted (possibly wrapped in quotes) without doubling embedded quotes on a path where it may contain a quote: `a,\"b\"` becomes \"a,\"b\"\", which no longer parses back to the argument")
		return true
	})
	r.Floor(rule, 2, "comma-only wrap and plain return")
	_ = n
}

// c09ArgsCompiled (C09-a/args-compiled): every argument of a statement goes
// through the same recursive Compile (which is what applies escapes, quotes and
// nesting uniformly); no path through the argument loop hands an argument to a
// stage without compiling it.
func c09ArgsCompiled(c *Ctx, r *Report) {
	const rule = "C09-a/args-compiled"
	fi := c.MustFunc(r, rule, exprPkg, "(*KeyBuilder).Compile")
	if fi == nil {
		return
	}
	info := fi.Pkg.TypesInfo
	fg := NewFGraph(fi.Decl.Body, info)
	n := 0
	ast.Inspect(fi.Decl.Body, func(x ast.Node) bool {
		rs, ok := x.(*ast.RangeStmt)
		if !ok || rs.Value == nil {
			return true
		}
		v := identObj(info, rs.Value)
		if v == nil {
			return true
		}
		// arguments are template text
		if b, isB := v.Type().Underlying().(*types.Basic); !isB || b.Info()&types.IsString == 0 {
			return true
		}
		// the loop that feeds a stage factory: its body appends to a []KeyBuilderStage
		feeds := false
		ast.Inspect(rs.Body, func(y ast.Node) bool {
			if ce, ok := y.(*ast.CallExpr); ok && calleeName(info, ce) == "builtin.append" && len(ce.Args) > 0 {
				if sl, ok := info.TypeOf(ce.Args[0]).Underlying().(*types.Slice); ok && isNamed(sl.Elem(), exprPkg, "KeyBuilderStage") {
					feeds = true
				}
			}
			return true
		})
		if !feeds {
			return true
		}
		n++
		bodyHead, loopHead := -1, -1
		for _, nd := range fg.Nodes {
			if nd.N == nil && nd.Block != nil && nd.Block.Stmt == ast.Stmt(rs) {
				switch nd.Block.Kind.String() {
				case "RangeBody":
					bodyHead = nd.ID
				case "RangeLoop":
					loopHead = nd.ID
				}
			}
		}
		if bodyHead < 0 || loopHead < 0 {
			r.Undecided(rule, fi.Name, "argument loop", c.Pos(rs.Pos()), "loop structure not recognised")
			return true
		}
		compiles := func(nd *FNode) bool {
			if nd.N == nil {
				return false
			}
			hit := false
			inspectNoLit(nd.N, func(y ast.Node) bool {
				if ce, ok := y.(*ast.CallExpr); ok && len(ce.Args) == 1 && identObj(info, ce.Args[0]) == v {
					if f := calleeFunc(info, ce); f != nil && f == fi.Obj {
						hit = true
					}
				}
				return true
			})
			return hit
		}
		bypass := fg.Reaches(bodyHead, loopHead, compiles)
		r.Check(!bypass, rule, fi.Name, "for .. range "+exprStr(rs.X), c.Pos(rs.Pos()), "path: every argument is compiled by the recursive Compile on every path through the loop",
			"an argument can reach the stage list without going through the recursive Compile: escapes, quotes and nesting are then handled differently for such arguments (e.g. a literal argument keeps one more level of backslashes)")
		return true
	})
	if n == 0 {
		r.Undecided(rule, fi.Name, "argument loop", c.Pos(fi.Decl.Pos()), "the loop that compiles the arguments of a statement was not found")
	}
	r.Floor(rule, 1, "argument loop of Compile")
}

// c11CsvEncoded (C11-c/csv-encoded): whatever {csv ..} emits for an argument
// went through csvItemEncode - in the stage literal every evaluation of an
// argument stage is the operand of csvItemEncode, and the factory never
// returns an argument stage itself (no arity-specific shortcut).
func c11CsvEncoded(c *Ctx, r *Report) {
	const rule = "C11-c/csv-encoded"
	fi := c.MustFunc(r, rule, stdlibPkg, "kfCsv")
	if fi == nil {
		return
	}
	info := fi.Pkg.TypesInfo
	var args types.Object
	if fi.Decl.Type.Params != nil && len(fi.Decl.Type.Params.List) == 1 && len(fi.Decl.Type.Params.List[0].Names) == 1 {
		args = info.Defs[fi.Decl.Type.Params.List[0].Names[0]]
	}
	isArgStage := func(e ast.Expr) bool {
		e = ast.Unparen(e)
		if ix, ok := e.(*ast.IndexExpr); ok {
			return identObj(info, ix.X) == args
		}
		if o, ok := identObj(info, e).(*types.Var); ok && o != nil && o != args {
			// a local or range variable holding one of the argument stages
			return isNamed(o.Type(), exprPkg, "KeyBuilderStage") && within(fi.Decl.Body, o.Pos())
		}
		return false
	}
	// (1) factory returns
	inspectNoLit(fi.Decl.Body, func(x ast.Node) bool {
		rs, ok := x.(*ast.ReturnStmt)
		if !ok || len(rs.Results) == 0 {
			return true
		}
		e := ast.Unparen(rs.Results[0])
		if ce, ok := e.(*ast.CallExpr); ok && isConversion(info, ce) && len(ce.Args) == 1 {
			e = ast.Unparen(ce.Args[0])
		}
		r.Check(!isArgStage(e), rule, fi.Name, stmtStr(rs), c.Pos(rs.Pos()), "shape: the factory returns its own encoding stage (or a literal/error stage)",
			"kfCsv returns an argument stage unchanged: for that arity the value is emitted without CSV quoting, so a value containing a comma, quote or newline no longer parses back to the argument")
		return true
	})
	// (2) every evaluation of an argument stage is encoded
	encoded := map[ast.Node]bool{}
	var evals []*ast.CallExpr
	ast.Inspect(fi.Decl.Body, func(x ast.Node) bool {
		ce, ok := x.(*ast.CallExpr)
		if !ok {
			return true
		}
		if calleeName(info, ce) == stdlibPkg+".csvItemEncode" && len(ce.Args) == 1 {
			encoded[ast.Unparen(ce.Args[0])] = true
		}
		if isArgStage(ce.Fun) {
			evals = append(evals, ce)
		}
		return true
	})
	for _, ev := range evals {
		r.Check(encoded[ev], rule, fi.Name, exprStr(ev), c.Pos(ev.Pos()), "escaped: the argument's value is the operand of csvItemEncode",
			"an argument of {csv ..} is evaluated and used without passing through csvItemEncode: its commas and quotes reach the output raw")
	}
	if len(evals) == 0 {
		r.Bad(rule, fi.Name, "argument evaluation", c.Pos(fi.Decl.Pos()), "no evaluation of an argument stage found in kfCsv")
	}
	r.Floor(rule, 2, "factory returns and the argument evaluation")
}

// c11UnitScaling (C11-c/unit-scaling): downscale / bytesize print n/step^rank
// at the requested precision; the division must therefore happen in floating
// point. An integer division of the running value drops the remainder of every
// lower-order step (1999999 -> "1.9990M").
func c11UnitScaling(c *Ctx, r *Report) {
	const rule = "C11-c/unit-scaling"
	fi := c.MustFunc(r, rule, "rare/pkg/humanize", "unitize")
	if fi == nil {
		return
	}
	info := fi.Pkg.TypesInfo
	isIntExpr := func(e ast.Expr) bool {
		if tv, ok := info.Types[e]; ok && tv.Value != nil {
			return false
		}
		b, ok := info.TypeOf(e).Underlying().(*types.Basic)
		return ok && b.Info()&types.IsInteger != 0
	}
	bad := ""
	nFloat := 0
	ast.Inspect(fi.Decl.Body, func(x ast.Node) bool {
		switch t := x.(type) {
		case *ast.BinaryExpr:
			if t.Op == token.QUO || t.Op == token.REM {
				if isIntExpr(t.X) {
					bad = c.Pos(t.Pos()) + ": " + exprStr(t)
				} else if t.Op == token.QUO {
					nFloat++
				}
			}
		case *ast.AssignStmt:
			if (t.Tok == token.QUO_ASSIGN || t.Tok == token.REM_ASSIGN) && len(t.Lhs) == 1 {
				if isIntExpr(t.Lhs[0]) {
					bad = c.Pos(t.Pos()) + ": " + stmtStr(t)
				} else if t.Tok == token.QUO_ASSIGN {
					nFloat++
				}
			}
		}
		return true
	})
	r.Check(bad == "" && nFloat > 0, rule, fi.Name, "scaling division", c.Pos(fi.Decl.Pos()), "arith: the value is scaled by floating-point division only",
		"unitize divides the value in the integer domain ("+bad+"): the remainders of the lower-order steps are dropped before the fraction is printed, so a requested precision shows wrong digits (1999999 at precision 4 prints 1.9990M instead of 2.0000M)")
	r.Floor(rule, 1, "unitize")
}
