package main

// Thorough tier: checker self-test. For the property under check, every
// seeded mutant under /verif/seeded whose meta.json says this property's check
// detects it is applied to a scratch copy of /repo's *current working tree*
// and the same static analysis is run on the copy (nothing is executed); every
// behaviour-preserving refactoring under /verif/neutral is applied likewise
// and must stay silent. Results go into the evidence; they describe the
// checker, not /repo, so they never turn into a VIOLATION of the property.

import (
	"encoding/json"
	"fmt"
	"os"
	"os/exec"
	"path/filepath"
	"sort"
	"strings"
	"sync"
)

type selfTestCase struct {
	ID     string `json:"id"`
	Kind   string `json:"kind"` // mutant | neutral
	Result string `json:"result"`
	Detail string `json:"detail,omitempty"`
}

func runSelfTest(prop, repo, verif string, seed int64, r *Report) {
	if os.Getenv("RARECHECK_NO_SELFTEST") != "" {
		return
	}
	self, err := os.Executable()
	if err != nil {
		r.Notes = append(r.Notes, "self-test skipped: "+err.Error())
		return
	}
	type job struct {
		id, kind, patch string
	}
	var jobs []job
	seedDirs, _ := filepath.Glob(filepath.Join(verif, "seeded", "*", "meta.json"))
	sort.Strings(seedDirs)
	for _, mp := range seedDirs {
		data, err := os.ReadFile(mp)
		if err != nil {
			continue
		}
		var meta struct {
			SeedID     string              `json:"seed_id"`
			DetectedBy map[string][]string `json:"detected_by"`
		}
		if json.Unmarshal(data, &meta) != nil {
			continue
		}
		if len(meta.DetectedBy[prop]) == 0 {
			continue
		}
		jobs = append(jobs, job{meta.SeedID, "mutant", filepath.Join(filepath.Dir(mp), "patch.diff")})
	}
	neutral, _ := filepath.Glob(filepath.Join(verif, "neutral", "*.diff"))
	sort.Strings(neutral)
	for _, np := range neutral {
		jobs = append(jobs, job{strings.TrimSuffix(filepath.Base(np), ".diff"), "neutral", np})
	}
	if len(jobs) == 0 {
		return
	}
	base, err := os.MkdirTemp("", "rarecheck-selftest-")
	if err != nil {
		r.Notes = append(r.Notes, "self-test skipped: "+err.Error())
		return
	}
	defer os.RemoveAll(base)
	results := make([]selfTestCase, len(jobs))
	var wg sync.WaitGroup
	sem := make(chan struct{}, 6)
	for i, j := range jobs {
		wg.Add(1)
		go func(i int, j job) {
			defer wg.Done()
			sem <- struct{}{}
			defer func() { <-sem }()
			res := selfTestCase{ID: j.id, Kind: j.kind}
			dir := filepath.Join(base, fmt.Sprintf("c%03d", i))
			defer os.RemoveAll(dir)
			if out, err := exec.Command("cp", "-a", repo, dir).CombinedOutput(); err != nil {
				res.Result, res.Detail = "skipped", "copy failed: "+strings.TrimSpace(string(out))
				results[i] = res
				return
			}
			ap := exec.Command("git", "apply", j.patch)
			ap.Dir = dir
			if out, err := ap.CombinedOutput(); err != nil {
				res.Result, res.Detail = "skipped", "patch does not apply to the current tree: "+firstLine(string(out))
				results[i] = res
				return
			}
			cmd := exec.Command(self, "-property", prop, "-tier", "quick", "-repo", dir, "-verif", verif, "-no-evidence")
			cmd.Env = append(os.Environ(), "RARECHECK_NO_SELFTEST=1")
			out, err := cmd.CombinedOutput()
			fired := err != nil
			var rules []string
			for _, ln := range strings.Split(string(out), "\n") {
				if strings.HasPrefix(ln, "[violation]") || strings.HasPrefix(ln, "[undecided]") {
					f := strings.Fields(ln)
					if len(f) > 1 {
						rules = append(rules, f[1])
					}
				}
			}
			switch j.kind {
			case "mutant":
				if fired {
					res.Result, res.Detail = "detected", strings.Join(dedupStrings(rules), ",")
				} else {
					res.Result = "MISSED"
				}
			default:
				if fired {
					res.Result, res.Detail = "FALSE-ALARM", strings.Join(dedupStrings(rules), ",")
				} else {
					res.Result = "silent"
				}
			}
			results[i] = res
		}(i, j)
	}
	wg.Wait()
	counts := map[string]int{}
	for _, res := range results {
		counts[res.Kind+":"+res.Result]++
		if res.Result == "MISSED" || res.Result == "FALSE-ALARM" {
			fmt.Fprintf(os.Stderr, "SELFTEST %s %s %s %s\n", prop, res.Kind, res.ID, res.Result+" "+res.Detail)
		}
	}
	r.Extra["selftest"] = map[string]interface{}{
		"what":    "seeded property-breaking mutants (expected: detected) and behaviour-preserving refactorings (expected: silent), applied to a scratch copy of the current working tree and analysed statically",
		"counts":  counts,
		"results": results,
	}
}

func firstLine(s string) string {
	s = strings.TrimSpace(s)
	if i := strings.Index(s, "\n"); i >= 0 {
		return s[:i]
	}
	return s
}
