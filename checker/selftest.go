package main

// Mutation self-test for the thorough tier (filled in later).
func runSelfTest(prop, repo, verif string, seed int64, r *Report) {}
