package main

// E-TABLE helpers: package-level composite literals evaluated from the AST.

import (
	"go/ast"
	"go/token"
	"go/types"
)

// pkgVarInit returns the initialiser expression of a package-level variable.
func (c *Ctx) pkgVarInit(pkgPath, name string) (ast.Expr, *packagesPkg) {
	p := c.ByPath[pkgPath]
	if p == nil {
		return nil, nil
	}
	for _, f := range p.Syntax {
		for _, d := range f.Decls {
			gd, ok := d.(*ast.GenDecl)
			if !ok || (gd.Tok != token.VAR && gd.Tok != token.CONST) {
				continue
			}
			for _, sp := range gd.Specs {
				vs := sp.(*ast.ValueSpec)
				for i, id := range vs.Names {
					if id.Name == name && i < len(vs.Values) {
						return vs.Values[i], p
					}
				}
			}
		}
	}
	return nil, p
}

func asCompositeLit(e ast.Expr) *ast.CompositeLit {
	e = ast.Unparen(e)
	if ue, ok := e.(*ast.UnaryExpr); ok && ue.Op == token.AND {
		e = ast.Unparen(ue.X)
	}
	cl, _ := e.(*ast.CompositeLit)
	return cl
}

type kvEntry struct {
	Key    string
	KeyOK  bool
	KeyExp ast.Expr
	Value  ast.Expr
}

// mapLitEntries lists the key/value pairs of a map (or keyed array) literal;
// keys are evaluated as string or integer constants when possible.
func mapLitEntries(info *types.Info, cl *ast.CompositeLit) []kvEntry {
	var out []kvEntry
	for _, el := range cl.Elts {
		kv, ok := el.(*ast.KeyValueExpr)
		if !ok {
			out = append(out, kvEntry{Value: el})
			continue
		}
		e := kvEntry{KeyExp: kv.Key, Value: kv.Value}
		if s, ok := constString(info, kv.Key); ok {
			e.Key, e.KeyOK = s, true
		} else if tv, ok := info.Types[kv.Key]; ok && tv.Value != nil {
			e.Key, e.KeyOK = tv.Value.ExactString(), true
		}
		out = append(out, e)
	}
	return out
}
