package main

import (
	"fmt"
	"os"
	"strings"
)

func debugDump(repo, scope string) {
	c, err := Load(repo, BuildConfig{"linux", "amd64"})
	if err != nil {
		fmt.Println(err)
		os.Exit(2)
	}
	bce, err := bceList(c)
	if err != nil {
		fmt.Println(err)
		os.Exit(2)
	}
	pe := &panicEngine{c: c, bce: bce}
	switch scope {
	case "C08":
		pe.scope = scopeExpressions(c)
		pe.run()
		for _, f := range scopeNames(c, pe.scope) {
			fmt.Println("scope file", f)
		}
	case "C14":
		pe.scope = scopeRenderers(c)
		pe.run()
		for _, f := range scopeNames(c, pe.scope) {
			fmt.Println("scope file", f)
		}
	default:
		pe.run(strings.Split(scope, ",")...)
	}
	byKind := map[string][2]int{}
	for _, o := range pe.obs {
		k := byKind[o.Kind]
		if o.By != "" {
			k[0]++
		} else {
			k[1]++
			fmt.Printf("%-8s %s | %s | %s %s\n", o.Kind, c.Pos(o.Pos), o.Where, o.Expr, o.Detail)
		}
		byKind[o.Kind] = k
	}
	fmt.Println(byKind, "units", pe.units, "bodies", pe.bodies)
}

func init() {
	if os.Getenv("RARECHECK_DBG_ANCHOR") != "" {
		debugAnchor = true
	}
}

var debugAnchor bool
