package main

// E-PANIC: enumerate every construct that can panic (or loop forever) in a
// scope of functions and discharge each by the compiler's prove pass, by a
// guard rule over dominating branch facts, or by a reviewed table entry.

import (
	"bufio"
	"bytes"
	"encoding/json"
	"fmt"
	"go/ast"
	"go/parser"
	"go/token"
	"go/types"
	"os"
	"os/exec"
	"path/filepath"
	"regexp"
	"sort"
	"strconv"
	"strings"

	"golang.org/x/tools/go/ast/astutil"
	"golang.org/x/tools/go/callgraph"
	"golang.org/x/tools/go/packages"
	"golang.org/x/tools/go/ssa"
)

type packagesPkg = packages.Package

func astutilPath(f *ast.File, start, end token.Pos) ([]ast.Node, bool) {
	return astutil.PathEnclosingInterval(f, start, end)
}

// ---------------------------------------------------------------- compiler BCE

// bceList runs the compiler with the bounds-check-elimination debug flag and
// returns the set of "file:line:col" positions (absolute file names) at which
// a bounds check remains, i.e. which the prove pass could not discharge.
func bceList(c *Ctx) (map[string]bool, error) {
	args := []string{"build", "-gcflags=rare/...=-l -d=ssa/check_bce/debug=1", "-o", "/dev/null"}
	if len(c.Overlay) > 0 {
		// the normalised view: compile the same replaced sources (go build -overlay), so that the
		// listed positions are positions of the text that was analysed
		dir, err := os.MkdirTemp("", "rarecheck-overlay-")
		if err != nil {
			return nil, err
		}
		defer os.RemoveAll(dir)
		repl := map[string]string{}
		i := 0
		for f, src := range c.Overlay {
			i++
			tmp := filepath.Join(dir, fmt.Sprintf("f%d.go", i))
			if err := os.WriteFile(tmp, src, 0o644); err != nil {
				return nil, err
			}
			repl[f] = tmp
		}
		js, _ := json.Marshal(map[string]interface{}{"Replace": repl})
		ov := filepath.Join(dir, "overlay.json")
		if err := os.WriteFile(ov, js, 0o644); err != nil {
			return nil, err
		}
		args = append(args, "-overlay", ov)
	}
	args = append(args, "./...")
	cmd := exec.Command("go", args...)
	cmd.Dir = c.Repo
	cmd.Env = goEnv("GOOS="+c.Config.GOOS, "GOARCH="+c.Config.GOARCH, "CGO_ENABLED=0")
	var stderr bytes.Buffer
	cmd.Stderr = &stderr
	cmd.Stdout = &stderr
	err := cmd.Run()
	out := map[string]bool{}
	n := 0
	sc := bufio.NewScanner(&stderr)
	sc.Buffer(make([]byte, 1<<20), 1<<20)
	var other []string
	for sc.Scan() {
		ln := sc.Text()
		if strings.HasPrefix(ln, "#") {
			continue
		}
		if i := strings.Index(ln, ": Found Is"); i > 0 {
			pos := ln[:i]
			parts := strings.Split(pos, ":")
			if len(parts) < 3 {
				continue
			}
			file := strings.Join(parts[:len(parts)-2], ":")
			if !filepath.IsAbs(file) {
				file = filepath.Join(c.Repo, file)
			}
			out[file+":"+parts[len(parts)-2]+":"+parts[len(parts)-1]] = true
			n++
			continue
		}
		other = append(other, ln)
	}
	if err != nil {
		return nil, fmt.Errorf("compiler run failed: %v: %s", err, strings.Join(other, " | "))
	}
	if n == 0 {
		return nil, fmt.Errorf("compiler listed no bounds checks at all: the BCE listing is not working")
	}
	return out, nil
}

// ---------------------------------------------------------------- scope

// reachableFrom returns the rare functions reachable from roots on the VTA
// call graph, including every function literal nested in a reached function.
func reachableFrom(c *Ctx, roots []*ssa.Function) map[*ssa.Function]bool {
	cg := c.CallGraph()
	seen := map[*ssa.Function]bool{}
	var stack []*ssa.Function
	push := func(f *ssa.Function) {
		if f == nil || seen[f] {
			return
		}
		if !c.isRareFn(f) {
			return
		}
		seen[f] = true
		stack = append(stack, f)
	}
	for _, r := range roots {
		push(r)
	}
	for len(stack) > 0 {
		f := stack[len(stack)-1]
		stack = stack[:len(stack)-1]
		for _, a := range f.AnonFuncs {
			push(a)
		}
		if n := cg.Nodes[f]; n != nil {
			for _, e := range n.Out {
				push(e.Callee.Func)
			}
		}
	}
	return seen
}

func (c *Ctx) isRareFn(f *ssa.Function) bool {
	if f.Pkg != nil {
		return c.IsRarePkg(f.Pkg.Pkg)
	}
	if o := f.Origin(); o != nil && o.Pkg != nil {
		return c.IsRarePkg(o.Pkg.Pkg)
	}
	if f.Parent() != nil {
		return c.isRareFn(f.Parent())
	}
	return false
}

// fnsOfPackages lists all SSA functions (incl. methods, init, literals) whose
// package path is one of paths.
func fnsOfPackages(c *Ctx, paths ...string) []*ssa.Function {
	want := map[string]bool{}
	for _, p := range paths {
		want[p] = true
	}
	var out []*ssa.Function
	for f := range c.allFns {
		var pp string
		if f.Pkg != nil {
			pp = f.Pkg.Pkg.Path()
		} else if o := f.Origin(); o != nil && o.Pkg != nil {
			pp = o.Pkg.Pkg.Path()
		}
		if want[pp] {
			out = append(out, f)
		}
	}
	return out
}

// syntaxScope maps reachable SSA functions to their syntax nodes.
func syntaxScope(fns map[*ssa.Function]bool) map[ast.Node]bool {
	out := map[ast.Node]bool{}
	for f := range fns {
		g := f
		if o := f.Origin(); o != nil {
			g = o
		}
		if s := g.Syntax(); s != nil {
			out[s] = true
		}
	}
	return out
}

func callersOf(cg *callgraph.Graph, f *ssa.Function) []*ssa.Function {
	var out []*ssa.Function
	if n := cg.Nodes[f]; n != nil {
		for _, e := range n.In {
			out = append(out, e.Caller.Func)
		}
	}
	return out
}

// ---------------------------------------------------------------- obligations

type panicOb struct {
	Kind   string // index, slice, div, shift, assert, panic, precond, loop
	Where  string // outer function / package-level variable
	Expr   string
	Pos    token.Pos
	By     string // non-empty when discharged automatically
	Detail string
	needs  func(rel string) bool // decides a guard relation at this site
	node   ast.Node
	info   *types.Info
	outer  ast.Node // outermost function around the construct
	inl    string   // Expr with aliased single-assignment locals replaced by their definitions
}

// reviewedEntry discharges an obligation by a recorded reason.
type reviewedEntry struct {
	Kind, Where, Expr string
	Max               int // how many occurrences of this text the review covers (0 = 1)
	Reason            string
	// Needs lists guard relations the reason relies on ("a < b", "a != b",
	// "f(x)", "!f(x)"); each must follow from the branch facts that dominate
	// the construct, else the entry does not apply (the guard was removed).
	Needs []string
}

type panicEngine struct {
	c        *Ctx
	bce      map[string]bool
	scope    map[ast.Node]bool // nil = everything visited
	obs      []panicOb
	units    int
	bodies   int
	reviewed []reviewedEntry
	curNeeds func(pos token.Pos) func(string) bool
	curInfo  *types.Info
	curOuter ast.Node
	graphs   map[*ast.BlockStmt]*FGraph
	vinfos   map[*ast.BlockStmt]*varInfo
	done     map[ast.Node]bool
}

func (pe *panicEngine) inScope(n ast.Node) bool {
	return pe.scope == nil || pe.scope[n]
}

// run analyses every function declaration and package-level function literal
// of the given packages (all rare packages if none), restricted to the scope.
func (pe *panicEngine) run(pkgPrefixes ...string) {
	c := pe.c
	for _, p := range c.Pkgs {
		ok := len(pkgPrefixes) == 0
		for _, pre := range pkgPrefixes {
			if p.PkgPath == pre || strings.HasPrefix(p.PkgPath, pre+"/") {
				ok = true
			}
		}
		if !ok {
			continue
		}
		info := p.TypesInfo
		for _, f := range p.Syntax {
			for _, d := range f.Decls {
				switch t := d.(type) {
				case *ast.FuncDecl:
					if t.Body == nil {
						continue
					}
					any := pe.inScope(t)
					if !any {
						for _, fl := range funcLitsIn(t.Body) {
							if pe.inScope(fl) {
								any = true
								break
							}
						}
					}
					if !any {
						continue
					}
					pe.units++
					vi := analyseVars(info, t)
					pe.body(info, vi, funcDisplayName(p.PkgPath, t), t, t.Body, nil)
				case *ast.GenDecl:
					if t.Tok != token.VAR {
						continue
					}
					for _, sp := range t.Specs {
						vs := sp.(*ast.ValueSpec)
						for i, val := range vs.Values {
							name := "_"
							if i < len(vs.Names) {
								name = vs.Names[i].Name
							}
							pe.pkgLevelLits(info, p.PkgPath+".var "+name, val)
						}
					}
				}
			}
		}
	}
}

func (pe *panicEngine) pkgLevelLits(info *types.Info, where string, val ast.Expr) {
	// function literals in a package-level initialiser; map-literal keys are
	// added to the name so that each table entry is its own unit.
	var walk func(e ast.Node, where string)
	walk = func(e ast.Node, where string) {
		switch t := e.(type) {
		case *ast.FuncLit:
			pe.units++
			vi := analyseVars(info, t)
			if pe.inScope(t) {
				pe.body(info, vi, where, t, t.Body, nil)
			} else {
				pe.body(info, vi, where, nil, t.Body, nil)
			}
			return
		case *ast.CompositeLit:
			for _, el := range t.Elts {
				if kv, ok := el.(*ast.KeyValueExpr); ok {
					w := where
					if s, ok := constString(info, kv.Key); ok {
						w = fmt.Sprintf("%s[%q]", where, s)
					} else {
						w = fmt.Sprintf("%s[%s]", where, exprStr(kv.Key))
					}
					walk(kv.Value, w)
				} else {
					walk(el, where)
				}
			}
			return
		case *ast.CallExpr:
			for _, a := range t.Args {
				walk(a, where)
			}
			walk(t.Fun, where)
			return
		case *ast.ParenExpr:
			walk(t.X, where)
		case *ast.UnaryExpr:
			walk(t.X, where)
		}
	}
	walk(val, where)
}

// body analyses one function body. self is the syntax node of the function
// (nil when the function itself is out of scope but nested literals may be in).
func (pe *panicEngine) body(info *types.Info, vi *varInfo, where string, self ast.Node, body *ast.BlockStmt, init []Fact) {
	fg := NewFGraph(body, info)
	fg.InitFacts = init
	fg.SolveFacts(vi)
	pe.bodies++
	if pe.graphs == nil {
		pe.graphs = map[*ast.BlockStmt]*FGraph{}
		pe.vinfos = map[*ast.BlockStmt]*varInfo{}
	}
	pe.graphs[body] = fg
	pe.vinfos[body] = vi
	if self != nil {
		pe.enumerate(info, vi, fg, where, self, body)
	}
	// direct child literals
	inspectNoLit(body, func(n ast.Node) bool {
		for _, fl := range directLits(n) {
			node := fg.NodeOf(fl.Pos())
			var inherit []Fact
			for _, f := range fg.FactsAt(node) {
				d := depsOf(info, vi, f.Cond, f.Tag)
				if d.nonLocal {
					continue
				}
				ok := true
				for _, l := range d.locals {
					if !vi.final[l] {
						ok = false
					}
				}
				if ok {
					inherit = append(inherit, f)
				}
			}
			var s ast.Node
			if pe.inScope(fl) {
				s = fl
			}
			pe.body(info, vi, where, s, fl.Body, inherit)
		}
		return true
	})
}

// directLits returns function literals that are immediate children of n's
// expression tree level (n itself is not a literal); used with inspectNoLit,
// which stops at literals, so each literal is seen exactly once via its parent.
func directLits(n ast.Node) []*ast.FuncLit {
	var out []*ast.FuncLit
	switch n.(type) {
	case *ast.FuncLit:
		return nil
	}
	// children of n
	ast.Inspect(n, func(x ast.Node) bool {
		if x == n {
			return true
		}
		if fl, ok := x.(*ast.FuncLit); ok {
			out = append(out, fl)
		}
		return false // only immediate children
	})
	return out
}

func (pe *panicEngine) needsAt(pos token.Pos, e ast.Node) func(string) bool {
	if pe.curNeeds == nil {
		return nil
	}
	base := pe.curNeeds(pos)
	info := pe.curInfo
	return func(rel string) bool {
		// "arraylen>=N": the indexed/sliced operand is an array of at least N elements
		if strings.HasPrefix(rel, "arraylen>=") {
			want, err := strconv.ParseInt(strings.TrimPrefix(rel, "arraylen>="), 10, 64)
			if err != nil || info == nil {
				return false
			}
			var x ast.Expr
			switch t := e.(type) {
			case *ast.IndexExpr:
				x = t.X
			case *ast.SliceExpr:
				x = t.X
			}
			if x == nil {
				return false
			}
			n, ok := arrayLen(info.TypeOf(x))
			return ok && n >= want
		}
		return base(rel)
	}
}

func (pe *panicEngine) posKey(p token.Pos) string {
	pp := pe.c.Fset.Position(p)
	return pp.Filename + ":" + strconv.Itoa(pp.Line) + ":" + strconv.Itoa(pp.Column)
}

func (pe *panicEngine) add(kind, where string, e ast.Node, pos token.Pos, by, detail string) {
	var s string
	if ex, ok := e.(ast.Expr); ok {
		s = exprStr(ex)
	} else {
		s = nodeStr(pe.c.Fset, e)
	}
	inl := ""
	if ex, ok := e.(ast.Expr); ok && by == "" && pe.curInfo != nil && pe.curOuter != nil {
		if e2 := inlineAliases(pe.curInfo, pe.curOuter, ex); e2 != ex {
			inl = exprStr(e2)
		}
	}
	pe.obs = append(pe.obs, panicOb{Kind: kind, Where: where, Expr: s, Pos: pos, By: by, Detail: detail, needs: pe.needsAt(pos, e), node: e, info: pe.curInfo, outer: pe.curOuter, inl: inl})
}

func (pe *panicEngine) enumerate(info *types.Info, vi *varInfo, fg *FGraph, where string, self ast.Node, body *ast.BlockStmt) {
	commaOK := map[ast.Expr]bool{}
	typeSwitchAssert := map[ast.Expr]bool{}
	inspectNoLit(body, func(n ast.Node) bool {
		switch t := n.(type) {
		case *ast.AssignStmt:
			if len(t.Lhs) == 2 && len(t.Rhs) == 1 {
				commaOK[ast.Unparen(t.Rhs[0])] = true
			}
		case *ast.ValueSpec:
			if len(t.Names) == 2 && len(t.Values) == 1 {
				commaOK[ast.Unparen(t.Values[0])] = true
			}
		case *ast.TypeSwitchStmt:
			ast.Inspect(t.Assign, func(x ast.Node) bool {
				if ta, ok := x.(*ast.TypeAssertExpr); ok {
					typeSwitchAssert[ta] = true
				}
				return true
			})
		}
		return true
	})
	factsFor := func(pos token.Pos) []Fact {
		return fg.FactsAtPos(pos)
	}
	pr := &prover{info: info, vi: vi, fg: fg, body: body}
	pe.curNeeds = func(pos token.Pos) func(string) bool {
		return func(rel string) bool {
			return pr.holdsText(rel, fg.FactsAtPos(pos))
		}
	}
	pe.curInfo = info
	pe.curOuter = vi.outer
	if pe.curOuter == nil {
		pe.curOuter = self
	}
	defer func() { pe.curNeeds = nil }()
	divBy := func(y ast.Expr, pos token.Pos) string {
		if by := pr.proveNonZero(y, factsFor(pos)); by != "" {
			return by
		}
		return pe.calleeGuard(info, self, y)
	}
	inspectNoLit(body, func(n ast.Node) bool {
		switch t := n.(type) {
		case *ast.IndexExpr:
			tv, ok := info.Types[t.X]
			if !ok || tv.IsType() {
				return true // generic instantiation
			}
			if _, isFn := tv.Type.Underlying().(*types.Signature); isFn {
				return true
			}
			switch ut := tv.Type.Underlying().(type) {
			case *types.Map:
				return true
			case *types.TypeParam:
				_ = ut
			}
			by := ""
			if !pe.bce[pe.posKey(t.Lbrack)] {
				by = "compiler: prove pass eliminated the bounds check"
			} else if why := pr.proveIndex(t, factsFor(t.Pos())); why != "" {
				by = "guard: " + why
			} else if sets, ok := fg.PathFactsAtPos(t.Pos(), 256); ok {
				all := true
				for _, fs := range sets {
					if pr.proveIndex(t, fs) == "" {
						all = false
						break
					}
				}
				if all {
					by = fmt.Sprintf("guard (path-wise, %d entry paths): 0 <= %s < len(%s) on every path", len(sets), exprStr(t.Index), exprStr(t.X))
				}
			}
			if by == "" {
				by = pe.callerEstablished(info, self, pr, factsFor(t.Pos()), t)
			}
			if dbg := os.Getenv("RARECHECK_FACTS"); dbg != "" && strings.HasSuffix(pe.c.Pos(t.Lbrack), dbg) {
				fmt.Fprintf(os.Stderr, "FACTS at %s %s by=%q\n", pe.c.Pos(t.Lbrack), exprStr(t), by)
				for _, f := range factsFor(t.Pos()) {
					fmt.Fprintf(os.Stderr, "  joined: %s tag=%v %v\n", exprStr(f.Cond), f.Tag != nil, f.Truth)
				}
				sets, ok := fg.PathFactsAtPos(t.Pos(), 256)
				fmt.Fprintf(os.Stderr, "  pathwise ok=%v n=%d\n", ok, len(sets))
				for i, fs := range sets {
					for _, f := range fs {
						fmt.Fprintf(os.Stderr, "  path%d: %s %v\n", i, exprStr(f.Cond), f.Truth)
					}
					fmt.Fprintf(os.Stderr, "  path%d proves: %q\n", i, pr.proveIndex(t, fs))
				}
			}
			pe.add("index", where, t, t.Lbrack, by, "")
		case *ast.SliceExpr:
			by := ""
			if !pe.bce[pe.posKey(t.Lbrack)] {
				by = "compiler: prove pass eliminated the bounds check"
			} else if why := pr.proveSlice(t, factsFor(t.Pos())); why != "" {
				by = "guard: " + why
			} else if sets, ok := fg.PathFactsAtPos(t.Pos(), 256); ok {
				all := true
				for _, fs := range sets {
					if pr.proveSlice(t, fs) == "" {
						all = false
						break
					}
				}
				if all {
					by = fmt.Sprintf("guard (path-wise, %d entry paths): slice bounds of %s hold on every path", len(sets), exprStr(t.X))
				}
			}
			if by == "" {
				by = pe.callerEstablished(info, self, pr, factsFor(t.Pos()), t)
			}
			pe.add("slice", where, t, t.Lbrack, by, "")
		case *ast.BinaryExpr:
			switch t.Op {
			case token.QUO, token.REM:
				if tv, ok := info.Types[t]; ok && tv.Value != nil {
					return true
				}
				if tv, ok := info.Types[t.X]; ok && isIntegerType(tv.Type) {
					by := divBy(t.Y, t.Pos())
					pe.add("div", where, t, t.OpPos, by, "")
				}
			case token.SHL, token.SHR:
				if tv, ok := info.Types[t]; ok && tv.Value != nil {
					return true
				}
				if tv, ok := info.Types[t.Y]; ok && !isUnsignedType(tv.Type) && tv.Value == nil {
					by := pr.proveNonNeg(t.Y, factsFor(t.Pos()))
					pe.add("shift", where, t, t.OpPos, by, "")
				}
			}
		case *ast.AssignStmt:
			switch t.Tok {
			case token.QUO_ASSIGN, token.REM_ASSIGN:
				if tv, ok := info.Types[t.Lhs[0]]; ok && isIntegerType(tv.Type) {
					by := divBy(t.Rhs[0], t.Pos())
					pe.add("div", where, t, t.TokPos, by, "")
				}
			case token.SHL_ASSIGN, token.SHR_ASSIGN:
				if tv, ok := info.Types[t.Rhs[0]]; ok && !isUnsignedType(tv.Type) && tv.Value == nil {
					by := pr.proveNonNeg(t.Rhs[0], factsFor(t.Pos()))
					pe.add("shift", where, t, t.TokPos, by, "")
				}
			}
		case *ast.TypeAssertExpr:
			if t.Type == nil || commaOK[t] || typeSwitchAssert[t] {
				return true
			}
			pe.add("assert", where, t, t.Lparen, "", "")
		case *ast.CallExpr:
			name := calleeName(info, t)
			switch name {
			case "builtin.panic":
				pe.add("panic", where, t, t.Lparen, "", "")
			case "builtin.make":
				for _, a := range t.Args[1:] {
					by := pr.proveNonNeg(a, factsFor(t.Pos()))
					if by == "" {
						pe.add("precond", where, t, t.Lparen, "", "make with a length that is not provably >= 0")
						break
					}
				}
			case "strings.Repeat":
				by := pr.proveRange(t.Args[1], factsFor(t.Pos()), 0, 1<<31)
				pe.add("precond", where, t, t.Lparen, by, "strings.Repeat panics on a negative count or overflow")
			case "(*strings.Builder).Grow", "(*bytes.Buffer).Grow":
				by := pr.proveNonNeg(t.Args[0], factsFor(t.Pos()))
				pe.add("precond", where, t, t.Lparen, by, "Grow panics on a negative argument")
			case "regexp.MustCompile", "text/template.Must", "html/template.Must":
				by := ""
				if _, ok := constString(info, t.Args[0]); ok {
					by = "constant: pattern is a compile-time constant (panic would occur on every run, at init)"
				}
				pe.add("precond", where, t, t.Lparen, by, "Must* panics on a bad argument")
			case "(*rare/pkg/slicepool.IntPool).Get":
				pe.add("precond", where, t, t.Lparen, "", "IntPool.Get panics when n exceeds the pool size")
			case "(*sync.WaitGroup).Add", "(*sync.WaitGroup).Done":
				// negative counter: handled by E-LOCK
			case "builtin.close":
				// double close: handled by E-LOCK
			}
		case *ast.ForStmt:
			by, detail := pr.proveLoop(t)
			pe.add("loop", where, &ast.ForStmt{For: t.For, Init: t.Init, Cond: t.Cond, Post: t.Post, Body: &ast.BlockStmt{}}, t.For, by, detail)
		}
		return true
	})
}

func nodeStr(fset *token.FileSet, n ast.Node) string {
	switch t := n.(type) {
	case *ast.ForStmt:
		s := "for "
		if t.Init != nil {
			s += stmtStr(t.Init)
		}
		s += "; "
		if t.Cond != nil {
			s += exprStr(t.Cond)
		}
		s += "; "
		if t.Post != nil {
			s += stmtStr(t.Post)
		}
		return s
	case ast.Stmt:
		return stmtStr(t)
	}
	return fmt.Sprintf("%T", n)
}

func stmtStr(s ast.Stmt) string {
	switch t := s.(type) {
	case *ast.AssignStmt:
		var l, r []string
		for _, e := range t.Lhs {
			l = append(l, exprStr(e))
		}
		for _, e := range t.Rhs {
			r = append(r, exprStr(e))
		}
		return strings.Join(l, ", ") + " " + t.Tok.String() + " " + strings.Join(r, ", ")
	case *ast.IncDecStmt:
		return exprStr(t.X) + t.Tok.String()
	case *ast.ExprStmt:
		return exprStr(t.X)
	case *ast.ReturnStmt:
		var r []string
		for _, e := range t.Results {
			r = append(r, exprStr(e))
		}
		return "return " + strings.Join(r, ", ")
	}
	return fmt.Sprintf("%T", s)
}

// ---------------------------------------------------------------- report glue

// emit files the collected obligations into the report under the given rule
// name, applying the reviewed table to what is not discharged automatically.
func (pe *panicEngine) emit(r *Report, rule string, filter func(o panicOb) bool) {
	used := map[int]int{}
	obs := pe.obs
	sort.SliceStable(obs, func(i, j int) bool { return obs[i].Pos < obs[j].Pos })
	for _, o := range obs {
		if filter != nil && !filter(o) {
			continue
		}
		ru := rule + "/" + o.Kind
		pos := pe.c.Pos(o.Pos)
		if o.By != "" {
			r.OK(ru, o.Where, o.Expr, pos, o.By)
			continue
		}
		done := false
		for i, re := range pe.reviewed {
			if re.Kind == o.Kind && re.Where == o.Where && (re.Expr == o.Expr || (o.inl != "" && re.Expr == o.inl)) {
				max := re.Max
				if max == 0 {
					max = 1
				}
				if used[i] < max {
					okNeeds := true
					for _, nd := range re.Needs {
						if o.needs == nil || !o.needs(nd) {
							okNeeds = false
						}
					}
					if !okNeeds {
						continue
					}
					used[i]++
					r.OK(ru, o.Where, o.Expr, pos, "reviewed: "+re.Reason)
					done = true
					break
				}
			}
		}
		if !done {
			// second chance: the same construct with local variables renamed. Admissible
			// only when the old names are gone from the function (a rename, not a
			// different operand) and the entry's guards hold under the new names.
			for i, re := range pe.reviewed {
				max := re.Max
				if max == 0 {
					max = 1
				}
				if re.Kind != o.Kind || re.Where != o.Where || used[i] >= max {
					continue
				}
				m, ok := renameMatch(re.Expr, o)
				if !ok {
					continue
				}
				okNeeds := true
				for _, nd := range re.Needs {
					if o.needs == nil || !o.needs(renameIdents(nd, m)) {
						okNeeds = false
					}
				}
				if !okNeeds {
					continue
				}
				used[i]++
				var mm []string
				for a, b := range m {
					if a != b {
						mm = append(mm, a+"->"+b)
					}
				}
				sort.Strings(mm)
				r.OK(ru, o.Where, o.Expr, pos, "reviewed (locals renamed "+strings.Join(mm, ",")+"): "+re.Reason)
				done = true
				break
			}
		}
		if !done {
			// third chance: the construct was moved, unchanged, into a private helper of the function the
			// entry was reviewed in (extract-method). Admissible when every call of the helper comes from
			// that function (or from other such helpers of it); the entry's guards must hold at the
			// construct or at every call site of the helper.
			if owner, sites := pe.extractedFrom(o); owner != "" {
				for i, re := range pe.reviewed {
					max := re.Max
					if max == 0 {
						max = 1
					}
					if re.Kind != o.Kind || re.Where != owner || used[i] >= max || !(re.Expr == o.Expr || (o.inl != "" && re.Expr == o.inl)) {
						continue
					}
					okNeeds := true
					for _, nd := range re.Needs {
						if o.needs != nil && o.needs(nd) {
							continue
						}
						atAll := len(sites) > 0
						for _, s := range sites {
							if !s(nd) {
								atAll = false
							}
						}
						if !atAll {
							okNeeds = false
						}
					}
					if !okNeeds {
						continue
					}
					used[i]++
					r.OK(ru, o.Where, o.Expr, pos, "reviewed (construct extracted from "+owner+" into a helper only it calls): "+re.Reason)
					done = true
					break
				}
			}
		}
		if !done && len(pe.c.Overlay) > 0 && strings.Contains(o.Expr, "_inl") {
			// in the normalised view a construct that a refactoring had moved into a new helper is back in the
			// function it was reviewed in, with the helper's locals carrying an expansion suffix
			stripped := inlSuffixRe.ReplaceAllString(o.Expr, "")
			m := map[string]string{}
			for _, full := range inlIdentRe.FindAllString(o.Expr, -1) {
				m[inlSuffixRe.ReplaceAllString(full, "")] = full
			}
			for i, re := range pe.reviewed {
				max := re.Max
				if max == 0 {
					max = 1
				}
				if re.Kind != o.Kind || re.Where != o.Where || used[i] >= max || re.Expr != stripped {
					continue
				}
				okNeeds := true
				for _, nd := range re.Needs {
					if o.needs == nil || !(o.needs(renameIdents(nd, m)) || o.needs(nd)) {
						okNeeds = false
					}
				}
				if !okNeeds {
					continue
				}
				used[i]++
				r.OK(ru, o.Where, stripped, pos, "reviewed (construct back in place after expanding a new helper): "+re.Reason)
				done = true
				break
			}
		}
		if !done {
			// fourth chance: the function the entry was reviewed in is gone, and on the pinned tree it had
			// exactly one caller - the function this obligation sits in (inline-method). The construct must
			// be the same (up to renamed locals) and the entry's guards must hold at it.
			for i, re := range pe.reviewed {
				max := re.Max
				if max == 0 {
					max = 1
				}
				if re.Kind != o.Kind || used[i] >= max || re.Where == o.Where {
					continue
				}
				pk, nm := splitDisplayName(re.Where)
				if nm == "" || pe.c.funcByName(pk, nm) != nil {
					continue
				}
				caller := frozenSoleCaller(pk, nm)
				if caller == "" || pk+"."+caller != o.Where {
					continue
				}
				m := map[string]string{}
				if re.Expr != o.Expr {
					var okM bool
					m, okM = renameMatchLoose(re.Expr, o)
					if !okM {
						continue
					}
				}
				okNeeds := true
				for _, nd := range re.Needs {
					if o.needs == nil || !o.needs(renameIdents(nd, m)) {
						okNeeds = false
					}
				}
				if !okNeeds {
					continue
				}
				used[i]++
				r.OK(ru, o.Where, o.Expr, pos, "reviewed (construct of "+re.Where+", which was folded into its only caller): "+re.Reason)
				done = true
				break
			}
		}
		if done {
			continue
		}
		d := o.Detail
		if d == "" {
			d = map[string]string{
				"index":   "index not proven in range by the compiler, by a dominating guard, or by a reviewed reason",
				"slice":   "slice bounds not proven by the compiler, by a dominating guard, or by a reviewed reason",
				"div":     "integer division/modulo whose divisor is not proven non-zero",
				"shift":   "shift by a signed count not proven non-negative",
				"assert":  "single-value type assertion can panic",
				"panic":   "explicit panic reachable from the property's entry points",
				"precond": "library precondition not established",
				"loop":    "loop not in the trivially terminating class",
			}[o.Kind]
		}
		r.Bad(ru, o.Where, o.Expr, pos, d)
	}
	if os.Getenv("RARECHECK_STALE") != "" {
		for i, re := range pe.reviewed {
			max := re.Max
			if max == 0 {
				max = 1
			}
			if used[i] < max {
				fmt.Fprintf(os.Stderr, "STALE %s %s %s %q used=%d max=%d\n", rule, re.Kind, re.Where, re.Expr, used[i], max)
			}
		}
	}
}

// ---------------------------------------------------------------- callee guard

// factsAtPos returns the branch facts known at pos inside the function
// declaration fd (analysing it on demand), together with a prover bound to the
// innermost body containing pos.
func (pe *panicEngine) factsAtPos(p *packagesPkg, fd *ast.FuncDecl, pos token.Pos) (*prover, []Fact) {
	info := p.TypesInfo
	if pe.done == nil {
		pe.done = map[ast.Node]bool{}
	}
	if _, ok := pe.graphs[fd.Body]; !ok {
		vi := analyseVars(info, fd)
		saved := pe.obs
		pe.body(info, vi, "", nil, fd.Body, nil)
		pe.obs = saved
	}
	// innermost body containing pos
	var best *ast.BlockStmt
	for b := range pe.graphs {
		if b.Pos() <= pos && pos < b.End() && fd.Pos() <= b.Pos() && b.End() <= fd.End() {
			if best == nil || b.End()-b.Pos() < best.End()-best.Pos() {
				best = b
			}
		}
	}
	if best == nil {
		return nil, nil
	}
	fg := pe.graphs[best]
	pr := &prover{info: info, vi: pe.vinfos[best], fg: fg, body: best}
	return pr, fg.FactsAtPos(pos)
}

// calleeGuard discharges a division whose divisor is parameter #k of a
// function literal that is passed directly as an argument to a function F of
// the repository, when F only ever *calls* that parameter and every such call
// passes a k-th argument that is proven non-zero at the call.
func (pe *panicEngine) calleeGuard(info *types.Info, self ast.Node, divisor ast.Expr) string {
	lit, ok := self.(*ast.FuncLit)
	if !ok {
		return ""
	}
	obj := identObj(info, divisor)
	if obj == nil {
		return ""
	}
	k := -1
	idx := 0
	for _, f := range lit.Type.Params.List {
		for _, id := range f.Names {
			if info.Defs[id] == obj {
				k = idx
			}
			idx++
		}
	}
	if k < 0 {
		return ""
	}
	// the parameter must not be reassigned in the literal
	vi := analyseVars(info, lit)
	if !vi.final[obj] {
		return ""
	}
	// find the call that receives the literal
	var pkg *packagesPkg
	for _, p := range pe.c.Pkgs {
		if p.TypesInfo == info {
			pkg = p
		}
	}
	if pkg == nil {
		return ""
	}
	file := fileOf(pkg, lit.Pos())
	if file == nil {
		return ""
	}
	path, _ := astutilPath(file, lit.Pos(), lit.End())
	var call *ast.CallExpr
	argIdx := -1
	for i, n := range path {
		if n == ast.Node(lit) && i+1 < len(path) {
			if ce, ok := path[i+1].(*ast.CallExpr); ok {
				for j, a := range ce.Args {
					if a == ast.Expr(lit) {
						call, argIdx = ce, j
					}
				}
			}
			break
		}
	}
	if call == nil {
		return ""
	}
	callee := calleeFunc(info, call)
	if callee == nil || !pe.c.IsRarePkg(callee.Pkg()) {
		return ""
	}
	var fi *FuncInfo
	for _, cand := range pe.c.AllFuncDecls(callee.Pkg().Path()) {
		if cand.Obj == callee {
			fi = cand
		}
	}
	if fi == nil || fi.Decl.Type.Params == nil {
		return ""
	}
	var param types.Object
	idx = 0
	for _, f := range fi.Decl.Type.Params.List {
		for _, id := range f.Names {
			if idx == argIdx {
				param = fi.Pkg.TypesInfo.Defs[id]
			}
			idx++
		}
	}
	if param == nil {
		return ""
	}
	// every use of param in F must be the Fun of a call
	finfo := fi.Pkg.TypesInfo
	callFun := map[*ast.Ident]*ast.CallExpr{}
	ast.Inspect(fi.Decl.Body, func(n ast.Node) bool {
		if ce, ok := n.(*ast.CallExpr); ok {
			if id, ok := ast.Unparen(ce.Fun).(*ast.Ident); ok {
				callFun[id] = ce
			}
		}
		return true
	})
	uses, proven := 0, 0
	bad := false
	ast.Inspect(fi.Decl.Body, func(n ast.Node) bool {
		id, ok := n.(*ast.Ident)
		if !ok || finfo.Uses[id] != param {
			return true
		}
		uses++
		ce := callFun[id]
		if ce == nil || k >= len(ce.Args) {
			bad = true
			return true
		}
		pr, facts := pe.factsAtPos(fi.Pkg, fi.Decl, ce.Pos())
		if pr != nil && pr.proveNonZero(ce.Args[k], facts) != "" {
			proven++
		} else {
			bad = true
		}
		return true
	})
	if bad || uses == 0 || uses != proven {
		return ""
	}
	return fmt.Sprintf("callee-guard: the literal is only invoked by %s, whose %d call(s) of its parameter pass a divisor proven non-zero by a dominating guard", callee.FullName(), uses)
}

func rv(kind, where, expr string, max int, reason string, needs ...string) reviewedEntry {
	return reviewedEntry{Kind: kind, Where: where, Expr: expr, Max: max, Reason: reason, Needs: needs}
}

// renameMatch compares the reviewed expression text with the obligation's
// expression up to a consistent, injective renaming of local variables. The
// renamed-away names must no longer be declared in the enclosing function.
func renameMatch(entry string, o panicOb) (map[string]string, bool) {
	return renameMatchOpt(entry, o, true)
}

// renameMatchLoose: as renameMatch, for a construct that arrived from another
// function: its old local names were never declared here.
func renameMatchLoose(entry string, o panicOb) (map[string]string, bool) {
	return renameMatchOpt(entry, o, false)
}

func renameMatchOpt(entry string, o panicOb, requireGone bool) (map[string]string, bool) {
	act, ok := o.node.(ast.Expr)
	if !ok || o.info == nil || o.outer == nil {
		return nil, false
	}
	ent, err := parser.ParseExpr(entry)
	if err != nil {
		return nil, false
	}
	m, inv := map[string]string{}, map[string]string{}
	var match func(a, b ast.Expr) bool
	matchOpt := func(a, b ast.Expr) bool {
		if (a == nil) != (b == nil) {
			return false
		}
		return a == nil || match(a, b)
	}
	match = func(a, b ast.Expr) bool {
		a, b = ast.Unparen(a), ast.Unparen(b)
		switch x := a.(type) {
		case *ast.Ident:
			y, ok := b.(*ast.Ident)
			if !ok {
				return false
			}
			if x.Name != y.Name {
				v, isVar := o.info.Uses[y].(*types.Var)
				if !isVar || v.IsField() || v.Pkg() == nil || v.Parent() == v.Pkg().Scope() {
					return false
				}
			}
			if old, ok := m[x.Name]; ok && old != y.Name {
				return false
			}
			if old, ok := inv[y.Name]; ok && old != x.Name {
				return false
			}
			m[x.Name], inv[y.Name] = y.Name, x.Name
			return true
		case *ast.BasicLit:
			y, ok := b.(*ast.BasicLit)
			return ok && x.Kind == y.Kind && x.Value == y.Value
		case *ast.BinaryExpr:
			y, ok := b.(*ast.BinaryExpr)
			return ok && x.Op == y.Op && match(x.X, y.X) && match(x.Y, y.Y)
		case *ast.UnaryExpr:
			y, ok := b.(*ast.UnaryExpr)
			return ok && x.Op == y.Op && match(x.X, y.X)
		case *ast.StarExpr:
			y, ok := b.(*ast.StarExpr)
			return ok && match(x.X, y.X)
		case *ast.SelectorExpr:
			y, ok := b.(*ast.SelectorExpr)
			return ok && x.Sel.Name == y.Sel.Name && match(x.X, y.X)
		case *ast.IndexExpr:
			y, ok := b.(*ast.IndexExpr)
			return ok && match(x.X, y.X) && match(x.Index, y.Index)
		case *ast.SliceExpr:
			y, ok := b.(*ast.SliceExpr)
			return ok && x.Slice3 == y.Slice3 && match(x.X, y.X) && matchOpt(x.Low, y.Low) && matchOpt(x.High, y.High) && matchOpt(x.Max, y.Max)
		case *ast.CallExpr:
			y, ok := b.(*ast.CallExpr)
			if !ok || len(x.Args) != len(y.Args) || !match(x.Fun, y.Fun) {
				return false
			}
			for i := range x.Args {
				if !match(x.Args[i], y.Args[i]) {
					return false
				}
			}
			return true
		}
		return exprStr(a) == exprStr(b)
	}
	if !match(ent, act) {
		return nil, false
	}
	renamed := false
	gone := map[string]bool{}
	for a, b := range m {
		if a != b {
			renamed = true
			gone[a] = true
		}
	}
	if !requireGone {
		return m, true
	}
	if !renamed {
		return nil, false
	}
	still := false
	ast.Inspect(o.outer, func(n ast.Node) bool {
		if id, ok := n.(*ast.Ident); ok && gone[id.Name] {
			if _, isVar := o.info.Defs[id].(*types.Var); isVar {
				still = true
			}
		}
		return true
	})
	if still {
		return nil, false
	}
	return m, true
}

var identRe = regexp.MustCompile(`\.?[A-Za-z_][A-Za-z0-9_]*`)

// renameIdents applies the renaming to the identifiers of a guard text
// (selectors after a dot are field names and stay).
func renameIdents(s string, m map[string]string) string {
	return identRe.ReplaceAllStringFunc(s, func(t string) string {
		if strings.HasPrefix(t, ".") {
			return t
		}
		if n, ok := m[t]; ok {
			return n
		}
		return t
	})
}

var inlSuffixRe = regexp.MustCompile(`(_arg)?_inl\d+`)
var inlIdentRe = regexp.MustCompile(`[A-Za-z_][A-Za-z0-9_]*?(_arg)?_inl\d+`)

// extractedFrom: when the obligation sits in an unexported function or method
// all of whose calls come from one top-level function F of the same package
// (directly, or through other helpers with the same property), returns F's
// display name and, for the direct call sites of the helper, functions that
// decide a guard relation at that call site.
func (pe *panicEngine) extractedFrom(o panicOb) (string, []func(string) bool) {
	fd, ok := o.outer.(*ast.FuncDecl)
	if !ok || fd.Name.IsExported() {
		return "", nil
	}
	var pkg *packagesPkg
	for _, p := range pe.c.Pkgs {
		for _, f := range p.Syntax {
			if f.Pos() <= fd.Pos() && fd.End() <= f.End() {
				pkg = p
			}
		}
	}
	if pkg == nil {
		return "", nil
	}
	info := pkg.TypesInfo
	callersOf := func(target *ast.FuncDecl) (decls []*ast.FuncDecl, calls []*ast.CallExpr, asValue bool) {
		obj := info.Defs[target.Name]
		for _, f := range pkg.Syntax {
			for _, d := range f.Decls {
				cd, ok := d.(*ast.FuncDecl)
				if !ok || cd.Body == nil {
					continue
				}
				inCall := map[*ast.Ident]bool{}
				ast.Inspect(cd.Body, func(n ast.Node) bool {
					if ce, ok := n.(*ast.CallExpr); ok {
						if f := calleeFunc(info, ce); f != nil && f.Origin() == obj {
							decls = append(decls, cd)
							calls = append(calls, ce)
							switch fn := ast.Unparen(ce.Fun).(type) {
							case *ast.Ident:
								inCall[fn] = true
							case *ast.SelectorExpr:
								inCall[fn.Sel] = true
							}
						}
					}
					return true
				})
				ast.Inspect(cd.Body, func(n ast.Node) bool {
					if id, ok := n.(*ast.Ident); ok && info.Uses[id] == obj && !inCall[id] {
						asValue = true
					}
					return true
				})
			}
		}
		return
	}
	// climb to the unique owner
	cur := fd
	var direct []*ast.CallExpr
	var directDecls []*ast.FuncDecl
	for depth := 0; depth < 3; depth++ {
		decls, calls, asValue := callersOf(cur)
		if asValue || len(decls) == 0 {
			return "", nil
		}
		if depth == 0 {
			direct, directDecls = calls, decls
		}
		first := decls[0]
		for _, d := range decls {
			if d != first {
				return "", nil
			}
		}
		if first == cur {
			return "", nil // recursion
		}
		cur = first
		if cur.Name.IsExported() || !isPrivateHelper(info, pkg, cur) {
			break
		}
	}
	owner := funcDisplayName(pkg.PkgPath, cur)
	var sites []func(string) bool
	for i, ce := range direct {
		sites = append(sites, pe.needsAtCall(pkg, directDecls[i], ce))
	}
	return owner, sites
}

// isPrivateHelper: an unexported function whose every use is a call from exactly one other function.
func isPrivateHelper(info *types.Info, pkg *packagesPkg, fd *ast.FuncDecl) bool {
	if fd.Name.IsExported() {
		return false
	}
	obj := info.Defs[fd.Name]
	callers := map[*ast.FuncDecl]bool{}
	for _, f := range pkg.Syntax {
		for _, d := range f.Decls {
			cd, ok := d.(*ast.FuncDecl)
			if !ok || cd.Body == nil {
				continue
			}
			ast.Inspect(cd.Body, func(n ast.Node) bool {
				if id, ok := n.(*ast.Ident); ok && info.Uses[id] == obj {
					callers[cd] = true
				}
				return true
			})
		}
	}
	return len(callers) == 1 && !callers[fd]
}

// needsAtCall decides guard relations from the facts that hold at a call site.
func (pe *panicEngine) needsAtCall(pkg *packagesPkg, decl *ast.FuncDecl, ce *ast.CallExpr) func(string) bool {
	info := pkg.TypesInfo
	body := decl.Body
	for _, fl := range funcLitsIn(decl.Body) {
		if within(fl.Body, ce.Pos()) && within(body, fl.Pos()) {
			body = fl.Body
		}
	}
	vi := analyseVars(info, decl)
	fg := NewFGraph(body, info)
	fg.SolveFacts(vi)
	pr := &prover{info: info, vi: vi, fg: fg, body: body}
	return func(rel string) bool {
		return pr.holdsText(rel, fg.FactsAtPos(ce.Pos()))
	}
}
