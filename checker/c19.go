package main

// C19 - math formulas: crash freedom, operator-table agreement, simplifier
// soundness, malformed formulas rejected.

import (
	"fmt"
	"go/ast"
	"go/token"
	"go/types"
	"sort"
	"strings"
)

func init() {
	register(&propDef{
		ID:  "C19",
		Run: runC19,
		Explain: "Decided: (a) every panic-capable construct and loop in pkg/expressions/stdmath, kfMath and its context wrapper is discharged (same engine and reviewed table as C08); (b) the operator tables agree: keys(ops) = flatten(orderOfOps) with no duplicates, every key is non-empty and no longer than the tokenizer's prefix window, the single-character unary operators are exactly those the tokenizer can see, and the precedence rows are ordered as documented (^ above * / % above + - above comparisons above && ||); (c) the simplifier's probe is sound in structure: Expr.Eval methods reach the context only through GetMatch/GetKey or a sub-expression's Eval, both probe-context methods count every lookup, simplify folds only under hits == 0, and all operator functions and Eval methods are pure (no writes to non-local state, no ambient reads); (d) every failure return of the tokenizer/parser carries a non-nil error and kfMath turns a compile error into a stage error. (e) kfMath takes its binding wrapper from the pool per evaluation, binds it before use and returns it exactly once. " +
			"NOT decided: that evaluation follows the documented precedence and associativity for every token sequence (parser semantics), numeric results, and constant/variable equivalence beyond the structural soundness of the probe.",
		Assume: []string{"math.* functions are pure", "reviewed panic-freedom entries (checker/c08.go) are correct"},
	})
}

const stdmathPkg = "rare/pkg/expressions/stdmath"

func runC19(c *Ctx, r *Report) {
	// ---- (a) crash freedom
	bce, err := bceList(c)
	if err != nil {
		r.Undecided("C19-a/bce", "compiler", "listing", "-", err.Error())
	} else {
		pe := &panicEngine{c: c, bce: bce, reviewed: reviewedExpr}
		pe.run(stdmathPkg)
		// kfMath and the wrapper live in stdlib
		pe2 := &panicEngine{c: c, bce: bce, reviewed: reviewedExpr, scope: map[ast.Node]bool{}}
		for _, name := range []string{"kfMath", "(*keyBuilderContextWrapper).GetMatch", "(*keyBuilderContextWrapper).GetKey"} {
			if fi := c.MustFunc(r, "C19-a", "rare/pkg/expressions/stdlib", name); fi != nil {
				pe2.scope[fi.Decl] = true
				for _, fl := range funcLitsIn(fi.Decl.Body) {
					pe2.scope[fl] = true
				}
			}
		}
		pe2.run("rare/pkg/expressions/stdlib")
		pe.obs = append(pe.obs, pe2.obs...)
		pe.emit(r, "C19-a", nil)
		scannerGuard2(c, r)
		r.Floor("C19-a/index", 6, "tokenizer, parser and ops index sites")
		r.Floor("C19-a/div", 1, "the % operator")
		r.Floor("C19-a/shift", 2, "<< and >>")
		r.Floor("C19-a/loop", 3, "tokenizeExpr, compileTokens, prefixInOps loops")
	}
	c19Tables(c, r)
	c19Simplifier(c, r)
	c19Errors(c, r)
	// (e) the binding wrapper of kfMath is taken from the pool per evaluation
	n := borrow(c, r, func(c *Ctx, r *Report) { c05PoolTypestate(c, r, "X") }, "X/", "C19-e/", func(o Ob) bool { return strings.Contains(o.Key, "kfMath") }, false)
	_ = n
	r.Floor("C19-e/pool-init", 1, "kfMath's context wrapper")
	r.Floor("C19-e/pool-return", 1, "kfMath's context wrapper")
	r.Floor("C19-e/pool-return-once", 1, "kfMath's context wrapper")
	c19UnaryAgreement(c, r, "C19-f/unary-agreement")
	c19ConstNodes(c, r, "C19-c/const-nodes")
	c19GroupOpaque(c, r, "C19-g/group-opaque")
	c19BindingErrors(c, r, "C19-d/binding-errors")
}

func scannerGuard2(c *Ctx, r *Report) {
	// same rule as C08/scanner-guard, reported under this property too
	sub := NewReport(r.Prop, r.Tier)
	sub.curCfg = r.curCfg
	scannerGuard(c, sub)
	for _, o := range sub.Obs {
		o.Rule = strings.Replace(o.Rule, "C08/", "C19-a/", 1)
		o.Key = strings.Replace(o.Key, "C08/", "C19-a/", 1)
		r.Obs = append(r.Obs, o)
	}
	for k, v := range sub.floors {
		r.Floor(strings.Replace(k, "C08/", "C19-a/", 1), v, sub.floorWhy[k])
	}
}

// ---------------------------------------------------------------- (b) tables

func c19Tables(c *Ctx, r *Report) {
	const rule = "C19-b"
	opsInit, p := c.pkgVarInit(stdmathPkg, "ops")
	uniInit, _ := c.pkgVarInit(stdmathPkg, "uniOps")
	ordInit, _ := c.pkgVarInit(stdmathPkg, "orderOfOps")
	if p == nil || opsInit == nil || uniInit == nil || ordInit == nil {
		r.Undecided(rule, stdmathPkg, "tables ops/uniOps/orderOfOps", "-", "operator tables not found as package-level composite literals")
		return
	}
	info := p.TypesInfo
	opsLit, uniLit, ordLit := asCompositeLit(opsInit), asCompositeLit(uniInit), asCompositeLit(ordInit)
	if opsLit == nil || uniLit == nil || ordLit == nil {
		r.Undecided(rule, stdmathPkg, "tables ops/uniOps/orderOfOps", "-", "operator tables are not composite literals any more: their contents cannot be evaluated statically")
		return
	}
	opsKeys := map[string]bool{}
	for _, e := range mapLitEntries(info, opsLit) {
		if !e.KeyOK {
			r.Undecided(rule, stdmathPkg+".var ops", exprStr(e.KeyExp), c.Pos(e.KeyExp.Pos()), "non-constant key in ops")
			continue
		}
		opsKeys[e.Key] = true
	}
	// orderOfOps rows
	row := map[string]int{}
	dup := []string{}
	for i, el := range ordLit.Elts {
		rl := asCompositeLit(el)
		if rl == nil {
			r.Undecided(rule, stdmathPkg+".var orderOfOps", fmt.Sprintf("row %d", i), c.Pos(el.Pos()), "row is not a composite literal")
			continue
		}
		for _, k := range rl.Elts {
			s, ok := constString(info, k)
			if !ok {
				r.Undecided(rule, stdmathPkg+".var orderOfOps", exprStr(k), c.Pos(k.Pos()), "non-constant operator in orderOfOps")
				continue
			}
			if _, seen := row[s]; seen {
				dup = append(dup, s)
			}
			row[s] = i
		}
	}
	pos := c.Pos(ordLit.Pos())
	// every ops key has a precedence row (else opCodeOrder panics)
	var keys []string
	for k := range opsKeys {
		keys = append(keys, k)
	}
	sort.Strings(keys)
	for _, k := range keys {
		_, ok := row[k]
		r.Check(ok, rule+"/ops-in-order", stdmathPkg+".var ops", fmt.Sprintf("%q", k), c.Pos(opsLit.Pos()),
			"table: operator occurs in orderOfOps", "binary operator "+k+" is in ops but in no row of orderOfOps: opCodeOrder reaches its panic for a formula using it")
	}
	var rk []string
	for k := range row {
		rk = append(rk, k)
	}
	sort.Strings(rk)
	for _, k := range rk {
		r.Check(opsKeys[k], rule+"/order-in-ops", stdmathPkg+".var orderOfOps", fmt.Sprintf("%q", k), pos,
			"table: operator has an implementation in ops", "operator "+k+" has a precedence row but no implementation in ops")
	}
	r.Check(len(dup) == 0, rule+"/order-unique", stdmathPkg+".var orderOfOps", "rows disjoint", pos, "table: no operator in two rows", fmt.Sprintf("operators in more than one precedence row: %v", dup))
	// key lengths vs tokenizer window
	maxLen := int64(-1)
	if fi := c.MustFunc(r, rule, stdmathPkg, "prefixInOps"); fi != nil {
		ast.Inspect(fi.Decl.Body, func(n ast.Node) bool {
			if vs, ok := n.(*ast.ValueSpec); ok {
				for i, id := range vs.Names {
					if id.Name == "maxLen" && i < len(vs.Values) {
						if v, ok := constInt(info, vs.Values[i]); ok {
							maxLen = v
						}
					}
				}
			}
			return true
		})
	}
	if maxLen < 0 {
		r.Undecided(rule+"/key-length", stdmathPkg+".prefixInOps", "maxLen", "-", "tokenizer window constant maxLen not found")
	}
	for _, k := range keys {
		r.Check(len(k) >= 1 && (maxLen < 0 || int64(len(k)) <= maxLen), rule+"/key-length", stdmathPkg+".var ops", fmt.Sprintf("%q", k), c.Pos(opsLit.Pos()),
			"table: 1 <= len(op) <= tokenizer window", fmt.Sprintf("operator %q is empty or longer than the tokenizer's %d-byte prefix window: it can never be tokenized (or stalls the scan)", k, maxLen))
	}
	// unary operators: non-alphabetic keys must be one byte (hasUnaryOp looks at one byte)
	nUni := 0
	for _, e := range mapLitEntries(info, uniLit) {
		if !e.KeyOK {
			r.Undecided(rule+"/unary", stdmathPkg+".var uniOps", exprStr(e.KeyExp), c.Pos(e.KeyExp.Pos()), "non-constant key in uniOps")
			continue
		}
		nUni++
		alpha := e.Key != ""
		for _, ch := range e.Key {
			if !(ch >= 'a' && ch <= 'z' || ch >= 'A' && ch <= 'Z' || ch >= '0' && ch <= '9') {
				alpha = false
			}
		}
		ok := alpha || len(e.Key) == 1
		if alpha && e.Key != "" && e.Key[0] >= '0' && e.Key[0] <= '9' {
			ok = false
		}
		r.Check(ok, rule+"/unary", stdmathPkg+".var uniOps", fmt.Sprintf("%q", e.Key), c.Pos(e.KeyExp.Pos()),
			"table: unary operator is a function name or a single byte", "unary operator is neither an identifier (applied as name(..)) nor a single byte (the only form hasUnaryOp can see)")
		// a single-byte unary operator that is also the prefix of no binary op is fine; nothing else to check
	}
	// documented precedence
	type rel struct {
		hi, lo []string
		what   string
	}
	rels := []rel{
		{[]string{"^"}, []string{"*", "/", "%"}, "^ binds tighter than * / %"},
		{[]string{"*", "/", "%"}, []string{"+", "-"}, "* / % bind tighter than + -"},
		{[]string{"+", "-"}, []string{"==", "<=", ">=", ">", "<"}, "+ - bind tighter than comparisons"},
		{[]string{"==", "<=", ">=", ">", "<"}, []string{"&&", "||"}, "comparisons bind tighter than && ||"},
	}
	for _, rl := range rels {
		ok := true
		for _, h := range rl.hi {
			for _, l := range rl.lo {
				rh, ok1 := row[h]
				rlw, ok2 := row[l]
				if !ok1 || !ok2 || rh >= rlw {
					ok = false
				}
			}
		}
		r.Check(ok, rule+"/precedence", stdmathPkg+".var orderOfOps", rl.what, pos, "table: row order matches the documented precedence", "orderOfOps rows contradict the documented order of operations: "+rl.what)
	}
	same := [][]string{{"*", "/", "%"}, {"+", "-"}, {"&&", "||"}, {"==", "<=", ">=", ">", "<"}}
	for _, grp := range same {
		ok := true
		for _, k := range grp[1:] {
			if row[k] != row[grp[0]] {
				ok = false
			}
		}
		r.Check(ok, rule+"/precedence", stdmathPkg+".var orderOfOps", "same level: "+strings.Join(grp, " "), pos, "table: operators share one precedence row", "operators documented at one level are in different rows (equal levels must evaluate left to right)")
	}
	r.Extra["ops_keys"] = keys
	r.Extra["unary_ops"] = nUni
	r.Floor(rule+"/ops-in-order", 15, "17 binary operators")
	r.Floor(rule+"/unary", 15, "18 unary operators")
	r.Floor(rule+"/precedence", 8, "4 order relations + 4 same-level groups")
}

// ---------------------------------------------------------------- (c) simplifier

// impureReason reports why a function body is not pure ("" if pure): writes
// to anything but its own locals, ambient reads, go/defer/send, or calls to
// functions outside the allow list.
func impureReason(c *Ctx, info *types.Info, body ast.Node, allowCall func(name string, call *ast.CallExpr) bool) string {
	reason := ""
	locals := map[types.Object]bool{}
	ast.Inspect(body, func(n ast.Node) bool {
		if id, ok := n.(*ast.Ident); ok {
			if o := info.Defs[id]; o != nil {
				locals[o] = true
			}
		}
		return true
	})
	ast.Inspect(body, func(n ast.Node) bool {
		if reason != "" {
			return false
		}
		switch t := n.(type) {
		case *ast.AssignStmt:
			for _, l := range t.Lhs {
				id, ok := ast.Unparen(l).(*ast.Ident)
				if !ok {
					reason = "writes " + exprStr(l)
					return false
				}
				if id.Name == "_" {
					continue
				}
				o := info.Defs[id]
				if o == nil {
					o = info.Uses[id]
				}
				if !locals[o] {
					reason = "writes non-local " + id.Name
				}
			}
		case *ast.IncDecStmt:
			id, ok := ast.Unparen(t.X).(*ast.Ident)
			if !ok || !locals[info.Uses[id]] {
				reason = "writes " + exprStr(t.X)
			}
		case *ast.SendStmt, *ast.GoStmt, *ast.DeferStmt:
			reason = "go/defer/send"
		case *ast.CallExpr:
			if isConversion(info, t) {
				return true
			}
			name := calleeName(info, t)
			if name == "" {
				// dynamic call: allowed only when asked
				if allowCall != nil && allowCall("", t) {
					return true
				}
				reason = "dynamic call " + exprStr(t.Fun)
				return false
			}
			if strings.HasPrefix(name, "builtin.") {
				switch name {
				case "builtin.len", "builtin.cap", "builtin.min", "builtin.max", "builtin.append", "builtin.make", "builtin.new":
					return true
				}
				reason = "calls " + name
				return false
			}
			if hasPrefixAny(name, "math.", "strings.", "strconv.", "unicode.", "unicode/utf8.", "slices.Contains") {
				return true
			}
			if allowCall != nil && allowCall(name, t) {
				return true
			}
			reason = "calls " + name
		case *ast.Ident:
			if v, ok := info.Uses[t].(*types.Var); ok && !v.IsField() && v.Pkg() != nil && v.Parent() == v.Pkg().Scope() {
				// read of a package-level variable: fine only if never written outside init
				if w := writersOfGlobal(c, v); len(w) > 0 {
					reason = "reads package variable " + v.Name() + " which is written by " + strings.Join(w, ", ")
				}
			}
		}
		return true
	})
	return reason
}

// writersOfGlobal lists functions that assign the package-level variable v.
func writersOfGlobal(c *Ctx, v *types.Var) []string {
	var out []string
	for _, p := range c.Pkgs {
		info := p.TypesInfo
		for _, f := range p.Syntax {
			for _, d := range f.Decls {
				fd, ok := d.(*ast.FuncDecl)
				if !ok || fd.Body == nil {
					continue
				}
				hit := false
				ast.Inspect(fd.Body, func(n ast.Node) bool {
					switch t := n.(type) {
					case *ast.AssignStmt:
						for _, l := range t.Lhs {
							if id := rootIdent(l); id != nil && info.Uses[id] == v {
								hit = true
							}
						}
					case *ast.IncDecStmt:
						if id := rootIdent(t.X); id != nil && info.Uses[id] == v {
							hit = true
						}
					case *ast.UnaryExpr:
						if t.Op == token.AND {
							if id := rootIdent(t.X); id != nil && info.Uses[id] == v {
								hit = true
							}
						}
					}
					return true
				})
				if hit {
					out = append(out, funcDisplayName(p.PkgPath, fd))
				}
			}
		}
	}
	return out
}

func c19Simplifier(c *Ctx, r *Report) {
	const rule = "C19-c"
	p := c.ByPath[stdmathPkg]
	if p == nil {
		r.Undecided(rule, stdmathPkg, "package", "-", "package not found")
		return
	}
	info := p.TypesInfo
	exprObj := p.Types.Scope().Lookup("Expr")
	ctxObj := p.Types.Scope().Lookup("Context")
	if exprObj == nil || ctxObj == nil {
		r.Undecided(rule, stdmathPkg, "Expr/Context", "-", "interfaces Expr/Context not found")
		return
	}
	exprIface, _ := exprObj.Type().Underlying().(*types.Interface)
	ctxIface, _ := ctxObj.Type().Underlying().(*types.Interface)
	if exprIface == nil || ctxIface == nil {
		r.Undecided(rule, stdmathPkg, "Expr/Context", "-", "Expr/Context are not interfaces")
		return
	}
	pureHelpers := func(name string, call *ast.CallExpr) bool {
		return name == stdmathPkg+".conditionalOp" || name == stdmathPkg+".truthy"
	}
	for _, h := range []string{"conditionalOp", "truthy"} {
		if fi := c.MustFunc(r, rule+"/pure-op", stdmathPkg, h); fi != nil {
			why := impureReason(c, info, fi.Decl.Body, nil)
			r.Check(why == "", rule+"/pure-op", fi.Name, "body", c.Pos(fi.Decl.Pos()), "pure: no writes, no ambient reads, only pure callees", "helper used by operators is not pure: "+why)
		}
	}
	// Eval methods
	for _, fi := range c.AllFuncDecls(stdmathPkg) {
		fd := fi.Decl
		if fd.Name.Name != "Eval" || fd.Recv == nil {
			continue
		}
		recvT := info.TypeOf(fd.Recv.List[0].Type)
		if recvT == nil || !types.Implements(recvT, exprIface) {
			continue
		}
		// the context parameter
		var ctxParam types.Object
		if fd.Type.Params != nil && len(fd.Type.Params.List) == 1 && len(fd.Type.Params.List[0].Names) == 1 {
			ctxParam = info.Defs[fd.Type.Params.List[0].Names[0]]
		}
		okUses := true
		lookups := 0
		detail := ""
		parentCall := map[ast.Expr]*ast.CallExpr{}
		ast.Inspect(fd.Body, func(n ast.Node) bool {
			if ce, ok := n.(*ast.CallExpr); ok {
				if se, ok := ce.Fun.(*ast.SelectorExpr); ok {
					parentCall[se.X] = ce
				}
				for _, a := range ce.Args {
					parentCall[a] = ce
				}
			}
			return true
		})
		ast.Inspect(fd.Body, func(n ast.Node) bool {
			id, ok := n.(*ast.Ident)
			if !ok || ctxParam == nil || info.Uses[id] != ctxParam {
				return true
			}
			ce := parentCall[id]
			if ce == nil {
				okUses, detail = false, "context parameter used outside a call"
				return true
			}
			if se, ok := ce.Fun.(*ast.SelectorExpr); ok && se.X == ast.Expr(id) {
				// ctx.Method(..)
				if se.Sel.Name == "GetMatch" || se.Sel.Name == "GetKey" {
					lookups++
					return true
				}
				okUses, detail = false, "context used through "+se.Sel.Name
				return true
			}
			// passed as an argument: must be to an Eval of an Expr
			if se, ok := ce.Fun.(*ast.SelectorExpr); ok && se.Sel.Name == "Eval" {
				if t := info.TypeOf(se.X); t != nil && types.Implements(t, exprIface) || types.Identical(info.TypeOf(se.X), exprObj.Type()) {
					return true
				}
			}
			okUses, detail = false, "context passed to "+exprStr(ce.Fun)
			return true
		})
		why := impureReason(c, info, fd.Body, func(name string, call *ast.CallExpr) bool {
			if name == "" {
				// s.op(...) : calling the stored operator function
				if se, ok := call.Fun.(*ast.SelectorExpr); ok {
					if fv := fieldVar(info, se); fv != nil {
						return true
					}
				}
				return false
			}
			if strings.HasSuffix(name, ".Eval") || strings.HasSuffix(name, ".GetMatch") || strings.HasSuffix(name, ".GetKey") {
				return true
			}
			return false
		})
		r.Check(okUses && why == "", rule+"/eval", fi.Name, "context discipline", c.Pos(fd.Pos()),
			fmt.Sprintf("effect: context reached only via GetMatch/GetKey (%d lookups) or sub-expression Eval; no writes", lookups),
			"Eval can observe or change state without the probe context counting a lookup ("+detail+" "+why+"): simplify would fold a non-constant sub-expression")
	}
	// operator functions
	nOps := 0
	for _, tbl := range []string{"ops", "uniOps"} {
		init, _ := c.pkgVarInit(stdmathPkg, tbl)
		cl := asCompositeLit(init)
		if cl == nil {
			r.Undecided(rule+"/pure-op", stdmathPkg+".var "+tbl, "literal", "-", "table not a composite literal")
			continue
		}
		for _, e := range mapLitEntries(info, cl) {
			nOps++
			where := fmt.Sprintf("%s.var %s[%q]", stdmathPkg, tbl, e.Key)
			switch v := ast.Unparen(e.Value).(type) {
			case *ast.FuncLit:
				why := impureReason(c, info, v.Body, pureHelpers)
				r.Check(why == "", rule+"/pure-op", where, "func literal", c.Pos(v.Pos()), "pure: no writes, no ambient reads, only math.* / pure helpers", "operator function is not pure ("+why+"): constant folding changes the formula's value")
			default:
				// a named function: must come from package math
				ok := false
				name := exprStr(e.Value)
				if se, isSel := v.(*ast.SelectorExpr); isSel {
					if f, isF := info.Uses[se.Sel].(*types.Func); isF && f.Pkg() != nil && f.Pkg().Path() == "math" {
						ok = true
					}
				}
				r.Check(ok, rule+"/pure-op", where, name, c.Pos(e.Value.Pos()), "pure: function of package math", "operator is implemented by "+name+", which is not a package math function; purity unknown")
			}
		}
	}
	// the probe context counts every lookup
	probeT := p.Types.Scope().Lookup("simplifyContext")
	if probeT == nil {
		r.Undecided(rule+"/probe", stdmathPkg, "simplifyContext", "-", "probe context type not found")
	} else {
		for _, m := range []string{"GetMatch", "GetKey"} {
			fi := c.MustFunc(r, rule+"/probe", stdmathPkg, "(*simplifyContext)."+m)
			if fi == nil {
				continue
			}
			counts := false
			for _, st := range fi.Decl.Body.List { // unconditional top-level statement
				switch t := st.(type) {
				case *ast.IncDecStmt:
					if fv := fieldVar(info, t.X); fv != nil && fv.Name() == "hits" && t.Tok == token.INC {
						counts = true
					}
				case *ast.AssignStmt:
					if len(t.Lhs) == 1 && t.Tok == token.ADD_ASSIGN {
						if fv := fieldVar(info, t.Lhs[0]); fv != nil && fv.Name() == "hits" {
							if v, ok := constInt(info, t.Rhs[0]); ok && v > 0 {
								counts = true
							}
						}
					}
				case *ast.ReturnStmt:
					if !counts {
						break
					}
				}
				if _, isRet := st.(*ast.ReturnStmt); isRet {
					break
				}
			}
			r.Check(counts, rule+"/probe", fi.Name, "hits++", c.Pos(fi.Decl.Pos()), "effect: lookup is counted unconditionally before returning", "probe context method does not count the lookup: variables read through it would be folded as constants")
		}
	}
	// simplify folds only when hits == 0
	if fi := c.MustFunc(r, rule+"/fold", stdmathPkg, "simplify"); fi != nil {
		fd := fi.Decl
		vi := analyseVars(info, fd)
		fg := NewFGraph(fd.Body, info)
		fg.SolveFacts(vi)
		var param types.Object
		if fd.Type.Params != nil && len(fd.Type.Params.List) == 1 && len(fd.Type.Params.List[0].Names) == 1 {
			param = info.Defs[fd.Type.Params.List[0].Names[0]]
		}
		nret := 0
		inspectNoLit(fd.Body, func(n ast.Node) bool {
			rs, ok := n.(*ast.ReturnStmt)
			if !ok || len(rs.Results) != 1 {
				return true
			}
			nret++
			if param != nil && identObj(info, rs.Results[0]) == param {
				r.OK(rule+"/fold", fi.Name, "return "+exprStr(rs.Results[0]), c.Pos(rs.Pos()), "identity: returns the unmodified expression")
				return true
			}
			// a replacement: needs the fact hits == 0
			okf := false
			for _, f := range fg.FactsAtPos(rs.Pos()) {
				be, isB := ast.Unparen(f.Cond).(*ast.BinaryExpr)
				if !isB || f.Tag != nil {
					continue
				}
				hitsSide := func(e ast.Expr) bool {
					fv := fieldVar(info, e)
					return fv != nil && fv.Name() == "hits"
				}
				zero := func(e ast.Expr) bool { v, ok := constInt(info, e); return ok && v == 0 }
				if (hitsSide(be.X) && zero(be.Y)) || (hitsSide(be.Y) && zero(be.X)) {
					if (be.Op == token.EQL && f.Truth) || (be.Op == token.NEQ && !f.Truth) || (be.Op == token.GTR && !f.Truth && hitsSide(be.X)) {
						okf = true
					}
				}
			}
			r.Check(okf, rule+"/fold", fi.Name, "return "+exprStr(rs.Results[0]), c.Pos(rs.Pos()), "guard: replacement returned only under hits == 0", "simplify replaces the expression by a constant on a path where the probe may have looked up a variable")
			return true
		})
		if nret < 2 {
			r.Undecided(rule+"/fold", fi.Name, "returns", c.Pos(fd.Pos()), "simplify no longer has the fold/keep return pair the rule understands")
		}
		// the probe's context must be a fresh simplifyContext
		fresh := false
		ast.Inspect(fd.Body, func(n ast.Node) bool {
			if cl, ok := n.(*ast.CompositeLit); ok {
				if t := info.TypeOf(cl); t != nil && isNamed(t, stdmathPkg, "simplifyContext") && len(cl.Elts) == 0 {
					fresh = true
				}
			}
			return true
		})
		r.Check(fresh, rule+"/fold", fi.Name, "fresh probe context", c.Pos(fd.Pos()), "effect: probe starts from a zero-valued simplifyContext", "simplify does not start from a fresh zero-valued probe context")
	}
	r.Extra["operator_functions"] = nOps
	r.Floor(rule+"/eval", 5, "5 Expr node types")
	r.Floor(rule+"/pure-op", 35, "17 binary + 18 unary operators + 2 helpers")
	r.Floor(rule+"/probe", 2, "GetMatch and GetKey of simplifyContext")
	r.Floor(rule+"/fold", 3, "two returns and the fresh context")
}

// ---------------------------------------------------------------- (d) errors

// nonNilErrorReturns checks, in the functions named, that every return whose
// non-error results are all nil/zero literals carries an error that is a
// package-level error variable, a call result, or a variable known != nil.
func c19Errors(c *Ctx, r *Report) {
	const rule = "C19-d"
	p := c.ByPath[stdmathPkg]
	if p == nil {
		return
	}
	info := p.TypesInfo
	n := 0
	for _, name := range []string{"Compile", "tokenizeExpr", "(*tokenScanner).compileTokens", "(*tokenScanner).getNextExpr", "(*tokenScanner).getNextOp", "compileToken"} {
		fi := c.MustFunc(r, rule, stdmathPkg, name)
		if fi == nil {
			continue
		}
		n += errorReturnRule(c, r, rule, fi, info)
	}
	r.Floor(rule, 12, "failure returns of tokenizer and parser")
	// kfMath: compile error -> stage error
	if fi := c.MustFunc(r, rule+"/kfMath", "rare/pkg/expressions/stdlib", "kfMath"); fi != nil {
		sinfo := fi.Pkg.TypesInfo
		vi := analyseVars(sinfo, fi.Decl)
		fg := NewFGraph(fi.Decl.Body, sinfo)
		fg.SolveFacts(vi)
		var compileCall *ast.CallExpr
		var errObj types.Object
		inspectNoLit(fi.Decl.Body, func(x ast.Node) bool {
			if as, ok := x.(*ast.AssignStmt); ok && len(as.Rhs) == 1 {
				if ce, ok := as.Rhs[0].(*ast.CallExpr); ok && calleeName(sinfo, ce) == stdmathPkg+".Compile" && len(as.Lhs) == 2 {
					compileCall = ce
					errObj = identObj(sinfo, as.Lhs[1])
				}
			}
			return true
		})
		if compileCall == nil || errObj == nil {
			r.Undecided(rule+"/kfMath", fi.Name, "stdmath.Compile", c.Pos(fi.Decl.Pos()), "call `expr, err := stdmath.Compile(..)` not found")
		} else {
			// the closure creation (success return) must be dominated by err == nil
			ok := false
			var lit *ast.FuncLit
			inspectNoLit(fi.Decl.Body, func(x ast.Node) bool {
				if rs, isR := x.(*ast.ReturnStmt); isR && len(rs.Results) == 2 {
					if fl, isL := ast.Unparen(rs.Results[0]).(*ast.FuncLit); isL {
						lit = fl
						for _, f := range fg.FactsAtPos(rs.Pos()) {
							if be, isB := ast.Unparen(f.Cond).(*ast.BinaryExpr); isB && f.Tag == nil {
								if identObj(sinfo, be.X) == errObj && exprStr(be.Y) == "nil" {
									if (be.Op == token.NEQ && !f.Truth) || (be.Op == token.EQL && f.Truth) {
										ok = true
									}
								}
							}
						}
					}
				}
				return true
			})
			pos := c.Pos(compileCall.Pos())
			if lit == nil {
				r.Undecided(rule+"/kfMath", fi.Name, "stage closure", pos, "kfMath no longer returns a stage literal")
			} else {
				r.Check(ok, rule+"/kfMath", fi.Name, "err != nil => stage error", pos, "guard: evaluating stage is only built under err == nil", "the evaluating stage is returned although stdmath.Compile may have failed (nil expression would be evaluated)")
			}
		}
	}
	r.Floor(rule+"/kfMath", 1, "kfMath's compile error branch")
	_ = n
}

// errorReturnRule: for a function with results (.., error): each return that
// yields nil for its first result must yield a definitely non-nil error.
func errorReturnRule(c *Ctx, r *Report, rule string, fi *FuncInfo, info *types.Info) int {
	fd := fi.Decl
	res := fd.Type.Results
	if res == nil {
		return 0
	}
	nres := 0
	for _, f := range res.List {
		if len(f.Names) == 0 {
			nres++
		} else {
			nres += len(f.Names)
		}
	}
	if nres < 2 {
		return 0
	}
	vi := analyseVars(info, fd)
	fg := NewFGraph(fd.Body, info)
	fg.SolveFacts(vi)
	count := 0
	inspectNoLit(fd.Body, func(n ast.Node) bool {
		rs, ok := n.(*ast.ReturnStmt)
		if !ok || len(rs.Results) != nres {
			return true
		}
		if exprStr(rs.Results[0]) != "nil" {
			return true
		}
		count++
		e := ast.Unparen(rs.Results[nres-1])
		good, why := false, ""
		switch t := e.(type) {
		case *ast.Ident:
			o := info.Uses[t]
			if v, isVar := o.(*types.Var); isVar && v.Pkg() != nil && v.Parent() == v.Pkg().Scope() {
				// package-level sentinel: must be initialised by errors.New / fmt.Errorf
				if init, p := c.pkgVarInit(v.Pkg().Path(), v.Name()); init != nil && p != nil {
					if ce, isCall := ast.Unparen(init).(*ast.CallExpr); isCall {
						cn := calleeName(p.TypesInfo, ce)
						if cn == "errors.New" || cn == "fmt.Errorf" {
							if len(writersOfGlobal(c, v)) == 0 {
								good, why = true, "sentinel: package-level error created by "+cn+" and never reassigned"
							}
						}
					}
				}
			} else if isVar {
				for _, f := range fg.FactsAtPos(rs.Pos()) {
					if be, isB := ast.Unparen(f.Cond).(*ast.BinaryExpr); isB && f.Tag == nil {
						if identObj(info, be.X) == o && exprStr(be.Y) == "nil" {
							if (be.Op == token.NEQ && f.Truth) || (be.Op == token.EQL && !f.Truth) {
								good, why = true, "guard: returned under err != nil"
							}
						}
					}
				}
			}
		case *ast.CallExpr:
			cn := calleeName(info, t)
			if cn == "errors.New" || cn == "fmt.Errorf" {
				good, why = true, "fresh error value"
			}
		}
		r.Check(good, rule, fi.Name, "return "+exprStr(rs.Results[0])+", "+exprStr(e), c.Pos(rs.Pos()), why,
			"a failure return (nil result) does not carry a definitely non-nil error: a malformed formula would be accepted and a nil expression evaluated later")
		return true
	})
	return count
}
