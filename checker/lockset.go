package main

// E-LOCK: must-hold lock sets over the flat CFG, inference of guarded fields,
// atomic-consistency, and helpers for goroutine structure.

import (
	"go/ast"
	"go/token"
	"go/types"
	"sort"
	"strings"
)

type lockSet map[string]bool // "expr" (write lock) or "expr#r" (read lock)

func (l lockSet) clone() lockSet {
	o := lockSet{}
	for k := range l {
		o[k] = true
	}
	return o
}

func (l lockSet) holds(x string) bool  { return l[x] || l[x+"#r"] }
func (l lockSet) holdsW(x string) bool { return l[x] }
func (l lockSet) String() string {
	var ks []string
	for k := range l {
		ks = append(ks, k)
	}
	sort.Strings(ks)
	return "{" + strings.Join(ks, ",") + "}"
}

// lockOp classifies a call as Lock/RLock/Unlock/RUnlock on a sync mutex and
// returns the text of the mutex expression.
func lockOp(info *types.Info, call *ast.CallExpr) (op, mutex string) {
	name := calleeName(info, call)
	switch name {
	case "(*sync.Mutex).Lock", "(*sync.RWMutex).Lock":
		op = "lock"
	case "(*sync.RWMutex).RLock":
		op = "rlock"
	case "(*sync.Mutex).Unlock", "(*sync.RWMutex).Unlock":
		op = "unlock"
	case "(*sync.RWMutex).RUnlock":
		op = "runlock"
	default:
		return "", ""
	}
	if se, ok := call.Fun.(*ast.SelectorExpr); ok {
		return op, exprStr(se.X)
	}
	return "", ""
}

// lockSets computes the must-hold lock set on entry to every node of fg.
func lockSets(fg *FGraph, entry lockSet) []lockSet {
	n := len(fg.Nodes)
	in := make([]lockSet, n)
	out := make([]lockSet, n)
	top := lockSet{"\x00top": true}
	for i := range in {
		in[i] = top
		out[i] = top
	}
	isTop := func(l lockSet) bool { return l["\x00top"] }
	transfer := func(nd *FNode, l lockSet) lockSet {
		if nd.N == nil || isTop(l) {
			return l
		}
		o := l
		copied := false
		if _, isDefer := nd.N.(*ast.DeferStmt); isDefer {
			return l // deferred unlocks run at exit
		}
		inspectNoLit(nd.N, func(x ast.Node) bool {
			ce, ok := x.(*ast.CallExpr)
			if !ok {
				return true
			}
			op, m := lockOp(fg.Info, ce)
			if op == "" {
				return true
			}
			if !copied {
				o = l.clone()
				copied = true
			}
			switch op {
			case "lock":
				o[m] = true
			case "rlock":
				o[m+"#r"] = true
			case "unlock":
				delete(o, m)
			case "runlock":
				delete(o, m+"#r")
			}
			return true
		})
		return o
	}
	in[fg.Entry] = entry.clone()
	out[fg.Entry] = in[fg.Entry]
	changed := true
	for iter := 0; changed && iter < 200; iter++ {
		changed = false
		for _, nd := range fg.Nodes {
			if nd.ID == fg.Entry {
				continue
			}
			var cur lockSet
			first := true
			for _, p := range nd.Pred {
				po := out[p]
				if isTop(po) {
					continue
				}
				if first {
					cur = po.clone()
					first = false
				} else {
					for k := range cur {
						if !po[k] {
							delete(cur, k)
						}
					}
				}
			}
			if first {
				continue // no reached predecessor yet
			}
			if isTop(in[nd.ID]) || !sameSet(in[nd.ID], cur) {
				in[nd.ID] = cur
				changed = true
			}
			no := transfer(nd, in[nd.ID])
			if isTop(out[nd.ID]) || !sameSet(out[nd.ID], no) {
				out[nd.ID] = no
				changed = true
			}
		}
	}
	for i := range in {
		if isTop(in[i]) {
			in[i] = lockSet{} // unreachable
		}
	}
	return in
}

func sameSet(a, b lockSet) bool {
	if len(a) != len(b) {
		return false
	}
	for k := range a {
		if !b[k] {
			return false
		}
	}
	return true
}

// bodyUnit is one function body (declaration or literal) with its graph.
type bodyUnit struct {
	Pkg     *packagesPkg
	Decl    *ast.FuncDecl // enclosing declaration (nil for package-level literals)
	Lit     *ast.FuncLit  // nil for the declaration's own body
	Body    *ast.BlockStmt
	FG      *FGraph
	Locks   []lockSet
	IsGo    bool // literal is the operand of a go statement
	IsDefer bool
	Name    string
}

// allBodies builds graphs and lock sets for every function body of the given
// packages. Entry lock sets of unexported helpers are the intersection of the
// lock sets at their call sites (iterated twice).
func allBodies(c *Ctx, prefixes ...string) []*bodyUnit {
	var units []*bodyUnit
	for _, fi := range c.AllFuncDecls(prefixes...) {
		info := fi.Pkg.TypesInfo
		add := func(lit *ast.FuncLit, body *ast.BlockStmt, isGo, isDefer bool) {
			u := &bodyUnit{Pkg: fi.Pkg, Decl: fi.Decl, Lit: lit, Body: body, IsGo: isGo, IsDefer: isDefer, Name: fi.Name}
			u.FG = NewFGraph(body, info)
			units = append(units, u)
		}
		add(nil, fi.Decl.Body, false, false)
		goLits := map[*ast.FuncLit]bool{}
		deferLits := map[*ast.FuncLit]bool{}
		ast.Inspect(fi.Decl.Body, func(n ast.Node) bool {
			switch t := n.(type) {
			case *ast.GoStmt:
				if fl, ok := ast.Unparen(t.Call.Fun).(*ast.FuncLit); ok {
					goLits[fl] = true
				}
			case *ast.DeferStmt:
				if fl, ok := ast.Unparen(t.Call.Fun).(*ast.FuncLit); ok {
					deferLits[fl] = true
				}
			}
			return true
		})
		for _, fl := range funcLitsIn(fi.Decl.Body) {
			add(fl, fl.Body, goLits[fl], deferLits[fl])
		}
	}
	// entry lock sets: start empty, then refine unexported helpers
	entry := map[*types.Func]lockSet{}
	compute := func() {
		for _, u := range units {
			e := lockSet{}
			if u.Lit == nil {
				if obj, _ := u.Pkg.TypesInfo.Defs[u.Decl.Name].(*types.Func); obj != nil {
					if es, ok := entry[obj]; ok {
						e = es
					}
				}
			}
			u.Locks = lockSets(u.FG, e)
		}
	}
	compute()
	for round := 0; round < 2; round++ {
		sites := map[*types.Func][]lockSet{}
		exempt := map[*types.Func]bool{}
		for _, u := range units {
			info := u.Pkg.TypesInfo
			for _, nd := range u.FG.Nodes {
				if nd.N == nil {
					continue
				}
				inspectNoLit(nd.N, func(x ast.Node) bool {
					ce, ok := x.(*ast.CallExpr)
					if !ok {
						return true
					}
					f := calleeFunc(info, ce)
					if f == nil || f.Exported() || !c.IsRarePkg(f.Pkg()) {
						return true
					}
					if u.Lit == nil && u.Decl.Name.Name == "init" && u.Decl.Recv == nil {
						exempt[f] = true // package initialisation is single-threaded
						return true
					}
					ls := u.Locks[nd.ID].clone()
					// translate receiver-relative lock names: s.mux at a call x.helper() is x.mux inside
					// the callee only when the receiver names agree; keep names that do not start with a
					// local receiver (package-level mutexes) and names whose receiver text matches.
					sites[f] = append(sites[f], ls)
					return true
				})
			}
		}
		for f, lss := range sites {
			var cur lockSet
			for i, ls := range lss {
				if i == 0 {
					cur = ls.clone()
				} else {
					for k := range cur {
						if !ls[k] {
							delete(cur, k)
						}
					}
				}
			}
			if cur == nil {
				cur = lockSet{}
			}
			entry[f] = cur
			_ = exempt
		}
		compute()
	}
	return units
}

// innermostUnit returns the unit whose body most tightly contains pos.
func innermostUnit(units []*bodyUnit, pos token.Pos) *bodyUnit {
	var best *bodyUnit
	for _, u := range units {
		if u.Body.Pos() <= pos && pos < u.Body.End() {
			if best == nil || u.Body.End()-u.Body.Pos() < best.Body.End()-best.Body.Pos() {
				best = u
			}
		}
	}
	return best
}

// atomicFields returns the struct fields / package variables whose address is
// passed to a sync/atomic function anywhere in the repository.
func atomicTargets(c *Ctx) map[*types.Var][]token.Pos {
	out := map[*types.Var][]token.Pos{}
	forEachCall(c, func(p *packagesPkg, fd *ast.FuncDecl, call *ast.CallExpr) {
		name := calleeName(p.TypesInfo, call)
		if !strings.HasPrefix(name, "sync/atomic.") || len(call.Args) == 0 {
			return
		}
		ue, ok := ast.Unparen(call.Args[0]).(*ast.UnaryExpr)
		if !ok || ue.Op != token.AND {
			return
		}
		if fv := fieldVar(p.TypesInfo, ue.X); fv != nil {
			out[fv] = append(out[fv], call.Pos())
		} else if o, ok := identObj(p.TypesInfo, ue.X).(*types.Var); ok {
			out[o] = append(out[o], call.Pos())
		}
	})
	return out
}

// isSyncType reports whether t is a sync/atomic primitive or a channel.
func isSyncType(t types.Type) bool {
	if _, ok := t.Underlying().(*types.Chan); ok {
		return true
	}
	if n := namedOf(t); n != nil && n.Obj().Pkg() != nil {
		pp := n.Obj().Pkg().Path()
		if pp == "sync" || pp == "sync/atomic" {
			return true
		}
	}
	return false
}
