package main

// C14 - renderers never crash, terminate, and index palettes within bounds.

import (
	"fmt"
	"go/ast"
	"go/token"
	"go/types"
	"strings"
)

func init() {
	register(&propDef{
		ID:  "C14",
		Run: runC14,
		Explain: "Decided: (a) every panic-capable construct and every non-range loop in pkg/multiterm/**, pkg/color, the render closures handed to RunAggregationLoop in cmd/, and everything of rare/... they reach (aggregator accessors, formatter expressions, humanize) is discharged by the compiler's prove pass, a dominating-guard rule or a reviewed reason; (b) palette lookups: the bucket count handed to termscaler.Bucket equals the length of the array that is then indexed, HeatWrite/SparkWrite/BarWrite receive only results of Scaler.Scale, and inside Scale the only non-constant return is dominated by the clamps (max<min, val<min, val>max) and by the degenerate-range guard; (c) the integer bar-length division is guarded against a zero maximum; (d) column/row width bookkeeping compares visible lengths (color.StrLen), never byte lengths. (e) the block count of a bar is only counted down after the proportional division; the redraw trigger of the bar graph compares the quantity the active mode scales by (sum when stacked, largest part otherwise); every number DataTable formats is the result of an aggregator accessor. " +
			"NOT decided: that scaled magnitudes are monotone/proportional, that bars grow with the value, column alignment, equality of displayed and aggregated numbers, '(n more)' counts - all value-level layout arithmetic; negative row/column limits (outside the property's quantifier) are not considered.",
		Assume: []string{
			"row/column limits given on the command line are >= 0 (the property's quantifier)",
			"matchers return index pairs that are -1 or ordered and inside the line",
			"reviewed entries (checker/c14.go, checker/c08.go) are correct",
		},
	})
}

var reviewedRender = []reviewedEntry{
	// cmd/reduce.go render closures
	rv("precond", "rare/cmd.reduceFunction", "make([]string, aggr.ColCount())", 2, "ColCount() is len(groupDef)+len(colDef) >= 0"),
	rv("index", "rare/cmd.reduceFunction", "rowBuf[i]", 1, "rowBuf has ColCount() = GroupColCount()+len(colDef) cells and i ranges over GroupCols(), which has GroupColCount() elements"),
	rv("index", "rare/cmd.reduceFunction", "rowBuf[aggr.GroupColCount() + i]", 1, "i ranges over DataCols() (len(colDef) elements), so the index is < ColCount()"),
	rv("index", "rare/cmd.reduceFunction", "rowBuf[idx]", 1, "guarded by the preceding `idx >= aggr.GroupColCount()` break, and GroupColCount() <= ColCount() = len(rowBuf)", "idx < aggr.GroupColCount()"),
	rv("slice", "rare/cmd.reduceFunction", "rowBuf[aggr.GroupColCount():]", 1, "GroupColCount() <= ColCount() = len(rowBuf)"),
	rv("index", "rare/cmd.reduceFunction", "colNames[idx]", 2, "idx ranges over aggr.Data(\"\"), which has len(colDef) cells, the same length as DataCols()"),
	rv("precond", "rare/cmd.reduceFunction", "strings.Repeat(\" \", maxKeylen - len(colNames[idx]))", 1, "maxKeylen is the maximum of len(name) over exactly the names DataCols() returns (every successful AddDataExpr updates it)"),
	rv("slice", "rare/cmd.sparkFunction", "keepCols[len(keepCols) - numCols:]", 1, "inside `len(keepCols) > numCols`; numCols >= 0 by the quantifier (a negative --cols is a usage error outside C14)", "len(keepCols) > numCols"),
	// aggregation accessors
	rv("index", "rare/pkg/aggregation.(*AccumulatingGroup).DataCols", "ret[id]", 1, "ret was made with len(s.colDef) and id ranges over s.colDef"),
	rv("slice", "rare/pkg/aggregation.minSlice", "items[:count]", 1, "len(items) >= count after the early return; count is a row limit >= 0 (quantifier)", "len(items) >= count"),
	rv("index", "rare/pkg/aggregation.(*StatisticalAnalysis).Median", "s.orderedValues[len(s.orderedValues) / 2]", 1, "non-empty after the early return, and len/2 < len for len >= 1", "len(s.orderedValues) != 0"),
	// color
	rv("index", "rare/pkg/color.WrapIndices", "groups[i + 1]", 1, "len(groups) is even and non-zero (early return) and i is an even index < len(groups)", "i < len(groups)"),
	rv("slice", "rare/pkg/color.WrapIndices", "s[lastIndex:start]", 1, "guarded by start >= lastIndex; lastIndex is 0 or a previous end; matcher contract start <= end <= len(s)", "start >= lastIndex"),
	rv("slice", "rare/pkg/color.WrapIndices", "s[start:end]", 1, "guarded by 0 <= start < end; matcher contract end <= len(s)", "end > start", "start >= 0"),
	rv("slice", "rare/pkg/color.WrapIndices", "s[lastIndex:]", 1, "guarded by lastIndex < len(s)", "lastIndex < len(s)"),
	rv("slice", "rare/pkg/extractor/batchers.(*Batcher).StatusString", "s.activeFiles[:writeFiles]", 1, "writeFiles = min(len(s.activeFiles), 2) under the mutex"),
	// multiterm
	rv("index", "rare/pkg/multiterm.WriteLineNoWrap", "runes[i]", 2, "the outer condition gives i < len(runes); the inner loop only increments while i < len(runes)-1"),
	rv("slice", "rare/pkg/multiterm.WriteLineNoWrap", "runes[:i]", 1, "i is incremented at most once past an index < len(runes)"),
	rv("precond", "rare/pkg/multiterm.NewVirtualTermEx", "make([]string, size, cap)", 1, "only called with the constants (0, 10)"),
	rv("panic", "rare/pkg/multiterm.(*VirtualTerm).WriteForLine", "panic(\"virtualterm closed\")", 1, "terminals are closed by the command only after RunAggregationLoop returned, i.e. after the ticker goroutine left through the outputDone handshake (C05-b); nothing renders afterwards"),
	rv("loop", "rare/pkg/multiterm.(*VirtualTerm).WriteForLine", "for ; line >= len(s.lines); ", 1, "each iteration appends one element, so len(s.lines) reaches line+1"),
	rv("index", "rare/pkg/multiterm.(*VirtualTerm).WriteForLine", "s.lines[line]", 1, "the loop above grew s.lines beyond line; line numbers handed to terminals are non-negative counters/constants", "line < len(s.lines)"),
	rv("panic", "rare/pkg/multiterm/termformat.MustFromExpression", "panic(err)", 1, "only used for package-level formatter constants (bytesize etc.), evaluated at program start, not on data"),
	// termrenderers
	rv("precond", "rare/pkg/multiterm/termrenderers.(*BarGraph).SetKeys", "strings.Repeat(\" \", s.maxKeyLength + 2)", 1, "maxKeyLength starts at 4 and is only ever raised"),
	rv("precond", "rare/pkg/multiterm/termrenderers.(*BarGraph).writeBarGrouped", "strings.Repeat(\" \", s.maxKeyLength + 2)", 1, "maxKeyLength starts at 4 and is only ever raised"),
	rv("loop", "rare/pkg/multiterm/termrenderers.(*BarGraph).WriteBar", "for ; idx >= len(s.rows); ", 1, "each iteration appends one row"),
	rv("index", "rare/pkg/multiterm/termrenderers.(*BarGraph).WriteBar", "s.rows[idx]", 1, "the loop above grew s.rows beyond idx; idx is a non-negative range index in cmd/bargraph.go", "idx < len(s.rows)"),
	rv("index", "rare/pkg/multiterm/termrenderers.(*BarGraph).writeBarGrouped", "vals[i]", 2, "i < len(vals) by the loop condition; the closure is invoked synchronously by color.Write in the same iteration"),
	rv("slice", "rare/pkg/multiterm/termrenderers.minColSlice", "cols[:count]", 1, "len(cols) >= count after the early return; count is a column limit >= 0", "len(cols) >= count"),
	rv("index", "rare/pkg/multiterm/termrenderers.(*Heatmap).WriteTable", "rows[i]", 1, "i < rowCount = min(len(rows), s.rowCount)", "i < rowCount"),
	rv("slice", "rare/pkg/multiterm/termrenderers.(*Heatmap).WriteTable", "colNames[:colCount]", 1, "colCount = min(len(colNames), s.colCount) as returned by WriteHeader, with s.colCount >= 0"),
	rv("loop", "rare/pkg/multiterm/termrenderers.(*Heatmap).WriteHeader", "for i := 0; i < colCount; ", 1, "every path through the body breaks or advances i by at least 1: the delimiter step adds count >= 1 when i != 0, and the name step adds nameLen, forced to >= 1 for an empty name (re-checked: rule C14-d/header-progress)"),
	rv("index", "rare/pkg/multiterm/termrenderers.(*Heatmap).WriteHeader", "colNames[i]", 1, "i < colCount <= len(colNames) (loop condition, re-tested after the delimiter step)", "i < colCount"),
	rv("index", "rare/pkg/multiterm/termrenderers.(*Heatmap).WriteHeader", "colNames[colCount - 1]", 1, "inside the loop colCount > i >= 0, so colCount >= 1, and colCount <= len(colNames)", "i < colCount"),
	rv("precond", "rare/pkg/multiterm/termrenderers.NewHistogram", "make([]histoPair, maxLines)", 1, "maxLines is the row limit >= 0 (quantifier)"),
	rv("slice", "rare/pkg/multiterm/termrenderers.(*Spark).WriteTable", "colNames[len(colNames) - s.colCount:]", 1, "inside `len(colNames) > s.colCount`, s.colCount >= 0 (quantifier)", "len(colNames) > s.colCount"),
	rv("index", "rare/pkg/multiterm/termrenderers.(*Spark).WriteTable", "rows[i]", 1, "i < rowCount = min(len(rows), s.rowCount)", "i < rowCount"),
	rv("precond", "rare/pkg/multiterm/termrenderers.NewTable", "make([][]string, maxRows)", 1, "row limit + constant >= 0"),
	rv("precond", "rare/pkg/multiterm/termrenderers.NewTable", "make([]int, maxCols)", 1, "column limit + constant >= 0"),
	rv("index", "rare/pkg/multiterm/termrenderers.(*TableWriter).WriteRow", "s.rows[rowNum]", 1, "rowNum < s.maxRows = len(s.rows) after the early return; row numbers are non-negative counters", "rowNum < s.maxRows"),
	rv("index", "rare/pkg/multiterm/termrenderers.(*TableWriter).WriteRow", "s.colWidth[i]", 2, "i < s.maxCols = len(s.colWidth) by the loop condition", "i < s.maxCols"),
	rv("index", "rare/pkg/multiterm/termrenderers.(*TableWriter).WriteRow", "s.rows[i]", 1, "i < s.activeRows <= s.maxRows = len(s.rows) (activeRows is only set to rowNum+1 with rowNum < maxRows)", "i < s.activeRows"),
	rv("index", "rare/pkg/multiterm/termrenderers.(*TableWriter).writeRow", "s.colWidth[i]", 1, "i < s.maxCols = len(s.colWidth) by the loop condition", "i < s.maxCols"),
	rv("precond", "rare/pkg/multiterm/termscaler.(Scaler).ScaleKeys", "make([]int64, 0, buckets)", 1, "only called with the constant 6"),
	rv("index", "rare/pkg/multiterm/termscaler.(Scaler).ScaleKeys", "ret[len(ret) - 1]", 1, "evaluated only when i != 0 (short-circuit ||), after the first iteration appended", "i != 0"),
	rv("index", "rare/pkg/multiterm/termunicode.BarKey", "color.GroupColors[idx % len(color.GroupColors)]", 1, "idx is the non-negative range index of BarGraph.SetKeys, the only caller; GroupColors is a non-empty array"),
	rv("index", "rare/pkg/multiterm/termunicode.BarKey", "barAscii[idx % len(barAscii)]", 1, "idx is the non-negative range index of BarGraph.SetKeys, the only caller; barAscii is a non-empty array"),
	rv("index", "rare/pkg/multiterm/termunicode.BarWriteStacked", "vals[i]", 1, "i < len(vals) by the loop condition; the closure runs synchronously inside color.Write"),
	rv("index", "rare/pkg/multiterm/termunicode.HeatWrite", "heatmapAscii[idx]", 1, "idx = Bucket(len(heatmapAscii), scaled) in [0, len-1] for scaled in [0,1] (re-checked: rules C14-a/palette, C14-a/unit-arg, C14-a/scale)"),
	rv("index", "rare/pkg/multiterm/termunicode.HeatWrite", "heatmapColors[blockIdx]", 1, "blockIdx = Bucket(len(heatmapColors), scaled) in [0, len-1] for scaled in [0,1] (re-checked: rules C14-a/palette, C14-a/unit-arg, C14-a/scale)"),
	rv("index", "rare/pkg/multiterm/termunicode.SparkWrite", "sparkAscii[blockChar]", 1, "blockChar = Bucket(len(sparkAscii), scaled) in [0, len-1] for scaled in [0,1] (re-checked: rules C14-a/palette, C14-a/unit-arg, C14-a/scale)"),
	rv("index", "rare/pkg/multiterm/termunicode.SparkWrite", "sparkBlocks[blockChar]", 1, "blockChar = Bucket(len(sparkBlocks), scaled) in [0, len-1] for scaled in [0,1] (re-checked: rules C14-a/palette, C14-a/unit-arg, C14-a/scale)"),
	// extra copy of the accumulator row (second assignment of rowData defeats the make rule)
}

func runC14(c *Ctx, r *Report) {
	bce, err := bceList(c)
	if err != nil {
		r.Undecided("C14/bce", "compiler", "listing", "-", err.Error())
		return
	}
	rev := append(append([]reviewedEntry{}, reviewedExpr...), reviewedRender...)
	pe := &panicEngine{c: c, bce: bce, reviewed: rev}
	pe.scope = scopeRenderers(c)
	pe.run()
	pe.emit(r, "C14", nil)
	r.Extra["scope_functions"] = len(pe.scope)
	r.Extra["render_closures"] = len(renderClosures(c))
	r.Floor("C14/index", 150, "about 220 index expressions in scope on the pinned tree")
	r.Floor("C14/slice", 25, "41 slice expressions in scope")
	r.Floor("C14/div", 12, "bar length, humanize, percentages")
	r.Floor("C14/loop", 40, "56 non-range loops in scope")
	if len(renderClosures(c)) < 7 {
		r.Undecided("C14/scope", "rare/cmd", "render closures", "-", fmt.Sprintf("only %d render callbacks of RunAggregationLoop found (8 on the pinned tree): the renderer scope is incomplete", len(renderClosures(c))))
	}
	c14Palette(c, r)
	c14Scale(c, r)
	c14Clamp(c, r)
	c14HeaderProgress(c, r)
	c14Widths(c, r)
	c14BarClamp(c, r)
	c14DisplayedFromAggregator(c, r)
	c14ScaleAgreement(c, r)
	c14StrLenRunes(c, r, "C14-e/strlen-visible")
	c14MoreCount(c, r, "C14-g/more-count")
}

// ---------------------------------------------------------------- palettes

const termscalerPkg = "rare/pkg/multiterm/termscaler"
const termunicodePkg = "rare/pkg/multiterm/termunicode"

// c14Palette: x[v] where v := termscaler.Bucket(N, u): N == len(x); u is a
// parameter of the enclosing function; and every caller passes a Scale result.
func c14Palette(c *Ctx, r *Report) {
	const rule = "C14-a/palette"
	unitParams := map[*types.Func]int{} // function -> index of the [0,1] parameter
	for _, fi := range c.AllFuncDecls("rare/pkg/multiterm") {
		info := fi.Pkg.TypesInfo
		// variables assigned from Bucket(..)
		bucketOf := map[types.Object]*ast.CallExpr{}
		ast.Inspect(fi.Decl.Body, func(n ast.Node) bool {
			var lhs []ast.Expr
			var rhs []ast.Expr
			switch t := n.(type) {
			case *ast.AssignStmt:
				lhs, rhs = t.Lhs, t.Rhs
			case *ast.ValueSpec:
				for _, id := range t.Names {
					lhs = append(lhs, id)
				}
				rhs = t.Values
			}
			if len(lhs) == 1 && len(rhs) == 1 {
				if ce, ok := ast.Unparen(rhs[0]).(*ast.CallExpr); ok && calleeName(info, ce) == termscalerPkg+".Bucket" {
					if o := identObj(info, lhs[0]); o != nil {
						bucketOf[o] = ce
					}
				}
			}
			return true
		})
		if len(bucketOf) == 0 {
			continue
		}
		vi := analyseVars(info, fi.Decl)
		ast.Inspect(fi.Decl.Body, func(n ast.Node) bool {
			ix, ok := n.(*ast.IndexExpr)
			if !ok {
				return true
			}
			o := identObj(info, ix.Index)
			ce := bucketOf[o]
			if ce == nil {
				return true
			}
			alen, isArr := arrayLen(info.TypeOf(ix.X))
			nArg, isConst := constInt(info, ce.Args[0])
			ok2 := isArr && isConst && nArg == alen && nArg >= 1 && vi.final[o]
			r.Check(ok2, rule, fi.Name, exprStr(ix), c.Pos(ix.Pos()),
				fmt.Sprintf("table: bucket count %d equals the palette length and the index is a single-assignment Bucket result", alen),
				fmt.Sprintf("palette %s (length %d) is indexed by a Bucket result computed for %s buckets: an in-range unit value can index past the palette", exprStr(ix.X), alen, exprStr(ce.Args[0])))
			// the unit argument must be a parameter
			if po := identObj(info, ce.Args[1]); po != nil && fi.Decl.Type.Params != nil {
				idx := 0
				for _, f := range fi.Decl.Type.Params.List {
					for _, id := range f.Names {
						if info.Defs[id] == po && vi.final[po] {
							unitParams[fi.Obj] = idx
						}
						idx++
					}
				}
			}
			return true
		})
	}
	r.Floor(rule, 4, "heatmapAscii, heatmapColors, sparkAscii, sparkBlocks")
	// BarWrite's val is a unit value as well (LengthVal)
	if fi := c.Func(termunicodePkg, "BarWrite"); fi != nil {
		unitParams[fi.Obj] = 1
	}
	const rule2 = "C14-a/unit-arg"
	forEachCall(c, func(p *packagesPkg, fd *ast.FuncDecl, call *ast.CallExpr) {
		f := calleeFunc(p.TypesInfo, call)
		if f == nil {
			return
		}
		k, ok := unitParams[f]
		if !ok || k >= len(call.Args) {
			return
		}
		arg := ast.Unparen(call.Args[k])
		good := false
		if ce, isCall := arg.(*ast.CallExpr); isCall && calleeName(p.TypesInfo, ce) == "("+termscalerPkg+".Scaler).Scale" {
			good = true
		}
		if v, isC := p.TypesInfo.Types[arg]; isC && v.Value != nil {
			if s := v.Value.String(); s == "0" || s == "1" {
				good = true
			}
		}
		r.Check(good, rule2, fdName(p, fd), exprStr(call), c.Pos(call.Pos()), "flow: unit argument is directly a Scaler.Scale result", "the [0,1] argument of "+f.Name()+" is not a Scaler.Scale result: an unscaled value indexes past the palette / overdraws the bar")
		// proportionality: what a renderer draws for a data value is that value put through the scaler.
		// A literal magnitude is in range, but it places the cell without regard to min/max (a 0 cell
		// below negative cells, an "empty" cell at the bottom of a log scale).
		if v, isC := p.TypesInfo.Types[arg]; good && p.PkgPath != termunicodePkg {
			r.Check(!(isC && v.Value != nil), "C14-f/scaled-magnitude", fdName(p, fd), exprStr(call), c.Pos(call.Pos()), "flow: the magnitude drawn is the scaler's value for the cell", "a renderer draws a cell with the fixed magnitude "+exprStr(arg)+" instead of the scaled value of the cell: drawn height / shade is no longer monotone in the value (with a negative minimum a 0 cell is drawn below negative cells)")
		}
	})
	r.Floor(rule2, 5, "HeatWrite x2, SparkWrite, BarWrite x2")
	r.Floor("C14-f/scaled-magnitude", 5, "HeatWrite x2, SparkWrite, BarWrite x2")
}

// c14Scale: inside Scaler.Scale every return is a constant in [0,1] or is
// dominated by the clamps and the degenerate-range guard.
func c14Scale(c *Ctx, r *Report) {
	const rule = "C14-a/scale"
	fi := c.MustFunc(r, rule, termscalerPkg, "Scaler.Scale")
	if fi == nil {
		return
	}
	info := fi.Pkg.TypesInfo
	vi := analyseVars(info, fi.Decl)
	fg := NewFGraph(fi.Decl.Body, info)
	fg.SolveFacts(vi)
	var params []types.Object
	for _, f := range fi.Decl.Type.Params.List {
		for _, id := range f.Names {
			params = append(params, info.Defs[id])
		}
	}
	if len(params) != 3 {
		r.Undecided(rule, fi.Name, "signature", c.Pos(fi.Decl.Pos()), "Scale no longer has (val, min, max) parameters")
		return
	}
	val, min, max := params[0], params[1], params[2]
	n := 0
	inspectNoLit(fi.Decl.Body, func(x ast.Node) bool {
		rs, ok := x.(*ast.ReturnStmt)
		if !ok || len(rs.Results) != 1 {
			return true
		}
		n++
		if tv, ok := info.Types[rs.Results[0]]; ok && tv.Value != nil {
			s := tv.Value.String()
			r.Check(s == "0" || s == "1", rule, fi.Name, "return "+exprStr(rs.Results[0]), c.Pos(rs.Pos()), "constant: returns 0 or 1", "constant return outside [0,1]")
			return true
		}
		facts := fg.FactsAtPos(rs.Pos())
		has := func(a, b types.Object, op token.Token) bool {
			// fact that (a op b) is known FALSE, in either spelling
			for _, f := range facts {
				be, ok := ast.Unparen(f.Cond).(*ast.BinaryExpr)
				if !ok || f.Tag != nil {
					continue
				}
				x, y := identObj(info, be.X), identObj(info, be.Y)
				o := be.Op
				if !f.Truth {
					// cond false
				} else {
					o = negate(o)
				}
				// now: (x o y) is false
				if x == a && y == b && o == op {
					return true
				}
				mir := map[token.Token]token.Token{token.LSS: token.GTR, token.GTR: token.LSS, token.LEQ: token.GEQ, token.GEQ: token.LEQ}
				if x == b && y == a && mir[o] == op {
					return true
				}
				// stronger facts imply the needed one: !(a <= b) implies !(a < b)
				if x == a && y == b && ((op == token.LSS && o == token.LEQ) || (op == token.GTR && o == token.GEQ)) {
					return true
				}
			}
			return false
		}
		c1 := has(max, min, token.LSS) // not max < min
		c2 := has(val, min, token.LSS) // not val < min
		c3 := has(val, max, token.GTR) // not val > max
		// degenerate range guard: some fact X == Y false on two locals that are the divisor's operands
		c4 := false
		if be, ok := ast.Unparen(rs.Results[0]).(*ast.BinaryExpr); ok && be.Op == token.QUO {
			// the divisor itself or a local naming it (span := max - min)
			if d, ok := ast.Unparen(unalias(info, fi.Decl, be.Y)).(*ast.BinaryExpr); ok && d.Op == token.SUB {
				a, b := identObj(info, d.X), identObj(info, d.Y)
				for _, f := range facts {
					if fe, ok := ast.Unparen(f.Cond).(*ast.BinaryExpr); ok && f.Tag == nil {
						x, y := identObj(info, fe.X), identObj(info, fe.Y)
						if ((x == a && y == b) || (x == b && y == a)) && a != nil && b != nil {
							if (fe.Op == token.EQL && !f.Truth) || (fe.Op == token.NEQ && f.Truth) {
								c4 = true
							}
						}
					}
				}
			}
		}
		var missing []string
		if !c1 {
			missing = append(missing, "max < min")
		}
		if !c2 {
			missing = append(missing, "val < min")
		}
		if !c3 {
			missing = append(missing, "val > max")
		}
		if !c4 {
			missing = append(missing, "zero-width range")
		}
		r.Check(len(missing) == 0, rule, fi.Name, "return "+exprStr(rs.Results[0]), c.Pos(rs.Pos()),
			"guard: the quotient is returned only after the three clamps and the zero-width-range guard",
			"the scaled quotient can be returned without the clamp(s) for: "+strings.Join(missing, ", ")+" - the result may leave [0,1] (or be NaN) and then indexes past a palette")
		return true
	})
	r.Floor(rule, 5, "four constant returns and the quotient")
	_ = n
}

// c14Clamp: every indexed access in Quantile is proven in range by the
// engine itself (compiler or dominating guards, joined or path by path) - no
// reviewed reason is accepted here, so removing or weakening a clamp fails.
func c14Clamp(c *Ctx, r *Report) {
	const rule = "C14-a/clamp"
	fi := c.MustFunc(r, rule, "rare/pkg/aggregation", "(*StatisticalAnalysis).Quantile")
	if fi == nil {
		return
	}
	bce, err := bceList(c)
	if err != nil {
		r.Undecided(rule, "compiler", "listing", "-", err.Error())
		return
	}
	pe := &panicEngine{c: c, bce: bce, scope: map[ast.Node]bool{fi.Decl: true}}
	pe.run("rare/pkg/aggregation")
	n := 0
	for _, o := range pe.obs {
		if o.Kind != "index" && o.Kind != "slice" {
			continue
		}
		n++
		r.Check(o.By != "", rule, fi.Name, o.Expr, c.Pos(o.Pos), "guard: index clamped to [0, len-1] before use ("+o.By+")",
			"the quantile index int(len*p) is used without being clamped to [0, len-1] on every path: --quantile 100 (p = 1.0) indexes one past the end")
	}
	if n == 0 {
		r.Undecided(rule, fi.Name, "index", c.Pos(fi.Decl.Pos()), "indexed access not found")
	}
	r.Floor(rule, 1, "Quantile")
}

// c14HeaderProgress: in Heatmap.WriteHeader the `i += nameLen` step must be
// preceded (on the path from the assignment of nameLen) by a guard that makes
// nameLen >= 1, or the addend is max(nameLen, 1).
func c14HeaderProgress(c *Ctx, r *Report) {
	const rule = "C14-d/header-progress"
	fi := c.MustFunc(r, rule, "rare/pkg/multiterm/termrenderers", "(*Heatmap).WriteHeader")
	if fi == nil {
		return
	}
	info := fi.Pkg.TypesInfo
	var loop *ast.ForStmt
	ast.Inspect(fi.Decl.Body, func(n ast.Node) bool {
		if fs, ok := n.(*ast.ForStmt); ok && loop == nil && fs.Post == nil && fs.Cond != nil {
			loop = fs
		}
		return true
	})
	if loop == nil {
		r.OK(rule, fi.Name, "header loop", c.Pos(fi.Decl.Pos()), "shape: the header loop has a post statement or no longer exists; termination is decided by the generic loop rule")
		r.Floor(rule, 1, "WriteHeader")
		return
	}
	be, _ := ast.Unparen(loop.Cond).(*ast.BinaryExpr)
	var iv types.Object
	if be != nil {
		iv = identObj(info, be.X)
	}
	if iv == nil {
		r.Undecided(rule, fi.Name, "header loop", c.Pos(loop.Pos()), "loop condition is not `i < bound`")
		return
	}
	vi := analyseVars(info, fi.Decl)
	fg := NewFGraph(fi.Decl.Body, info)
	fg.SolveFacts(vi)
	pr := &prover{info: info, vi: vi, fg: fg, body: fi.Decl.Body}
	// every `i += X` in the loop: X >= 1 provable, or every path from it to the loop head passes a break... we require X >= 1.
	n := 0
	ast.Inspect(loop.Body, func(x ast.Node) bool {
		as, ok := x.(*ast.AssignStmt)
		if !ok || as.Tok != token.ADD_ASSIGN || identObj(info, as.Lhs[0]) != iv {
			return true
		}
		n++
		facts := fg.FactsAtPos(as.Pos())
		good := pr.proveAtLeast(as.Rhs[0], facts, 1)
		if !good {
			// accepted alternative: the addend variable was set to a constant >= 1 on the branch where it was < 1,
			// i.e. the statement is dominated by `if X == 0 { X = 1 }`-style code: check by finding, for the addend
			// variable, an if-statement in the loop body before this statement whose condition tests X == 0 / X <= 0 / X < 1
			// and whose body assigns X a positive constant.
			if xo := identObj(info, as.Rhs[0]); xo != nil {
				ast.Inspect(loop.Body, func(y ast.Node) bool {
					is, ok := y.(*ast.IfStmt)
					if !ok || is.Pos() > as.Pos() {
						return true
					}
					ce, ok := ast.Unparen(is.Cond).(*ast.BinaryExpr)
					if !ok || identObj(info, ce.X) != xo {
						return true
					}
					k, isC := constInt(info, ce.Y)
					if !isC || !((ce.Op == token.EQL && k == 0) || (ce.Op == token.LEQ && k == 0) || (ce.Op == token.LSS && k == 1)) {
						return true
					}
					for _, st := range is.Body.List {
						if a2, ok := st.(*ast.AssignStmt); ok && len(a2.Lhs) == 1 && identObj(info, a2.Lhs[0]) == xo {
							if v, isC := constInt(info, a2.Rhs[0]); isC && v >= 1 {
								// the visible length is >= 0 (color.StrLen), so == 0 covers the non-positive case
								good = true
							}
						}
					}
					return true
				})
				// and the if must lie on every path: it is a top-level statement of the loop body
				if good {
					top := false
					for _, st := range loop.Body.List {
						if is, ok := st.(*ast.IfStmt); ok && is.Pos() < as.Pos() {
							if ce, ok := ast.Unparen(is.Cond).(*ast.BinaryExpr); ok && identObj(info, ce.X) == identObj(info, as.Rhs[0]) {
								top = true
							}
						}
					}
					good = top
				}
			}
		}
		// the delimiter step `i += count` with count := mini(colCount-i, delimCount) under i < colCount
		if !good {
			if xo := identObj(info, as.Rhs[0]); xo != nil && vi.final[xo] {
				pr.collectAssigns()
				if asg := pr.assigns[xo]; len(asg) == 1 && asg[0].rhs != nil {
					if ce, ok := ast.Unparen(asg[0].rhs).(*ast.CallExpr); ok && len(ce.Args) == 2 {
						cn := calleeName(info, ce)
						if cn == "rare/pkg/multiterm/termrenderers.mini" || cn == "builtin.min" {
							f2 := fg.FactsAtPos(asg[0].pos)
							if pr.proveAtLeast(ce.Args[0], f2, 1) && pr.proveAtLeast(ce.Args[1], f2, 1) {
								good = true
							}
						}
					}
				}
			}
		}
		r.Check(good, rule, fi.Name, stmtStr(as), c.Pos(as.Pos()), "progress: the addend is at least 1 on every path", "the header scan advances by "+exprStr(as.Rhs[0])+", which can be 0 (empty column key): the loop never ends")
		return true
	})
	if n == 0 {
		r.Undecided(rule, fi.Name, "header loop", c.Pos(loop.Pos()), "no `i += ..` step found in the header loop")
	}
	r.Floor(rule, 2, "delimiter step and name step")
}

// c14Widths: values stored into / compared with the width fields are visible
// lengths (color.StrLen results), not byte lengths.
func c14Widths(c *Ctx, r *Report) {
	const rule = "C14-e/visible-width"
	type fld struct{ typ, field string }
	fields := []fld{{"TableWriter", "colWidth"}, {"Heatmap", "maxRowKeyWidth"}, {"BarGraph", "maxKeyLength"}, {"HistoWriter", "textSpacing"}}
	const pkg = "rare/pkg/multiterm/termrenderers"
	p := c.ByPath[pkg]
	if p == nil {
		r.Undecided(rule, pkg, "package", "-", "package not found")
		return
	}
	info := p.TypesInfo
	isWidthField := func(e ast.Expr) (string, bool) {
		e = ast.Unparen(e)
		if ix, ok := e.(*ast.IndexExpr); ok {
			e = ix.X
		}
		fv := fieldVar(info, e)
		if fv == nil {
			return "", false
		}
		for _, f := range fields {
			if fv.Name() == f.field {
				if fieldOwnerName(p, fv) == f.typ {
					return f.typ + "." + f.field, true
				}
			}
		}
		return "", false
	}
	for _, fi := range c.AllFuncDecls(pkg) {
		// locals that hold a StrLen result
		strlenVar := map[types.Object]bool{}
		byteLenVar := map[types.Object]bool{}
		ast.Inspect(fi.Decl.Body, func(n ast.Node) bool {
			as, ok := n.(*ast.AssignStmt)
			if !ok || len(as.Lhs) != 1 || len(as.Rhs) != 1 {
				return true
			}
			if ce, ok := ast.Unparen(as.Rhs[0]).(*ast.CallExpr); ok {
				switch calleeName(info, ce) {
				case "rare/pkg/color.StrLen":
					if o := identObj(info, as.Lhs[0]); o != nil {
						strlenVar[o] = true
					}
				case "builtin.len":
					if tv, ok := info.Types[ce.Args[0]]; ok {
						if b, isB := tv.Type.Underlying().(*types.Basic); isB && b.Info()&types.IsString != 0 {
							if o := identObj(info, as.Lhs[0]); o != nil {
								byteLenVar[o] = true
							}
						}
					}
				}
			}
			return true
		})
		isByteLen := func(e ast.Expr) bool {
			e = ast.Unparen(e)
			if ce, ok := e.(*ast.CallExpr); ok && calleeName(info, ce) == "builtin.len" {
				if tv, ok := info.Types[ce.Args[0]]; ok {
					if b, isB := tv.Type.Underlying().(*types.Basic); isB && b.Info()&types.IsString != 0 {
						return true
					}
				}
			}
			if o := identObj(info, e); o != nil && byteLenVar[o] {
				return true
			}
			return false
		}
		ast.Inspect(fi.Decl.Body, func(n ast.Node) bool {
			switch t := n.(type) {
			case *ast.AssignStmt:
				if len(t.Lhs) == 1 && len(t.Rhs) == 1 {
					if name, ok := isWidthField(t.Lhs[0]); ok {
						r.Check(!isByteLen(t.Rhs[0]), rule, fi.Name, name+" = "+exprStr(t.Rhs[0]), c.Pos(t.Pos()), "flow: stored width is not a byte length of a string", "width field "+name+" is assigned a byte length: multi-byte or coloured keys misalign the columns")
					}
				}
			case *ast.BinaryExpr:
				switch t.Op {
				case token.LSS, token.GTR, token.LEQ, token.GEQ, token.SUB:
					if name, ok := isWidthField(t.X); ok {
						r.Check(!isByteLen(t.Y), rule, fi.Name, exprStr(t), c.Pos(t.Pos()), "flow: width compared/combined with a visible length", "width field "+name+" is compared or combined with a byte length")
					} else if name, ok := isWidthField(t.Y); ok {
						r.Check(!isByteLen(t.X), rule, fi.Name, exprStr(t), c.Pos(t.Pos()), "flow: width compared/combined with a visible length", "width field "+name+" is compared or combined with a byte length")
					}
				}
			}
			return true
		})
		_ = strlenVar
	}
	r.Floor(rule, 8, "width updates and padding computations of the four renderers")
}

func fieldOwnerName(p *packagesPkg, v *types.Var) string {
	sc := p.Types.Scope()
	for _, n := range sc.Names() {
		tn, ok := sc.Lookup(n).(*types.TypeName)
		if !ok {
			continue
		}
		st, ok := tn.Type().Underlying().(*types.Struct)
		if !ok {
			continue
		}
		for i := 0; i < st.NumFields(); i++ {
			if st.Field(i) == v {
				return n
			}
		}
	}
	return ""
}

// c14BarClamp: in barWriteRunes the block count val*maxLen/maxVal stays
// within maxLen only if val was clamped to maxVal first.
func c14BarClamp(c *Ctx, r *Report) {
	const rule = "C14-b/bar-clamp"
	fi := c.MustFunc(r, rule, termunicodePkg, "barWriteRunes")
	if fi == nil {
		return
	}
	info := fi.Pkg.TypesInfo
	n := 0
	ast.Inspect(fi.Decl.Body, func(x ast.Node) bool {
		be, ok := x.(*ast.BinaryExpr)
		if !ok || be.Op != token.QUO {
			return true
		}
		div := identObj(info, be.Y)
		mul, ok := ast.Unparen(be.X).(*ast.BinaryExpr)
		if div == nil || !ok || mul.Op != token.MUL {
			return true
		}
		n++
		// one factor must have been clamped to the divisor: `if f > div { f = div }` as a top-level statement before
		clamped := false
		for _, f := range []ast.Expr{mul.X, mul.Y} {
			fo := identObj(info, f)
			if fo == nil {
				continue
			}
			for _, st := range fi.Decl.Body.List {
				is, ok := st.(*ast.IfStmt)
				if !ok || is.Pos() > be.Pos() || is.Else != nil || len(is.Body.List) != 1 {
					continue
				}
				ce, ok := ast.Unparen(is.Cond).(*ast.BinaryExpr)
				if !ok {
					continue
				}
				gt := (ce.Op == token.GTR || ce.Op == token.GEQ) && identObj(info, ce.X) == fo && identObj(info, ce.Y) == div
				lt := (ce.Op == token.LSS || ce.Op == token.LEQ) && identObj(info, ce.Y) == fo && identObj(info, ce.X) == div
				as, ok := is.Body.List[0].(*ast.AssignStmt)
				if (gt || lt) && ok && len(as.Lhs) == 1 && identObj(info, as.Lhs[0]) == fo && identObj(info, as.Rhs[0]) == div {
					clamped = true
				}
			}
		}
		r.Check(clamped, rule, fi.Name, exprStr(be), c.Pos(be.Pos()), "guard: the scaled factor is clamped to the divisor first, so the quotient is at most the maximum length",
			"the bar length "+exprStr(be)+" is computed without clamping the value to the maximum first: a segment larger than the running maximum (negative sibling values) draws a bar wider than the maximum width")
		// the rounded-down quotient is the length: it is afterwards only counted down (or clamped down). Stacked
		// segments stay within the maximum width only because each is rounded *down*.
		var q types.Object
		ast.Inspect(fi.Decl.Body, func(y ast.Node) bool {
			if as, ok := y.(*ast.AssignStmt); ok && len(as.Lhs) == 1 && len(as.Rhs) == 1 && ast.Unparen(as.Rhs[0]) == ast.Expr(be) {
				q = identObj(info, as.Lhs[0])
			}
			return true
		})
		if q != nil {
			raised := ""
			ast.Inspect(fi.Decl.Body, func(y ast.Node) bool {
				switch t := y.(type) {
				case *ast.IncDecStmt:
					if identObj(info, t.X) == q && t.Tok == token.INC {
						raised = stmtStr(t)
					}
				case *ast.AssignStmt:
					if len(t.Lhs) != 1 || identObj(info, t.Lhs[0]) != q || ast.Unparen(t.Rhs[0]) == ast.Expr(be) {
						return true
					}
					if t.Tok == token.SUB_ASSIGN {
						return true
					}
					// clamp down: `if q > e { q = e }`
					okClamp := false
					ast.Inspect(fi.Decl.Body, func(z ast.Node) bool {
						if is, ok := z.(*ast.IfStmt); ok && within(is.Body, t.Pos()) {
							if ce, ok := ast.Unparen(is.Cond).(*ast.BinaryExpr); ok && (ce.Op == token.GTR || ce.Op == token.GEQ) && identObj(info, ce.X) == q && exprStr(ce.Y) == exprStr(t.Rhs[0]) && t.Tok == token.ASSIGN {
								okClamp = true
							}
						}
						return true
					})
					if !okClamp {
						raised = stmtStr(t)
					}
				}
				return true
			})
			r.Check(raised == "", rule, fi.Name, q.Name()+" only counts down", c.Pos(be.Pos()), "monotone: the rounded-down block count is never raised afterwards",
				"the block count is changed after the proportional division ("+raised+"): a stacked bar is the concatenation of its segments, which fit into the maximum width only because every segment is rounded down - raising small segments makes the bar longer than its maximum width")
		}
		return true
	})
	r.Floor(rule, 1, "barWriteRunes")
	_ = n
}

// c14DisplayedFromAggregator (C14-f/displayed-values): the numbers a table
// shows are the aggregator's numbers. In DataTable.WriteTable every value
// handed to the formatter is the result of an aggregator accessor (cell,
// row total, column total, grand total) - directly or through a variable
// assigned once from such a call - never a figure re-accumulated locally from
// the rows or columns that happen to be displayed.
func c14DisplayedFromAggregator(c *Ctx, r *Report) {
	const rule = "C14-f/displayed-values"
	fi := c.MustFunc(r, rule, "rare/pkg/multiterm/termrenderers", "(*DataTable).WriteTable")
	if fi == nil {
		return
	}
	info := fi.Pkg.TypesInfo
	isAccessor := func(e ast.Expr) bool {
		ce, ok := ast.Unparen(e).(*ast.CallExpr)
		if !ok {
			return false
		}
		f := calleeFunc(info, ce)
		return f != nil && f.Pkg() != nil && f.Pkg().Path() == aggPkg && f.Type().(*types.Signature).Recv() != nil
	}
	n := 0
	ast.Inspect(fi.Decl.Body, func(x ast.Node) bool {
		ce, ok := x.(*ast.CallExpr)
		if !ok || len(ce.Args) < 1 {
			return true
		}
		// dynamic call of a function-typed field whose first parameter is int64 (the formatter)
		se, ok := ce.Fun.(*ast.SelectorExpr)
		if !ok {
			return true
		}
		fv := fieldVar(info, se)
		if fv == nil {
			return true
		}
		sig, ok := fv.Type().Underlying().(*types.Signature)
		if !ok || sig.Params().Len() < 1 {
			return true
		}
		if b, ok := sig.Params().At(0).Type().Underlying().(*types.Basic); !ok || b.Kind() != types.Int64 {
			return true
		}
		n++
		arg := ast.Unparen(ce.Args[0])
		okV, why := isAccessor(arg), ""
		if !okV {
			if o := identObj(info, arg); o != nil {
				okV = true
				seen := false
				ast.Inspect(fi.Decl.Body, func(y ast.Node) bool {
					switch t := y.(type) {
					case *ast.AssignStmt:
						for i, l := range t.Lhs {
							if identObj(info, l) != o {
								continue
							}
							seen = true
							if (t.Tok != token.ASSIGN && t.Tok != token.DEFINE) || len(t.Rhs) != len(t.Lhs) || !isAccessor(t.Rhs[i]) {
								okV = false
								why = stmtStr(t)
							}
						}
					case *ast.IncDecStmt:
						if identObj(info, t.X) == o {
							okV = false
							why = stmtStr(t)
						}
					}
					return true
				})
				if !seen {
					okV = false
					why = "no assignment from an aggregator accessor"
				}
			} else {
				why = "computed expression " + exprStr(arg)
			}
		}
		r.Check(okV, rule, fi.Name, exprStr(ce), c.Pos(ce.Pos()), "flow: the displayed value is what an aggregator accessor returned",
			"a displayed number is not the aggregator's own figure ("+why+"): a total re-accumulated from the displayed rows/columns differs from the aggregated total as soon as more rows or columns exist than fit on screen")
		return true
	})
	r.Floor(rule, 4, "cell, row total, column total and grand total")
}

// c14ScaleAgreement (C14-g/scale-agreement): a bar graph rescales (and
// redraws every earlier row) when a row exceeds the running maximum. The
// quantity WriteBar compares with the maximum must be the quantity the draw
// routine of the same mode scales by: the row total when stacked (a sum-shaped
// helper), the largest part otherwise (a max-shaped helper). Otherwise the
// draw routine raises the maximum silently and earlier rows keep a stale scale.
func c14ScaleAgreement(c *Ctx, r *Report) {
	const rule = "C14-g/scale-agreement"
	const pkg = "rare/pkg/multiterm/termrenderers"
	fi := c.MustFunc(r, rule, pkg, "(*BarGraph).WriteBar")
	if fi == nil {
		return
	}
	info := fi.Pkg.TypesInfo
	vi := analyseVars(info, fi.Decl)
	fg := NewFGraph(fi.Decl.Body, info)
	fg.SolveFacts(vi)
	shape := func(f *types.Func) string {
		fd := funcDeclOf(c, f)
		if fd == nil {
			return ""
		}
		s := ""
		ast.Inspect(fd.Decl.Body, func(x ast.Node) bool {
			switch t := x.(type) {
			case *ast.AssignStmt:
				if t.Tok == token.ADD_ASSIGN {
					s = "sum"
				}
			case *ast.IfStmt:
				if be, ok := ast.Unparen(t.Cond).(*ast.BinaryExpr); ok && (be.Op == token.GTR || be.Op == token.LSS) && s == "" {
					s = "max"
				}
			}
			return true
		})
		return s
	}
	// the candidate: the variable compared with and assigned to the maximum field
	var maxField *types.Var
	var cand types.Object
	ast.Inspect(fi.Decl.Body, func(x ast.Node) bool {
		if as, ok := x.(*ast.AssignStmt); ok && len(as.Lhs) == 1 && len(as.Rhs) == 1 {
			if fv := fieldVar(info, as.Lhs[0]); fv != nil && strings.Contains(strings.ToLower(fv.Name()), "max") {
				if o := identObj(info, as.Rhs[0]); o != nil {
					if b, ok := o.Type().Underlying().(*types.Basic); ok && b.Kind() == types.Int64 {
						maxField, cand = fv, o
					}
				}
			}
		}
		return true
	})
	if cand == nil {
		r.Undecided(rule, fi.Name, "running maximum", c.Pos(fi.Decl.Pos()), "update of the running maximum not found in WriteBar")
		return
	}
	_ = maxField
	got := map[string]string{} // mode -> shape
	ast.Inspect(fi.Decl.Body, func(x ast.Node) bool {
		as, ok := x.(*ast.AssignStmt)
		if !ok || len(as.Lhs) != 1 || len(as.Rhs) != 1 || identObj(info, as.Lhs[0]) != cand {
			return true
		}
		sh := ""
		if ce, ok := ast.Unparen(as.Rhs[0]).(*ast.CallExpr); ok {
			if f := calleeFunc(info, ce); f != nil {
				sh = shape(f)
				if sh == "" || sh == "max" {
					// a helper that chooses by mode itself: read its returns under the Stacked facts that hold there
					if hd := funcDeclOf(c, f); hd != nil {
						hinfo := hd.Pkg.TypesInfo
						hvi := analyseVars(hinfo, hd.Decl)
						hfg := NewFGraph(hd.Decl.Body, hinfo)
						hfg.SolveFacts(hvi)
						byMode := map[string]string{}
						inspectNoLit(hd.Decl.Body, func(y ast.Node) bool {
							rs, ok := y.(*ast.ReturnStmt)
							if !ok || len(rs.Results) != 1 {
								return true
							}
							rc, ok := ast.Unparen(rs.Results[0]).(*ast.CallExpr)
							if !ok {
								return true
							}
							rf := calleeFunc(hinfo, rc)
							if rf == nil {
								return true
							}
							for _, fct := range hfg.FactsAtPos(rs.Pos()) {
								if fv := fieldVar(hinfo, ast.Unparen(fct.Cond)); fv != nil && fv.Name() == "Stacked" && fct.Tag == nil {
									if fct.Truth {
										byMode["stacked"] = shape(rf)
									} else {
										byMode["grouped"] = shape(rf)
									}
								}
							}
							return true
						})
						if len(byMode) == 2 {
							for m, s := range byMode {
								got[m] = s
							}
							return true
						}
					}
				}
			}
		} else if as.Tok == token.ADD_ASSIGN {
			sh = "sum" // accumulated in place
		} else if as.Tok == token.ASSIGN {
			// `if v > cand { cand = v }` in place
			ast.Inspect(fi.Decl.Body, func(z ast.Node) bool {
				if is, ok := z.(*ast.IfStmt); ok && within(is.Body, as.Pos()) {
					if be, ok := ast.Unparen(is.Cond).(*ast.BinaryExpr); ok && be.Op == token.GTR && identObj(info, be.Y) == cand && exprStr(be.X) == exprStr(as.Rhs[0]) {
						sh = "max"
					}
				}
				return true
			})
		}
		if sh == "" {
			return true
		}
		mode := "any"
		for _, fct := range fg.FactsAtPos(as.Pos()) {
			if fv := fieldVar(info, ast.Unparen(fct.Cond)); fv != nil && fv.Name() == "Stacked" && fct.Tag == nil {
				if fct.Truth {
					mode = "stacked"
				} else {
					mode = "grouped"
				}
			}
		}
		got[mode] = sh
		return true
	})
	okStacked := got["stacked"] == "sum" || (got["stacked"] == "" && got["any"] == "sum")
	okGrouped := got["grouped"] == "max" || (got["grouped"] == "" && got["any"] == "max")
	r.Check(okStacked, rule, fi.Name, "stacked: row total", c.Pos(fi.Decl.Pos()), "agreement: when stacked, the redraw trigger compares the sum of the parts, which is what the stacked bar is scaled by",
		fmt.Sprintf("when stacked, WriteBar does not compare the sum of a row's parts with the running maximum (found: %v): a row whose total exceeds the maximum while no single part does raises the scale without redrawing the earlier rows, which then stay drawn against a stale maximum", got))
	r.Check(okGrouped, rule, fi.Name, "grouped: largest part", c.Pos(fi.Decl.Pos()), "agreement: when not stacked, the redraw trigger compares the largest part",
		fmt.Sprintf("when not stacked, WriteBar does not compare the largest part with the running maximum (found: %v)", got))
	r.Floor(rule, 2, "stacked and grouped candidates")
}
