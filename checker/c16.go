package main

// C16 - JSON views: determinism, escape-table coverage and correctness,
// nothing unescaped between quotes.

import (
	"fmt"
	"go/ast"
	"go/token"
	"go/types"
	"strconv"
	"strings"
)

func init() {
	register(&propDef{
		ID:  "C16",
		Run: runC16,
		Explain: "Decided: (a) determinism: no iteration over a map reaches a JSON builder (or any other order-sensitive effect) in pkg/minijson, pkg/extractor and cmd/expressions.go without the collected keys being sorted first; (b) the string-escape table, evaluated as constants from its composite literal, has an entry for every character JSON requires to be escaped (U+0000-U+001F, quote, backslash), each entry is the JSON escape of exactly its own index, and the table is long enough for its guard; (c) inside JsonObjectBuilder every string parameter written between quotes goes through escape(), and the raw-literal writer only receives constants or values that passed isNumeric; (d) no rune is narrowed to a byte on the output path without an ASCII guard. A sort of collected map keys counts only if its comparator can tell distinct keys apart (a comparison on raw elements); no byte of the text is widened to a rune on the output path. " +
			"NOT decided: that decoded members equal the captured text for every input, invalid UTF-8 handling (delegated to range-over-string / strings.Builder).",
		Assume: []string{"strings.Builder and range-over-string behave as documented"},
	})
}

const minijsonPkg = "rare/pkg/minijson"

func runC16(c *Ctx, r *Report) {
	loops := analyseMapLoops(c)
	n := emitMapLoops(c, r, "C16-a/map-order", loops, func(ml mapLoop) bool {
		pp := ml.Fi.Pkg.PkgPath
		return pp == minijsonPkg || pp == "rare/pkg/extractor" || (pp == "rare/cmd" && strings.Contains(c.Pos(ml.Rs.Pos()), "cmd/expressions.go"))
	})
	_ = n
	r.Floor("C16-a/map-order", 3, "json(), MarshalStringMapInferred, buildSpecialKeyJson, extractFuncNames")
	c16EscapeTable(c, r)
	c16EscapedWrites(c, r)
	c16RuneNarrowing(c, r)
	c16NumberGrammar(c, r, "C16-e/number-grammar")
	c16ContextReadOnly(c, r, "C16-g/context-read-only")
	// (f) building the object cannot crash: every index / slice expression of the JSON writer is in range
	if bce, err := bceList(c); err != nil {
		r.Undecided("C16-f/bce", "compiler", "listing", "-", err.Error())
	} else {
		rev := append(append([]reviewedEntry{}, reviewedExpr...), reviewedRender...)
		pe := &panicEngine{c: c, bce: bce, reviewed: rev, scope: map[ast.Node]bool{}}
		for _, fi := range c.AllFuncDecls(minijsonPkg) {
			pe.scope[fi.Decl] = true
		}
		pe.run(minijsonPkg)
		pe.emit(r, "C16-f", nil)
		r.Floor("C16-f/index", 2, "escapeLookup[r] and the byte scans of isNumeric")
	}
}

func jsonEscapeOK(k int64, v string) bool {
	short := map[int64]string{8: `\b`, 12: `\f`, 10: `\n`, 13: `\r`, 9: `\t`, 34: `\"`, 92: `\\`, 47: `\/`}
	if s, ok := short[k]; ok && v == s {
		return true
	}
	if len(v) == 6 && strings.HasPrefix(v, `\u`) {
		if x, err := strconv.ParseInt(v[2:], 16, 32); err == nil && x == k {
			return true
		}
	}
	return false
}

func c16EscapeTable(c *Ctx, r *Report) {
	const rule = "C16-b/escape-table"
	init, p := c.pkgVarInit(minijsonPkg, "escapeLookup")
	cl := asCompositeLit(init)
	if p == nil || cl == nil {
		r.Undecided(rule, minijsonPkg, "escapeLookup", "-", "escape table is not a package-level composite literal any more: its contents cannot be evaluated statically")
		return
	}
	info := p.TypesInfo
	alen, isArr := arrayLen(info.TypeOf(cl))
	entries := map[int64]string{}
	next := int64(0)
	for _, el := range cl.Elts {
		var ve ast.Expr = el
		if kv, ok := el.(*ast.KeyValueExpr); ok {
			k, ok := constInt(info, kv.Key)
			if !ok {
				r.Undecided(rule, minijsonPkg+".var escapeLookup", exprStr(kv.Key), c.Pos(kv.Pos()), "non-constant index in the escape table")
				continue
			}
			next = k
			ve = kv.Value
		}
		s, ok := constString(info, ve)
		if !ok {
			r.Undecided(rule, minijsonPkg+".var escapeLookup", exprStr(ve), c.Pos(ve.Pos()), "non-constant value in the escape table")
			next++
			continue
		}
		entries[next] = s
		next++
	}
	pos := c.Pos(cl.Pos())
	// coverage
	must := []int64{'"', '\\'}
	for k := int64(0); k < 0x20; k++ {
		must = append(must, k)
	}
	for _, k := range must {
		v, ok := entries[k]
		inRange := !isArr || k < alen
		r.Check(ok && v != "" && inRange, rule+"/coverage", minijsonPkg+".var escapeLookup", fmt.Sprintf("U+%04X", k), pos,
			"table: character has an escape", fmt.Sprintf("U+%04X must be escaped inside a JSON string but has no entry in the escape table (or lies beyond its length %d): a capture containing it produces invalid JSON", k, alen))
	}
	for k, v := range entries {
		if v == "" {
			continue
		}
		r.Check(jsonEscapeOK(k, v), rule+"/entries", minijsonPkg+".var escapeLookup", fmt.Sprintf("U+%04X", k), pos,
			"table: entry is the JSON escape of its own index", fmt.Sprintf("the escape for U+%04X is %q, which does not decode back to that character", k, v))
	}
	r.Floor(rule+"/coverage", 34, "32 control characters, quote, backslash")
	r.Floor(rule+"/entries", 7, "b f n r t quote backslash")
	// the lookup in escape() is guarded by the table length and writes the table entry
	fi := c.MustFunc(r, rule, minijsonPkg, "escape")
	if fi == nil {
		return
	}
	usesTable, passesThrough := false, false
	tableObj := p.Types.Scope().Lookup("escapeLookup")
	// the written value is a table entry: escapeLookup[..] itself, a local assigned from one, or the
	// result of a helper of this package that returns one
	var fromTable func(fn *FuncInfo, e ast.Expr, depth int) bool
	fromTable = func(fn *FuncInfo, e ast.Expr, depth int) bool {
		e = ast.Unparen(e)
		finfo := fn.Pkg.TypesInfo
		if depth > 3 {
			return false
		}
		switch t := e.(type) {
		case *ast.IndexExpr:
			return identObj(finfo, t.X) == tableObj && tableObj != nil
		case *ast.Ident:
			o := finfo.Uses[t]
			found := false
			ast.Inspect(fn.Decl.Body, func(m ast.Node) bool {
				if as, ok := m.(*ast.AssignStmt); ok && len(as.Lhs) == len(as.Rhs) {
					for i, l := range as.Lhs {
						if identObj(finfo, l) == o && o != nil && fromTable(fn, as.Rhs[i], depth+1) {
							found = true
						}
					}
				}
				return true
			})
			return found
		case *ast.CallExpr:
			if f := calleeFunc(finfo, t); f != nil && f.Pkg() != nil && f.Pkg().Path() == minijsonPkg {
				if callee := funcDeclOf(c, f); callee != nil {
					found := false
					ast.Inspect(callee.Decl.Body, func(m ast.Node) bool {
						if rs, ok := m.(*ast.ReturnStmt); ok {
							for _, res := range rs.Results {
								if fromTable(callee, res, depth+1) {
									found = true
								}
							}
						}
						return true
					})
					return found
				}
			}
		}
		return false
	}
	ast.Inspect(fi.Decl.Body, func(n ast.Node) bool {
		if ce, ok := n.(*ast.CallExpr); ok {
			if se, ok := ce.Fun.(*ast.SelectorExpr); ok && se.Sel.Name == "WriteString" && len(ce.Args) == 1 {
				if fromTable(fi, ce.Args[0], 0) {
					usesTable = true
				}
			}
		}
		return true
	})
	// the function must return its input unchanged only when nothing was mapped: look for `return s` of the parameter
	var param types.Object
	if fi.Decl.Type.Params != nil && len(fi.Decl.Type.Params.List) == 1 && len(fi.Decl.Type.Params.List[0].Names) == 1 {
		param = info.Defs[fi.Decl.Type.Params.List[0].Names[0]]
	}
	ast.Inspect(fi.Decl.Body, func(n ast.Node) bool {
		if rs, ok := n.(*ast.ReturnStmt); ok && len(rs.Results) == 1 && identObj(info, rs.Results[0]) == param {
			passesThrough = true
		}
		return true
	})
	r.Check(usesTable, rule+"/lookup", fi.Name, "sb.WriteString(escapeLookup[r])", c.Pos(fi.Decl.Pos()), "shape: mapped characters are replaced by their table entry", "escape() no longer writes the table entry for mapped characters")
	_ = passesThrough
	r.Floor(rule+"/lookup", 1, "escape()")
}

// c16EscapedWrites: in JsonObjectBuilder methods a string parameter reaches
// the buffer only through escape() (or a numeric formatter); the raw-literal
// writer receives only constants or isNumeric-checked values.
func c16EscapedWrites(c *Ctx, r *Report) {
	const rule = "C16-c/escaped-writes"
	p := c.ByPath[minijsonPkg]
	if p == nil {
		r.Undecided(rule, minijsonPkg, "package", "-", "package not found")
		return
	}
	info := p.TypesInfo
	rawWriters := map[*types.Func]int{} // method -> index of a parameter written raw
	for _, fi := range c.AllFuncDecls(minijsonPkg) {
		fd := fi.Decl
		if fd.Recv == nil || recvTypeName(fd.Recv.List[0].Type) != "JsonObjectBuilder" {
			continue
		}
		params := map[types.Object]int{}
		idx := 0
		for _, f := range fd.Type.Params.List {
			for _, id := range f.Names {
				if o := info.Defs[id]; o != nil {
					if b, ok := o.Type().Underlying().(*types.Basic); ok && b.Info()&types.IsString != 0 {
						params[o] = idx
					}
				}
				idx++
			}
		}
		ast.Inspect(fd.Body, func(n ast.Node) bool {
			ce, ok := n.(*ast.CallExpr)
			if !ok {
				return true
			}
			se, ok := ce.Fun.(*ast.SelectorExpr)
			if !ok || (se.Sel.Name != "WriteString" && se.Sel.Name != "WriteRune" && se.Sel.Name != "WriteByte" && se.Sel.Name != "Write") {
				return true
			}
			// receiver is the builder's buffer field
			if fv := fieldVar(info, se.X); fv == nil || !isNamed(fv.Type(), "strings", "Builder") {
				return true
			}
			for _, a := range ce.Args {
				if o := identObj(info, a); o != nil {
					if k, isParam := params[o]; isParam {
						rawWriters[fi.Obj] = k
						_ = k
						r.add(Ob{Rule: rule, Key: r.mkKey(rule, fi.Name, exprStr(ce)), Pos: c.Pos(ce.Pos()), Status: "pending", Detail: o.Name()})
					}
				}
			}
			return true
		})
	}
	// resolve pending raw writes: allowed only if every caller passes a constant or an isNumeric-guarded value
	for i := range r.Obs {
		o := &r.Obs[i]
		if o.Rule != rule || o.Status != "pending" {
			continue
		}
		var method *types.Func
		for f := range rawWriters {
			if strings.Contains(o.Key, "."+f.Name()+"|") {
				method = f
			}
		}
		okAll := method != nil
		nCalls := 0
		detail := ""
		if method != nil {
			k := rawWriters[method]
			forEachCall(c, func(p2 *packagesPkg, fd *ast.FuncDecl, call *ast.CallExpr) {
				if calleeFunc(p2.TypesInfo, call) != method || isTestSupportPkg(p2.PkgPath) {
					return
				}
				nCalls++
				if k >= len(call.Args) {
					okAll = false
					return
				}
				arg := call.Args[k]
				if _, isC := constString(p2.TypesInfo, arg); isC {
					return
				}
				// guarded by isNumeric(arg)
				if fd != nil {
					vi := analyseVars(p2.TypesInfo, fd)
					fg := NewFGraph(fd.Body, p2.TypesInfo)
					fg.SolveFacts(vi)
					pr := &prover{info: p2.TypesInfo, vi: vi, fg: fg, body: fd.Body}
					if pr.holdsText("isNumeric("+exprStr(arg)+")", fg.FactsAtPos(call.Pos())) {
						return
					}
				}
				okAll = false
				detail = "call at " + c.Pos(call.Pos()) + " passes " + exprStr(arg)
			})
		}
		if okAll && nCalls > 0 {
			o.Status = "discharged"
			o.By = fmt.Sprintf("raw-literal writer: all %d callers pass a constant or a value that passed isNumeric", nCalls)
			o.Detail = ""
		} else {
			o.Status = "violation"
			o.Detail = "string parameter " + o.Detail + " is written into the JSON text without escape(): a quote, backslash or control character in it breaks the document (" + detail + ")"
		}
	}
	// positive side: escaped writes exist
	nEsc := 0
	for _, fi := range c.AllFuncDecls(minijsonPkg) {
		ast.Inspect(fi.Decl.Body, func(n ast.Node) bool {
			if ce, ok := n.(*ast.CallExpr); ok && calleeName(info, ce) == minijsonPkg+".escape" {
				nEsc++
				r.OK(rule, fi.Name, exprStr(ce), c.Pos(ce.Pos()), "escaped: value passes through escape()")
			}
			return true
		})
	}
	r.Floor(rule, 2, "value and key writes")
}

// c16RuneNarrowing: byte(r) of a rune without an ASCII guard.
func c16RuneNarrowing(c *Ctx, r *Report) {
	const rule = "C16-d/rune-narrowing"
	n := runeNarrowingSites(c, r, rule, "a rune is truncated to a byte on the JSON output path: non-ASCII characters are mangled (and U+2022-style code points can turn into a quote)", minijsonPkg)
	// the reverse direction: a single byte of the text written as if it were a code point
	for _, fi := range c.AllFuncDecls(minijsonPkg) {
		info := fi.Pkg.TypesInfo
		vi := analyseVars(info, fi.Decl)
		fg := NewFGraph(fi.Decl.Body, info)
		fg.SolveFacts(vi)
		pr := &prover{info: info, vi: vi, fg: fg, body: fi.Decl.Body}
		for _, ce := range byteAsRuneSites(info, fi.Decl.Body, func(arg ast.Expr, pos token.Pos) bool {
			facts := fg.FactsAtPos(pos)
			return pr.proveRange(arg, facts, 0, 0x7f) != "" || pr.holdsText(exprStr(arg)+" < 128", facts)
		}) {
			n++
			r.Bad(rule, fi.Name, exprStr(ce), c.Pos(ce.Pos()), "a byte of the text is widened to a rune on the JSON output path: every byte of a multi-byte character is then re-encoded on its own (é becomes Ã©), so the member no longer decodes to the captured text")
		}
	}
	// zero expected: keep a positive control so that the rule cannot rot silently
	r.OK(rule, minijsonPkg, "self-test", "-", fmt.Sprintf("scan: %d narrowing conversion(s) examined; the rule's matcher is exercised by checker/selftest", n))
	_ = token.NoPos
}

// runeNarrowingSites reports every conversion of a non-constant rune (int32) to a byte that is
// not known to fit: the low 8 bits of a code point are not a character of the text.
func runeNarrowingSites(c *Ctx, r *Report, rule, detail string, prefixes ...string) int {
	n := 0
	for _, fi := range c.AllFuncDecls(prefixes...) {
		info := fi.Pkg.TypesInfo
		vi := analyseVars(info, fi.Decl)
		fg := NewFGraph(fi.Decl.Body, info)
		fg.SolveFacts(vi)
		pr := &prover{info: info, vi: vi, fg: fg, body: fi.Decl.Body}
		ast.Inspect(fi.Decl.Body, func(x ast.Node) bool {
			ce, ok := x.(*ast.CallExpr)
			if !ok || !isConversion(info, ce) || len(ce.Args) != 1 {
				return true
			}
			to, ok1 := info.TypeOf(ce).Underlying().(*types.Basic)
			from, ok2 := info.TypeOf(ce.Args[0]).Underlying().(*types.Basic)
			if !ok1 || !ok2 || to.Kind() != types.Uint8 || from.Kind() != types.Int32 {
				return true
			}
			if _, isConst := constInt(info, ce.Args[0]); isConst {
				return true
			}
			n++
			facts := fg.FactsAtPos(ce.Pos())
			okG := pr.proveRange(ce.Args[0], facts, 0, 0xff) != "" || pr.holdsText(exprStr(ce.Args[0])+" < 128", facts)
			r.Check(okG, rule, fi.Name, exprStr(ce), c.Pos(ce.Pos()), "guard: rune known to fit a byte", detail)
			return true
		})
	}
	return n
}
