package main

// C20 - live terminal: cursor bookkeeping, write-then-erase, trimming, buffered output.
// C15 - follow mode: coalescing signals, offset bookkeeping, time flush.

import (
	"go/ast"
	"go/token"
	"go/types"
	"strconv"
	"strings"
)

func init() {
	register(&propDef{
		ID:  "C20",
		Run: runC20,
		Explain: "Decided (bookkeeping clauses): (a) in the in-place writer the tracked cursor changes only by ++/-- and each change sits in the same block as exactly the movement it accounts for (a newline for ++, one line up for --), every emitted movement is accounted for, maxLine is only raised to the requested line, and goTo ends with a carriage return on every path; (b) the text is followed by erase-to-end-of-line whenever ClearLine is set (no further condition), the cursor is hidden together with the flag that makes Close show it again, Close moves below the last line before showing the cursor; (c) trimming: the escape-skipping loop keeps its index at most len-1 so that the final slice is in range, and all index/slice expressions of the trimmer are discharged; (d) the buffered writer prints its store to stdout before it is marked closed, line by line in index order through the same trimmer. " +
			"NOT decided: that the screen content is right for every update history and that a cut never exceeds the width in visible cells - that needs an interpretation of the emitted escape sequences, i.e. execution. The suggested verif hook (VerifSetTermSize) is therefore not needed.",
		Assume: []string{"terminals honour ESC[nA, ESC[0K, CR and LF as usual"},
	})
	register(&propDef{
		ID:  "C15",
		Run: runC15,
		Explain: "Decided (structural clauses): (a) coalescing signals cannot be lost or block: every channel the watcher goroutine signals on is created with a constant capacity >= 1, every send on it is the non-blocking select/default form, and in Read the wait for a signal comes only after a read attempt of the current file in the same iteration; (b) poller offset bookkeeping: every byte count returned by the file's Read is added to the tracked offset, Drain stores the Seek result, and after a re-open every path either seeks to the tracked offset or resets it to zero before the next read; (c) the time-flush path sends what it has: the flush timestamp is only renewed on paths that actually sent a batch, and the rest of C01-b holds for the time-flush loop. The watcher relates an event to the followed file only by an equality test of the two names under one normalisation; the time-flush loop satisfies the append/send/re-make rules of C01-b. " +
			"NOT decided: exactly-once, in-order delivery for every history and timing (needs the file system, the clock and the scheduler), blocking versus ending, rotation semantics beyond the offset bookkeeping.",
		Assume: []string{"fsnotify delivers an event for every write/create/remove of the watched directory"},
	})
}

const multitermPkg = "rare/pkg/multiterm"

func runC20(c *Ctx, r *Report) {
	c20Cursor(c, r)
	c20Erase(c, r)
	c20Trim(c, r)
	c20Buffered(c, r)
	c20EscapeTerminator(c, r, "C20-c/escape-terminator")
}

func blocksOf(body *ast.BlockStmt) [][]ast.Stmt {
	var out [][]ast.Stmt
	ast.Inspect(body, func(n ast.Node) bool {
		switch t := n.(type) {
		case *ast.BlockStmt:
			out = append(out, t.List)
		case *ast.CaseClause:
			out = append(out, t.Body)
		case *ast.CommClause:
			out = append(out, t.Body)
		}
		return true
	})
	return out
}

func c20Cursor(c *Ctx, r *Report) {
	const rule = "C20-a/cursor-bookkeeping"
	p := c.ByPath[multitermPkg]
	if p == nil {
		r.Undecided(rule, multitermPkg, "package", "-", "package not found")
		return
	}
	info := p.TypesInfo
	isNewline := func(st ast.Stmt) bool {
		es, ok := st.(*ast.ExprStmt)
		if !ok {
			return false
		}
		ce, ok := es.X.(*ast.CallExpr)
		if !ok || !strings.HasPrefix(calleeName(info, ce), "fmt.Print") || len(ce.Args) != 1 {
			return false
		}
		s, isS := constString(info, ce.Args[0])
		return isS && s == "\n"
	}
	isMoveUp := func(st ast.Stmt) bool {
		es, ok := st.(*ast.ExprStmt)
		if !ok {
			return false
		}
		ce, ok := es.X.(*ast.CallExpr)
		if !ok || calleeName(info, ce) != multitermPkg+".moveUp" || len(ce.Args) != 1 {
			return false
		}
		v, isC := constInt(info, ce.Args[0])
		return isC && v == 1
	}
	cursorStep := func(st ast.Stmt) int {
		if id, ok := st.(*ast.IncDecStmt); ok && fieldNamed(info, id.X, "cursor") {
			if id.Tok == token.INC {
				return 1
			}
			return -1
		}
		return 0
	}
	for _, fi := range c.AllFuncDecls(multitermPkg) {
		if fi.Decl.Recv == nil || recvTypeName(fi.Decl.Recv.List[0].Type) != "TermWriter" {
			continue
		}
		// any other assignment to cursor
		ast.Inspect(fi.Decl.Body, func(n ast.Node) bool {
			if as, ok := n.(*ast.AssignStmt); ok {
				for _, l := range as.Lhs {
					if fieldNamed(info, l, "cursor") {
						r.Bad(rule, fi.Name, stmtStr(as), c.Pos(as.Pos()), "the tracked cursor is assigned directly instead of being moved in step with an emitted movement: it assumes a position the real cursor may not have")
					}
					if fieldNamed(info, l, "maxLine") {
						// only `s.maxLine = line` under line > s.maxLine
						vi := analyseVars(info, fi.Decl)
						fg := NewFGraph(fi.Decl.Body, info)
						fg.SolveFacts(vi)
						pr := &prover{info: info, vi: vi, fg: fg, body: fi.Decl.Body}
						rhs := exprStr(as.Rhs[0])
						ok2 := len(as.Lhs) == 1 && pr.holdsText(rhs+" > s.maxLine", fg.FactsAtPos(as.Pos()))
						r.Check(ok2, rule, fi.Name, stmtStr(as), c.Pos(as.Pos()), "monotone: maxLine is only raised", "maxLine is assigned without the guard that it only grows")
					}
				}
			}
			return true
		})
		for _, blk := range blocksOf(fi.Decl.Body) {
			nl, up, inc, dec := 0, 0, 0, 0
			var pos token.Pos
			for _, st := range blk {
				if isNewline(st) {
					nl++
					pos = st.Pos()
				}
				if isMoveUp(st) {
					up++
					pos = st.Pos()
				}
				switch cursorStep(st) {
				case 1:
					inc++
					pos = st.Pos()
				case -1:
					dec++
					pos = st.Pos()
				}
			}
			if nl+up+inc+dec == 0 {
				continue
			}
			// Close prints a final newline via Println, not Print("\n"): not counted here
			ok := nl == inc && up == dec
			r.Check(ok, rule, fi.Name, "block{newline:"+itoa(nl)+" up:"+itoa(up)+" ++:"+itoa(inc)+" --:"+itoa(dec)+"}", c.Pos(pos), "paired: each emitted movement is accounted for by one step of the tracked cursor in the same block", "a block emits cursor movement and updates the tracked cursor unequally: the tracked position drifts from the real one, so later lines are written on the wrong rows")
		}
	}
	// goTo ends with a carriage return on every path
	if fi := c.MustFunc(r, rule, multitermPkg, "(*TermWriter).goTo"); fi != nil {
		fg := NewFGraph(fi.Decl.Body, info)
		isCR := func(nd *FNode) bool {
			if nd.N == nil {
				return false
			}
			for _, ce := range callsIn(nd.N) {
				if strings.HasPrefix(calleeName(info, ce), "fmt.Print") && len(ce.Args) == 1 {
					if s, ok := constString(info, ce.Args[0]); ok && s == "\r" {
						return true
					}
				}
			}
			return false
		}
		r.Check(!fg.Reaches(fg.Entry, fg.Exit, isCR), rule, fi.Name, "carriage return", c.Pos(fi.Decl.Pos()), "path: every path through goTo returns the cursor to column 0", "goTo can return without a carriage return: the next text starts in whatever column the previous write ended")
		// loops run towards the target line: `i < line` with ++ side and `i > line` with -- side
		dirs := 0
		ast.Inspect(fi.Decl.Body, func(n ast.Node) bool {
			fs, ok := n.(*ast.ForStmt)
			if !ok || fs.Cond == nil {
				return true
			}
			be, ok := ast.Unparen(fs.Cond).(*ast.BinaryExpr)
			if !ok {
				return true
			}
			hasInc, hasDec := false, false
			for _, st := range fs.Body.List {
				switch cursorStep(st) {
				case 1:
					hasInc = true
				case -1:
					hasDec = true
				}
			}
			if (be.Op == token.LSS && hasInc && !hasDec) || (be.Op == token.GTR && hasDec && !hasInc) {
				dirs++
			} else if hasInc || hasDec {
				r.Bad(rule, fi.Name, "loop "+exprStr(fs.Cond), c.Pos(fs.Pos()), "a movement loop steps the cursor away from its target line")
			}
			return true
		})
		r.Check(dirs == 2, rule, fi.Name, "down and up loops", c.Pos(fi.Decl.Pos()), "shape: one loop moves down while below the target, one moves up while above", "goTo no longer has one loop per direction that moves the cursor towards the requested line")
	}
	r.Floor(rule, 5, "maxLine, two movement blocks, carriage return, loop directions")
}

func itoa(n int) string { return strconv.Itoa(n) }

func c20Erase(c *Ctx, r *Report) {
	const rule = "C20-b/erase-and-cursor"
	p := c.ByPath[multitermPkg]
	if p == nil {
		return
	}
	info := p.TypesInfo
	// the method(s) of TermWriter that put the text on the terminal (writeAtCursor, or WriteForLine itself
	// when the helper was folded into it)
	var writers []*FuncInfo
	writerObjs := map[*types.Func]bool{}
	for _, fi := range c.AllFuncDecls(multitermPkg) {
		if fi.Pkg.PkgPath != multitermPkg || fi.Decl.Recv == nil || recvTypeName(fi.Decl.Recv.List[0].Type) != "TermWriter" {
			continue
		}
		direct := false
		inspectNoLit(fi.Decl.Body, func(x ast.Node) bool {
			if ce, ok := x.(*ast.CallExpr); ok && calleeName(info, ce) == multitermPkg+".WriteLineNoWrap" {
				direct = true
			}
			return true
		})
		if direct {
			writers = append(writers, fi)
			writerObjs[fi.Obj] = true
		}
	}
	if len(writers) == 0 {
		r.Undecided(rule, multitermPkg+".TermWriter", "text writer", "-", "no method of TermWriter writes a line through WriteLineNoWrap: the clause cannot be decided")
	}
	for _, fi := range writers {
		fg := NewFGraph(fi.Decl.Body, info)
		writeNode := -1
		for _, nd := range fg.Nodes {
			if nd.N == nil {
				continue
			}
			for _, ce := range callsIn(nd.N) {
				if calleeName(info, ce) == multitermPkg+".WriteLineNoWrap" {
					writeNode = nd.ID
				}
			}
		}
		isErase := func(nd *FNode) bool {
			if nd.N == nil {
				return false
			}
			for _, ce := range callsIn(nd.N) {
				if calleeName(info, ce) == multitermPkg+".eraseRemainingLine" {
					return true
				}
			}
			return false
		}
		okEdge := func(nd *FNode, e FEdge) bool {
			if e.Cond == nil {
				return true
			}
			// the only way around the erase is ClearLine being false
			if fieldNamed(info, e.Cond, "ClearLine") && !e.Truth {
				return false
			}
			return true
		}
		ok := writeNode >= 0
		if ok {
			seen := fg.ReachSet(writeNode, isErase, okEdge)
			ok = !seen[fg.Exit]
		}
		r.Check(ok, rule, fi.Name, "write then erase under ClearLine", c.Pos(fi.Decl.Pos()), "path: with ClearLine set the text is always followed by erase-to-end-of-line", "the erase after the text is skipped on some path although ClearLine is set (an extra condition): a shorter rewrite leaves the tail of the previous text on screen")
	}
	if fi := c.MustFunc(r, rule, multitermPkg, "(*TermWriter).WriteForLine"); fi != nil {
		okPair := false
		for _, blk := range blocksOf(fi.Decl.Body) {
			hide, flag := false, false
			for _, st := range blk {
				if es, ok := st.(*ast.ExprStmt); ok {
					if ce, ok := es.X.(*ast.CallExpr); ok && calleeName(info, ce) == multitermPkg+".hideCursor" {
						hide = true
					}
				}
				if as, ok := st.(*ast.AssignStmt); ok && len(as.Lhs) == 1 && fieldNamed(info, as.Lhs[0], "cursorHidden") && exprStr(as.Rhs[0]) == "true" {
					flag = true
				}
			}
			if hide && flag {
				okPair = true
			}
			if hide != flag {
				okPair = false
				r.Bad(rule, fi.Name, "hideCursor/cursorHidden", c.Pos(fi.Decl.Pos()), "the cursor is hidden without recording it (or the flag is set without hiding): Close will not show the cursor again")
			}
		}
		r.Check(okPair, rule, fi.Name, "hideCursor with cursorHidden = true", c.Pos(fi.Decl.Pos()), "paired: hiding the cursor is recorded in the same block", "hiding the cursor is not paired with setting cursorHidden")
		// goTo precedes writeAtCursor with the same line
		fg := NewFGraph(fi.Decl.Body, info)
		g, w := -1, -1
		for _, nd := range fg.Nodes {
			if nd.N == nil {
				continue
			}
			for _, ce := range callsIn(nd.N) {
				switch calleeName(info, ce) {
				case "(*" + multitermPkg + ".TermWriter).goTo":
					g = nd.ID
				case multitermPkg + ".WriteLineNoWrap":
					w = nd.ID
				default:
					if f := calleeFunc(info, ce); f != nil && writerObjs[f.Origin()] {
						w = nd.ID
					}
				}
			}
		}
		r.Check(g >= 0 && w >= 0 && fg.Dominates(g, w), rule, fi.Name, "goTo before the text is written", c.Pos(fi.Decl.Pos()), "order: the cursor is moved to the line before the text is written", "text is written without first moving to its line")
	}
	if fi := c.MustFunc(r, rule, multitermPkg, "(*TermWriter).Close"); fi != nil {
		vi := analyseVars(info, fi.Decl)
		fg := NewFGraph(fi.Decl.Body, info)
		fg.SolveFacts(vi)
		pr := &prover{info: info, vi: vi, fg: fg, body: fi.Decl.Body}
		goToMax, show := -1, -1
		showGuard := false
		for _, nd := range fg.Nodes {
			if nd.N == nil {
				continue
			}
			for _, ce := range callsIn(nd.N) {
				switch calleeName(info, ce) {
				case "(*" + multitermPkg + ".TermWriter).goTo":
					if len(ce.Args) == 1 && fieldNamed(info, ce.Args[0], "maxLine") {
						goToMax = nd.ID
					}
				case multitermPkg + ".showCursor":
					show = nd.ID
					showGuard = pr.holdsText("fact:s.cursorHidden", fg.FactsAtPos(ce.Pos()))
				}
			}
		}
		r.Check(goToMax >= 0 && show >= 0 && fg.Dominates(goToMax, show) && showGuard, rule, fi.Name, "goTo(maxLine) ... showCursor under cursorHidden", c.Pos(fi.Decl.Pos()), "order: park below the last line, then show the cursor iff it was hidden", "Close does not move to the last line before showing the cursor (or shows it unconditionally / never)")
	}
	r.Floor(rule, 4, "erase, hide pairing, order, Close")
}

func c20Trim(c *Ctx, r *Report) {
	const rule = "C20-c/trim-bounds"
	fi := c.MustFunc(r, rule, multitermPkg, "WriteLineNoWrap")
	if fi == nil {
		return
	}
	info := fi.Pkg.TypesInfo
	vi := analyseVars(info, fi.Decl)
	fg := NewFGraph(fi.Decl.Body, info)
	fg.SolveFacts(vi)
	pr := &prover{info: info, vi: vi, fg: fg, body: fi.Decl.Body}
	// the inner escape-skipping loop: a for inside a for; its body increments the index under index < len-1
	var outer *ast.ForStmt
	ast.Inspect(fi.Decl.Body, func(n ast.Node) bool {
		if fs, ok := n.(*ast.ForStmt); ok && outer == nil {
			outer = fs
		}
		return true
	})
	n := 0
	if outer != nil {
		ast.Inspect(outer.Body, func(x ast.Node) bool {
			inner, ok := x.(*ast.ForStmt)
			if !ok {
				return true
			}
			for _, st := range inner.Body.List {
				inc, ok := st.(*ast.IncDecStmt)
				if !ok || inc.Tok != token.INC {
					continue
				}
				n++
				v := exprStr(inc.X)
				ok2 := pr.holdsText(v+" < len(runes) - 1", fg.FactsAtPos(inc.Pos())) || pr.holdsText(v+" + 1 < len(runes)", fg.FactsAtPos(inc.Pos()))
				r.Check(ok2, rule, fi.Name, "inner skip: "+v+"++", c.Pos(inc.Pos()), "guard: the escape-skipping loop only advances while index < len-1, so the following increment stays within len", "the escape-skipping loop can advance its index to len(runes): the increment after it makes the final runes[:i] slice exceed the length (panic, or stray bytes from spare capacity) for a line ending in an unterminated escape")
			}
			return true
		})
	}
	if n == 0 {
		r.Notes = append(r.Notes, "WriteLineNoWrap has no nested escape-skipping loop of the known form; only the E-PANIC obligations were checked")
		r.OK(rule, fi.Name, "no nested skip loop", c.Pos(fi.Decl.Pos()), "shape: nothing to check beyond the bounds obligations")
	}
	// bounds obligations of the trimmer
	if bce, err := bceList(c); err != nil {
		r.Undecided("C20-c/bce", "compiler", "listing", "-", err.Error())
	} else {
		rev := append(append([]reviewedEntry{}, reviewedExpr...), reviewedRender...)
		pe := &panicEngine{c: c, bce: bce, reviewed: rev, scope: map[ast.Node]bool{fi.Decl: true}}
		pe.run(multitermPkg)
		pe.emit(r, "C20-c", nil)
	}
	r.Floor(rule, 1, "inner skip loop")
}

func c20Buffered(c *Ctx, r *Report) {
	const rule = "C20-d/buffered-output"
	p := c.ByPath[multitermPkg]
	if p == nil {
		return
	}
	info := p.TypesInfo
	if fi := c.MustFunc(r, rule, multitermPkg, "(*BufferedTerm).Close"); fi != nil {
		fg := NewFGraph(fi.Decl.Body, info)
		w, cl := -1, -1
		toStdout := false
		for _, nd := range fg.Nodes {
			if nd.N == nil {
				continue
			}
			for _, ce := range callsIn(nd.N) {
				name := calleeName(info, ce)
				if strings.HasSuffix(name, ".VirtualTerm).WriteToOutput") {
					w = nd.ID
					if len(ce.Args) == 1 && exprStr(ce.Args[0]) == "os.Stdout" {
						toStdout = true
					}
				}
				if strings.HasSuffix(name, ".VirtualTerm).Close") {
					cl = nd.ID
				}
			}
		}
		r.Check(w >= 0 && toStdout && (cl < 0 || fg.Dominates(w, cl)) && !fg.Reaches(fg.Entry, fg.Exit, func(n *FNode) bool { return n.ID == w }), rule, fi.Name, "WriteToOutput(os.Stdout) before closing", c.Pos(fi.Decl.Pos()), "order: the stored lines are printed to stdout on every path, before the store is marked closed", "the buffered terminal can be closed without printing its lines to stdout")
	}
	if fi := c.MustFunc(r, rule, multitermPkg, "(*VirtualTerm).WriteToOutput"); fi != nil {
		ok := false
		ast.Inspect(fi.Decl.Body, func(n ast.Node) bool {
			rs, isR := n.(*ast.RangeStmt)
			if !isR || !fieldNamed(info, rs.X, "lines") {
				return true
			}
			trim, nl := false, false
			for _, st := range rs.Body.List {
				for _, ce := range callsIn(st) {
					if calleeName(info, ce) == multitermPkg+".WriteLineNoWrap" && rs.Value != nil && len(ce.Args) == 2 && identObj(info, ce.Args[1]) == identObj(info, rs.Value) {
						trim = true
					}
					if se, isS := ce.Fun.(*ast.SelectorExpr); isS && se.Sel.Name == "Write" && trim {
						nl = true
					}
				}
			}
			skips := false
			ast.Inspect(rs.Body, func(m ast.Node) bool {
				if _, isB := m.(*ast.BranchStmt); isB {
					skips = true
				}
				return true
			})
			ok = trim && nl && !skips
			return true
		})
		r.Check(ok, rule, fi.Name, "range lines: trim then newline", c.Pos(fi.Decl.Pos()), "shape: every stored line is written top to bottom through the trimmer followed by a newline", "WriteToOutput does not print every stored line in order through WriteLineNoWrap followed by a newline")
	}
	r.Floor(rule, 2, "BufferedTerm.Close and VirtualTerm.WriteToOutput")
}

// ================================================================ C15

const followPkg = "rare/pkg/followreader"

func runC15(c *Ctx, r *Report) {
	c15Signals(c, r)
	c15EventFilter(c, r)
	c15Poller(c, r)
	c15TimeFlush(c, r)
	borrow(c, r, func(c *Ctx, r *Report) { c01BatcherLoops(c, r, "C01-b") }, "C01-b", "C15-c", func(o Ob) bool { return strings.Contains(o.Key, "WithTimeFlush") }, false)
	r.Floor("C15-c/fresh-batch", 3, "make / append / re-make in the time-flush loop")
	r.Floor("C15-c/append-once", 2, "iteration paths of the time-flush loop")
	c15EventForwarded(c, r, "C15-a/event-forwarded")
	c15ArgumentOrder(c, r, "C15-d/argument-order")
}

func c15Signals(c *Ctx, r *Report) {
	const rule = "C15-a/coalescing-signals"
	p := c.ByPath[followPkg]
	if p == nil {
		r.Undecided(rule, followPkg, "package", "-", "package not found")
		return
	}
	info := p.TypesInfo
	// channel fields of NotifyFollowReader
	st, _ := p.Types.Scope().Lookup("NotifyFollowReader").Type().Underlying().(*types.Struct)
	chans := map[*types.Var]bool{}
	if st != nil {
		for i := 0; i < st.NumFields(); i++ {
			if _, ok := st.Field(i).Type().Underlying().(*types.Chan); ok {
				chans[st.Field(i)] = true
			}
		}
	}
	if len(chans) == 0 {
		r.Undecided(rule, followPkg+".NotifyFollowReader", "channels", "-", "no signal channels found")
		return
	}
	// capacity at creation
	for _, fi := range c.AllFuncDecls(followPkg) {
		ast.Inspect(fi.Decl.Body, func(n ast.Node) bool {
			kv, ok := n.(*ast.KeyValueExpr)
			if !ok {
				return true
			}
			id, ok := kv.Key.(*ast.Ident)
			if !ok {
				return true
			}
			fv, _ := info.Uses[id].(*types.Var)
			if fv == nil || !chans[fv] {
				return true
			}
			ce, ok := ast.Unparen(kv.Value).(*ast.CallExpr)
			okCap := false
			if ok && calleeName(info, ce) == "builtin.make" && len(ce.Args) == 2 {
				if v, isC := constInt(info, ce.Args[1]); isC && v >= 1 {
					okCap = true
				}
			}
			r.Check(okCap, rule, fi.Name, id.Name+": "+exprStr(kv.Value), c.Pos(kv.Pos()), "capacity: the signal channel can hold one pending wake-up", "signal channel "+id.Name+" is unbuffered: a write notification that arrives while the reader is between its read and its wait is dropped by the non-blocking send, and the appended bytes are never delivered (lost wake-up)")
			return true
		})
	}
	// sends only via the non-blocking helper: a select with a default arm
	for _, fi := range c.AllFuncDecls(followPkg) {
		ast.Inspect(fi.Decl.Body, func(n ast.Node) bool {
			ss, ok := n.(*ast.SendStmt)
			if !ok {
				return true
			}
			if _, isChan := info.TypeOf(ss.Chan).Underlying().(*types.Chan); !isChan {
				return true
			}
			// inside a select with default?
			okNB := false
			ast.Inspect(fi.Decl.Body, func(m ast.Node) bool {
				sel, isSel := m.(*ast.SelectStmt)
				if !isSel || !within(sel, ss.Pos()) {
					return true
				}
				for _, cl := range sel.Body.List {
					if cc := cl.(*ast.CommClause); cc.Comm == nil {
						okNB = true
					}
				}
				return true
			})
			r.Check(okNB, rule, fi.Name, exprStr(ss.Chan)+" <- signal", c.Pos(ss.Pos()), "non-blocking: the send sits in a select with a default arm", "a signal is sent with a blocking send: the watcher goroutine stalls while the reader is busy and later events are lost or delayed")
			return true
		})
	}
	// Read: the select (wait) is preceded in the same loop iteration by the read attempt
	if fi := c.MustFunc(r, rule, followPkg, "(*NotifyFollowReader).Read"); fi != nil {
		var loop *ast.ForStmt
		ast.Inspect(fi.Decl.Body, func(n ast.Node) bool {
			if fs, ok := n.(*ast.ForStmt); ok && loop == nil {
				loop = fs
			}
			return true
		})
		ok := false
		if loop != nil {
			readIdx, selIdx := -1, -1
			for i, st := range loop.Body.List {
				hasRead := false
				ast.Inspect(st, func(m ast.Node) bool {
					if ce, isC := m.(*ast.CallExpr); isC && calleeName(info, ce) == "(*os.File).Read" {
						hasRead = true
					}
					return true
				})
				if hasRead && readIdx < 0 {
					readIdx = i
				}
				if _, isSel := st.(*ast.SelectStmt); isSel {
					selIdx = i
				}
			}
			ok = readIdx >= 0 && selIdx > readIdx && selIdx == len(loop.Body.List)-1
		}
		r.Check(ok, rule, fi.Name, "read then wait", c.Pos(fi.Decl.Pos()), "order: each iteration tries to read before it waits, and waiting is the last step", "the reader waits for a signal before trying to read (or does not loop back to the read after a wake-up): data present at the time of the call is only delivered after the next notification")
	}
	r.Floor(rule, 4, "two channel capacities, the non-blocking send, read-then-wait")
}

func c15Poller(c *Ctx, r *Report) {
	const rule = "C15-b/poller-offset"
	p := c.ByPath[followPkg]
	if p == nil {
		return
	}
	info := p.TypesInfo
	fi := c.MustFunc(r, rule, followPkg, "(*PollingFollowReader).Read")
	if fi == nil {
		return
	}
	fg := NewFGraph(fi.Decl.Body, info)
	// n, err := s.f.Read(buf) followed by readBytes += int64(n)
	for _, nd := range fg.Nodes {
		as, ok := nd.N.(*ast.AssignStmt)
		if !ok || len(as.Lhs) != 2 || len(as.Rhs) != 1 {
			continue
		}
		ce, ok := as.Rhs[0].(*ast.CallExpr)
		if !ok || calleeName(info, ce) != "(*os.File).Read" {
			continue
		}
		nObj := identObj(info, as.Lhs[0])
		adds := func(n2 *FNode) bool {
			a2, ok := n2.N.(*ast.AssignStmt)
			if !ok || a2.Tok != token.ADD_ASSIGN || !fieldNamed(info, a2.Lhs[0], "readBytes") {
				return false
			}
			hit := false
			ast.Inspect(a2.Rhs[0], func(x ast.Node) bool {
				if id, ok := x.(*ast.Ident); ok && info.Uses[id] == nObj {
					hit = true
				}
				return true
			})
			return hit
		}
		seen := fg.ReachSet(nd.ID, adds, nil)
		// any return / loop continuation reachable without the add?
		bad := seen[fg.Exit]
		for id := range seen {
			if _, isRet := fg.Nodes[id].N.(*ast.ReturnStmt); isRet {
				bad = true
			}
		}
		r.Check(!bad, rule, fi.Name, "readBytes += n", c.Pos(as.Pos()), "bookkeeping: every byte count returned by the file is added to the tracked offset before anything else happens", "bytes returned by the file's Read are not always added to the tracked offset: after a re-open the reader seeks to a stale position and duplicates or skips data")
	}
	// after re-open: seek to the tracked offset or reset it
	for _, nd := range fg.Nodes {
		as, ok := nd.N.(*ast.AssignStmt)
		if !ok || len(as.Rhs) != 1 || !fieldNamed(info, as.Lhs[0], "f") {
			continue
		}
		ce, ok := as.Rhs[0].(*ast.CallExpr)
		if !ok || calleeName(info, ce) != "os.Open" {
			continue
		}
		settles := func(n2 *FNode) bool {
			if n2.N == nil {
				return false
			}
			hit := false
			ast.Inspect(n2.N, func(x ast.Node) bool {
				switch t := x.(type) {
				case *ast.CallExpr:
					if calleeName(info, t) == "(*os.File).Seek" && len(t.Args) == 2 && fieldNamed(info, t.Args[0], "readBytes") {
						hit = true
					}
				case *ast.AssignStmt:
					if len(t.Lhs) == 1 && fieldNamed(info, t.Lhs[0], "readBytes") && t.Tok == token.ASSIGN {
						if v, isC := constInt(info, t.Rhs[0]); isC && v == 0 {
							hit = true
						}
					}
				}
				return true
			})
			return hit
		}
		seen := fg.ReachSet(nd.ID, settles, nil)
		bad := false
		for id := range seen {
			n2 := fg.Nodes[id]
			if n2.N == nil {
				continue
			}
			for _, c2 := range callsIn(n2.N) {
				if calleeName(info, c2) == "(*os.File).Read" {
					bad = true
				}
			}
		}
		r.Check(!bad, rule, fi.Name, "after re-open: Seek(readBytes) or readBytes = 0", c.Pos(as.Pos()), "bookkeeping: the tracked offset and the new file position agree before the next read", "after re-opening the file a read is reachable although the tracked offset was neither applied (Seek) nor reset: for a new, shorter file the offset never matches its size again, so every poll re-opens and re-delivers the whole file")
	}
	if dr := c.MustFunc(r, rule, followPkg, "(*PollingFollowReader).Drain"); dr != nil {
		ok := false
		var off types.Object
		ast.Inspect(dr.Decl.Body, func(n ast.Node) bool {
			if as, isA := n.(*ast.AssignStmt); isA && len(as.Rhs) == 1 {
				if ce, isC := as.Rhs[0].(*ast.CallExpr); isC && calleeName(info, ce) == "(*os.File).Seek" && len(as.Lhs) == 2 {
					off = identObj(info, as.Lhs[0])
				}
				if len(as.Lhs) == 1 && fieldNamed(info, as.Lhs[0], "readBytes") && off != nil && identObj(info, as.Rhs[0]) == off {
					ok = true
				}
			}
			return true
		})
		r.Check(ok, rule, dr.Name, "readBytes = Seek result", c.Pos(dr.Decl.Pos()), "bookkeeping: --tail records the end offset it seeked to", "Drain does not record the offset it seeked to")
	}
	r.Floor(rule, 3, "read count, re-open, drain")
}

func c15TimeFlush(c *Ctx, r *Report) {
	const rule = "C15-c/time-flush"
	fi := c.MustFunc(r, rule, batchersPkg, "(*Batcher).syncReaderToBatcherWithTimeFlush")
	if fi == nil {
		return
	}
	info := fi.Pkg.TypesInfo
	fg := NewFGraph(fi.Decl.Body, info)
	loop := scanLoop(info, fi.Decl.Body)
	if loop == nil {
		r.Undecided(rule, fi.Name, "scan loop", c.Pos(fi.Decl.Pos()), "scan loop not found")
		return
	}
	// the timestamp variable: compared through time.Since in the flush condition
	var ts types.Object
	ast.Inspect(loop.Body, func(n ast.Node) bool {
		if ce, ok := n.(*ast.CallExpr); ok && calleeName(info, ce) == "time.Since" && len(ce.Args) == 1 {
			ts = identObj(info, ce.Args[0])
		}
		return true
	})
	if ts == nil {
		r.Bad(rule, fi.Name, "time-based flush condition", c.Pos(loop.Pos()), "the loop no longer flushes on elapsed time: followed lines stay in a partial batch until it fills")
		return
	}
	bodyHead := -1
	for _, nd := range fg.Nodes {
		if nd.N == nil && nd.Block != nil && nd.Block.Stmt == ast.Stmt(loop) && nd.Block.Kind.String() == "ForBody" {
			bodyHead = nd.ID
		}
	}
	isSend := func(nd *FNode) bool { return len(nodeSends(c, info, nd)) > 0 }
	n := 0
	for _, nd := range fg.Nodes {
		as, ok := nd.N.(*ast.AssignStmt)
		if !ok || len(as.Lhs) != 1 || identObj(info, as.Lhs[0]) != ts || !within(loop.Body, as.Pos()) {
			continue
		}
		n++
		seen := fg.ReachSet(bodyHead, isSend, nil)
		r.Check(!seen[nd.ID], rule, fi.Name, stmtStr(as), c.Pos(as.Pos()), "order: the flush timestamp is renewed only after a batch was actually sent in this iteration", "the flush timestamp is renewed on iterations that sent nothing: a steady trickle of lines (gaps shorter than the timeout) never triggers the time flush and the followed lines never surface")
	}
	if n == 0 {
		r.Bad(rule, fi.Name, "timestamp renewal", c.Pos(loop.Pos()), "the flush timestamp is never renewed inside the loop: after the first timeout every line is flushed on its own")
	}
	// the flush condition involves the timestamp as a disjunct with the size test
	okCond := false
	ast.Inspect(loop.Body, func(x ast.Node) bool {
		is, ok := x.(*ast.IfStmt)
		if !ok {
			return true
		}
		txt := exprStr(is.Cond)
		if strings.Contains(txt, "time.Since("+ts.Name()+")") && strings.Contains(txt, "||") {
			okCond = len(sendSitesIn(c, info, is.Body)) > 0
		}
		return true
	})
	r.Check(okCond, rule, fi.Name, "size || elapsed => send", c.Pos(loop.Pos()), "shape: a batch is sent when it is full or the timeout elapsed", "the elapsed-time test no longer leads to a send")
	r.Floor(rule, 2, "timestamp renewal and flush condition")
}

// c15EventFilter (C15-a/event-filter): the watcher observes a whole directory;
// an event concerns the followed file exactly when its name equals the
// followed name. Every expression of the watcher that relates the event's
// name to the followed file name must be an equality test of the two names,
// both taken raw or both through the same function (path.Base, filepath.Clean).
func c15EventFilter(c *Ctx, r *Report) {
	const rule = "C15-a/event-filter"
	fi := c.MustFunc(r, rule, followPkg, "(*NotifyFollowReader).startWatcher")
	if fi == nil {
		return
	}
	info := fi.Pkg.TypesInfo
	mentions := func(e ast.Node) (ev, fn bool) {
		ast.Inspect(e, func(x ast.Node) bool {
			se, ok := x.(*ast.SelectorExpr)
			if !ok {
				return true
			}
			fv := fieldVar(info, se)
			if fv == nil {
				return true
			}
			if fv.Name() == "Name" && fv.Pkg() != nil && strings.HasSuffix(fv.Pkg().Path(), "fsnotify") {
				ev = true
			}
			if fv.Pkg() != nil && fv.Pkg().Path() == followPkg {
				if b, ok := fv.Type().Underlying().(*types.Basic); ok && b.Kind() == types.String {
					fn = true
				}
			}
			return true
		})
		return
	}
	wrapper := func(e ast.Expr) string {
		e = ast.Unparen(e)
		if ce, ok := e.(*ast.CallExpr); ok && len(ce.Args) == 1 {
			return calleeName(info, ce)
		}
		if _, ok := e.(*ast.SelectorExpr); ok {
			return "raw"
		}
		return "?"
	}
	n := 0
	var visit func(x ast.Node) bool
	visit = func(x ast.Node) bool {
		e, ok := x.(ast.Expr)
		if !ok {
			return true
		}
		ev, fn := mentions(e)
		if !ev || !fn {
			return true
		}
		// smallest expression relating the two: descend while a child still mentions both
		switch t := ast.Unparen(e).(type) {
		case *ast.BinaryExpr:
			xe, xf := mentions(t.X)
			ye, yf := mentions(t.Y)
			if (xe && xf) || (ye && yf) {
				return true
			}
			n++
			okEq := (t.Op == token.EQL || t.Op == token.NEQ) && wrapper(t.X) == wrapper(t.Y) && wrapper(t.X) != "?"
			r.Check(okEq, rule, fi.Name, exprStr(t), c.Pos(t.Pos()), "shape: the event name and the followed name are compared for equality through the same normalisation",
				"the watcher relates the event's name to the followed file by "+exprStr(t)+", which is not an equality of the two names under one normalisation: events of other files in the directory (e.g. a sibling whose name ends with the followed name) are taken for events of the followed file - its removal ends or restarts the stream")
			return false
		case *ast.FuncLit:
			return true
		case *ast.CallExpr:
			if fe, ff := mentions(t.Fun); fe && ff {
				return true
			}
			for _, a := range t.Args {
				ae, af := mentions(a)
				if ae && af {
					return true
				}
			}
			n++
			r.Bad(rule, fi.Name, exprStr(t), c.Pos(t.Pos()), "the watcher relates the event's name to the followed file through "+exprStr(t.Fun)+" instead of an equality test: events of other files in the directory (a sibling whose name merely ends with / contains the followed name) are taken for events of the followed file, so its removal ends or restarts the stream and data is lost or delivered twice")
			return false
		}
		return true
	}
	ast.Inspect(fi.Decl.Body, visit)
	if n == 0 {
		r.Bad(rule, fi.Name, "event filter", c.Pos(fi.Decl.Pos()), "the watcher no longer compares the event's name with the followed file: every event in the directory is taken for the followed file")
	}
	r.Floor(rule, 1, "the name test in the watcher goroutine")
}
