package main

// C08 - no template and no input line can crash expression compilation or
// evaluation (E-PANIC over everything reachable from Compile/BuildKey).

func init() {
	register(&propDef{
		ID:  "C08",
		Run: runC08,
		Explain: "Decided: every construct that can panic (index, slice, integer division/modulo, signed shift, single-value type assertion, explicit panic, library preconditions of make/strings.Repeat/Grow/Must*) or spin (non-range for loops) in every function and closure of pkg/expressions{,/stdlib,/stdmath,/funcfile,/funclib}, pkg/stringSplitter, every KeyBuilderContext / stdmath.Context implementation, and everything of rare/... they reach on the VTA call graph, is discharged by the compiler's prove pass, by a dominating-guard rule (difference constraints from branch facts, inherited into closures for single-assignment captures), by a callee-guard rule, or by a reviewed entry naming the construct and the reason. Pooled contexts are bound before use, returned on every exit and never returned twice (a twice-pooled context can become its own parent: unbounded recursion). " +
			"NOT decided: memory exhaustion ({repeat x 1e7} style allocations), stack exhaustion by deeply nested templates (Compile recurses on strictly shorter arguments), nil dereferences other than pooled contexts (see C05/C10), and panics inside third-party code (gjson, dateparse) or the standard library beyond the frozen precondition table; that results are the *documented* strings is C11.",
		Assume: []string{
			"integer terms of the form length/index + small constant do not overflow",
			"the compiler's prove pass is sound (a bounds check it removes cannot fail)",
			"third-party and standard-library functions do not panic when their documented preconditions hold",
			"reviewed entries (checker/c08.go) are correct; each names one construct and its reason",
		},
	})
}

var reviewedExpr = []reviewedEntry{
	// --- pkg/aggregation (KeyBuilderContext of reduce)
	rv("index", "rare/pkg/aggregation.(*AccumulatingGroup).Sample", "rowData[i]", 1, "rowData was made with len(s.colDef) two lines above and i ranges over s.colDef"),
	rv("index", "rare/pkg/aggregation.(*AccumulatingGroup).Sample", "rowData[idx]", 3, "every row has len(s.colDef) cells (rows are only created here with that length and AddDataExpr refuses to grow colDef once data exists); idx ranges over s.colDef or is a value of colIdxLookup, which only holds len(colDef)-1 at insertion time"),
	rv("index", "rare/pkg/aggregation.(*AccumulatingGroup).Groups", "s.data[x][idx]", 1, "x is a key of s.data (ret is built from its keys) so the row exists with len(colDef) cells; idx is a value of colIdxLookup (< len(colDef)), looked up with comma-ok"),
	// --- pkg/expressions
	rv("slice", "rare/pkg/expressions.(*KeyBuilder).Compile", "runes[startStatement:i + 1]", 1, "startStatement was assigned an earlier (or the same) value of i; in this branch i was not advanced past the loop condition i < len(runes)"),
	rv("slice", "rare/pkg/expressions.(*KeyBuilder).Compile", "runes[startStatement:]", 1, "startStatement is 0 or an earlier loop index < len(runes)"),
	rv("loop", "rare/pkg/expressions/funcfile.LoadDefinitions", "for ; ; ", 1, "leaves when the inner bufio.Scanner loop appended nothing, which happens at the latest when the scanner is exhausted (Scan keeps returning false)"),
	rv("index", "rare/pkg/expressions/stdlib.arithmaticHelperi", "typedArgs[0]", 1, "typedArgs = mapTypedArgs(args, ..) has len(args) elements on the ok path and len(args) >= 2 was checked", "len(args) >= 2"),
	rv("index", "rare/pkg/expressions/stdlib.arithmaticHelperi", "typedArgs[i]", 1, "same length as args; 1 <= i < len(args)", "i < len(args)"),
	rv("index", "rare/pkg/expressions/stdlib.arithmaticHelperiNonZero", "typedArgs[0]", 1, "typedArgs = mapTypedArgs(args, ..) has len(args) elements on the ok path and len(args) >= 2 was checked", "len(args) >= 2"),
	rv("index", "rare/pkg/expressions/stdlib.arithmaticHelperiNonZero", "typedArgs[i]", 1, "same length as args; 1 <= i < len(args)", "i < len(args)"),
	rv("index", "rare/pkg/expressions/stdlib.arithmaticHelperf", "typedArgs[0]", 1, "typedArgs = mapTypedArgs(args, ..) has len(args) elements on the ok path and len(args) >= 2 was checked", "len(args) >= 2"),
	rv("index", "rare/pkg/expressions/stdlib.arithmaticHelperf", "typedArgs[i]", 1, "same length as args; 1 <= i < len(args)", "i < len(args)"),
	rv("loop", "rare/pkg/expressions/stdlib.kfArrayRange", "for i := start; (incr > 0 && i < stop) || (incr < 0 && i > stop); i += incr", 1, "in each disjunct i moves by the non-zero incr towards stop (incr == 0 makes the condition false at once); int overflow near MaxInt ends the loop as well because the comparison flips"),
	rv("slice", "rare/pkg/expressions/stdlib.kfSubstr", "s[left:left + length]", 1, "left was clamped to [0,lenS], length to [0,lenS-left] by the four preceding ifs, so left+length cannot overflow and is <= lenS"),
	rv("slice", "rare/pkg/expressions/stdlib.selectField", "s[wordStart:i]", 1, "wordStart is 0 or an earlier range index of the same string"),
	rv("slice", "rare/pkg/expressions/stdlib.selectField", "s[wordStart:]", 1, "wordStart is 0 or a range index of s"),
	rv("assert", "rare/pkg/expressions/stdlib.smartDateParseWrapper", "atomicFormat.Load().(string)", 1, "atomicFormat is a local atomic.Value; both Store calls (the initial \"\" and the detected format) store a string before/after this load"),
	rv("index", "rare/pkg/expressions/stdlib.EvalStageIndexOrDefault", "stages[idx]", 1, "guarded above by idx < len(stages); every caller passes a non-negative constant index (re-checked mechanically: rule C08/const-index-callers)", "idx < len(stages)"),
	rv("index", "rare/pkg/expressions/stdlib.EvalArgInt", "stages[idx]", 1, "guarded above by idx < len(stages); every caller passes a non-negative constant index (re-checked mechanically: rule C08/const-index-callers)", "idx < len(stages)"),
	rv("panic", "rare/pkg/expressions/stdmath.opCodeOrder", "panic(\"op not found\")", 1, "op1 is always a key of ops (getNextOp) and every key of ops occurs in orderOfOps (checked by C19-b), so one row contains it and the loop returns"),
	rv("slice", "rare/pkg/expressions/stdmath.prefixInOps", "s[:min(len(s), maxLen)]", 1, "min(len(s), 2) is within [0,len(s)]"),
	rv("slice", "rare/pkg/expressions/stdmath.prefixInOps", "code[:i]", 1, "i starts at len(code) and only decreases while i >= 0 (the compiler proves this on 64-bit targets; listed for 32-bit builds)", "i >= 0"),
	rv("loop", "rare/pkg/expressions/stdmath.(*tokenScanner).compileTokens", "for ; !s.done(); ", 1, "each iteration returns or pops one token through getNextOp(true) (opCodeOrder only yields -1, 0, 1); the token list is finite"),
	rv("index", "rare/pkg/expressions/stdmath.(*tokenScanner).pop", "s.next[0]", 1, "callers: getNextExpr (after its own done() check) and getNextOp(true), which is only called inside the !s.done() loop after getNextOp(false) succeeded without consuming (re-checked: rule C08/scanner-guard)"),
	rv("index", "rare/pkg/expressions/stdmath.(*tokenScanner).peek", "s.next[0]", 1, "only called from getNextOp, whose call sites are inside compileTokens' !s.done() loop with no pop in between (re-checked: rule C08/scanner-guard)"),
	rv("slice", "rare/pkg/expressions/stdmath.compileToken", "t.val[1:len(t.val) - 1]", 1, "the case is guarded by isBoxed(t.val), which requires len >= 2", "isBoxed(t.val)"),
	rv("loop", "rare/pkg/expressions/stdmath.tokenizeExpr", "for i := 0; i < len(s); i++", 1, "besides i++ the body only adds len(opCode)-1 >= 0: opCode is a key of ops and all keys are non-empty (checked by C19-b)"),
	rv("index", "rare/pkg/expressions/stdmath.tokenizeExpr", "s[i]", 1, "first statement of the body under i < len(s); i starts at 0 and never decreases (see loop entry)", "i < len(s)"),
	// --- contexts and helpers reached from stages
	rv("slice", "rare/pkg/extractor.(*SliceSpaceExpressionContext).GetMatch", "s.linePtr[start:end]", 1, "matcher contract: index pairs are -1 or satisfy 0 <= start <= end <= len(line); for dissect this is the content of C12-c, for regexp it is the library contract of FindSubmatchIndex", "start >= 0", "end >= 0"),
	rv("loop", "rare/pkg/humanize.humanizeInt", "for ; v > 0; ", 1, "v /= 10 on every iteration with v > 0"),
	rv("index", "rare/pkg/humanize.humanizeInt", "buf[idx]", 3, "buf has at least 27 bytes (re-checked): a 64-bit value has at most 20 digits + 6 separators + sign = 27 writes, idx starts at len(buf)-1 and is decremented once per write", "arraylen>=27"),
	rv("slice", "rare/pkg/humanize.humanizeInt", "buf[idx + 1:]", 1, "at most 27 decrements from len(buf)-1 with len(buf) >= 27 (re-checked), so 0 <= idx+1 <= len(buf)", "arraylen>=27"),
	rv("index", "rare/pkg/humanize.humanizeFloat", "s[0]", 2, "strconv.AppendFloat always appends at least one byte"),
	rv("index", "rare/pkg/humanize.humanizeFloat", "s[i]", 1, "i < decIdx and decIdx is an index into s or len(s)", "i < decIdx"),
	rv("slice", "rare/pkg/humanize.humanizeFloat", "s[decIdx + 1:]", 1, "guarded by decIdx < len(s)", "decIdx < len(s)"),
	rv("index", "rare/pkg/humanize.unitize", "units[0]", 1, "every caller passes a slice of a non-empty fixed array (byteSizes, siSizes, unitSize)"),
	rv("index", "rare/pkg/humanize.unitize", "units[rank]", 1, "rank starts at 0 and the loop stops at rank == len(units)-1"),
	rv("index", "rare/pkg/minijson.escape", "escapeLookup[r]", 1, "evaluated only after int(r) < len(escapeLookup) (short-circuit &&); r comes from ranging over a string, so r >= 0", "fact:int(r) < len(escapeLookup)"),
	rv("slice", "rare/pkg/minijson.escape", "s[:i]", 1, "i is a range index of s"),
	rv("precond", "rare/pkg/slicepool.NewObjectPoolEx", "make([]*T, size)", 1, "only called with the constant sizes of the package-level pools (5) - a negative size would fail at program start, not on input"),
	rv("index", "rare/pkg/slicepool.NewObjectPoolEx", "ret.pool[i]", 1, "pool was made with length size and 0 <= i < size"),
	rv("slice", "rare/pkg/slicepool.(*ObjectPool).Get", "s.pool[:end]", 1, "end = len(s.pool)-1 after the len(s.pool) == 0 early return, under the pool mutex", "len(s.pool) != 0"),
	rv("slice", "rare/pkg/stringSplitter.(*Splitter).Next", "s.S[s.next:]", 2, "s.next is 0 (zero value), -1 (filtered by the first if) or a previous idx+1 with idx < len(S) an index found inside S", "s.next >= 0"),
	rv("slice", "rare/pkg/stringSplitter.(*Splitter).Next", "s.S[s.next:idx]", 1, "idx = s.next + offset of Delim within S[s.next:], so s.next <= idx <= len(S)", "s.next >= 0"),
}

func runC08(c *Ctx, r *Report) {
	bce, err := bceList(c)
	if err != nil {
		r.Undecided("C08/bce", "compiler", "listing", "-", err.Error())
		return
	}
	pe := &panicEngine{c: c, bce: bce, reviewed: reviewedExpr}
	pe.scope = scopeExpressions(c)
	pe.run()
	pe.emit(r, "C08", nil)
	r.Extra["scope_functions"] = len(pe.scope)
	r.Extra["compiler_unproven_positions"] = len(bce)
	r.Floor("C08/index", 120, "about 165 index expressions are in scope on the pinned tree")
	r.Floor("C08/slice", 20, "30 slice expressions in scope")
	r.Floor("C08/div", 6, "divi, modi, stdmath %, humanize constants")
	r.Floor("C08/loop", 25, "34 non-range loops in scope")
	r.Floor("C08/shift", 2, "stdmath << and >>")

	// mechanical re-checks quoted by reviewed entries
	constIndexCallers(c, r, "C08/const-index-callers", "rare/pkg/expressions/stdlib", "EvalStageIndexOrDefault", 1)
	constIndexCallers(c, r, "C08/const-index-callers", "rare/pkg/expressions/stdlib", "EvalArgInt", 1)
	r.Floor("C08/const-index-callers", 10, "EvalStageIndexOrDefault and EvalArgInt have 14 call sites")
	scannerGuard(c, r)
	// pooled contexts: a context used before it is bound is a nil dereference, one returned twice is
	// handed to two users and can become its own parent (unbounded recursion)
	c05PoolTypestate(c, r, "C08")
	// a dropped ok result lets an unparsed argument through as its zero value (nil stage: crash on evaluation)
	okResultLive(c, r, "C08/ok-live", "rare/pkg/expressions")
	c19UnaryAgreement(c, r, "C08/unary-agreement")
}
