package main

// C12 - dissect: one folding unit, index-then-advance, offsets bookkeeping.
// C17 - array helpers: separator discipline, splitter advance, sub-context.

import (
	"fmt"
	"go/ast"
	"go/token"
	"go/types"
	"strings"
)

func init() {
	register(&propDef{
		ID:  "C12",
		Run: runC12,
		Explain: "Decided: (a) one folding unit on both sides: in the ignore-case search every comparison of a byte of the searched text with a byte of the needle folds the text byte with the package's byte fold, and CompileEx folds the pattern literals with a string function that maps that same byte fold (no Unicode-aware lowering on one side and byte-wise on the other), which is what makes 'a case-sensitive match still matches' hold; (b) index-then-advance: after locating a delimiter at an offset inside str[start:], the next start is start + offset + len(that same delimiter), start is modified nowhere else in the token loop, and the prefix step advances by len(prefix); (c) offsets stay inside the pool and the line: the pool slice has groupCount*2+2 cells, idx starts at 2 and grows by 2 exactly under !token.skip, which is the same predicate under which CompileEx counts a group; all index/slice expressions of the package are discharged; (d) results of earlier lines are not altered: IntPool never recycles (same rule as C02-d). No-match is reported only under a failed search for the prefix or a delimiter; an offset found inside a suffix is re-based by that suffix's start; matcher instances are fresh per CreateInstance. " +
			"NOT decided: equality with the specification on all inputs (first-occurrence search semantics of strings.Index are trusted), ASCII equivalence with lower-cased inputs beyond the folding-unit rule.",
		Assume: []string{"strings.Index returns the first occurrence"},
	})
	register(&propDef{
		ID:  "C17",
		Run: runC17,
		Explain: "Decided: (a) separator discipline: every conditional separator write in the array helpers (and in the list-building helpers they share) is guarded by an accepted 'an element was already emitted' form - position index against the loop start with the element written every iteration, a flag set after each element, or a non-empty writer only when every element is provably non-empty; (b) index-then-advance in the splitter: after finding the delimiter at idx the next position is idx + len(Delim) of that same delimiter; (c) the sub-context binds {0}/{1} from its own values, forwards named keys (and lookups it does not bind) to the enclosing context, is re-bound to the caller's context before every use and returned to the pool by a deferred call; it is obtained per evaluation, never shared by the compiled stage; (d) negative index normalisation adds Count(sep)+1 of the very string that is split; generator loops are bounded (E-PANIC loop obligations of funcsRange.go). An offset found inside a suffix is re-based by that suffix's start; a pooled sub-context is returned at most once per path. " +
			"NOT decided: @split/@join inverse law, @map/@reduce binding semantics beyond the wiring, the exact sequences of @range/@for.",
		Assume: []string{"strings.Index / strings.Count behave as documented"},
	})
}

const dissectPkg = "rare/pkg/matchers/dissect"

func runC12(c *Ctx, r *Report) {
	c12Fold(c, r)
	c12Advance(c, r)
	c12NilOnlyOnMiss(c, r)
	c12Offsets(c, r)
	c02IntPool(c, r, "C12-d")
	c05FreshInstance(c, r, "C12-d/fresh-instance")
	c02ResultNotRecycled(c, r, "C12-d/result-not-recycled")
	c02NamesVerbatim(c, r, "C12-e/names-verbatim")
	c12TokenPerPlaceholder(c, r, "C12-e/token-per-placeholder")
}

// byteFoldFuncs: functions of the package with signature func(byte) byte.
func byteFoldFuncs(c *Ctx, pkg string) []*FuncInfo {
	var out []*FuncInfo
	for _, fi := range c.AllFuncDecls(pkg) {
		sig, ok := fi.Obj.Type().(*types.Signature)
		if !ok || sig.Params().Len() != 1 || sig.Results().Len() != 1 || fi.Decl.Recv != nil {
			continue
		}
		isByte := func(t types.Type) bool {
			b, ok := t.Underlying().(*types.Basic)
			return ok && b.Kind() == types.Uint8
		}
		if isByte(sig.Params().At(0).Type()) && isByte(sig.Results().At(0).Type()) {
			out = append(out, fi)
		}
	}
	return out
}

func c12Fold(c *Ctx, r *Report) {
	const rule = "C12-a/fold-unit"
	search := c.MustFunc(r, rule, dissectPkg, "indexIgnoreCase")
	compile := c.MustFunc(r, rule, dissectPkg, "CompileEx")
	if search == nil || compile == nil {
		return
	}
	info := search.Pkg.TypesInfo
	folds := byteFoldFuncs(c, dissectPkg)
	foldObj := map[*types.Func]bool{}
	for _, f := range folds {
		foldObj[f.Obj] = true
	}
	var hay, needle types.Object
	if ps := search.Decl.Type.Params.List; len(ps) >= 1 {
		var names []*ast.Ident
		for _, f := range ps {
			names = append(names, f.Names...)
		}
		if len(names) == 2 {
			hay, needle = info.Defs[names[0]], info.Defs[names[1]]
		}
	}
	if hay == nil || needle == nil {
		r.Undecided(rule, search.Name, "signature", c.Pos(search.Decl.Pos()), "expected (text, loweredNeedle string)")
		return
	}
	var usedFold *types.Func
	nCmp := 0
	var checkCmps func(fn *FuncInfo, hay, needle types.Object, depth int)
	checkCmps = func(fn *FuncInfo, hay, needle types.Object, depth int) {
		info := fn.Pkg.TypesInfo
		mentionsElemOf := func(e ast.Expr, o types.Object) bool {
			hit := false
			ast.Inspect(e, func(n ast.Node) bool {
				if ix, ok := n.(*ast.IndexExpr); ok && identObj(info, ix.X) == o {
					hit = true
				}
				return true
			})
			return hit
		}
		ast.Inspect(fn.Decl.Body, func(n ast.Node) bool {
			if ce, ok := n.(*ast.CallExpr); ok && depth < 2 {
				// a helper of this package that receives the text and the needle
				if f := calleeFunc(info, ce); f != nil && f.Pkg() != nil && f.Pkg().Path() == dissectPkg && !foldObj[f] {
					if hfi := funcDeclOf(c, f); hfi != nil && hfi.Decl.Recv == nil {
						var ps []types.Object
						for _, fld := range hfi.Decl.Type.Params.List {
							for _, nm := range fld.Names {
								ps = append(ps, hfi.Pkg.TypesInfo.Defs[nm])
							}
						}
						var h2, n2 types.Object
						for i, a := range ce.Args {
							if i >= len(ps) {
								break
							}
							if identObj(info, a) == hay {
								h2 = ps[i]
							}
							if identObj(info, a) == needle {
								n2 = ps[i]
							}
						}
						if h2 != nil && n2 != nil {
							checkCmps(hfi, h2, n2, depth+1)
						}
					}
				}
			}
			be, ok := n.(*ast.BinaryExpr)
			if !ok || (be.Op != token.EQL && be.Op != token.NEQ) {
				return true
			}
			var hs, ns ast.Expr
			if mentionsElemOf(be.X, hay) {
				hs, ns = be.X, be.Y
			} else if mentionsElemOf(be.Y, hay) {
				hs, ns = be.Y, be.X
			}
			if hs == nil {
				return true
			}
			nCmp++
			// haystack side must be F(s[..]) with F a byte fold of this package
			okH := false
			if ce, isCall := ast.Unparen(hs).(*ast.CallExpr); isCall && len(ce.Args) == 1 {
				if f := calleeFunc(info, ce); f != nil && foldObj[f] {
					if ix, isIx := ast.Unparen(ce.Args[0]).(*ast.IndexExpr); isIx && identObj(info, ix.X) == hay {
						okH = true
						usedFold = f
					}
				}
			}
			// the other side is a needle byte (raw or folded by the same function) - not an ad-hoc transformation
			okN := false
			nsu := ast.Unparen(ns)
			if ix, isIx := nsu.(*ast.IndexExpr); isIx && identObj(info, ix.X) == needle {
				okN = true
			}
			if ce, isCall := nsu.(*ast.CallExpr); isCall && len(ce.Args) == 1 {
				if f := calleeFunc(info, ce); f != nil && foldObj[f] && mentionsElemOf(ce.Args[0], needle) {
					okN = true
				}
			}
			if id, isId := nsu.(*ast.Ident); isId {
				// a local holding a needle byte
				ast.Inspect(fn.Decl.Body, func(m ast.Node) bool {
					if as, ok := m.(*ast.AssignStmt); ok && len(as.Lhs) == 1 && len(as.Rhs) == 1 && identObj(info, as.Lhs[0]) == info.Uses[id] {
						if ix, isIx := ast.Unparen(as.Rhs[0]).(*ast.IndexExpr); isIx && identObj(info, ix.X) == needle {
							okN = true
						}
					}
					return true
				})
			}
			r.Check(okH && okN, rule, fn.Name, exprStr(be), c.Pos(be.Pos()), "fold: the text byte is folded by the package's byte fold and compared with a needle byte",
				"a byte of the searched text is compared with the needle without going through the package's byte fold (Unicode-aware or ad-hoc folding of single bytes): pattern and line are folded by different units, so a line that matches case-sensitively can stop matching with --ignore-case")
			return true
		})
	}
	checkCmps(search, hay, needle, 0)
	if nCmp == 0 {
		r.Undecided(rule, search.Name, "comparisons", c.Pos(search.Decl.Pos()), "no comparison of a text byte with the needle found")
	}
	// CompileEx: under ignoreCase, literals are folded by a function that maps the same byte fold
	cinfo := compile.Pkg.TypesInfo
	nLit := 0
	ast.Inspect(compile.Decl.Body, func(n ast.Node) bool {
		as, ok := n.(*ast.AssignStmt)
		if !ok || len(as.Lhs) != 1 || len(as.Rhs) != 1 || as.Tok != token.ASSIGN {
			return true
		}
		ce, ok := ast.Unparen(as.Rhs[0]).(*ast.CallExpr)
		if !ok || len(ce.Args) != 1 || identObj(cinfo, ce.Args[0]) == nil || identObj(cinfo, ce.Args[0]) != identObj(cinfo, as.Lhs[0]) {
			return true
		}
		if t := cinfo.TypeOf(as.Lhs[0]); t == nil || t.String() != "string" {
			return true
		}
		nLit++
		name := calleeName(cinfo, ce)
		ok2 := false
		if f := calleeFunc(cinfo, ce); f != nil && c.IsRarePkg(f.Pkg()) {
			if fd := funcDeclOf(c, f); fd != nil {
				// the string fold maps the byte fold
				ast.Inspect(fd.Decl.Body, func(m ast.Node) bool {
					if c2, isCall := m.(*ast.CallExpr); isCall {
						if g := calleeFunc(fd.Pkg.TypesInfo, c2); g != nil && foldObj[g] && (usedFold == nil || g == usedFold) {
							ok2 = true
						}
					}
					return true
				})
			}
		}
		r.Check(ok2, rule, compile.Name, stmtStr(as), c.Pos(as.Pos()), "fold: the literal is folded by mapping the same byte fold the search applies to the text",
			"a pattern literal is folded with "+name+", not with the byte fold that indexIgnoreCase applies to the line: multi-byte characters are folded on one side only")
		return true
	})
	if nLit == 0 {
		r.Undecided(rule, compile.Name, "literal folding", c.Pos(compile.Decl.Pos()), "no `lit = fold(lit)` statement found under ignoreCase")
	}
	r.Floor(rule, 3, "at least one text/needle comparison in the search and two literal folds in CompileEx")
}

func c12Advance(c *Ctx, r *Report) {
	const rule = "C12-b/index-then-advance"
	fi := c.MustFunc(r, rule, dissectPkg, "(*DissectInstance).FindSubmatchIndex")
	if fi == nil {
		return
	}
	info := fi.Pkg.TypesInfo
	if searchRebase(c, r, "C12-b/search-rebase", fi) == 0 {
		r.OK("C12-b/search-rebase", fi.Name, "scan", "-", "scan: no search inside a suffix with a non-zero start in this function")
	}
	var loop *ast.RangeStmt
	ast.Inspect(fi.Decl.Body, func(n ast.Node) bool {
		if rs, ok := n.(*ast.RangeStmt); ok && loop == nil {
			loop = rs
		}
		return true
	})
	if loop == nil {
		r.Undecided(rule, fi.Name, "token loop", c.Pos(fi.Decl.Pos()), "loop over the tokens not found")
		return
	}
	// the search: off = s.indexOf(str[start:], NEEDLE)
	var startObj, offObj types.Object
	var needle ast.Expr
	ast.Inspect(loop.Body, func(n ast.Node) bool {
		as, ok := n.(*ast.AssignStmt)
		if !ok || len(as.Lhs) != 1 || len(as.Rhs) != 1 {
			return true
		}
		ce, ok := ast.Unparen(as.Rhs[0]).(*ast.CallExpr)
		if !ok || len(ce.Args) != 2 {
			return true
		}
		if sx, ok := unalias(info, fi.Decl.Body, ce.Args[0]).(*ast.SliceExpr); ok && sx.Low != nil && sx.High == nil {
			if fv := fieldVar(info, ce.Fun); fv != nil && fv.Name() == "indexOf" || strings.HasPrefix(calleeName(info, ce), "strings.Index") {
				startObj = identObj(info, sx.Low)
				offObj = identObj(info, as.Lhs[0])
				needle = ce.Args[1]
			}
		}
		return true
	})
	if startObj == nil || offObj == nil || needle == nil {
		r.Undecided(rule, fi.Name, "search", c.Pos(loop.Pos()), "`off = indexOf(str[start:], needle)` not found in the token loop")
		return
	}
	// every assignment to start inside the loop is the advance
	n := 0
	ast.Inspect(loop.Body, func(x ast.Node) bool {
		var lhs ast.Expr
		var rhs ast.Expr
		var tok token.Token
		switch t := x.(type) {
		case *ast.AssignStmt:
			if len(t.Lhs) == 1 && len(t.Rhs) == 1 {
				lhs, rhs, tok = t.Lhs[0], t.Rhs[0], t.Tok
			}
		case *ast.IncDecStmt:
			lhs, tok = t.X, t.Tok
		}
		if lhs == nil || identObj(info, lhs) != startObj {
			return true
		}
		n++
		ok := false
		if rhs != nil {
			txt := exprStr(rhs)
			hasStart := tok == token.ADD_ASSIGN
			hasOff, hasLen := false, false
			ast.Inspect(rhs, func(y ast.Node) bool {
				if id, isId := y.(*ast.Ident); isId {
					if info.Uses[id] == startObj {
						hasStart = true
					}
					if info.Uses[id] == offObj {
						hasOff = true
					}
				}
				if ce, isCall := y.(*ast.CallExpr); isCall && calleeName(info, ce) == "builtin.len" && exprStr(ce.Args[0]) == exprStr(needle) {
					hasLen = true
				}
				return true
			})
			// only additions
			onlyAdd := !strings.ContainsAny(strings.ReplaceAll(txt, "len(", ""), "-*/%")
			ok = hasStart && hasOff && hasLen && onlyAdd && (tok == token.ASSIGN || tok == token.ADD_ASSIGN)
		}
		r.Check(ok, rule, fi.Name, nodeStrStmt(x), c.Pos(x.Pos()), "advance: start + offset-in-suffix + len(the delimiter just found)",
			"inside the token loop `"+startObj.Name()+"` is changed by something other than start + found offset + len("+exprStr(needle)+"): the next search no longer begins right after the delimiter that was found (bytes skipped or re-read)")
		return true
	})
	if n == 0 {
		r.Bad(rule, fi.Name, "advance", c.Pos(loop.Pos()), "the scan position is never advanced in the token loop")
	}
	// prefix step: start = indexOf(str, prefix); start += len(prefix)
	okPrefix := false
	ast.Inspect(fi.Decl.Body, func(x ast.Node) bool {
		as, ok := x.(*ast.AssignStmt)
		if !ok || within(loop, as.Pos()) || len(as.Lhs) != 1 || as.Tok != token.ADD_ASSIGN || identObj(info, as.Lhs[0]) != startObj {
			return true
		}
		if ce, ok := ast.Unparen(as.Rhs[0]).(*ast.CallExpr); ok && calleeName(info, ce) == "builtin.len" && strings.HasSuffix(exprStr(ce.Args[0]), ".prefix") {
			okPrefix = true
		}
		return true
	})
	r.Check(okPrefix, rule, fi.Name, "start += len(prefix)", c.Pos(fi.Decl.Pos()), "advance: the scan starts right after the leading literal", "after locating the leading literal the scan does not advance by its length")
	r.Floor(rule, 2, "token advance and prefix advance")
}

func nodeStrStmt(n ast.Node) string {
	if s, ok := n.(ast.Stmt); ok {
		return stmtStr(s)
	}
	return fmt.Sprintf("%T", n)
}

var reviewedDissect = []reviewedEntry{
	rv("slice", "rare/pkg/matchers/dissect.CompileEx", "expr[:start]", 1, "start is a strings.Index result >= 0 inside expr", "start >= 0"),
	rv("slice", "rare/pkg/matchers/dissect.CompileEx", "expr[start + 2:]", 1, "start is the index of the two-byte marker %{, so start+2 <= len(expr)", "start >= 0"),
	rv("slice", "rare/pkg/matchers/dissect.CompileEx", "expr[:stop]", 1, "stop is a strings.Index result >= 0 inside expr", "stop >= 0"),
	rv("slice", "rare/pkg/matchers/dissect.CompileEx", "expr[stop + 1:]", 1, "stop indexes the one-byte }, so stop+1 <= len(expr)", "stop >= 0"),
	rv("slice", "rare/pkg/matchers/dissect.CompileEx", "expr[:end]", 1, "end is len(expr) or a strings.Index result inside expr"),
	rv("slice", "rare/pkg/matchers/dissect.CompileEx", "expr[end:]", 1, "end is len(expr) or a strings.Index result inside expr"),
	rv("index", "rare/pkg/matchers/dissect.CompileEx", "keyName[0]", 1, "the preceding case handles len(keyName) == 0"),
	rv("slice", "rare/pkg/matchers/dissect.CompileEx", "keyName[1:]", 1, "keyName[0] exists in this case"),
	rv("loop", "rare/pkg/matchers/dissect.CompileEx", "for ; ; ", 1, "each iteration returns, breaks, or shortens expr by at least the two bytes of %{"),
	rv("panic", "rare/pkg/matchers/dissect.MustCompile", "panic(err)", 1, "Must-style constructor for constant patterns; the CLI uses CompileEx"),
	rv("precond", "rare/pkg/matchers/dissect.(*DissectInstance).FindSubmatchIndex", "s.groupPool.Get(s.groupCount * 2 + 2)", 1, "the pool was created with (groupCount*2+2)*1024 cells, so a request of groupCount*2+2 never exceeds its size"),
	rv("index", "rare/pkg/matchers/dissect.(*DissectInstance).FindSubmatchIndex", "ret[0]", 1, "ret has groupCount*2+2 >= 2 cells"),
	rv("index", "rare/pkg/matchers/dissect.(*DissectInstance).FindSubmatchIndex", "ret[1]", 1, "ret has groupCount*2+2 >= 2 cells"),
	rv("index", "rare/pkg/matchers/dissect.(*DissectInstance).FindSubmatchIndex", "ret[idx]", 1, "idx starts at 2 and grows by 2 per non-skipped token; CompileEx counted exactly the non-skipped tokens into groupCount (re-checked: rule C12-c/skip-agreement)"),
	rv("index", "rare/pkg/matchers/dissect.(*DissectInstance).FindSubmatchIndex", "ret[idx + 1]", 1, "as ret[idx]"),
	rv("slice", "rare/pkg/matchers/dissect.(*DissectInstance).FindSubmatchIndex", "str[start:]", 2, "start is 0, or a position right after a delimiter found inside str (start + offset-in-suffix + len(found delimiter) <= len(str)); re-checked by C12-b"),
	rv("index", "rare/pkg/matchers/dissect.indexIgnoreCase", "s[i]", 1, "i < n == len(s) in this case", "i < n"),
	rv("index", "rare/pkg/matchers/dissect.indexIgnoreCase", "loweredSubstr[i]", 1, "i < n = len(loweredSubstr)", "i < n"),
	rv("index", "rare/pkg/matchers/dissect.indexIgnoreCase", "s[i + j]", 1, "i <= len(s)-n and j < n", "j < n"),
	rv("index", "rare/pkg/matchers/dissect.indexIgnoreCase", "loweredSubstr[j]", 1, "j < n = len(loweredSubstr)", "j < n"),
}

func c12Offsets(c *Ctx, r *Report) {
	// E-PANIC over the package
	if bce, err := bceList(c); err != nil {
		r.Undecided("C12-c/bce", "compiler", "listing", "-", err.Error())
	} else {
		pe := &panicEngine{c: c, bce: bce, reviewed: reviewedDissect}
		pe.run(dissectPkg)
		pe.emit(r, "C12-c", nil)
		r.Floor("C12-c/index", 6, "ret[..] and search indexes")
		r.Floor("C12-c/slice", 6, "pattern and line slices")
	}
	const rule = "C12-c/skip-agreement"
	compile := c.MustFunc(r, rule, dissectPkg, "CompileEx")
	find := c.MustFunc(r, rule, dissectPkg, "(*DissectInstance).FindSubmatchIndex")
	if compile == nil || find == nil {
		return
	}
	cinfo := compile.Pkg.TypesInfo
	// CompileEx: the group counter is incremented exactly under !skipped, and token.skip is that variable
	var skippedObj types.Object
	ast.Inspect(compile.Decl.Body, func(n ast.Node) bool {
		if kv, ok := n.(*ast.KeyValueExpr); ok && exprStr(kv.Key) == "skip" {
			skippedObj = identObj(cinfo, kv.Value)
		}
		return true
	})
	vi := analyseVars(cinfo, compile.Decl)
	fg := NewFGraph(compile.Decl.Body, cinfo)
	fg.SolveFacts(vi)
	okCount := false
	var counter types.Object
	ast.Inspect(compile.Decl.Body, func(n ast.Node) bool {
		inc, ok := n.(*ast.IncDecStmt)
		if !ok || inc.Tok != token.INC {
			return true
		}
		for _, f := range fg.FactsAtPos(inc.Pos()) {
			if skippedObj != nil && identObj(cinfo, f.Cond) == skippedObj && !f.Truth {
				okCount = true
				counter = identObj(cinfo, inc.X)
			}
		}
		return true
	})
	// groupCount field is that counter
	okField := false
	ast.Inspect(compile.Decl.Body, func(n ast.Node) bool {
		if kv, ok := n.(*ast.KeyValueExpr); ok && exprStr(kv.Key) == "groupCount" && counter != nil && identObj(cinfo, kv.Value) == counter {
			okField = true
		}
		return true
	})
	r.Check(skippedObj != nil && okCount && okField, rule, compile.Name, "groupCount counts !skipped tokens", c.Pos(compile.Decl.Pos()), "agreement: the group count is incremented exactly for tokens whose skip flag is false", "CompileEx does not count exactly the non-skipped tokens into groupCount: the index slice handed out per match is too small or misaligned")
	finfo := find.Pkg.TypesInfo
	vi2 := analyseVars(finfo, find.Decl)
	fg2 := NewFGraph(find.Decl.Body, finfo)
	fg2.SolveFacts(vi2)
	okIdx := false
	nAdv := 0
	ast.Inspect(find.Decl.Body, func(n ast.Node) bool {
		as, ok := n.(*ast.AssignStmt)
		if !ok || as.Tok != token.ADD_ASSIGN || exprStr(as.Lhs[0]) != "idx" {
			return true
		}
		nAdv++
		v, isC := constInt(finfo, as.Rhs[0])
		under := false
		for _, f := range fg2.FactsAtPos(as.Pos()) {
			if strings.HasSuffix(exprStr(f.Cond), ".skip") && !f.Truth {
				under = true
			}
		}
		if isC && v == 2 && under {
			okIdx = true
		}
		return true
	})
	r.Check(okIdx && nAdv == 1, rule, find.Name, "idx += 2 under !token.skip", c.Pos(find.Decl.Pos()), "agreement: one index pair per non-skipped token", "FindSubmatchIndex does not advance its output index by one pair exactly for non-skipped tokens")
	// Get size expression equals groupCount*2+2
	okGet := false
	ast.Inspect(find.Decl.Body, func(n ast.Node) bool {
		if ce, ok := n.(*ast.CallExpr); ok && strings.HasSuffix(calleeName(finfo, ce), ".IntPool).Get") && len(ce.Args) == 1 {
			t := strings.ReplaceAll(exprStr(ce.Args[0]), " ", "")
			if t == "s.groupCount*2+2" || t == "2+s.groupCount*2" || t == "2*s.groupCount+2" || t == "(s.groupCount+1)*2" {
				okGet = true
			}
		}
		return true
	})
	r.Check(okGet, rule, find.Name, "Get(groupCount*2+2)", c.Pos(find.Decl.Pos()), "size: room for the whole-match pair plus one pair per group", "the index slice is not requested with groupCount*2+2 cells")
	r.Floor(rule, 3, "count, index advance, slice size")
}

// ================================================================ C17

const splitterPkg = "rare/pkg/stringSplitter"

func runC17(c *Ctx, r *Report) {
	sites := findSeparatorSites(c, "rare/pkg/expressions", "rare/pkg/extractor", "rare/pkg/aggregation", "rare/cmd")
	emitSeparatorSites(c, r, "C17-a/separator", sites, nil)
	r.Floor("C17-a/separator", 8, "array(), MakeArray, kfArrayFilter, kfArrayRange, kfArrayFor, kfArraySlice, buildGroupKey, kfCsv, smartFormatResult")
	c17JoinLoops(c, r)
	c17Splitter(c, r)
	c05PoolTypestate(c, r, "C17-c")
	c17SubContext(c, r)
	c17NegativeIndex(c, r)
	poolFullInit(c, r, "C17-c/pool-full-init")
	c17DoneOnlyOnMiss(c, r, "C17-b/done-only-on-miss")
	// generator loops bounded: loop obligations of funcsRange.go
	if bce, err := bceList(c); err != nil {
		r.Undecided("C17-d/bce", "compiler", "listing", "-", err.Error())
	} else {
		pe := &panicEngine{c: c, bce: bce, reviewed: reviewedExpr, scope: map[ast.Node]bool{}}
		for _, fi := range c.AllFuncDecls("rare/pkg/expressions/stdlib") {
			if strings.HasSuffix(c.Fset.Position(fi.Decl.Pos()).Filename, "funcsRange.go") {
				pe.scope[fi.Decl] = true
				for _, fl := range funcLitsIn(fi.Decl.Body) {
					pe.scope[fl] = true
				}
			}
		}
		pe.run("rare/pkg/expressions/stdlib")
		pe.emit(r, "C17-d", func(o panicOb) bool { return o.Kind == "loop" || o.Kind == "index" || o.Kind == "slice" })
		r.Floor("C17-d/loop", 6, "select, reduce, slice, range, for, filter, arrayOperator loops")
	}
}

// c17JoinLoops: `first; for { sep; elem }` - the unconditional separator form
// needs an element written before the loop on every path.
func c17JoinLoops(c *Ctx, r *Report) {
	const rule = "C17-a/join-loop"
	for _, fi := range c.AllFuncDecls("rare/pkg/expressions") {
		info := fi.Pkg.TypesInfo
		ast.Inspect(fi.Decl.Body, func(n ast.Node) bool {
			var body *ast.BlockStmt
			var loopStmt ast.Stmt
			switch t := n.(type) {
			case *ast.ForStmt:
				body, loopStmt = t.Body, t
			case *ast.RangeStmt:
				body, loopStmt = t.Body, t
			default:
				return true
			}
			// body = [write(sep), write(elem)] with both unconditional
			var writes []*ast.CallExpr
			for _, st := range body.List {
				if es, ok := st.(*ast.ExprStmt); ok {
					if ce, ok := es.X.(*ast.CallExpr); ok {
						if _, w := isWriteCall(info, ce); w {
							writes = append(writes, ce)
						}
					}
				}
			}
			if len(writes) != 2 || len(body.List) != 2 {
				return true
			}
			recv0, _ := isWriteCall(info, writes[0])
			recv1, _ := isWriteCall(info, writes[1])
			if recv0 != recv1 {
				return true
			}
			// first write is a separator (identifier/constant), second an element (call result)
			if _, isCall := ast.Unparen(writes[1].Args[0]).(*ast.CallExpr); !isCall {
				return true
			}
			if _, isCall := ast.Unparen(writes[0].Args[0]).(*ast.CallExpr); isCall {
				return true
			}
			// an element write to the same writer directly before the loop in the enclosing block
			okFirst := false
			ast.Inspect(fi.Decl.Body, func(m ast.Node) bool {
				blk, ok := m.(*ast.BlockStmt)
				if !ok {
					return true
				}
				for i, st := range blk.List {
					if st == loopStmt && i > 0 {
						if es, ok := blk.List[i-1].(*ast.ExprStmt); ok {
							if ce, ok := es.X.(*ast.CallExpr); ok {
								if rv, w := isWriteCall(info, ce); w && rv == recv0 {
									okFirst = true
								}
							}
						}
					}
				}
				return true
			})
			r.Check(okFirst, rule, fi.Name, exprStr(writes[0])+"; "+exprStr(writes[1]), c.Pos(loopStmt.Pos()), "shape: first element before the loop, then separator+element per iteration", "a loop writes separator then element unconditionally but no element is written right before the loop: the list starts with a separator")
			return true
		})
	}
	r.Floor(rule, 2, "kfJoin and arrayOperator")
}

func c17Splitter(c *Ctx, r *Report) {
	const rule = "C17-b/splitter-advance"
	fi := c.MustFunc(r, rule, splitterPkg, "(*Splitter).Next")
	if fi == nil {
		return
	}
	info := fi.Pkg.TypesInfo
	// idx := strings.Index(s.S[s.next:], s.Delim) ... s.next = idx + len(s.Delim)
	var idxObj types.Object
	var delim ast.Expr
	ast.Inspect(fi.Decl.Body, func(n ast.Node) bool {
		as, ok := n.(*ast.AssignStmt)
		if !ok || len(as.Lhs) != 1 || len(as.Rhs) != 1 {
			return true
		}
		if ce, ok := ast.Unparen(as.Rhs[0]).(*ast.CallExpr); ok && calleeName(info, ce) == "strings.Index" {
			idxObj = identObj(info, as.Lhs[0])
			delim = ce.Args[1]
		}
		return true
	})
	if idxObj == nil {
		r.Undecided(rule, fi.Name, "search", c.Pos(fi.Decl.Pos()), "strings.Index search not found")
		return
	}
	n := 0
	ast.Inspect(fi.Decl.Body, func(x ast.Node) bool {
		as, ok := x.(*ast.AssignStmt)
		if !ok || len(as.Lhs) != 1 || len(as.Rhs) != 1 || !fieldNamed(info, as.Lhs[0], "next") {
			return true
		}
		if v, isC := constInt(info, as.Rhs[0]); isC && v < 0 {
			return true // marks the splitter done
		}
		n++
		hasIdx, hasLen := false, false
		ast.Inspect(as.Rhs[0], func(y ast.Node) bool {
			if id, isId := y.(*ast.Ident); isId && info.Uses[id] == idxObj {
				hasIdx = true
			}
			if ce, isCall := y.(*ast.CallExpr); isCall && calleeName(info, ce) == "builtin.len" && exprStr(ce.Args[0]) == exprStr(delim) {
				hasLen = true
			}
			return true
		})
		r.Check(hasIdx && hasLen, rule, fi.Name, stmtStr(as), c.Pos(as.Pos()), "advance: position of the delimiter + len(that delimiter)", "after finding the delimiter the splitter advances by "+exprStr(as.Rhs[0])+" instead of the found position plus len("+exprStr(delim)+"): with a multi-character delimiter the rest of the delimiter leaks into the next element")
		return true
	})
	if n == 0 {
		r.Bad(rule, fi.Name, "advance", c.Pos(fi.Decl.Pos()), "the splitter never advances past a found delimiter")
	}
	if searchRebase(c, r, "C17-b/search-rebase", fi) == 0 {
		r.OK("C17-b/search-rebase", fi.Name, "scan", "-", "scan: no search inside a suffix with a non-zero start in this function")
	}
	r.Floor(rule, 1, "Splitter.Next")
}

func c17SubContext(c *Ctx, r *Report) {
	const rule = "C17-c/sub-context"
	const pkg = "rare/pkg/expressions/stdlib"
	if fi := c.MustFunc(r, rule, pkg, "(*subContext).GetKey"); fi != nil {
		info := fi.Pkg.TypesInfo
		ok := false
		ast.Inspect(fi.Decl.Body, func(n ast.Node) bool {
			if rs, isRet := n.(*ast.ReturnStmt); isRet && len(rs.Results) == 1 {
				if ce, isC := ast.Unparen(rs.Results[0]).(*ast.CallExpr); isC {
					if se, isS := ce.Fun.(*ast.SelectorExpr); isS && se.Sel.Name == "GetKey" {
						if fv := fieldVar(info, se.X); fv != nil && isKeyBuilderContext(fv.Type()) {
							ok = true
						}
					}
				}
			}
			return true
		})
		r.Check(ok, rule, fi.Name, "forwards GetKey to the parent", c.Pos(fi.Decl.Pos()), "flow: named keys resolve in the enclosing match", "named keys inside @map/@filter/@reduce are not resolved in the enclosing match")
	}
	if fi := c.MustFunc(r, rule, pkg, "(*subContext).Eval"); fi != nil {
		info := fi.Pkg.TypesInfo
		// vals[0] = first value param, vals[1] = second; stage(s)
		var params []types.Object
		for _, f := range fi.Decl.Type.Params.List {
			for _, id := range f.Names {
				params = append(params, info.Defs[id])
			}
		}
		ok0, ok1, okCall := false, false, false
		ast.Inspect(fi.Decl.Body, func(n ast.Node) bool {
			switch t := n.(type) {
			case *ast.AssignStmt:
				if len(t.Lhs) == len(t.Rhs) {
					for i := range t.Lhs {
						if ix, ok := ast.Unparen(t.Lhs[i]).(*ast.IndexExpr); ok && fieldNamed(info, ix.X, "vals") && len(params) == 3 {
							k, _ := constInt(info, ix.Index)
							if k == 0 && identObj(info, t.Rhs[i]) == params[1] {
								ok0 = true
							}
							if k == 1 && identObj(info, t.Rhs[i]) == params[2] {
								ok1 = true
							}
						}
					}
				}
			case *ast.CallExpr:
				if len(params) == 3 && identObj(info, t.Fun) == params[0] && len(t.Args) == 1 {
					if fi.Decl.Recv != nil && len(fi.Decl.Recv.List[0].Names) == 1 && identObj(info, t.Args[0]) == info.Defs[fi.Decl.Recv.List[0].Names[0]] {
						okCall = true
					}
				}
			}
			return true
		})
		r.Check(ok0 && ok1 && okCall, rule, fi.Name, "{0}=v0 {1}=v1 stage(s)", c.Pos(fi.Decl.Pos()), "flow: the two values are bound in order and the stage is evaluated against this sub-context", "subContext.Eval does not bind its first value to {0}, its second to {1} and evaluate the stage against itself")
	}
	// the pooled object is obtained inside the stage closure (per evaluation), not in the factory
	n := 0
	for _, fi := range c.AllFuncDecls(pkg, "rare/pkg/expressions/funcfile") {
		info := fi.Pkg.TypesInfo
		ast.Inspect(fi.Decl.Body, func(x ast.Node) bool {
			ce, ok := x.(*ast.CallExpr)
			if !ok {
				return true
			}
			if !isPoolCall(info, ce, "Get") {
				if _, arg, _ := poolAcquireWrapper(c, info, ce); arg < 0 {
					return true
				}
			} else if _, arg, _ := poolAcquireWrapperDecl(c, fi); arg >= 0 {
				return true // the Get inside an acquire wrapper: judged at the wrapper's call sites
			}
			n++
			inStage := false
			for _, fl := range funcLitsIn(fi.Decl.Body) {
				if within(fl.Body, ce.Pos()) && isStageLit(info, fl) {
					inStage = true
				}
			}
			r.Check(inStage, rule, fi.Name, exprStr(ce), c.Pos(ce.Pos()), "per-evaluation: the pooled context is taken inside the stage closure", "a pooled context is taken once when the expression is compiled and then shared by every evaluation: concurrent workers overwrite each other's {0}/{1} and parent (data race, wrong values)")
			return true
		})
	}
	r.Floor(rule, 8, "GetKey, Eval and the pool Get sites")
}

func c17NegativeIndex(c *Ctx, r *Report) {
	const rule = "C17-d/negative-index"
	const pkg = "rare/pkg/expressions/stdlib"
	for _, name := range []string{"kfArraySelect", "kfArraySlice"} {
		fi := c.MustFunc(r, rule, pkg, name)
		if fi == nil {
			continue
		}
		info := fi.Pkg.TypesInfo
		found := false
		ast.Inspect(fi.Decl.Body, func(n ast.Node) bool {
			is, ok := n.(*ast.IfStmt)
			if !ok {
				return true
			}
			be, ok := ast.Unparen(is.Cond).(*ast.BinaryExpr)
			if !ok || be.Op != token.LSS {
				return true
			}
			if v, isC := constInt(info, be.Y); !isC || v != 0 {
				return true
			}
			v := identObj(info, be.X)
			for _, st := range is.Body.List {
				as, ok := st.(*ast.AssignStmt)
				if !ok || as.Tok != token.ADD_ASSIGN || identObj(info, as.Lhs[0]) != v {
					continue
				}
				found = true
				// strings.Count(<split string>, <sep>) + 1
				okShape := false
				if add, isBin := ast.Unparen(as.Rhs[0]).(*ast.BinaryExpr); isBin && add.Op == token.ADD {
					for _, pair := range [][2]ast.Expr{{add.X, add.Y}, {add.Y, add.X}} {
						one, isC := constInt(info, pair[1])
						cnt, isCall := ast.Unparen(pair[0]).(*ast.CallExpr)
						if isC && one == 1 && isCall && calleeName(info, cnt) == "strings.Count" && len(cnt.Args) == 2 {
							if se, isSel := ast.Unparen(cnt.Args[0]).(*ast.SelectorExpr); isSel && se.Sel.Name == "S" {
								if isNamed(info.TypeOf(se.X), "rare/pkg/stringSplitter", "Splitter") {
									okShape = true
								}
							}
						}
					}
				}
				r.Check(okShape, rule, fi.Name, stmtStr(as), c.Pos(as.Pos()), "normalise: a negative index counts from the end of the very list that is split (Count(sep)+1 elements)", "a negative index is normalised with "+exprStr(as.Rhs[0])+" instead of the element count of the list being split")
			}
			return true
		})
		if !found {
			r.Bad(rule, fi.Name, "negative index", c.Pos(fi.Decl.Pos()), "no normalisation of a negative index: negative positions never select an element")
		}
	}
	r.Floor(rule, 2, "kfArraySelect and kfArraySlice")
}

// searchRebase: the offset returned by a search inside a suffix X[lo:] is
// relative to that suffix; before it is used as a position in X it must be
// re-based by that same lo (r + lo, r += lo). Applies to every search call in
// fn whose first argument is a slice expression with a non-zero low bound.
func searchRebase(c *Ctx, r *Report, rule string, fi *FuncInfo) int {
	info := fi.Pkg.TypesInfo
	n := 0
	isSearch := func(ce *ast.CallExpr) bool {
		name := calleeName(info, ce)
		if name == "" {
			if se, ok := ce.Fun.(*ast.SelectorExpr); ok {
				name = se.Sel.Name
			} else if id, ok := ce.Fun.(*ast.Ident); ok {
				name = id.Name
			}
		}
		if !strings.Contains(strings.ToLower(name), "index") {
			return false
		}
		if b, ok := info.TypeOf(ce).Underlying().(*types.Basic); !ok || b.Kind() != types.Int {
			return false
		}
		return len(ce.Args) >= 1
	}
	ast.Inspect(fi.Decl.Body, func(x ast.Node) bool {
		as, ok := x.(*ast.AssignStmt)
		if !ok || len(as.Lhs) != 1 || len(as.Rhs) != 1 {
			return true
		}
		ce, ok := ast.Unparen(as.Rhs[0]).(*ast.CallExpr)
		if !ok || !isSearch(ce) {
			return true
		}
		se, ok := unalias(info, fi.Decl, ce.Args[0]).(*ast.SliceExpr) // the suffix itself or a local naming it
		if !ok || se.Low == nil {
			return true
		}
		if v, isC := constInt(info, se.Low); isC && v == 0 {
			return true
		}
		res := identObj(info, as.Lhs[0])
		if res == nil {
			return true
		}
		n++
		lowTxt := exprStr(se.Low)
		// the low bound must still denote the same value when the result is re-based: it must not mention the result variable
		selfRef := false
		ast.Inspect(se.Low, func(y ast.Node) bool {
			if id, ok := y.(*ast.Ident); ok && info.Uses[id] == res {
				selfRef = true
			}
			return true
		})
		rebased := false
		ast.Inspect(fi.Decl.Body, func(y ast.Node) bool {
			switch t := y.(type) {
			case *ast.AssignStmt:
				if t.Tok == token.ADD_ASSIGN && len(t.Lhs) == 1 && identObj(info, t.Lhs[0]) == res && exprStr(t.Rhs[0]) == lowTxt {
					rebased = true
				}
				// lo += .. res ..: the position itself is advanced by the relative offset
				if t.Tok == token.ADD_ASSIGN && len(t.Lhs) == 1 && exprStr(t.Lhs[0]) == lowTxt {
					ast.Inspect(t.Rhs[0], func(z ast.Node) bool {
						if idn, ok := z.(*ast.Ident); ok && info.Uses[idn] == res {
							rebased = true
						}
						return true
					})
				}
			case *ast.BinaryExpr:
				if t.Op == token.ADD {
					// any + chain that contains both the result and the low bound
					var terms []ast.Expr
					var flat func(e ast.Expr)
					flat = func(e ast.Expr) {
						e = ast.Unparen(e)
						if b, ok := e.(*ast.BinaryExpr); ok && b.Op == token.ADD {
							flat(b.X)
							flat(b.Y)
							return
						}
						terms = append(terms, e)
					}
					flat(t)
					hasRes, hasLow := false, false
					for _, tm := range terms {
						if identObj(info, tm) == res {
							hasRes = true
						}
						if exprStr(tm) == lowTxt {
							hasLow = true
						}
					}
					if hasRes && hasLow {
						rebased = true
					}
				}
			}
			return true
		})
		r.Check(rebased && !selfRef, rule, fi.Name, stmtStr(as), c.Pos(as.Pos()), "advance: the offset found inside "+exprStr(se)+" is re-based by "+lowTxt,
			"the offset returned by the search inside "+exprStr(se)+" is relative to that suffix, but it is never re-based by "+lowTxt+" (or that bound is overwritten by the result): later positions are short by that amount, so elements are cut at the wrong place")
		return true
	})
	return n
}

// c12NilOnlyOnMiss (C12-b/nil-only-on-miss): by the specification a line fails
// to match only when the leading literal or some delimiter is not found. Every
// `return nil` of FindSubmatchIndex must therefore sit under the fact that the
// result of an index search is negative.
func c12NilOnlyOnMiss(c *Ctx, r *Report) {
	const rule = "C12-b/nil-only-on-miss"
	fi := c.MustFunc(r, rule, dissectPkg, "(*DissectInstance).FindSubmatchIndex")
	if fi == nil {
		return
	}
	info := fi.Pkg.TypesInfo
	vi := analyseVars(info, fi.Decl)
	fg := NewFGraph(fi.Decl.Body, info)
	fg.SolveFacts(vi)
	// variables assigned from a search call (callee or selector name contains "index", int result)
	searchVars := map[types.Object]bool{}
	ast.Inspect(fi.Decl.Body, func(x ast.Node) bool {
		as, ok := x.(*ast.AssignStmt)
		if !ok || len(as.Lhs) != 1 || len(as.Rhs) != 1 {
			return true
		}
		ce, ok := ast.Unparen(as.Rhs[0]).(*ast.CallExpr)
		if !ok {
			return true
		}
		name := calleeName(info, ce)
		if name == "" {
			if se, ok := ce.Fun.(*ast.SelectorExpr); ok {
				name = se.Sel.Name
			}
		}
		if strings.Contains(strings.ToLower(name), "index") {
			if o := identObj(info, as.Lhs[0]); o != nil {
				searchVars[o] = true
			}
		}
		return true
	})
	n := 0
	inspectNoLit(fi.Decl.Body, func(x ast.Node) bool {
		rs, ok := x.(*ast.ReturnStmt)
		if !ok || len(rs.Results) != 1 {
			return true
		}
		if id, ok := ast.Unparen(rs.Results[0]).(*ast.Ident); !ok || id.Name != "nil" {
			return true
		}
		n++
		miss := false
		for _, f := range fg.FactsAtPos(rs.Pos()) {
			be, ok := ast.Unparen(f.Cond).(*ast.BinaryExpr)
			if !ok || f.Tag != nil {
				continue
			}
			o := identObj(info, be.X)
			if o == nil || !searchVars[o] {
				continue
			}
			v, isC := constInt(info, be.Y)
			if !isC {
				continue
			}
			switch {
			case be.Op == token.LSS && v == 0 && f.Truth, be.Op == token.GEQ && v == 0 && !f.Truth,
				be.Op == token.EQL && v == -1 && f.Truth, be.Op == token.NEQ && v == -1 && !f.Truth,
				be.Op == token.LEQ && v == -1 && f.Truth, be.Op == token.GTR && v == -1 && !f.Truth:
				miss = true
			}
		}
		r.Check(miss, rule, fi.Name, "return nil", c.Pos(rs.Pos()), "guard: no match only where a literal was searched for and not found",
			"FindSubmatchIndex reports 'no match' on a path that is not a failed search for the leading literal or a delimiter (e.g. a length pre-check): lines the specification matches - such as lines whose captures are empty - are rejected")
		return true
	})
	r.Floor(rule, 2, "prefix miss and delimiter miss")
}
