package main

import (
	"go/ast"
	"go/constant"
	"go/token"
	"go/types"
	"strings"

	"golang.org/x/tools/go/packages"
	"golang.org/x/tools/go/types/typeutil"
)

func exprStr(e ast.Expr) string {
	if e == nil {
		return ""
	}
	return types.ExprString(e)
}

// calleeName returns the resolved callee of call in the form used by
// (*types.Func).FullName: "pkg/path.F", "(*pkg/path.T).M", "(pkg/path.T).M",
// or "builtin.name"; "" for dynamic calls and conversions.
func calleeName(info *types.Info, call *ast.CallExpr) string {
	if synthLen[call] {
		return "builtin.len"
	}
	obj := typeutil.Callee(info, call)
	switch o := obj.(type) {
	case *types.Func:
		if n, ok := renamedFunc[o.Origin()]; ok {
			return n // a renamed anchor answers to its frozen name
		}
		return o.FullName()
	case *types.Builtin:
		return "builtin." + o.Name()
	}
	return ""
}

func calleeFunc(info *types.Info, call *ast.CallExpr) *types.Func {
	f, _ := typeutil.Callee(info, call).(*types.Func)
	return f
}

// isConversion reports whether call is a type conversion.
func isConversion(info *types.Info, call *ast.CallExpr) bool {
	tv, ok := info.Types[call.Fun]
	return ok && tv.IsType()
}

// inspectNoLit walks n without descending into function literals.
func inspectNoLit(n ast.Node, f func(ast.Node) bool) {
	if n == nil {
		return
	}
	ast.Inspect(n, func(x ast.Node) bool {
		if x == nil {
			return false
		}
		if _, ok := x.(*ast.FuncLit); ok && x != n {
			return false
		}
		return f(x)
	})
}

// callsIn lists call expressions in n in source order (no function literals).
func callsIn(n ast.Node) []*ast.CallExpr {
	var out []*ast.CallExpr
	inspectNoLit(n, func(x ast.Node) bool {
		if c, ok := x.(*ast.CallExpr); ok {
			out = append(out, c)
		}
		return true
	})
	return out
}

// callsInDeep lists call expressions including those inside function literals.
func callsInDeep(n ast.Node) []*ast.CallExpr {
	var out []*ast.CallExpr
	ast.Inspect(n, func(x ast.Node) bool {
		if c, ok := x.(*ast.CallExpr); ok {
			out = append(out, c)
		}
		return true
	})
	return out
}

// fieldVar resolves a selector expression to the struct field it denotes.
func fieldVar(info *types.Info, e ast.Expr) *types.Var {
	e = ast.Unparen(e)
	sel, ok := e.(*ast.SelectorExpr)
	if !ok {
		return nil
	}
	if s, ok := info.Selections[sel]; ok && s.Kind() == types.FieldVal {
		v, _ := s.Obj().(*types.Var)
		if v != nil {
			// a field selected through an instantiated generic type (s.pool inside a method of
			// ObjectPool[T]) is a distinct object from the declared field: always use the declaration
			return v.Origin()
		}
		return v
	}
	return nil
}

// identObj resolves an identifier expression to its object.
func identObj(info *types.Info, e ast.Expr) types.Object {
	e = ast.Unparen(e)
	id, ok := e.(*ast.Ident)
	if !ok {
		return nil
	}
	if o := info.Uses[id]; o != nil {
		return o
	}
	return info.Defs[id]
}

// fieldFullName renders a field as "pkgpath.Type.field" given its owner name.
func fieldOwner(v *types.Var, pkgs []*packages.Package) string {
	if v == nil || !v.IsField() {
		return ""
	}
	for _, p := range pkgs {
		if p.Types != v.Pkg() {
			continue
		}
		sc := p.Types.Scope()
		for _, n := range sc.Names() {
			tn, ok := sc.Lookup(n).(*types.TypeName)
			if !ok {
				continue
			}
			st, ok := tn.Type().Underlying().(*types.Struct)
			if !ok {
				continue
			}
			for i := 0; i < st.NumFields(); i++ {
				if st.Field(i).Origin() == v {
					return p.PkgPath + "." + n + "." + v.Name()
				}
			}
		}
	}
	return v.Pkg().Path() + ".?." + v.Name()
}

// constInt evaluates e to an integer constant if the type checker could.
func constInt(info *types.Info, e ast.Expr) (int64, bool) {
	tv, ok := info.Types[e]
	if !ok || tv.Value == nil {
		return 0, false
	}
	v := constant.ToInt(tv.Value)
	if v.Kind() != constant.Int {
		return 0, false
	}
	i, exact := constant.Int64Val(v)
	return i, exact
}

func constString(info *types.Info, e ast.Expr) (string, bool) {
	tv, ok := info.Types[e]
	if !ok || tv.Value == nil || tv.Value.Kind() != constant.String {
		return "", false
	}
	return constant.StringVal(tv.Value), true
}

func isIntegerType(t types.Type) bool {
	b, ok := t.Underlying().(*types.Basic)
	return ok && b.Info()&types.IsInteger != 0
}

func isUnsignedType(t types.Type) bool {
	b, ok := t.Underlying().(*types.Basic)
	return ok && b.Info()&types.IsUnsigned != 0
}

// rootIdent returns the identifier at the root of a selector/index chain.
func rootIdent(e ast.Expr) *ast.Ident {
	for {
		switch t := ast.Unparen(e).(type) {
		case *ast.Ident:
			return t
		case *ast.SelectorExpr:
			e = t.X
		case *ast.IndexExpr:
			e = t.X
		case *ast.SliceExpr:
			e = t.X
		case *ast.StarExpr:
			e = t.X
		case *ast.UnaryExpr:
			if t.Op == token.AND {
				e = t.X
				continue
			}
			return nil
		case *ast.CallExpr:
			return nil
		default:
			return nil
		}
	}
}

// identsIn lists the objects of identifiers used in e.
func identsIn(info *types.Info, e ast.Node) []types.Object {
	var out []types.Object
	ast.Inspect(e, func(n ast.Node) bool {
		if id, ok := n.(*ast.Ident); ok {
			if o := info.Uses[id]; o != nil {
				out = append(out, o)
			}
		}
		return true
	})
	return out
}

// enclosingFuncs returns for every node position the stack of function bodies;
// here we only need: is pos inside node n.
func within(n ast.Node, pos token.Pos) bool {
	return n != nil && n.Pos() <= pos && pos < n.End()
}

// funcLitsIn lists function literals directly or transitively inside n.
func funcLitsIn(n ast.Node) []*ast.FuncLit {
	var out []*ast.FuncLit
	ast.Inspect(n, func(x ast.Node) bool {
		if fl, ok := x.(*ast.FuncLit); ok {
			out = append(out, fl)
		}
		return true
	})
	return out
}

// isNamed reports whether t (after pointer removal) is the named type pkg.name.
func isNamed(t types.Type, pkgPath, name string) bool {
	if p, ok := t.(*types.Pointer); ok {
		t = p.Elem()
	}
	if a, ok := t.(*types.Alias); ok {
		t = types.Unalias(a)
	}
	n, ok := t.(*types.Named)
	if !ok {
		return false
	}
	o := n.Obj()
	return o.Name() == name && o.Pkg() != nil && o.Pkg().Path() == pkgPath
}

func namedOf(t types.Type) *types.Named {
	if p, ok := t.(*types.Pointer); ok {
		t = p.Elem()
	}
	t = types.Unalias(t)
	n, _ := t.(*types.Named)
	return n
}

func typeStr(t types.Type) string {
	return types.TypeString(t, func(p *types.Package) string { return p.Path() })
}

func hasPrefixAny(s string, pre ...string) bool {
	for _, p := range pre {
		if strings.HasPrefix(s, p) {
			return true
		}
	}
	return false
}

// fileOf returns the syntax file of p that contains pos.
func fileOf(p *packages.Package, pos token.Pos) *ast.File {
	for _, f := range p.Syntax {
		if f.Pos() <= pos && pos < f.End() {
			return f
		}
	}
	return nil
}

// aliasDef resolves a use of a single-assignment local to the expression it
// was defined with: `rest := str[start:]; .. f(rest)` reads as f(str[start:]).
// Conditions: the variable has exactly one assignment in root (its `:=`
// definition with one right-hand side), the definition precedes the use, both
// lie in the same innermost loop body (so the definition is re-evaluated
// whenever the use is), and no variable mentioned by the definition is assigned
// between the two. Returns nil when e is not such a use.
func aliasDef(info *types.Info, root ast.Node, e ast.Expr) ast.Expr {
	id, ok := ast.Unparen(e).(*ast.Ident)
	if !ok {
		return nil
	}
	o, _ := info.Uses[id].(*types.Var)
	if o == nil || o.IsField() {
		return nil
	}
	var def *ast.AssignStmt
	var rhs ast.Expr
	n := 0
	ast.Inspect(root, func(x ast.Node) bool {
		switch t := x.(type) {
		case *ast.AssignStmt:
			for i, l := range t.Lhs {
				if identObj(info, l) == o {
					n++
					if t.Tok == token.DEFINE && len(t.Lhs) == len(t.Rhs) {
						def, rhs = t, t.Rhs[i]
					}
				}
			}
		case *ast.IncDecStmt:
			if identObj(info, t.X) == o {
				n++
			}
		case *ast.RangeStmt:
			if identObj(info, t.Key) == o || identObj(info, t.Value) == o {
				n++
			}
		case *ast.UnaryExpr:
			if t.Op == token.AND && identObj(info, t.X) == o {
				n += 2
			}
		}
		return true
	})
	if n != 1 || def == nil || def.Pos() >= id.Pos() {
		return nil
	}
	if innermostLoop(root, def.Pos()) != innermostLoop(root, id.Pos()) {
		return nil
	}
	// operands unchanged between definition and use
	ops := map[types.Object]bool{}
	fields := map[string]bool{}
	bad := false
	ast.Inspect(rhs, func(x ast.Node) bool {
		switch t := x.(type) {
		case *ast.Ident:
			if v, ok := info.Uses[t].(*types.Var); ok && !v.IsField() {
				ops[v] = true
			}
		case *ast.SelectorExpr:
			if fv := fieldVar(info, t); fv != nil {
				fields[fv.Name()] = true
			}
		case *ast.CallExpr:
			if nme := calleeName(info, t); nme != "builtin.len" && nme != "builtin.cap" && !isConversion(info, t) {
				bad = true
			}
		}
		return true
	})
	if bad {
		return nil
	}
	// Statements between definition and use. An operand may be advanced by `X += E` / `X -= E`
	// (a sibling statement of the definition, E unchanged afterwards): the alias then equals the
	// definition with X replaced by X - E / X + E (update compensation).
	type comp struct {
		target string
		op     token.Token
		e      ast.Expr
		pos    token.Pos
	}
	var comps []comp
	siblingOfDef := func(st ast.Stmt) bool {
		ok := false
		ast.Inspect(root, func(x ast.Node) bool {
			var list []ast.Stmt
			switch b := x.(type) {
			case *ast.BlockStmt:
				list = b.List
			case *ast.CaseClause:
				list = b.Body
			case *ast.CommClause:
				list = b.Body
			}
			hasDef, hasSt := false, false
			for _, s := range list {
				if s == ast.Stmt(def) {
					hasDef = true
				}
				if s == st {
					hasSt = true
				}
			}
			if hasDef && hasSt {
				ok = true
			}
			return true
		})
		return ok
	}
	pureOperand := func(e ast.Expr) bool {
		p := true
		ast.Inspect(e, func(x ast.Node) bool {
			if ce, ok := x.(*ast.CallExpr); ok {
				if nme := calleeName(info, ce); nme != "builtin.len" && nme != "builtin.cap" && !isConversion(info, ce) {
					p = false
				}
			}
			return true
		})
		return p
	}
	// a call can re-bind the fields the definition reads only if it can reach the object that owns
	// them: the owner itself is the receiver or an argument (calls on other values, e.g. the
	// underlying reader, are assumed not to re-enter - the assumption stated for C04)
	owners := map[types.Object]bool{}
	ast.Inspect(rhs, func(x ast.Node) bool {
		if se, ok := x.(*ast.SelectorExpr); ok && fieldVar(info, se) != nil {
			if o := identObj(info, se.X); o != nil {
				owners[o] = true
			}
		}
		return true
	})
	callTouchesOwner := func(ce *ast.CallExpr) bool {
		if se, ok := ce.Fun.(*ast.SelectorExpr); ok && fieldVar(info, se) == nil { // a method of the owner (a callback stored in a field is not)
			if o := identObj(info, se.X); o != nil && owners[o] {
				return true
			}
		}
		for _, a := range ce.Args {
			a = ast.Unparen(a)
			if ue, ok := a.(*ast.UnaryExpr); ok && ue.Op == token.AND {
				a = ast.Unparen(ue.X)
			}
			if o := identObj(info, a); o != nil && owners[o] {
				return true
			}
		}
		if _, isLit := ast.Unparen(ce.Fun).(*ast.FuncLit); isLit {
			return true
		}
		if calleeName(info, ce) == "" {
			if _, isSel := ce.Fun.(*ast.SelectorExpr); !isSel {
				return true // dynamic call of a local function value: may be a closure over the owner
			}
		}
		return false
	}
	ast.Inspect(root, func(x ast.Node) bool {
		if x == nil || x.Pos() <= def.Pos() || x.Pos() >= id.Pos() {
			return true
		}
		switch t := x.(type) {
		case *ast.AssignStmt:
			for _, l := range t.Lhs {
				hit := ops[identObj(info, l)]
				if fv := fieldVar(info, l); fv != nil && fields[fv.Name()] {
					hit = true
				}
				if !hit {
					continue
				}
				if (t.Tok == token.ADD_ASSIGN || t.Tok == token.SUB_ASSIGN) && len(t.Lhs) == 1 && len(t.Rhs) == 1 && siblingOfDef(t) && pureOperand(t.Rhs[0]) {
					comps = append(comps, comp{exprStr(l), t.Tok, t.Rhs[0], t.Pos()})
				} else {
					bad = true
				}
			}
		case *ast.IncDecStmt:
			if ops[identObj(info, t.X)] {
				bad = true
			}
			if fv := fieldVar(info, t.X); fv != nil && fields[fv.Name()] {
				bad = true
			}
		case *ast.CallExpr:
			if within(t, id.Pos()) {
				return true // the use is an operand of this call: evaluated before the call runs
			}
			if len(fields) > 0 && !isConversion(info, t) {
				if nme := calleeName(info, t); nme != "builtin.len" && nme != "builtin.cap" && callTouchesOwner(t) {
					bad = true // a call that can reach the owner may re-bind the fields the definition reads
				}
			}
		}
		return true
	})
	if !bad && len(comps) > 0 {
		// one compensation per target, and the operands of E are not assigned between the update and the use
		seen := map[string]bool{}
		for _, cp := range comps {
			if seen[cp.target] {
				bad = true
			}
			seen[cp.target] = true
			eops := map[types.Object]bool{}
			ast.Inspect(cp.e, func(x ast.Node) bool {
				if idn, ok := x.(*ast.Ident); ok {
					if v, ok := info.Uses[idn].(*types.Var); ok {
						eops[v] = true
					}
				}
				return true
			})
			ast.Inspect(root, func(x ast.Node) bool {
				if x == nil || x.Pos() <= cp.pos || x.Pos() >= id.Pos() {
					return true
				}
				switch t := x.(type) {
				case *ast.AssignStmt:
					for _, l := range t.Lhs {
						if eops[identObj(info, l)] {
							bad = true
						}
					}
				case *ast.IncDecStmt:
					if eops[identObj(info, t.X)] {
						bad = true
					}
				}
				return true
			})
		}
		if !bad {
			var sub func(e ast.Expr) ast.Expr
			sub = func(e ast.Expr) ast.Expr {
				for _, cp := range comps {
					if exprStr(e) == cp.target {
						op := token.SUB
						if cp.op == token.SUB_ASSIGN {
							op = token.ADD
						}
						var y ast.Expr = cp.e
						if _, isBin := ast.Unparen(y).(*ast.BinaryExpr); isBin {
							y = &ast.ParenExpr{X: y}
						}
						return &ast.ParenExpr{X: &ast.BinaryExpr{X: e, Op: op, Y: y}}
					}
				}
				switch t := e.(type) {
				case *ast.ParenExpr:
					return &ast.ParenExpr{X: sub(t.X)}
				case *ast.BinaryExpr:
					return &ast.BinaryExpr{X: sub(t.X), Op: t.Op, Y: sub(t.Y)}
				case *ast.UnaryExpr:
					return &ast.UnaryExpr{Op: t.Op, X: sub(t.X)}
				case *ast.CallExpr:
					args := make([]ast.Expr, len(t.Args))
					for i, a := range t.Args {
						args[i] = sub(a)
					}
					return &ast.CallExpr{Fun: t.Fun, Args: args}
				}
				return e
			}
			return sub(rhs)
		}
	}
	if bad {
		return nil
	}
	return rhs
}

// innermostLoop returns the innermost for/range statement of root whose body
// contains pos (nil when none).
func innermostLoop(root ast.Node, pos token.Pos) ast.Node {
	var best ast.Node
	ast.Inspect(root, func(x ast.Node) bool {
		var body *ast.BlockStmt
		switch t := x.(type) {
		case *ast.ForStmt:
			body = t.Body
		case *ast.RangeStmt:
			body = t.Body
		}
		if body != nil && within(body, pos) {
			best = x
		}
		return true
	})
	return best
}

// unalias follows aliasDef until e is no longer an aliased local (at most 4 steps).
func unalias(info *types.Info, root ast.Node, e ast.Expr) ast.Expr {
	for i := 0; i < 4; i++ {
		d := aliasDef(info, root, e)
		if d == nil {
			break
		}
		e = d
	}
	return ast.Unparen(e)
}

// inlineAliases rewrites e with every aliased single-assignment local (see
// aliasDef) replaced by its definition; parentheses are added where the
// definition binds less tightly than its new context. Returns e itself when
// nothing was replaced.
func inlineAliases(info *types.Info, root ast.Node, e ast.Expr) ast.Expr {
	changed := false
	var rw func(e ast.Expr, depth int) ast.Expr
	prec := func(e ast.Expr) int {
		if be, ok := e.(*ast.BinaryExpr); ok {
			return be.Op.Precedence()
		}
		return 10
	}
	rw = func(e ast.Expr, depth int) ast.Expr {
		if e == nil || depth > 6 {
			return e
		}
		switch t := e.(type) {
		case *ast.Ident:
			if d := aliasDef(info, root, t); d != nil {
				changed = true
				return rw(ast.Unparen(d), depth+1)
			}
			return t
		case *ast.ParenExpr:
			return &ast.ParenExpr{X: rw(t.X, depth)}
		case *ast.BinaryExpr:
			x, y := rw(t.X, depth), rw(t.Y, depth)
			if prec(x) < t.Op.Precedence() {
				x = &ast.ParenExpr{X: x}
			}
			if prec(y) <= t.Op.Precedence() {
				if _, isBin := y.(*ast.BinaryExpr); isBin {
					y = &ast.ParenExpr{X: y}
				}
			}
			return &ast.BinaryExpr{X: x, Op: t.Op, Y: y}
		case *ast.UnaryExpr:
			x := rw(t.X, depth)
			if _, isBin := x.(*ast.BinaryExpr); isBin {
				x = &ast.ParenExpr{X: x}
			}
			return &ast.UnaryExpr{Op: t.Op, X: x}
		case *ast.IndexExpr:
			return &ast.IndexExpr{X: rw(t.X, depth), Index: rw(t.Index, depth)}
		case *ast.SliceExpr:
			return &ast.SliceExpr{X: rw(t.X, depth), Low: rw(t.Low, depth), High: rw(t.High, depth), Max: rw(t.Max, depth), Slice3: t.Slice3}
		case *ast.CallExpr:
			args := make([]ast.Expr, len(t.Args))
			for i, a := range t.Args {
				args[i] = rw(a, depth)
			}
			return &ast.CallExpr{Fun: t.Fun, Args: args, Ellipsis: t.Ellipsis}
		case *ast.SelectorExpr:
			return &ast.SelectorExpr{X: rw(t.X, depth), Sel: t.Sel}
		case *ast.StarExpr:
			return &ast.StarExpr{X: rw(t.X, depth)}
		}
		return e
	}
	out := rw(e, 0)
	if !changed {
		return e
	}
	return out
}

// byteAsRuneSites lists conversions rune(x) where x is a non-constant value
// of type byte: a single byte of UTF-8 text is not a code point, so treating
// it as one mangles (or misclassifies) every non-ASCII character. asciiKnown
// is asked whether x is known to be < 0x80 at that position.
func byteAsRuneSites(info *types.Info, body ast.Node, asciiKnown func(arg ast.Expr, pos token.Pos) bool) []*ast.CallExpr {
	var out []*ast.CallExpr
	ast.Inspect(body, func(x ast.Node) bool {
		ce, ok := x.(*ast.CallExpr)
		if !ok || !isConversion(info, ce) || len(ce.Args) != 1 {
			return true
		}
		to, ok1 := info.TypeOf(ce).Underlying().(*types.Basic)
		from, ok2 := info.TypeOf(ce.Args[0]).Underlying().(*types.Basic)
		if !ok1 || !ok2 || to.Kind() != types.Int32 || from.Kind() != types.Uint8 {
			return true
		}
		if tv, ok := info.Types[ce.Args[0]]; ok && tv.Value != nil {
			return true
		}
		if asciiKnown != nil && asciiKnown(ce.Args[0], ce.Pos()) {
			return true
		}
		out = append(out, ce)
		return true
	})
	return out
}

// privateOwner: when fd is an unexported function or method of package p that
// is only ever called (never used as a value) and all of whose calls come from
// one other function - directly or through further such helpers - returns
// that function's declaration; nil otherwise.
func privateOwner(p *packagesPkg, fd *ast.FuncDecl) *ast.FuncDecl {
	info := p.TypesInfo
	cur := fd
	for depth := 0; depth < 4; depth++ {
		if cur.Name.IsExported() {
			break
		}
		obj := info.Defs[cur.Name]
		var callers []*ast.FuncDecl
		asValue := false
		for _, f := range p.Syntax {
			for _, d := range f.Decls {
				cd, ok := d.(*ast.FuncDecl)
				if !ok || cd.Body == nil {
					continue
				}
				inCall := map[*ast.Ident]bool{}
				calls := false
				ast.Inspect(cd.Body, func(n ast.Node) bool {
					if ce, ok := n.(*ast.CallExpr); ok {
						if f := calleeFunc(info, ce); f != nil && f.Origin() == obj {
							calls = true
							switch fn := ast.Unparen(ce.Fun).(type) {
							case *ast.Ident:
								inCall[fn] = true
							case *ast.SelectorExpr:
								inCall[fn.Sel] = true
							}
						}
					}
					return true
				})
				ast.Inspect(cd.Body, func(n ast.Node) bool {
					if id, ok := n.(*ast.Ident); ok && info.Uses[id] == obj && !inCall[id] {
						asValue = true
					}
					return true
				})
				if calls {
					callers = append(callers, cd)
				}
			}
		}
		if asValue || len(callers) != 1 || callers[0] == cur {
			if cur == fd {
				return nil
			}
			return cur
		}
		cur = callers[0]
	}
	if cur == fd {
		return nil
	}
	return cur
}

// isAnchorCall: the call's static callee is the (possibly renamed) anchor function.
func isAnchorCall(c *Ctx, info *types.Info, ce *ast.CallExpr, pkgPath, name string) bool {
	f := calleeFunc(info, ce)
	if f == nil {
		return false
	}
	fi := c.Func(pkgPath, name)
	return fi != nil && f.Origin() == fi.Obj
}
