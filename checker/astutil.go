package main

import (
	"go/ast"
	"go/constant"
	"go/token"
	"go/types"
	"strings"

	"golang.org/x/tools/go/packages"
	"golang.org/x/tools/go/types/typeutil"
)

func exprStr(e ast.Expr) string {
	if e == nil {
		return ""
	}
	return types.ExprString(e)
}

// calleeName returns the resolved callee of call in the form used by
// (*types.Func).FullName: "pkg/path.F", "(*pkg/path.T).M", "(pkg/path.T).M",
// or "builtin.name"; "" for dynamic calls and conversions.
func calleeName(info *types.Info, call *ast.CallExpr) string {
	obj := typeutil.Callee(info, call)
	switch o := obj.(type) {
	case *types.Func:
		return o.FullName()
	case *types.Builtin:
		return "builtin." + o.Name()
	}
	return ""
}

func calleeFunc(info *types.Info, call *ast.CallExpr) *types.Func {
	f, _ := typeutil.Callee(info, call).(*types.Func)
	return f
}

// isConversion reports whether call is a type conversion.
func isConversion(info *types.Info, call *ast.CallExpr) bool {
	tv, ok := info.Types[call.Fun]
	return ok && tv.IsType()
}

// inspectNoLit walks n without descending into function literals.
func inspectNoLit(n ast.Node, f func(ast.Node) bool) {
	if n == nil {
		return
	}
	ast.Inspect(n, func(x ast.Node) bool {
		if x == nil {
			return false
		}
		if _, ok := x.(*ast.FuncLit); ok && x != n {
			return false
		}
		return f(x)
	})
}

// callsIn lists call expressions in n in source order (no function literals).
func callsIn(n ast.Node) []*ast.CallExpr {
	var out []*ast.CallExpr
	inspectNoLit(n, func(x ast.Node) bool {
		if c, ok := x.(*ast.CallExpr); ok {
			out = append(out, c)
		}
		return true
	})
	return out
}

// callsInDeep lists call expressions including those inside function literals.
func callsInDeep(n ast.Node) []*ast.CallExpr {
	var out []*ast.CallExpr
	ast.Inspect(n, func(x ast.Node) bool {
		if c, ok := x.(*ast.CallExpr); ok {
			out = append(out, c)
		}
		return true
	})
	return out
}

// fieldVar resolves a selector expression to the struct field it denotes.
func fieldVar(info *types.Info, e ast.Expr) *types.Var {
	e = ast.Unparen(e)
	sel, ok := e.(*ast.SelectorExpr)
	if !ok {
		return nil
	}
	if s, ok := info.Selections[sel]; ok && s.Kind() == types.FieldVal {
		v, _ := s.Obj().(*types.Var)
		return v
	}
	return nil
}

// identObj resolves an identifier expression to its object.
func identObj(info *types.Info, e ast.Expr) types.Object {
	e = ast.Unparen(e)
	id, ok := e.(*ast.Ident)
	if !ok {
		return nil
	}
	if o := info.Uses[id]; o != nil {
		return o
	}
	return info.Defs[id]
}

// fieldFullName renders a field as "pkgpath.Type.field" given its owner name.
func fieldOwner(v *types.Var, pkgs []*packages.Package) string {
	if v == nil || !v.IsField() {
		return ""
	}
	for _, p := range pkgs {
		if p.Types != v.Pkg() {
			continue
		}
		sc := p.Types.Scope()
		for _, n := range sc.Names() {
			tn, ok := sc.Lookup(n).(*types.TypeName)
			if !ok {
				continue
			}
			st, ok := tn.Type().Underlying().(*types.Struct)
			if !ok {
				continue
			}
			for i := 0; i < st.NumFields(); i++ {
				if st.Field(i) == v {
					return p.PkgPath + "." + n + "." + v.Name()
				}
			}
		}
	}
	return v.Pkg().Path() + ".?." + v.Name()
}

// constInt evaluates e to an integer constant if the type checker could.
func constInt(info *types.Info, e ast.Expr) (int64, bool) {
	tv, ok := info.Types[e]
	if !ok || tv.Value == nil {
		return 0, false
	}
	v := constant.ToInt(tv.Value)
	if v.Kind() != constant.Int {
		return 0, false
	}
	i, exact := constant.Int64Val(v)
	return i, exact
}

func constString(info *types.Info, e ast.Expr) (string, bool) {
	tv, ok := info.Types[e]
	if !ok || tv.Value == nil || tv.Value.Kind() != constant.String {
		return "", false
	}
	return constant.StringVal(tv.Value), true
}

func isIntegerType(t types.Type) bool {
	b, ok := t.Underlying().(*types.Basic)
	return ok && b.Info()&types.IsInteger != 0
}

func isUnsignedType(t types.Type) bool {
	b, ok := t.Underlying().(*types.Basic)
	return ok && b.Info()&types.IsUnsigned != 0
}

// rootIdent returns the identifier at the root of a selector/index chain.
func rootIdent(e ast.Expr) *ast.Ident {
	for {
		switch t := ast.Unparen(e).(type) {
		case *ast.Ident:
			return t
		case *ast.SelectorExpr:
			e = t.X
		case *ast.IndexExpr:
			e = t.X
		case *ast.SliceExpr:
			e = t.X
		case *ast.StarExpr:
			e = t.X
		case *ast.UnaryExpr:
			if t.Op == token.AND {
				e = t.X
				continue
			}
			return nil
		case *ast.CallExpr:
			return nil
		default:
			return nil
		}
	}
}

// identsIn lists the objects of identifiers used in e.
func identsIn(info *types.Info, e ast.Node) []types.Object {
	var out []types.Object
	ast.Inspect(e, func(n ast.Node) bool {
		if id, ok := n.(*ast.Ident); ok {
			if o := info.Uses[id]; o != nil {
				out = append(out, o)
			}
		}
		return true
	})
	return out
}

// enclosingFuncs returns for every node position the stack of function bodies;
// here we only need: is pos inside node n.
func within(n ast.Node, pos token.Pos) bool {
	return n != nil && n.Pos() <= pos && pos < n.End()
}

// funcLitsIn lists function literals directly or transitively inside n.
func funcLitsIn(n ast.Node) []*ast.FuncLit {
	var out []*ast.FuncLit
	ast.Inspect(n, func(x ast.Node) bool {
		if fl, ok := x.(*ast.FuncLit); ok {
			out = append(out, fl)
		}
		return true
	})
	return out
}

// isNamed reports whether t (after pointer removal) is the named type pkg.name.
func isNamed(t types.Type, pkgPath, name string) bool {
	if p, ok := t.(*types.Pointer); ok {
		t = p.Elem()
	}
	if a, ok := t.(*types.Alias); ok {
		t = types.Unalias(a)
	}
	n, ok := t.(*types.Named)
	if !ok {
		return false
	}
	o := n.Obj()
	return o.Name() == name && o.Pkg() != nil && o.Pkg().Path() == pkgPath
}

func namedOf(t types.Type) *types.Named {
	if p, ok := t.(*types.Pointer); ok {
		t = p.Elem()
	}
	t = types.Unalias(t)
	n, _ := t.(*types.Named)
	return n
}

func typeStr(t types.Type) string {
	return types.TypeString(t, func(p *types.Package) string { return p.Path() })
}

func hasPrefixAny(s string, pre ...string) bool {
	for _, p := range pre {
		if strings.HasPrefix(s, p) {
			return true
		}
	}
	return false
}

// fileOf returns the syntax file of p that contains pos.
func fileOf(p *packages.Package, pos token.Pos) *ast.File {
	for _, f := range p.Syntax {
		if f.Pos() <= pos && pos < f.End() {
			return f
		}
	}
	return nil
}
