package main

// E-MAPORDER: every `range` over a map must either have an order-insensitive
// body or feed a slice that is sorted before anything else looks at it.

import (
	"fmt"
	"go/ast"
	"go/token"
	"go/types"
	"strings"
)

type mapLoop struct {
	Fi      *FuncInfo
	Rs      *ast.RangeStmt
	Verdict string // insensitive | sorted | violation
	Why     string
}

var sortCallees = map[string]bool{
	"sort.Strings": true, "sort.Ints": true, "sort.Float64s": true, "sort.Slice": true, "sort.SliceStable": true, "sort.Sort": true, "sort.Stable": true,
	"slices.Sort": true, "slices.SortFunc": true, "slices.SortStableFunc": true,
	"rare/pkg/aggregation/sorting.Sort": true, "rare/pkg/aggregation/sorting.SortBy": true,
}

func isSortCallOn(info *types.Info, call *ast.CallExpr, obj types.Object) bool {
	f := calleeFunc(info, call)
	if f == nil {
		return false
	}
	name := f.Origin().FullName()
	if !sortCallees[name] || len(call.Args) == 0 {
		return false
	}
	a := ast.Unparen(call.Args[0])
	// sort.Sort(sort.StringSlice(x)) style conversions
	if ce, ok := a.(*ast.CallExpr); ok && len(ce.Args) == 1 {
		a = ast.Unparen(ce.Args[0])
	}
	return identObj(info, a) == obj && sortIsTotal(info, call, name)
}

// sortIsTotal: a sort with a comparator literal only fixes the order of the
// collected keys when the comparator can tell distinct keys apart. A literal
// whose every comparison is made on derived values (strings.ToLower(x[i]) <
// strings.ToLower(x[j]), len(..) < len(..)) leaves ties - distinct keys with
// the same derived value - in the order they came out of the map. Named
// comparators are the business of C13.
func sortIsTotal(info *types.Info, call *ast.CallExpr, name string) bool {
	switch name {
	case "sort.Slice", "sort.SliceStable", "slices.SortFunc", "slices.SortStableFunc":
	default:
		return true
	}
	if len(call.Args) < 2 {
		return true
	}
	fl, ok := ast.Unparen(call.Args[1]).(*ast.FuncLit)
	if !ok {
		return true
	}
	raw, any := false, false
	ast.Inspect(fl.Body, func(n ast.Node) bool {
		switch t := n.(type) {
		case *ast.BinaryExpr:
			switch t.Op {
			case token.LSS, token.GTR, token.LEQ, token.GEQ:
				any = true
				if !containsCall(t.X) && !containsCall(t.Y) {
					raw = true
				}
			}
		case *ast.CallExpr:
			if f := calleeFunc(info, t); f != nil {
				switch f.Origin().FullName() {
				case "strings.Compare", "cmp.Compare", "bytes.Compare":
					any = true
					if len(t.Args) == 2 && !containsCall(t.Args[0]) && !containsCall(t.Args[1]) {
						raw = true
					}
				}
			}
		}
		return true
	})
	return raw || !any
}

// analyseMapLoops classifies every range-over-map in the given packages.
func analyseMapLoops(c *Ctx, prefixes ...string) []mapLoop {
	var out []mapLoop
	for _, fi := range c.AllFuncDecls(prefixes...) {
		if isTestSupportPkg(fi.Pkg.PkgPath) {
			continue
		}
		info := fi.Pkg.TypesInfo
		ast.Inspect(fi.Decl.Body, func(n ast.Node) bool {
			rs, ok := n.(*ast.RangeStmt)
			if !ok {
				return true
			}
			if _, isMap := info.TypeOf(rs.X).Underlying().(*types.Map); !isMap {
				return true
			}
			ml := mapLoop{Fi: fi, Rs: rs}
			ml.Verdict, ml.Why = classifyMapLoop(c, fi, rs, 0)
			out = append(out, ml)
			return true
		})
	}
	return out
}

func classifyMapLoop(c *Ctx, fi *FuncInfo, rs *ast.RangeStmt, depth int) (string, string) {
	info := fi.Pkg.TypesInfo
	keyObj, valObj := identObj(info, rs.Key), types.Object(nil)
	if rs.Value != nil {
		valObj = identObj(info, rs.Value)
	}
	declaredInLoop := func(o types.Object) bool { return o != nil && within(rs, o.Pos()) }
	var appended []types.Object // outer slices that are appended to
	var sensitive []string
	var walk func(st ast.Stmt)
	checkExprCalls := func(e ast.Node) {
		inspectNoLit(e, func(x ast.Node) bool {
			ce, ok := x.(*ast.CallExpr)
			if !ok || isConversion(info, ce) {
				return true
			}
			name := calleeName(info, ce)
			if strings.HasPrefix(name, "builtin.") || pureStdlib(name) || hasPrefixAny(name, "strings.", "strconv.", "fmt.Sprintf", "math.") {
				return true
			}
			if name == "" {
				// dynamic call: a function-typed parameter (callback) is accepted when every
				// caller passes a literal that writes nothing but its own locals
				if id, ok := ast.Unparen(ce.Fun).(*ast.Ident); ok {
					if why := callbackPure(c, fi, info.Uses[id]); why == "" {
						return true
					}
				}
				sensitive = append(sensitive, "dynamic call "+exprStr(ce.Fun))
				return true
			}
			f := calleeFunc(info, ce)
			if f != nil && c.IsRarePkg(f.Pkg()) {
				// method on the loop value, or a callee whose effects are order-insensitive
				if se, ok := ce.Fun.(*ast.SelectorExpr); ok {
					if o := identObj(info, se.X); o != nil && (o == valObj || declaredInLoop(o)) {
						return true
					}
				}
				if calleeOrderInsensitive(c, f, depth) {
					return true
				}
				// a callee that only touches what it is given, called on per-element data
				if calleeTouchesOnlyArgs(c, f) {
					perElement := true
					for _, a := range ce.Args {
						if _, isC := info.Types[a]; isC && info.Types[a].Value != nil {
							continue
						}
						id := rootIdent(a)
						if id == nil {
							perElement = false
							continue
						}
						o := info.Uses[id]
						if o == valObj || o == keyObj || declaredInLoop(o) {
							continue
						}
						// outer variables of basic type are only read by value
						if tv := info.TypeOf(a); tv != nil {
							if _, isBasic := tv.Underlying().(*types.Basic); isBasic {
								continue
							}
						}
						perElement = false
					}
					if perElement {
						return true
					}
				}
				sensitive = append(sensitive, "call "+name)
				return true
			}
			// receiver declared inside the loop is local state
			if se, ok := ce.Fun.(*ast.SelectorExpr); ok {
				if id := rootIdent(se.X); id != nil && declaredInLoop(info.Uses[id]) {
					return true
				}
			}
			sensitive = append(sensitive, "call "+name)
			return true
		})
	}
	walk = func(st ast.Stmt) {
		switch t := st.(type) {
		case nil:
		case *ast.BlockStmt:
			for _, s := range t.List {
				walk(s)
			}
		case *ast.ExprStmt:
			if ce, ok := t.X.(*ast.CallExpr); ok && calleeName(info, ce) == "builtin.delete" {
				return
			}
			checkExprCalls(t.X)
		case *ast.DeclStmt:
			checkExprCalls(t)
		case *ast.IncDecStmt:
			// integer counters commute
		case *ast.AssignStmt:
			for _, rhs := range t.Rhs {
				// x = append(x, ..) on an outer slice
				if ce, ok := ast.Unparen(rhs).(*ast.CallExpr); ok && calleeName(info, ce) == "builtin.append" {
					if o := identObj(info, ce.Args[0]); o != nil && !declaredInLoop(o) && len(t.Lhs) == 1 && identObj(info, t.Lhs[0]) == o {
						appended = append(appended, o)
						for _, a := range ce.Args[1:] {
							checkExprCalls(a)
						}
						continue
					}
				}
				checkExprCalls(rhs)
			}
			for i, l := range t.Lhs {
				l = ast.Unparen(l)
				if id, ok := l.(*ast.Ident); ok {
					o := info.Defs[id]
					if o == nil {
						o = info.Uses[id]
					}
					if o == nil || id.Name == "_" || declaredInLoop(o) {
						continue
					}
					isApp := false
					for _, a := range appended {
						if a == o {
							isApp = true
						}
					}
					if isApp {
						continue
					}
					// outer scalar: accumulation with a commutative operator, constants, or min/max handled by caller
					switch t.Tok {
					case token.ADD_ASSIGN, token.OR_ASSIGN, token.AND_ASSIGN, token.XOR_ASSIGN, token.MUL_ASSIGN:
						if tv := info.TypeOf(l); tv != nil && (isIntegerType(tv) || isBool(tv)) {
							continue
						}
						sensitive = append(sensitive, "non-integer accumulation into "+id.Name)
					case token.ASSIGN:
						if i < len(t.Rhs) {
							if tv, ok := info.Types[t.Rhs[i]]; ok && tv.Value != nil {
								continue // constant flag
							}
							if guardedExtremum(info, rs, t, id, t.Rhs[i]) {
								continue
							}
						}
						sensitive = append(sensitive, "assigns outer variable "+id.Name+" (last iteration wins)")
					default:
						sensitive = append(sensitive, "updates outer variable "+id.Name)
					}
					continue
				}
				// map element store / store through the loop value or a loop-local
				if ix, ok := l.(*ast.IndexExpr); ok {
					if _, isMap := info.TypeOf(ix.X).Underlying().(*types.Map); isMap {
						continue
					}
				}
				if id := rootIdent(l); id != nil {
					o := info.Uses[id]
					if o == valObj || o == keyObj || declaredInLoop(o) {
						continue
					}
				}
				sensitive = append(sensitive, "stores to "+exprStr(l))
			}
		case *ast.IfStmt:
			walk(t.Init)
			checkExprCalls(t.Cond)
			walk(t.Body)
			walk(t.Else)
		case *ast.ForStmt:
			walk(t.Init)
			if t.Cond != nil {
				checkExprCalls(t.Cond)
			}
			walk(t.Post)
			walk(t.Body)
		case *ast.RangeStmt:
			checkExprCalls(t.X)
			walk(t.Body)
		case *ast.SwitchStmt:
			walk(t.Init)
			if t.Tag != nil {
				checkExprCalls(t.Tag)
			}
			for _, cl := range t.Body.List {
				cc := cl.(*ast.CaseClause)
				for _, e := range cc.List {
					checkExprCalls(e)
				}
				for _, s := range cc.Body {
					walk(s)
				}
			}
		case *ast.ReturnStmt:
			sensitive = append(sensitive, "returns from inside the loop (selects an element by iteration order)")
		case *ast.BranchStmt:
			if t.Tok == token.BREAK || t.Tok == token.GOTO {
				sensitive = append(sensitive, "leaves the loop early (selects an element by iteration order)")
			}
		default:
			sensitive = append(sensitive, fmt.Sprintf("statement %T", st))
		}
	}
	walk(rs.Body)
	if len(sensitive) > 0 {
		return "violation", "body depends on iteration order: " + strings.Join(dedupStrings(sensitive), "; ")
	}
	if len(appended) == 0 {
		return "insensitive", "body only performs order-insensitive updates (map stores, integer accumulation, min/max, delete, per-element updates)"
	}
	// appended slices must be sorted before any other use
	for _, s := range appended {
		ok, why := sortedBeforeUse(c, fi, rs, s, depth)
		if !ok {
			return "violation", "elements are appended to " + s.Name() + " in iteration order and " + why
		}
	}
	return "sorted", "collected elements are sorted before any other use"
}

func isBool(t types.Type) bool {
	b, ok := t.Underlying().(*types.Basic)
	return ok && b.Info()&types.IsBoolean != 0
}

func dedupStrings(in []string) []string {
	seen := map[string]bool{}
	var out []string
	for _, s := range in {
		if !seen[s] {
			seen[s] = true
			out = append(out, s)
		}
	}
	return out
}

// guardedExtremum recognises `if v < min { min = v }` / `if v > max { max = v }`.
func guardedExtremum(info *types.Info, rs *ast.RangeStmt, as *ast.AssignStmt, lhs *ast.Ident, rhs ast.Expr) bool {
	found := false
	ast.Inspect(rs.Body, func(n ast.Node) bool {
		is, ok := n.(*ast.IfStmt)
		if !ok || !within(is.Body, as.Pos()) || len(is.Body.List) != 1 || is.Body.List[0] != ast.Stmt(as) {
			return true
		}
		be, ok := ast.Unparen(is.Cond).(*ast.BinaryExpr)
		if !ok {
			return true
		}
		switch be.Op {
		case token.LSS, token.GTR, token.LEQ, token.GEQ:
			x, y := exprStr(be.X), exprStr(be.Y)
			l, r := lhs.Name, exprStr(rhs)
			if (x == r && y == l) || (x == l && y == r) {
				found = true
			}
		}
		return true
	})
	return found
}

// calleeOrderInsensitive: the callee only stores into maps (keyed by its
// parameters) or is pure.
func calleeOrderInsensitive(c *Ctx, f *types.Func, depth int) bool {
	if depth > 2 {
		return false
	}
	fi := funcDeclOf(c, f)
	if fi == nil {
		return false
	}
	info := fi.Pkg.TypesInfo
	ok := true
	for _, st := range fi.Decl.Body.List {
		switch t := st.(type) {
		case *ast.AssignStmt:
			for _, l := range t.Lhs {
				ix, isIx := ast.Unparen(l).(*ast.IndexExpr)
				if !isIx {
					// a local of the callee (named results included)
					if lo, isVar := identObj(info, l).(*types.Var); isVar && !lo.IsField() && within(fi.Decl, lo.Pos()) {
						continue
					}
					ok = false
					continue
				}
				if _, isMap := info.TypeOf(ix.X).Underlying().(*types.Map); !isMap {
					ok = false
				}
			}
			for _, r := range t.Rhs {
				if why := impureReason(c, info, r, nil); why != "" {
					ok = false
				}
			}
		case *ast.ReturnStmt:
			for _, r := range t.Results {
				if why := impureReason(c, info, r, nil); why != "" {
					ok = false
				}
			}
		case *ast.RangeStmt:
			// a nested iteration over a map whose own body is order-insensitive (counts, deletes, flags)
			if _, isMap := info.TypeOf(t.X).Underlying().(*types.Map); !isMap {
				ok = false
			} else if v, _ := classifyMapLoop(c, fi, t, depth+1); v != "insensitive" {
				ok = false
			}
		default:
			ok = false
		}
	}
	return ok
}

// callbackPure: obj is a function-typed parameter of fi; every call site of
// fi passes a function literal that writes nothing but its own locals.
func callbackPure(c *Ctx, fi *FuncInfo, obj types.Object) string {
	return callbackPureDepth(c, fi, obj, 0)
}

func callbackPureDepth(c *Ctx, fi *FuncInfo, obj types.Object, depth int) string {
	if obj == nil || fi.Decl.Type.Params == nil {
		return "not a parameter"
	}
	idx, k := -1, 0
	for _, f := range fi.Decl.Type.Params.List {
		for _, id := range f.Names {
			if fi.Pkg.TypesInfo.Defs[id] == obj {
				idx = k
			}
			k++
		}
	}
	if idx < 0 {
		return "not a parameter"
	}
	why := ""
	n := 0
	forEachCall(c, func(p *packagesPkg, fd *ast.FuncDecl, call *ast.CallExpr) {
		if calleeFunc(p.TypesInfo, call) != fi.Obj || isTestSupportPkg(p.PkgPath) {
			return
		}
		n++
		if idx >= len(call.Args) {
			why = "argument missing"
			return
		}
		fl, ok := ast.Unparen(call.Args[idx]).(*ast.FuncLit)
		if !ok {
			// the caller hands on a callback it was given itself: look at its callers (a helper extracted
			// from the function that takes the callback)
			if po := identObj(p.TypesInfo, call.Args[idx]); po != nil && depth < 2 && fd != nil {
				if cfo, isF := p.TypesInfo.Defs[fd.Name].(*types.Func); isF {
					if cfi := funcDeclOf(c, cfo); cfi != nil {
						if w := callbackPureDepth(c, cfi, po, depth+1); w == "" {
							return
						}
					}
				}
			}
			why = "callback at " + c.Pos(call.Pos()) + " is not a literal"
			return
		}
		if w := impureReason(c, p.TypesInfo, fl.Body, nil); w != "" {
			why = "callback at " + c.Pos(call.Pos()) + " " + w
		}
	})
	return why
}

// sortedBeforeUse: after the loop, the first thing that happens to slice s on
// every path is a sort call; or s is returned and every caller sorts it first.
func sortedBeforeUse(c *Ctx, fi *FuncInfo, rs *ast.RangeStmt, s types.Object, depth int) (bool, string) {
	info := fi.Pkg.TypesInfo
	// innermost body containing the loop
	var body *ast.BlockStmt = fi.Decl.Body
	for _, fl := range funcLitsIn(fi.Decl.Body) {
		if within(fl.Body, rs.Pos()) && fl.Body.End()-fl.Body.Pos() < body.End()-body.Pos() {
			body = fl.Body
		}
	}
	fg := NewFGraph(body, info)
	// loop exit: the RangeDone block head of this statement
	start := -1
	for _, n := range fg.Nodes {
		if n.N == nil && n.Block != nil && n.Block.Stmt == ast.Stmt(rs) && n.Block.Kind.String() == "RangeDone" {
			start = n.ID
		}
	}
	if start < 0 {
		return false, "the loop's exit could not be located"
	}
	uses := func(n *FNode) (sorts, other, returned bool) {
		if n.N == nil {
			return
		}
		if within(rs, n.N.Pos()) {
			return
		}
		mentions := false
		ast.Inspect(n.N, func(x ast.Node) bool {
			if id, ok := x.(*ast.Ident); ok && info.Uses[id] == s {
				mentions = true
			}
			return true
		})
		if !mentions {
			return
		}
		for _, ce := range callsInDeep(n.N) {
			if isSortCallOn(info, ce, s) {
				return true, false, false
			}
		}
		if rsn, ok := n.N.(*ast.ReturnStmt); ok {
			for _, res := range rsn.Results {
				if identObj(info, res) == s {
					return false, false, true
				}
			}
		}
		return false, true, false
	}
	// walk forward from the loop exit; stop at sort nodes
	seen := map[int]bool{}
	stack := []int{start}
	returned := false
	for len(stack) > 0 {
		id := stack[len(stack)-1]
		stack = stack[:len(stack)-1]
		if seen[id] {
			continue
		}
		seen[id] = true
		n := fg.Nodes[id]
		so, ot, re := uses(n)
		if so {
			continue
		}
		if ot {
			return false, "it is used at " + c.Pos(n.N.Pos()) + " before being sorted"
		}
		if re {
			returned = true
			continue
		}
		for _, e := range n.Succ {
			stack = append(stack, e.To)
		}
	}
	if !returned {
		return true, ""
	}
	if depth >= 2 {
		return false, "it is returned unsorted through more than two levels of callers"
	}
	// every caller must sort the result before using it
	bad := ""
	n := 0
	forEachCall(c, func(p *packagesPkg, fd *ast.FuncDecl, call *ast.CallExpr) {
		if calleeFunc(p.TypesInfo, call) != fi.Obj || isTestSupportPkg(p.PkgPath) || fd == nil {
			return
		}
		n++
		ok, why := callerSortsResult(c, p, fd, call, depth)
		if !ok && bad == "" {
			bad = "its caller " + funcDisplayName(p.PkgPath, fd) + " (" + c.Pos(call.Pos()) + ") " + why
		}
	})
	if bad != "" {
		return false, "is returned unsorted; " + bad
	}
	return true, ""
}

// callerSortsResult: `x := f()` (or x = f()) and the first use of x is a sort;
// len(f()) and ranging only to count are order-insensitive as well.
func callerSortsResult(c *Ctx, p *packagesPkg, fd *ast.FuncDecl, call *ast.CallExpr, depth int) (bool, string) {
	info := p.TypesInfo
	var asg *ast.AssignStmt
	var lenOnly bool
	ast.Inspect(fd.Body, func(n ast.Node) bool {
		switch t := n.(type) {
		case *ast.AssignStmt:
			for _, r := range t.Rhs {
				if ast.Unparen(r) == ast.Expr(call) && len(t.Lhs) == len(t.Rhs) {
					asg = t
				}
			}
		case *ast.CallExpr:
			if calleeName(info, t) == "builtin.len" && len(t.Args) == 1 && ast.Unparen(t.Args[0]) == ast.Expr(call) {
				lenOnly = true
			}
		}
		return true
	})
	if lenOnly {
		return true, ""
	}
	if asg == nil {
		return false, "uses the unsorted result directly"
	}
	var x types.Object
	for i, r := range asg.Rhs {
		if ast.Unparen(r) == ast.Expr(call) {
			x = identObj(info, asg.Lhs[i])
		}
	}
	if x == nil {
		return false, "stores the unsorted result somewhere other than a local variable"
	}
	var body *ast.BlockStmt = fd.Body
	for _, fl := range funcLitsIn(fd.Body) {
		if within(fl.Body, call.Pos()) && fl.Body.End()-fl.Body.Pos() < body.End()-body.Pos() {
			body = fl.Body
		}
	}
	fg := NewFGraph(body, info)
	start := fg.NodeOf(asg.Pos())
	if start < 0 {
		return false, "assignment not found in the control-flow graph"
	}
	seen := map[int]bool{}
	var stack []int
	for _, e := range fg.Nodes[start].Succ {
		stack = append(stack, e.To)
	}
	for len(stack) > 0 {
		id := stack[len(stack)-1]
		stack = stack[:len(stack)-1]
		if seen[id] {
			continue
		}
		seen[id] = true
		n := fg.Nodes[id]
		if n.N != nil {
			mentions := false
			ast.Inspect(n.N, func(y ast.Node) bool {
				if id, ok := y.(*ast.Ident); ok && info.Uses[id] == x {
					mentions = true
				}
				return true
			})
			if mentions {
				sorted := false
				for _, ce := range callsInDeep(n.N) {
					if isSortCallOn(info, ce, x) {
						sorted = true
					}
				}
				if sorted {
					continue
				}
				// len(x) alone is fine
				onlyLen := true
				ast.Inspect(n.N, func(y ast.Node) bool {
					if id, ok := y.(*ast.Ident); ok && info.Uses[id] == x {
						onlyLen = onlyLen && isArgOfLen(info, n.N, id)
					}
					return true
				})
				if onlyLen {
					// keep walking
				} else {
					return false, "uses it at " + c.Pos(n.N.Pos()) + " before sorting it"
				}
			}
		}
		for _, e := range n.Succ {
			stack = append(stack, e.To)
		}
	}
	return true, ""
}

func isArgOfLen(info *types.Info, root ast.Node, id *ast.Ident) bool {
	ok := false
	ast.Inspect(root, func(n ast.Node) bool {
		if ce, isCall := n.(*ast.CallExpr); isCall && calleeName(info, ce) == "builtin.len" && len(ce.Args) == 1 && ast.Unparen(ce.Args[0]) == ast.Expr(id) {
			ok = true
		}
		return true
	})
	return ok
}

// emitMapLoops files the classification into the report.
func emitMapLoops(c *Ctx, r *Report, rule string, loops []mapLoop, filter func(ml mapLoop) bool) int {
	n := 0
	for _, ml := range loops {
		if filter != nil && !filter(ml) {
			continue
		}
		n++
		key := "range " + exprStr(ml.Rs.X)
		pos := c.Pos(ml.Rs.Pos())
		if ml.Verdict == "violation" {
			r.Bad(rule, ml.Fi.Name, key, pos, "iteration over a map reaches an order-sensitive effect: "+ml.Why+" - Go randomises map iteration, so the result differs from run to run")
		} else {
			r.OK(rule, ml.Fi.Name, key, pos, ml.Verdict+": "+ml.Why)
		}
	}
	return n
}

// calleeTouchesOnlyArgs: the function writes only through its parameters and
// locals, reads no mutable package-level state and calls only builtins / pure
// library functions.
func calleeTouchesOnlyArgs(c *Ctx, f *types.Func) bool {
	fi := funcDeclOf(c, f)
	if fi == nil {
		return false
	}
	info := fi.Pkg.TypesInfo
	ok := true
	ast.Inspect(fi.Decl.Body, func(n ast.Node) bool {
		switch t := n.(type) {
		case *ast.AssignStmt:
			for _, l := range t.Lhs {
				id := rootIdent(l)
				if id == nil {
					ok = false
					continue
				}
				o := info.Uses[id]
				if o == nil {
					o = info.Defs[id]
				}
				if v, isVar := o.(*types.Var); isVar && v.Pkg() != nil && v.Parent() == v.Pkg().Scope() {
					ok = false
				}
			}
		case *ast.CallExpr:
			if isConversion(info, t) {
				return true
			}
			name := calleeName(info, t)
			if strings.HasPrefix(name, "builtin.") || pureStdlib(name) {
				return true
			}
			ok = false
		case *ast.GoStmt, *ast.SendStmt, *ast.DeferStmt:
			ok = false
		case *ast.Ident:
			if v, isVar := info.Uses[t].(*types.Var); isVar && !v.IsField() && v.Pkg() != nil && v.Parent() == v.Pkg().Scope() {
				if len(writersOfGlobal(c, v)) > 0 {
					ok = false
				}
			}
		}
		return true
	})
	return ok
}
