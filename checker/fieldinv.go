package main

// Field-length invariants: for a struct type T whose every composite literal
// that sets the slice field F sets it to make([]X, E) and sets the integer
// field G to the same E, and whose fields F and G are never assigned after
// construction, len(x.F) == x.G holds for every x of type T (the zero value
// included: 0 == 0).

import (
	"fmt"
	"go/ast"
	"go/types"
	"os"
	"strings"
)

// fieldLenOf maps a slice field to the integer field that records its length.
var fieldLenOf map[*types.Var]*types.Var

func computeFieldLenInvariants(c *Ctx) {
	fieldLenOf = map[*types.Var]*types.Var{}
	type cand struct{ f, g *types.Var }
	okPairs := map[cand]int{}
	bad := map[*types.Var]bool{} // fields set in some literal in a way that breaks every pairing
	for _, p := range c.Pkgs {
		info := p.TypesInfo
		for _, file := range p.Syntax {
			ast.Inspect(file, func(n ast.Node) bool {
				cl, ok := n.(*ast.CompositeLit)
				if !ok {
					return true
				}
				t := info.TypeOf(cl)
				if t == nil {
					return true
				}
				st, ok := t.Underlying().(*types.Struct)
				if !ok || namedOf(t) == nil || namedOf(t).Obj().Pkg() == nil || !c.IsRarePkg(namedOf(t).Obj().Pkg()) {
					return true
				}
				vals := map[*types.Var]ast.Expr{}
				for i, el := range cl.Elts {
					if kv, ok := el.(*ast.KeyValueExpr); ok {
						if id, ok := kv.Key.(*ast.Ident); ok {
							if fv, ok := info.Uses[id].(*types.Var); ok && fv.IsField() {
								vals[fv] = kv.Value
							}
						}
					} else if i < st.NumFields() {
						vals[st.Field(i)] = el
					}
				}
				// slice fields set by make, and integer fields
				for f, v := range vals {
					if _, isSlice := f.Type().Underlying().(*types.Slice); !isSlice {
						continue
					}
					mk, ok := ast.Unparen(v).(*ast.CallExpr)
					if !ok || calleeName(info, mk) != "builtin.make" || len(mk.Args) < 2 {
						bad[f] = true
						continue
					}
					lenTxt := exprStr(mk.Args[1])
					if _, isId := ast.Unparen(mk.Args[1]).(*ast.Ident); !isId {
						if _, isC := constInt(info, mk.Args[1]); !isC {
							bad[f] = true
							continue
						}
					}
					matched := false
					for g, gv := range vals {
						if g == f || !isIntegerType(g.Type()) {
							continue
						}
						if exprStr(gv) == lenTxt {
							okPairs[cand{f, g}]++
							matched = true
						}
					}
					if !matched {
						bad[f] = true
					}
				}
				// an integer field set while its slice partner is not set by make in this literal breaks the pairing:
				// recorded by counting literals per field below
				for g := range vals {
					if isIntegerType(g.Type()) {
						lits[g]++
					}
				}
				for f := range vals {
					if _, isSlice := f.Type().Underlying().(*types.Slice); isSlice {
						lits[f]++
					}
				}
				return true
			})
		}
	}
	for pr, n := range okPairs {
		if bad[pr.f] || immutableFields == nil || !immutableFields[pr.f] || !immutableFields[pr.g] {
			continue
		}
		// every literal that sets either field sets both consistently
		if lits[pr.f] != n || lits[pr.g] != n {
			continue
		}
		if old, dup := fieldLenOf[pr.f]; dup && old != pr.g {
			continue
		}
		fieldLenOf[pr.f] = pr.g
	}
	lits = map[*types.Var]int{}
	if os.Getenv("RARECHECK_STALE") != "" {
		for f, g := range fieldLenOf {
			fmt.Fprintf(os.Stderr, "FIELDINV len(%s.%s) == %s\n", f.Pkg().Path(), f.Name(), g.Name())
		}
	}
}

var lits = map[*types.Var]int{}

// noteFieldInv adds len(R.F) == R.G for every selector R.F / R.G in e that is
// covered by a field-length invariant.
func (p *prover) noteFieldInv(d *dcs, e ast.Expr) {
	if e == nil || len(fieldLenOf) == 0 {
		return
	}
	ast.Inspect(e, func(n ast.Node) bool {
		se, ok := n.(*ast.SelectorExpr)
		if !ok {
			return true
		}
		sel, ok := p.info.Selections[se]
		if !ok || sel.Kind() != types.FieldVal {
			return true
		}
		fv, _ := sel.Obj().(*types.Var)
		if fv == nil {
			return true
		}
		var f, g *types.Var
		if gg, ok := fieldLenOf[fv]; ok {
			f, g = fv, gg
		} else {
			for ff, gg := range fieldLenOf {
				if gg == fv {
					f, g = ff, gg
				}
			}
		}
		if f == nil {
			return true
		}
		pins := func(withDefs bool) string {
			var sb strings.Builder
			ast.Inspect(se.X, func(x ast.Node) bool {
				if id, ok := x.(*ast.Ident); ok {
					if o := p.info.Uses[id]; o != nil {
						if _, isVar := o.(*types.Var); isVar {
							fmt.Fprintf(&sb, "@%d", o.Pos())
						}
					} else if o := p.info.Defs[id]; o != nil && withDefs {
						fmt.Fprintf(&sb, "@%d", o.Pos())
					}
				}
				return true
			})
			return sb.String()
		}
		r := exprStr(ast.Unparen(se.X))
		var lenBase, gBase string
		if p.plain {
			lenBase = "len(" + r + "." + f.Name() + ")"
			gBase = r + "." + g.Name()
		} else {
			lenBase = "len(" + r + "." + f.Name() + ")" + pins(false) + fmt.Sprintf("@%d", f.Pos())
			gBase = r + "." + g.Name() + pins(true) + fmt.Sprintf("@%d", g.Pos())
		}
		d.add(lenBase, gBase, 0)
		d.add(gBase, lenBase, 0)
		return true
	})
}
