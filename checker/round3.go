package main

// Rules added after the third round of seeded changes (section 8 of DESIGN.md):
// results that must not alias reusable state, key names taken verbatim,
// derived state (memo flags, cached element aliases) kept coherent, the walk
// decision of the path expansion, whole-stream gzip, ok results that are never
// dropped, agreement between the formula tokenizer and parser, the template
// metacharacter sets, and the shared function table.

import (
	"fmt"
	"go/ast"
	"go/constant"
	"go/token"
	"go/types"
	"sort"
	"strings"
)

// ---------------------------------------------------------------- C02-g

// c02ResultNotRecycled: extractor.Match.Indices is a no-copy view of what the
// matcher returned, and matches are held by the consumer long after the
// worker has moved on. Every repository implementation of
// FindSubmatchIndex([]byte) []int must therefore hand out a slice that no
// later call writes again: nil, a composite literal, make, the result of a
// library call, or a slice from the non-recycling IntPool (C02-d).
func c02ResultNotRecycled(c *Ctx, r *Report, rule string) {
	n := 0
	for _, fi := range c.AllFuncDecls("rare/pkg/matchers") {
		if fi.Decl.Recv == nil || fi.Decl.Name.Name != "FindSubmatchIndex" {
			continue
		}
		sig, _ := fi.Obj.Type().(*types.Signature)
		if sig == nil || sig.Results().Len() != 1 {
			continue
		}
		if sl, ok := sig.Results().At(0).Type().Underlying().(*types.Slice); !ok || !isIntegerType(sl.Elem()) {
			continue
		}
		n++
		info := fi.Pkg.TypesInfo
		var recv types.Object
		if len(fi.Decl.Recv.List[0].Names) == 1 {
			recv = info.Defs[fi.Decl.Recv.List[0].Names[0]]
		}
		var named types.Object
		if fi.Decl.Type.Results != nil && len(fi.Decl.Type.Results.List) == 1 && len(fi.Decl.Type.Results.List[0].Names) == 1 {
			named = info.Defs[fi.Decl.Type.Results.List[0].Names[0]]
		}
		var classify func(e ast.Expr, depth int) string
		classifyVar := func(o types.Object, name string, depth int) string {
			v, isVar := o.(*types.Var)
			if !isVar {
				return "a value the checker cannot trace"
			}
			if v.Parent() == v.Pkg().Scope() {
				return "the package-level variable " + v.Name()
			}
			if v == recv {
				return "the receiver"
			}
			// every assignment to the local
			bad := ""
			found := false
			ast.Inspect(fi.Decl.Body, func(m ast.Node) bool {
				switch as := m.(type) {
				case *ast.AssignStmt:
					for i, l := range as.Lhs {
						if identObj(info, l) != o {
							continue
						}
						found = true
						if len(as.Rhs) == len(as.Lhs) {
							if b := classify(as.Rhs[i], depth+1); b != "" {
								bad = b
							}
						} else if len(as.Rhs) == 1 {
							if b := classify(as.Rhs[0], depth+1); b != "" {
								bad = b
							}
						}
					}
				case *ast.ValueSpec:
					for i, id := range as.Names {
						if info.Defs[id] == o {
							found = true
							if i < len(as.Values) {
								if b := classify(as.Values[i], depth+1); b != "" {
									bad = b
								}
							}
						}
					}
				}
				return true
			})
			if !found && o != named {
				return "a value the checker cannot trace (" + name + ")"
			}
			return bad
		}
		classify = func(e ast.Expr, depth int) string {
			e = ast.Unparen(e)
			if depth > 4 {
				return "a value the checker cannot trace"
			}
			switch t := e.(type) {
			case *ast.Ident:
				if t.Name == "nil" {
					return ""
				}
				o := info.Uses[t]
				if o == nil {
					o = info.Defs[t]
				}
				return classifyVar(o, t.Name, depth)
			case *ast.CompositeLit:
				return ""
			case *ast.CallExpr:
				if id, ok := ast.Unparen(t.Fun).(*ast.Ident); ok {
					if _, isB := info.Uses[id].(*types.Builtin); isB {
						switch id.Name {
						case "make", "new":
							return ""
						case "append":
							if len(t.Args) > 0 {
								return classify(t.Args[0], depth+1)
							}
						}
					}
				}
				f := calleeFunc(info, t)
				if f == nil {
					return "the result of a dynamic call"
				}
				if f.Pkg() == nil || !c.IsRarePkg(f.Pkg()) {
					return "" // library call: documented to return a new slice
				}
				full := f.Origin().FullName()
				if full == "(*rare/pkg/slicepool.IntPool).Get" {
					return "" // C02-d: the pool never hands out a cell twice
				}
				// a repository helper: its own returns must be fresh
				if hfi := funcDeclOf(c, f.Origin()); hfi != nil && depth < 3 {
					bad := ""
					hinfo := hfi.Pkg.TypesInfo
					inspectNoLit(hfi.Decl.Body, func(m ast.Node) bool {
						if rs, ok := m.(*ast.ReturnStmt); ok && len(rs.Results) >= 1 {
							switch x := ast.Unparen(rs.Results[0]).(type) {
							case *ast.CompositeLit:
							case *ast.Ident:
								if x.Name != "nil" {
									bad = "the result of " + f.Name() + ", which returns " + x.Name
								}
							case *ast.CallExpr:
								if g := calleeFunc(hinfo, x); g != nil && g.Pkg() != nil && c.IsRarePkg(g.Pkg()) && g.Origin().FullName() != "(*rare/pkg/slicepool.IntPool).Get" {
									bad = "the result of " + f.Name()
								}
							default:
								bad = "the result of " + f.Name()
							}
						}
						return true
					})
					return bad
				}
				return "the result of " + f.Name()
			case *ast.SliceExpr:
				return classify(t.X, depth+1)
			case *ast.SelectorExpr:
				if fv := fieldVar(info, t); fv != nil {
					return "the field " + fv.Name() + " of the matcher instance"
				}
				return "a value the checker cannot trace"
			case *ast.IndexExpr:
				return classify(t.X, depth+1)
			case *ast.UnaryExpr:
				if t.Op == token.AND {
					return classify(t.X, depth+1)
				}
			case *ast.StarExpr:
				return classify(t.X, depth+1)
			}
			return "a value the checker cannot trace"
		}
		bad, badPos := "", fi.Decl.Pos()
		nret := 0
		inspectNoLit(fi.Decl.Body, func(m ast.Node) bool {
			rs, ok := m.(*ast.ReturnStmt)
			if !ok {
				return true
			}
			nret++
			if len(rs.Results) == 0 {
				if named != nil {
					if b := classifyVar(named, named.Name(), 0); b != "" && bad == "" {
						bad, badPos = b, rs.Pos()
					}
				}
				return true
			}
			if b := classify(rs.Results[0], 0); b != "" && bad == "" {
				bad, badPos = b, rs.Pos()
			}
			return true
		})
		r.Check(bad == "", rule, fi.Name, "returned index slice", c.Pos(badPos), fmt.Sprintf("fresh: all %d return(s) hand out nil, a new slice, a library result or a cell range of the non-recycling pool", nret),
			"FindSubmatchIndex returns "+bad+": the next call on the same instance writes the same memory, so the group offsets of every match the consumer still holds silently change to those of a later line")
	}
	r.Floor(rule, 2, "AlwaysMatch and DissectInstance")
}

// ---------------------------------------------------------------- C02-h / C12-e

// c02NamesVerbatim: the name table of a dissect pattern maps the names as the
// user wrote them (expressions look groups up by the very spelling). Every
// value that can reach the key of a store into the name table must be the
// pattern parameter or a substring of such a value - never the result of a
// call (case folding, trimming, ...).
func c02NamesVerbatim(c *Ctx, r *Report, rule string) {
	fi := c.MustFunc(r, rule, "rare/pkg/matchers/dissect", "CompileEx")
	if fi == nil {
		return
	}
	info := fi.Pkg.TypesInfo
	params := map[types.Object]bool{}
	for _, f := range fi.Decl.Type.Params.List {
		for _, id := range f.Names {
			params[info.Defs[id]] = true
		}
	}
	// the name table: the map[string]int local that ends up in the groupNames field
	var table types.Object
	ast.Inspect(fi.Decl.Body, func(n ast.Node) bool {
		if kv, ok := n.(*ast.KeyValueExpr); ok {
			if k, ok := kv.Key.(*ast.Ident); ok && k.Name == "groupNames" {
				table = identObj(info, kv.Value)
			}
		}
		return true
	})
	if table == nil {
		r.Undecided(rule, fi.Name, "name table", c.Pos(fi.Decl.Pos()), "the map that becomes Dissect.groupNames was not found")
		return
	}
	// definitions of each local
	defs := map[types.Object][]ast.Expr{}
	ast.Inspect(fi.Decl.Body, func(n ast.Node) bool {
		if as, ok := n.(*ast.AssignStmt); ok && len(as.Lhs) == len(as.Rhs) {
			for i, l := range as.Lhs {
				if o := identObj(info, l); o != nil {
					defs[o] = append(defs[o], as.Rhs[i])
				}
			}
		}
		return true
	})
	seen := map[types.Object]bool{}
	var trace func(e ast.Expr) string
	trace = func(e ast.Expr) string {
		e = ast.Unparen(e)
		switch t := e.(type) {
		case *ast.Ident:
			o := identObj(info, t)
			if o == nil {
				return ""
			}
			// a parameter starts out verbatim, but it may be re-bound like any local
			_ = params
			if seen[o] {
				return ""
			}
			seen[o] = true
			for _, d := range defs[o] {
				if b := trace(d); b != "" {
					return b
				}
			}
			return ""
		case *ast.SliceExpr:
			return trace(t.X)
		case *ast.BasicLit:
			return ""
		case *ast.CallExpr:
			return "the result of " + exprStr(t.Fun) + "(..)"
		}
		return "the computed value " + exprStr(e)
	}
	n := 0
	ast.Inspect(fi.Decl.Body, func(m ast.Node) bool {
		as, ok := m.(*ast.AssignStmt)
		if !ok {
			return true
		}
		for _, l := range as.Lhs {
			ix, ok := ast.Unparen(l).(*ast.IndexExpr)
			if !ok || identObj(info, ix.X) != table {
				continue
			}
			n++
			seen = map[types.Object]bool{}
			bad := trace(ix.Index)
			r.Check(bad == "", rule, fi.Name, exprStr(ix), c.Pos(ix.Pos()), "flow: the key is a substring of the pattern as written",
				"a group name is registered as "+bad+" instead of the spelling used in the pattern: {Name} lookups miss the table and read as <NAME>, and names differing only in that transformation collide")
		}
		return true
	})
	if n == 0 {
		r.Bad(rule, fi.Name, "name table store", c.Pos(fi.Decl.Pos()), "no group name is ever registered")
	}
}

// ---------------------------------------------------------------- C07-g derived state

// recvFieldWrite: if n writes the receiver's field (or an element of it),
// return that field.
func recvFieldWrites(info *types.Info, recv types.Object, n ast.Node) []*types.Var {
	var out []*types.Var
	root := func(e ast.Expr) *types.Var {
		// strip element accesses down to recv.f
		for {
			e = ast.Unparen(e)
			switch t := e.(type) {
			case *ast.IndexExpr:
				e = t.X
				continue
			case *ast.SliceExpr:
				e = t.X
				continue
			case *ast.StarExpr:
				e = t.X
				continue
			case *ast.SelectorExpr:
				if identObj(info, t.X) == recv {
					return fieldVar(info, t)
				}
				// recv.f.g = ..  counts as a write into f
				e = t.X
				continue
			}
			return nil
		}
	}
	inspectNoLit(n, func(x ast.Node) bool {
		switch t := x.(type) {
		case *ast.AssignStmt:
			for _, l := range t.Lhs {
				if fv := root(l); fv != nil {
					out = append(out, fv)
				}
			}
		case *ast.IncDecStmt:
			if fv := root(t.X); fv != nil {
				out = append(out, fv)
			}
		case *ast.CallExpr:
			if id, ok := ast.Unparen(t.Fun).(*ast.Ident); ok && id.Name == "delete" && len(t.Args) == 2 {
				if _, isB := info.Uses[id].(*types.Builtin); isB {
					if fv := root(t.Args[0]); fv != nil {
						out = append(out, fv)
					}
				}
			}
		}
		return true
	})
	return out
}

type aggMethod struct {
	fi   *FuncInfo
	recv types.Object
	typ  *types.Named
}

func methodsByType(c *Ctx, prefixes ...string) map[*types.Named][]aggMethod {
	out := map[*types.Named][]aggMethod{}
	for _, fi := range c.AllFuncDecls(prefixes...) {
		if fi.Decl.Recv == nil || len(fi.Decl.Recv.List) != 1 || len(fi.Decl.Recv.List[0].Names) != 1 {
			continue
		}
		info := fi.Pkg.TypesInfo
		recv := info.Defs[fi.Decl.Recv.List[0].Names[0]]
		if recv == nil {
			continue
		}
		nt := namedOf(recv.Type())
		if nt == nil {
			continue
		}
		nt = nt.Origin()
		out[nt] = append(out[nt], aggMethod{fi, recv, nt})
	}
	return out
}

// c07DerivedState (…/memo-invalidation, …/cached-element): state an
// aggregator derives from its samples and keeps between calls must be
// invalidated by everything that changes what it was derived from.
//
// memo flag: a mutable bool field F of an aggregator type that some method M
// tests in a branch condition and sets to a constant. Every other method
// that writes a field M reads (or an element of one) must assign F the
// opposite constant on every path through that write.
//
// cached element: a pointer field P that some method assigns from an element
// of map field M (or from a value it stores into M). Every method that
// deletes from M or re-binds M must assign P on every path through that
// statement.
func c07DerivedState(c *Ctx, r *Report, prefix string) {
	ruleMemo := prefix + "/memo-invalidation"
	ruleElem := prefix + "/cached-element"
	nTypes := 0
	byType := methodsByType(c, aggPkg)
	var types_ []*types.Named
	for t := range byType {
		types_ = append(types_, t)
	}
	sort.Slice(types_, func(i, j int) bool { return types_[i].Obj().Name() < types_[j].Obj().Name() })
	for _, nt := range types_ {
		st, ok := nt.Underlying().(*types.Struct)
		if !ok {
			continue
		}
		nTypes++
		methods := byType[nt]
		tname := nt.Obj().Pkg().Path() + "." + nt.Obj().Name()
		for i := 0; i < st.NumFields(); i++ {
			f := st.Field(i)
			if immutableFields[f] {
				continue
			}
			if b, isB := f.Type().Underlying().(*types.Basic); isB && b.Kind() == types.Bool {
				memoFlagRule(c, r, ruleMemo, tname, f, methods)
			}
			if _, isP := f.Type().Underlying().(*types.Pointer); isP {
				cachedElementRule(c, r, ruleElem, tname, f, methods)
			}
		}
	}
	r.Extra["aggregator_types_scanned_for_derived_state"] = nTypes
	r.OK(ruleMemo, aggPkg, "scan", "-", fmt.Sprintf("scanned %d aggregator types for memo flags and cached elements", nTypes))
}

func memoFlagRule(c *Ctx, r *Report, rule, tname string, f *types.Var, methods []aggMethod) {
	// the memoising methods: test F in a condition and assign it a constant
	type memo struct {
		m     aggMethod
		valid bool // the constant assigned after computing
		reads map[*types.Var]bool
	}
	var memos []memo
	for _, m := range methods {
		info := m.fi.Pkg.TypesInfo
		tests := false
		ast.Inspect(m.fi.Decl.Body, func(n ast.Node) bool {
			var cond ast.Expr
			switch t := n.(type) {
			case *ast.IfStmt:
				cond = t.Cond
			case *ast.ForStmt:
				cond = t.Cond
			}
			if cond != nil {
				ast.Inspect(cond, func(x ast.Node) bool {
					if se, ok := x.(*ast.SelectorExpr); ok && fieldVar(info, se) == f {
						tests = true
					}
					return true
				})
			}
			return true
		})
		if !tests {
			continue
		}
		var val *bool
		ast.Inspect(m.fi.Decl.Body, func(n ast.Node) bool {
			as, ok := n.(*ast.AssignStmt)
			if !ok || len(as.Lhs) != len(as.Rhs) {
				return true
			}
			for i, l := range as.Lhs {
				if fieldVar(info, l) == f {
					if tv, ok := info.Types[as.Rhs[i]]; ok && tv.Value != nil && tv.Value.Kind() == constant.Bool {
						b := constant.BoolVal(tv.Value)
						val = &b
					}
				}
			}
			return true
		})
		if val == nil {
			continue
		}
		reads := map[*types.Var]bool{}
		ast.Inspect(m.fi.Decl.Body, func(n ast.Node) bool {
			if se, ok := n.(*ast.SelectorExpr); ok && identObj(info, se.X) == m.recv {
				if fv := fieldVar(info, se); fv != nil && fv != f {
					reads[fv] = true
				}
			}
			return true
		})
		memos = append(memos, memo{m, *val, reads})
	}
	for _, mm := range memos {
		for _, m := range methods {
			if m.fi == mm.m.fi {
				continue
			}
			info := m.fi.Pkg.TypesInfo
			fg := NewFGraph(m.fi.Decl.Body, info)
			isInv := func(nd *FNode) bool {
				if nd.N == nil {
					return false
				}
				hit := false
				inspectNoLit(nd.N, func(x ast.Node) bool {
					as, ok := x.(*ast.AssignStmt)
					if !ok || len(as.Lhs) != len(as.Rhs) {
						return true
					}
					for i, l := range as.Lhs {
						if fieldVar(info, l) == f {
							if tv, ok := info.Types[as.Rhs[i]]; ok && tv.Value != nil && tv.Value.Kind() == constant.Bool && constant.BoolVal(tv.Value) != mm.valid {
								hit = true
							}
						}
					}
					return true
				})
				return hit
			}
			for _, nd := range fg.Nodes {
				if nd.N == nil {
					continue
				}
				if _, isExpr := nd.N.(ast.Expr); isExpr {
					if _, isCall := nd.N.(*ast.CallExpr); !isCall {
						continue
					}
				}
				var hit *types.Var
				for _, w := range recvFieldWrites(info, m.recv, nd.N) {
					if mm.reads[w] && w != f {
						hit = w
					}
				}
				if hit == nil || isInv(nd) {
					continue
				}
				before := fg.ReachSet(fg.Entry, isInv, nil)[nd.ID]
				after := fg.Reaches(nd.ID, fg.Exit, isInv)
				r.Check(!(before && after), rule, m.fi.Name, tname+"."+f.Name()+" vs "+hit.Name(), c.Pos(nd.N.Pos()),
					"path: every path through this write resets the flag",
					fmt.Sprintf("%s remembers in %s that what it derived from %s is still valid, but this method changes %s on a path that does not reset the flag (the reset is missing or conditional): the next %s answers from stale state", mm.m.fi.Decl.Name.Name, f.Name(), hit.Name(), hit.Name(), mm.m.fi.Decl.Name.Name))
			}
		}
	}
}

func cachedElementRule(c *Ctx, r *Report, rule, tname string, f *types.Var, methods []aggMethod) {
	// which map fields does P alias an element of?
	aliased := map[*types.Var]bool{}
	for _, m := range methods {
		info := m.fi.Pkg.TypesInfo
		elemOf := func(e ast.Expr) *types.Var {
			if ix, ok := ast.Unparen(e).(*ast.IndexExpr); ok {
				if fv := fieldVar(info, ix.X); fv != nil {
					if _, isMap := fv.Type().Underlying().(*types.Map); isMap {
						return fv
					}
				}
			}
			return nil
		}
		// locals that are elements of a map field: x := s.m[k]  or  s.m[k] = x
		localOf := map[types.Object]*types.Var{}
		ast.Inspect(m.fi.Decl.Body, func(n ast.Node) bool {
			as, ok := n.(*ast.AssignStmt)
			if !ok {
				return true
			}
			if len(as.Lhs) >= 1 && len(as.Rhs) == 1 {
				if mf := elemOf(as.Rhs[0]); mf != nil {
					if o := identObj(info, as.Lhs[0]); o != nil {
						localOf[o] = mf
					}
				}
			}
			if len(as.Lhs) == len(as.Rhs) {
				for i, l := range as.Lhs {
					if mf := elemOf(l); mf != nil {
						if o := identObj(info, as.Rhs[i]); o != nil {
							localOf[o] = mf
						}
					}
				}
			}
			return true
		})
		ast.Inspect(m.fi.Decl.Body, func(n ast.Node) bool {
			as, ok := n.(*ast.AssignStmt)
			if !ok || len(as.Lhs) != len(as.Rhs) {
				return true
			}
			for i, l := range as.Lhs {
				if fieldVar(info, l) != f {
					continue
				}
				if mf := elemOf(as.Rhs[i]); mf != nil {
					aliased[mf] = true
				}
				if o := identObj(info, as.Rhs[i]); o != nil && localOf[o] != nil {
					aliased[localOf[o]] = true
				}
			}
			return true
		})
	}
	if len(aliased) == 0 {
		return
	}
	for _, m := range methods {
		info := m.fi.Pkg.TypesInfo
		var fg *FGraph
		assignsP := func(nd *FNode) bool {
			if nd.N == nil {
				return false
			}
			hit := false
			inspectNoLit(nd.N, func(x ast.Node) bool {
				if as, ok := x.(*ast.AssignStmt); ok {
					for _, l := range as.Lhs {
						if fieldVar(info, l) == f {
							hit = true
						}
					}
				}
				return true
			})
			return hit
		}
		inspectNoLit(m.fi.Decl.Body, func(n ast.Node) bool {
			var mf *types.Var
			var pos token.Pos
			switch t := n.(type) {
			case *ast.CallExpr:
				if id, ok := ast.Unparen(t.Fun).(*ast.Ident); ok && id.Name == "delete" && len(t.Args) == 2 {
					if fv := fieldVar(info, t.Args[0]); fv != nil && aliased[fv] {
						mf, pos = fv, t.Pos()
					}
				}
			case *ast.AssignStmt:
				for _, l := range t.Lhs {
					if fv := fieldVar(info, l); fv != nil && aliased[fv] {
						mf, pos = fv, t.Pos()
					}
				}
			}
			if mf == nil {
				return true
			}
			if fg == nil {
				fg = NewFGraph(m.fi.Decl.Body, info)
			}
			id := fg.NodeOf(pos)
			ok := false
			if id >= 0 {
				before := fg.ReachSet(fg.Entry, assignsP, nil)[id]
				after := fg.Reaches(id, fg.Exit, assignsP)
				ok = !(before && after) || assignsP(fg.Nodes[id])
			}
			r.Check(ok, rule, m.fi.Name, tname+"."+f.Name()+" vs "+mf.Name(), c.Pos(pos), "path: the cached element is re-bound on every path that removes elements",
				fmt.Sprintf("%s caches a pointer to an element of %s, and this method removes elements from %s without re-binding the cache: later samples are written into an element no accessor can reach any more, so totals and cells disagree", f.Name(), mf.Name(), mf.Name()))
			return true
		})
	}
}

// ---------------------------------------------------------------- C06

// c06WholeGzipStream: with -z the gzip content is delivered decompressed -
// all of it. compress/gzip reads concatenated members by default; switching
// that off (Multistream(false)) silently ends the input after the first member.
func c06WholeGzipStream(c *Ctx, r *Report, rule string) {
	n := 0
	for _, fi := range c.AllFuncDecls("rare/pkg/extractor", "rare/cmd") {
		info := fi.Pkg.TypesInfo
		ast.Inspect(fi.Decl.Body, func(m ast.Node) bool {
			ce, ok := m.(*ast.CallExpr)
			if !ok {
				return true
			}
			switch calleeName(info, ce) {
			case "compress/gzip.NewReader":
				n++
				r.OK(rule, fi.Name, exprStr(ce.Fun), c.Pos(ce.Pos()), "library default: concatenated members are read as one stream")
			case "(*compress/gzip.Reader).Multistream":
				on := false
				if len(ce.Args) == 1 {
					if tv, ok := info.Types[ce.Args[0]]; ok && tv.Value != nil && tv.Value.Kind() == constant.Bool {
						on = constant.BoolVal(tv.Value)
					}
				}
				r.Check(on, rule, fi.Name, exprStr(ce), c.Pos(ce.Pos()), "constant: multi-member reading stays on",
					"the gzip reader is switched to single-member mode: everything after the first member of a multi-member archive (cat a.gz b.gz, appended logs, pigz/bgzip output) is dropped without a read error")
			}
			return true
		})
	}
	if n == 0 {
		r.Bad(rule, batchersPkg, "gzip.NewReader", "-", "no gzip reader is created any more: -z cannot deliver decompressed content")
	}
}

// c06WalkDecision: with -R a directory argument is walked. On every path
// through the expansion loop that reaches the glob expansion (i.e. does not
// walk), either recursion is off or a stat-based directory test of the very
// path argument has failed.
func c06WalkDecision(c *Ctx, r *Report, rule string) {
	fi := c.MustFunc(r, rule, dirwalkPkg, "GlobExpand")
	if fi == nil {
		return
	}
	info := fi.Pkg.TypesInfo
	var recursive types.Object
	for _, f := range fi.Decl.Type.Params.List {
		for _, id := range f.Names {
			if o := info.Defs[id]; o != nil {
				if b, ok := o.Type().Underlying().(*types.Basic); ok && b.Kind() == types.Bool {
					recursive = o
				}
			}
		}
	}
	var golit *ast.FuncLit
	ast.Inspect(fi.Decl.Body, func(n ast.Node) bool {
		if g, ok := n.(*ast.GoStmt); ok && golit == nil {
			golit, _ = ast.Unparen(g.Call.Fun).(*ast.FuncLit)
		}
		return true
	})
	if golit == nil || recursive == nil {
		r.Undecided(rule, fi.Name, "goroutine/recursive", c.Pos(fi.Decl.Pos()), "producer goroutine or the recursion switch not found")
		return
	}
	var loop *ast.RangeStmt
	for _, st := range golit.Body.List {
		if rs, ok := st.(*ast.RangeStmt); ok {
			loop = rs
		}
	}
	if loop == nil {
		r.Undecided(rule, fi.Name, "path loop", c.Pos(golit.Pos()), "loop over the path arguments not found")
		return
	}
	pathVar := identObj(info, loop.Value)
	// a directory test: a call with the path variable as its only argument whose callee stats it
	statsArg := func(ce *ast.CallExpr) bool {
		if len(ce.Args) != 1 || identObj(info, ce.Args[0]) != pathVar {
			return false
		}
		f := calleeFunc(info, ce)
		if f == nil {
			return false
		}
		if f.Pkg() != nil && !c.IsRarePkg(f.Pkg()) {
			return false
		}
		hfi := funcDeclOf(c, f.Origin())
		if hfi == nil {
			return false
		}
		hinfo := hfi.Pkg.TypesInfo
		var p0 types.Object
		if len(hfi.Decl.Type.Params.List) == 1 && len(hfi.Decl.Type.Params.List[0].Names) == 1 {
			p0 = hinfo.Defs[hfi.Decl.Type.Params.List[0].Names[0]]
		}
		stats, isdir := false, false
		ast.Inspect(hfi.Decl.Body, func(m ast.Node) bool {
			if c2, ok := m.(*ast.CallExpr); ok {
				switch calleeName(hinfo, c2) {
				case "os.Stat", "os.Lstat":
					if len(c2.Args) == 1 && identObj(hinfo, c2.Args[0]) == p0 {
						stats = true
					}
				}
				if se, ok := c2.Fun.(*ast.SelectorExpr); ok && se.Sel.Name == "IsDir" {
					isdir = true
				}
			}
			return true
		})
		return stats && isdir
	}
	fg := NewFGraph(golit.Body, info)
	bodyHead := -1
	for _, nd := range fg.Nodes {
		if nd.N == nil && nd.Block != nil && nd.Block.Stmt == ast.Stmt(loop) && nd.Block.Kind.String() == "RangeBody" {
			bodyHead = nd.ID
		}
	}
	globNodes := map[int]bool{}
	for _, nd := range fg.Nodes {
		if nd.N == nil {
			continue
		}
		for _, ce := range callsIn(nd.N) {
			if calleeName(info, ce) == "path/filepath.Glob" {
				globNodes[nd.ID] = true
			}
		}
	}
	if bodyHead < 0 || len(globNodes) == 0 {
		r.Undecided(rule, fi.Name, "glob branch", c.Pos(loop.Pos()), "the glob expansion of a path argument was not found in the loop")
		return
	}
	nPaths, bad := 0, 0
	enumPaths(fg, bodyHead, func(id int) bool { return globNodes[id] }, func(nodes []int, edges []FEdge) {
		nPaths++
		ok := false
		var implies func(cond ast.Expr, truth bool) bool
		implies = func(cond ast.Expr, truth bool) bool {
			cond = ast.Unparen(cond)
			switch t := cond.(type) {
			case *ast.UnaryExpr:
				if t.Op == token.NOT {
					return implies(t.X, !truth)
				}
			case *ast.BinaryExpr:
				switch {
				case t.Op == token.LAND && truth, t.Op == token.LOR && !truth:
					return implies(t.X, truth) || implies(t.Y, truth)
				case t.Op == token.LAND && !truth, t.Op == token.LOR && truth:
					return implies(t.X, truth) && implies(t.Y, truth)
				}
			case *ast.CallExpr:
				return !truth && statsArg(t)
			}
			return identObj(info, cond) == recursive && !truth
		}
		for _, e := range edges {
			if e.Cond != nil && e.Tag == nil && implies(e.Cond, e.Truth) {
				ok = true
			}
		}
		if !ok {
			bad++
		}
	})
	r.Check(bad == 0 && nPaths > 0, rule, fi.Name, "glob branch only without -R or for non-directories", c.Pos(loop.Pos()),
		fmt.Sprintf("path: on all %d path(s) to the glob expansion recursion is off or the directory test of the argument failed", nPaths),
		"with -R a path argument can reach the glob expansion although it was never found not to be a directory: a directory whose name the extra test rejects is not walked, so none of the files below it is read")
}

// ---------------------------------------------------------------- ok results are consumed

// okResultLive (…/ok-live): a bool or error result of a call that is assigned
// to a variable must be read before it is overwritten or the function ends.
// Overwriting it unread (`a, ok = f(x); b, ok = g(y); if !ok`) drops the
// first verdict: a failed evaluation is treated as a success.
func okResultLive(c *Ctx, r *Report, rule string, prefixes ...string) {
	n := 0
	for _, fi := range c.AllFuncDecls(prefixes...) {
		if isTestSupportPkg(fi.Pkg.PkgPath) {
			continue
		}
		info := fi.Pkg.TypesInfo
		bodies := []*ast.BlockStmt{fi.Decl.Body}
		for _, fl := range funcLitsIn(fi.Decl.Body) {
			bodies = append(bodies, fl.Body)
		}
		// variables captured by a nested literal are not tracked (their uses are elsewhere)
		for _, body := range bodies {
			var fg *FGraph
			inspectNoLit(body, func(x ast.Node) bool {
				as, ok := x.(*ast.AssignStmt)
				if !ok || len(as.Rhs) != 1 || len(as.Lhs) < 2 {
					return true
				}
				ce, ok := ast.Unparen(as.Rhs[0]).(*ast.CallExpr)
				if !ok {
					return true
				}
				tup, ok := info.TypeOf(ce).(*types.Tuple)
				if !ok || tup.Len() != len(as.Lhs) {
					return true
				}
				for i, l := range as.Lhs {
					id, ok := ast.Unparen(l).(*ast.Ident)
					if !ok || id.Name == "_" {
						continue
					}
					rt := tup.At(i).Type()
					isOK := false
					if b, isB := rt.Underlying().(*types.Basic); isB && b.Kind() == types.Bool {
						isOK = true
					}
					if types.Identical(rt, types.Universe.Lookup("error").Type()) {
						isOK = true
					}
					if !isOK {
						continue
					}
					o := identObj(info, id)
					v, isVar := o.(*types.Var)
					if !isVar || v.IsField() {
						continue
					}
					// named results and variables of an enclosing function: read by the caller / elsewhere
					if !(body.Pos() <= v.Pos() && v.Pos() < body.End()) {
						continue
					}
					if isNamedResult(info, fi.Decl, funcLitOfBody(fi.Decl, body), v) {
						continue
					}
					if fg == nil {
						fg = NewFGraph(body, info)
					}
					def := fg.NodeOf(as.Pos())
					if def < 0 {
						continue
					}
					n++
					uses := func(nd *FNode) bool {
						if nd.N == nil {
							return false
						}
						hit := false
						ast.Inspect(nd.N, func(y ast.Node) bool {
							if id2, ok := y.(*ast.Ident); ok && info.Uses[id2] == o {
								// a pure re-definition `x, ok = ..` lists ok on the left: not a use
								if !isAssignTarget(nd.N, id2) {
									hit = true
								}
							}
							return true
						})
						return hit
					}
					redefs := func(nd *FNode) bool {
						if nd.N == nil || nd.ID == def {
							return false
						}
						hit := false
						inspectNoLit(nd.N, func(y ast.Node) bool {
							if a2, ok := y.(*ast.AssignStmt); ok {
								for _, l2 := range a2.Lhs {
									if identObj(info, l2) == o {
										hit = true
									}
								}
							}
							return true
						})
						return hit
					}
					// search forward from the definition: a use ends the search on that branch;
					// reaching a re-definition or the exit unread is the violation
					dead := token.NoPos
					seen := map[int]bool{}
					stack := []int{}
					for _, e := range fg.Nodes[def].Succ {
						stack = append(stack, e.To)
					}
					for len(stack) > 0 {
						id := stack[len(stack)-1]
						stack = stack[:len(stack)-1]
						if seen[id] {
							continue
						}
						seen[id] = true
						nd := fg.Nodes[id]
						if uses(nd) {
							continue
						}
						if redefs(nd) {
							if dead == token.NoPos {
								dead = nd.N.Pos()
							}
							continue
						}
						if id == fg.Exit {
							continue // an early return that never needed the verdict
						}
						for _, e := range nd.Succ {
							stack = append(stack, e.To)
						}
					}
					where := fi.Name
					switch {
					case dead != token.NoPos:
						r.Bad(rule, where, stmtStr(as), c.Pos(as.Pos()), fmt.Sprintf("the %s result %s of this call is overwritten at %s before anything reads it: a failed evaluation goes unnoticed and its zero value is used as if it were valid", rt.String(), id.Name, c.Pos(dead)))
					default:
						r.OK(rule, where, stmtStr(as), c.Pos(as.Pos()), "live: read before it is overwritten")
					}
				}
				return true
			})
		}
	}
	r.Floor(rule, 20, "ok/err results of parse and static-evaluation calls")
	_ = n
}

func isAssignTarget(n ast.Node, id *ast.Ident) bool {
	target := false
	ast.Inspect(n, func(x ast.Node) bool {
		if as, ok := x.(*ast.AssignStmt); ok {
			for _, l := range as.Lhs {
				if ast.Unparen(l) == ast.Expr(id) {
					target = true
				}
			}
		}
		return true
	})
	return target
}

func usedAnywhere(info *types.Info, body ast.Node, o types.Object, def *ast.AssignStmt) bool {
	used := false
	ast.Inspect(body, func(y ast.Node) bool {
		if id2, ok := y.(*ast.Ident); ok && info.Uses[id2] == o && !isAssignTarget(body, id2) {
			used = true
		}
		return true
	})
	return used
}

func funcLitOfBody(fd *ast.FuncDecl, body *ast.BlockStmt) *ast.FuncLit {
	var out *ast.FuncLit
	ast.Inspect(fd, func(n ast.Node) bool {
		if fl, ok := n.(*ast.FuncLit); ok && fl.Body == body {
			out = fl
		}
		return true
	})
	return out
}

func isNamedResult(info *types.Info, fd *ast.FuncDecl, fl *ast.FuncLit, v *types.Var) bool {
	var res *ast.FieldList
	if fl != nil {
		res = fl.Type.Results
	} else {
		res = fd.Type.Results
	}
	if res == nil {
		return false
	}
	for _, f := range res.List {
		for _, id := range f.Names {
			if info.Defs[id] == v {
				return true
			}
		}
	}
	return false
}

// ---------------------------------------------------------------- C19-f tokenizer / parser agreement

// c19UnaryAgreement: the tokenizer classifies a name as a unary function
// (typeMod) and the parser later looks that token's text up in uniOps
// without checking the result. The two sites must agree: a typeMod token is
// only built with a text that was just found in uniOps under that very
// spelling, and the unchecked lookup happens only for typeMod tokens.
func c19UnaryAgreement(c *Ctx, r *Report, rule string) {
	const pkg = "rare/pkg/expressions/stdmath"
	p := c.ByPath[pkg]
	if p == nil {
		r.Undecided(rule, pkg, "package", "-", "package not found")
		return
	}
	info := p.TypesInfo
	var uniOps, typeMod types.Object
	if o := p.Types.Scope().Lookup("uniOps"); o != nil {
		uniOps = o
	}
	if o := p.Types.Scope().Lookup("typeMod"); o != nil {
		typeMod = o
	}
	if uniOps == nil || typeMod == nil {
		r.Undecided(rule, pkg, "uniOps/typeMod", "-", "the unary operator table or the token kind was not found")
		return
	}
	// stripConv: OpCode(x), string(x) -> x
	var stripConv func(e ast.Expr) ast.Expr
	stripConv = func(e ast.Expr) ast.Expr {
		e = ast.Unparen(e)
		if ce, ok := e.(*ast.CallExpr); ok && len(ce.Args) == 1 && isConversion(info, ce) {
			return stripConv(ce.Args[0])
		}
		return e
	}
	// lookupKey: uniOps[K] -> K (conversions stripped)
	lookupKey := func(e ast.Expr) (ast.Expr, bool) {
		ix, ok := ast.Unparen(e).(*ast.IndexExpr)
		if !ok || identObj(info, ix.X) != uniOps {
			return nil, false
		}
		return stripConv(ix.Index), true
	}
	// predicate helpers: func f(p) bool { _, ok := uniOps[conv(p)]; return ok } -> true
	isMembership := func(f *types.Func) bool {
		hfi := funcDeclOf(c, f)
		if hfi == nil || len(hfi.Decl.Type.Params.List) != 1 || len(hfi.Decl.Type.Params.List[0].Names) != 1 {
			return false
		}
		p0 := info.Defs[hfi.Decl.Type.Params.List[0].Names[0]]
		var okVar types.Object
		good := false
		for _, st := range hfi.Decl.Body.List {
			switch t := st.(type) {
			case *ast.AssignStmt:
				if len(t.Lhs) == 2 && len(t.Rhs) == 1 {
					if k, isL := lookupKey(t.Rhs[0]); isL && identObj(info, k) == p0 {
						okVar = identObj(info, t.Lhs[1])
					}
				}
			case *ast.ReturnStmt:
				// the membership verdict is the last result (a helper may also hand back the value)
				if len(t.Results) >= 1 && okVar != nil && identObj(info, t.Results[len(t.Results)-1]) == okVar {
					good = true
				}
			}
		}
		return good
	}
	nProd, nCons := 0, 0
	for _, fi := range c.AllFuncDecls(pkg) {
		if fi.Pkg.PkgPath != pkg {
			continue
		}
		var fg *FGraph
		vi := analyseVars(info, fi.Decl)
		graph := func() *FGraph {
			if fg == nil {
				fg = NewFGraph(fi.Decl.Body, info)
				fg.SolveFacts(vi)
			}
			return fg
		}
		// definitions `_, ok := uniOps[K]` / `v, ok := helper(K)`
		okDefs := map[types.Object]ast.Expr{} // ok variable -> key expression
		okBad := map[types.Object]string{}
		ast.Inspect(fi.Decl.Body, func(n ast.Node) bool {
			as, ok := n.(*ast.AssignStmt)
			if !ok || len(as.Lhs) != 2 || len(as.Rhs) != 1 {
				return true
			}
			okv := identObj(info, as.Lhs[1])
			if okv == nil {
				return true
			}
			if k, isL := lookupKey(as.Rhs[0]); isL {
				okDefs[okv] = k
			} else if ce, isC := ast.Unparen(as.Rhs[0]).(*ast.CallExpr); isC && len(ce.Args) == 1 {
				if f := calleeFunc(info, ce); f != nil && f.Pkg() != nil && f.Pkg().Path() == pkg {
					if isMembership(f.Origin()) {
						okDefs[okv] = stripConv(ce.Args[0])
					} else if mentionsObj(c, f.Origin(), uniOps) {
						okBad[okv] = f.Name()
					}
				}
			}
			return true
		})
		// producers
		ast.Inspect(fi.Decl.Body, func(n ast.Node) bool {
			cl, ok := n.(*ast.CompositeLit)
			if !ok || !isNamed(info.TypeOf(cl), pkg, "token") {
				return true
			}
			var val, kind ast.Expr
			for i, el := range cl.Elts {
				if kv, isKV := el.(*ast.KeyValueExpr); isKV {
					switch exprStr(kv.Key) {
					case "val":
						val = kv.Value
					case "t":
						kind = kv.Value
					}
				} else if i == 0 {
					val = el
				} else if i == 1 {
					kind = el
				}
			}
			if kind == nil || identObj(info, kind) != typeMod || val == nil {
				return true
			}
			nProd++
			want := stripConv(val)
			good, why := false, "no membership test of the token text in the unary operator table dominates this token"
			for _, ft := range graph().FactsAtPos(cl.Pos()) {
				if ft.Tag != nil || !ft.Truth {
					continue
				}
				cond := ast.Unparen(ft.Cond)
				if o := identObj(info, cond); o != nil {
					if k, has := okDefs[o]; has {
						if sameValueExpr(info, k, want) {
							good = true
						} else {
							why = "the table was searched for " + exprStr(k) + " but the token carries " + exprStr(want)
						}
					} else if h, has := okBad[o]; has {
						why = "the helper " + h + " does not look the name up under the spelling it was given"
					}
				}
				if ce, isC := cond.(*ast.CallExpr); isC && len(ce.Args) == 1 {
					if f := calleeFunc(info, ce); f != nil && f.Pkg() != nil && f.Pkg().Path() == pkg {
						if isMembership(f.Origin()) {
							if sameValueExpr(info, stripConv(ce.Args[0]), want) {
								good = true
							} else {
								why = "the table was searched for " + exprStr(ce.Args[0]) + " but the token carries " + exprStr(want)
							}
						} else if mentionsObj(c, f.Origin(), uniOps) {
							why = "the helper " + f.Name() + " does not look the name up under the spelling it was given"
						}
					}
				}
			}
			r.Check(good, rule, fi.Name, "token{"+exprStr(val)+", typeMod}", c.Pos(cl.Pos()), "guard: the token text was just found in the unary operator table under this spelling",
				"a unary-function token is created although its text is not known to be a key of the operator table ("+why+"): the parser looks the text up without checking and builds a node with a nil function, which panics when the formula is simplified at compile time")
			return true
		})
		// consumers: uniOps[K] in a single-value context
		twoValue := map[ast.Expr]bool{}
		ast.Inspect(fi.Decl.Body, func(n ast.Node) bool {
			if as, ok := n.(*ast.AssignStmt); ok && len(as.Lhs) == 2 && len(as.Rhs) == 1 {
				twoValue[ast.Unparen(as.Rhs[0])] = true
			}
			return true
		})
		ast.Inspect(fi.Decl.Body, func(n ast.Node) bool {
			ix, ok := n.(*ast.IndexExpr)
			if !ok || identObj(info, ix.X) != uniOps || twoValue[ix] {
				return true
			}
			nCons++
			// the key is X.val of a token X, and X.t == typeMod holds here
			key := stripConv(ix.Index)
			good := false
			if se, isS := key.(*ast.SelectorExpr); isS && se.Sel.Name == "val" {
				for _, ft := range graph().FactsAtPos(ix.Pos()) {
					if !ft.Truth {
						continue
					}
					if ft.Tag != nil {
						if ts, isT := ast.Unparen(ft.Tag).(*ast.SelectorExpr); isT && ts.Sel.Name == "t" && exprStr(ts.X) == exprStr(se.X) && identObj(info, ft.Cond) == typeMod {
							good = true
						}
					} else if be, isB := ast.Unparen(ft.Cond).(*ast.BinaryExpr); isB && be.Op == token.EQL {
						if ts, isT := ast.Unparen(be.X).(*ast.SelectorExpr); isT && ts.Sel.Name == "t" && exprStr(ts.X) == exprStr(se.X) && identObj(info, be.Y) == typeMod {
							good = true
						}
					}
				}
			}
			r.Check(good, rule, fi.Name, exprStr(ix), c.Pos(ix.Pos()), "guard: unchecked lookup only for tokens the tokenizer classified as unary functions",
				"the unary operator table is read without checking the result for a key that is not known to be a typeMod token's text: a miss yields a nil function that panics when called")
			return true
		})
	}
	if nProd < 2 {
		r.Undecided(rule, pkg, "producers", "-", fmt.Sprintf("found %d site(s) creating unary-function tokens, expected the named-function and the operator site", nProd))
	}
	_ = nCons
	r.Floor(rule, 3, "two producers and the parser's lookup")
}

// mentionsObj: does the body of f refer to object o?
func mentionsObj(c *Ctx, f *types.Func, o types.Object) bool {
	hfi := funcDeclOf(c, f)
	if hfi == nil {
		return false
	}
	hit := false
	ast.Inspect(hfi.Decl.Body, func(n ast.Node) bool {
		if id, ok := n.(*ast.Ident); ok && hfi.Pkg.TypesInfo.Uses[id] == o {
			hit = true
		}
		return true
	})
	return hit
}

// sameValueExpr: two expressions denote the same variable / field path.
func sameValueExpr(info *types.Info, a, b ast.Expr) bool {
	a, b = ast.Unparen(a), ast.Unparen(b)
	oa, ob := identObj(info, a), identObj(info, b)
	if oa != nil || ob != nil {
		return oa == ob
	}
	return exprStr(a) == exprStr(b)
}

// ---------------------------------------------------------------- C09-e metacharacters

// c09Metacharacters: the template language has a fixed set of characters with
// a special meaning: `\`, `{`, `}` outside braces; additionally `"` and white
// space inside. The set of rune constants each scanner compares its current
// character with must be exactly that set: a further constant makes an
// ordinary character special (an apostrophe opening a quoted section), a
// missing one removes documented syntax.
func c09Metacharacters(c *Ctx, r *Report, rule string) {
	type spec struct {
		name string
		want []rune
	}
	for _, sp := range []spec{
		{"splitTokenizedArguments", []rune{'\\', '"', '{', '}'}},
		{"(*KeyBuilder).Compile", []rune{'\\', '{', '}'}},
	} {
		fi := c.MustFunc(r, rule, exprPkg, sp.name)
		if fi == nil {
			continue
		}
		info := fi.Pkg.TypesInfo
		got := map[rune]token.Pos{}
		isRuneVar := func(e ast.Expr) bool {
			e = ast.Unparen(e)
			tv, ok := info.Types[e]
			if !ok || tv.Value != nil {
				return false
			}
			b, ok := tv.Type.Underlying().(*types.Basic)
			if !ok || (b.Kind() != types.Int32 && b.Kind() != types.Uint8) {
				return false
			}
			switch e.(type) {
			case *ast.Ident, *ast.IndexExpr:
				return true
			}
			return false
		}
		constRune := func(e ast.Expr) (rune, bool) {
			tv, ok := info.Types[e]
			if !ok || tv.Value == nil || tv.Value.Kind() != constant.Int {
				return 0, false
			}
			v, exact := constant.Int64Val(tv.Value)
			if !exact {
				return 0, false
			}
			return rune(v), true
		}
		ast.Inspect(fi.Decl.Body, func(n ast.Node) bool {
			switch t := n.(type) {
			case *ast.BinaryExpr:
				if t.Op != token.EQL && t.Op != token.NEQ {
					return true
				}
				if isRuneVar(t.X) {
					if k, ok := constRune(t.Y); ok {
						got[k] = t.Pos()
					}
				} else if isRuneVar(t.Y) {
					if k, ok := constRune(t.X); ok {
						got[k] = t.Pos()
					}
				}
			case *ast.SwitchStmt:
				if t.Tag != nil && isRuneVar(t.Tag) {
					for _, cl := range t.Body.List {
						for _, e := range cl.(*ast.CaseClause).List {
							if k, ok := constRune(e); ok {
								got[k] = e.Pos()
							}
						}
					}
				}
			}
			return true
		})
		want := map[rune]bool{}
		for _, k := range sp.want {
			want[k] = true
			_, has := got[k]
			r.Check(has, rule, fi.Name, fmt.Sprintf("%q", k), c.Pos(fi.Decl.Pos()), "table: the documented special character is recognised", fmt.Sprintf("the scanner no longer tests for %q: documented syntax is gone", k))
		}
		var extra []string
		pos := fi.Decl.Pos()
		for k, p := range got {
			if !want[k] {
				extra = append(extra, fmt.Sprintf("%q", k))
				pos = p
			}
		}
		sort.Strings(extra)
		r.Check(len(extra) == 0, rule, fi.Name, "no further special characters", c.Pos(pos), "table: the scanner compares its character with the documented set only",
			"the scanner gives a special meaning to "+strings.Join(extra, ", ")+", which the documented syntax treats as ordinary text: templates containing it are split or quoted differently from what their tree dictates")
	}
	r.Floor(rule, 9, "4+1 obligations for the argument splitter, 3+1 for Compile")
}

// ---------------------------------------------------------------- C10-e shared function table

// c10TableCopy: AddFunctions copies every definition into the shared table,
// unconditionally - the loader registers each definition into the compiler it
// uses for later definitions (last one wins), and the table user expressions
// are compiled against must agree with that.
func c10TableCopy(c *Ctx, r *Report, rule string) {
	fi := c.MustFunc(r, rule, "rare/pkg/expressions/funclib", "AddFunctions")
	if fi == nil {
		return
	}
	info := fi.Pkg.TypesInfo
	var loop *ast.RangeStmt
	for _, st := range fi.Decl.Body.List {
		if rs, ok := st.(*ast.RangeStmt); ok {
			loop = rs
		}
	}
	if loop == nil {
		// maps.Copy(Additional, funcs) as an unconditional top-level statement is the same copy
		var param types.Object
		if fi.Decl.Type.Params != nil && len(fi.Decl.Type.Params.List) == 1 && len(fi.Decl.Type.Params.List[0].Names) == 1 {
			param = info.Defs[fi.Decl.Type.Params.List[0].Names[0]]
		}
		for _, st := range fi.Decl.Body.List {
			if es, ok := st.(*ast.ExprStmt); ok {
				if ce, ok := es.X.(*ast.CallExpr); ok && calleeName(info, ce) == "maps.Copy" && len(ce.Args) == 2 {
					dst, isVar := identObj(info, ce.Args[0]).(*types.Var)
					if isVar && dst.Name() == "Additional" && param != nil && identObj(info, ce.Args[1]) == param {
						r.OK(rule, fi.Name, "Additional[name] = fnc on every path", c.Pos(ce.Pos()), "library: maps.Copy stores every definition under its name, unconditionally")
						return
					}
				}
			}
		}
		r.Undecided(rule, fi.Name, "loop", c.Pos(fi.Decl.Pos()), "loop over the functions to add not found")
		return
	}
	k, v := identObj(info, loop.Key), identObj(info, loop.Value)
	fg := NewFGraph(fi.Decl.Body, info)
	bodyHead, loopHead := -1, -1
	for _, nd := range fg.Nodes {
		if nd.N == nil && nd.Block != nil && nd.Block.Stmt == ast.Stmt(loop) {
			switch nd.Block.Kind.String() {
			case "RangeBody":
				bodyHead = nd.ID
			case "RangeLoop":
				loopHead = nd.ID
			}
		}
	}
	stores := func(nd *FNode) bool {
		as, ok := nd.N.(*ast.AssignStmt)
		if !ok || len(as.Lhs) != 1 || len(as.Rhs) != 1 {
			return false
		}
		ix, ok := ast.Unparen(as.Lhs[0]).(*ast.IndexExpr)
		if !ok {
			return false
		}
		tv, isVar := identObj(info, ix.X).(*types.Var)
		return isVar && tv.Name() == "Additional" && identObj(info, ix.Index) == k && identObj(info, as.Rhs[0]) == v && k != nil && v != nil
	}
	nPaths, bad := 0, 0
	if bodyHead >= 0 && loopHead >= 0 {
		enumPaths(fg, bodyHead, func(id int) bool { return id == loopHead || id == fg.Exit }, func(nodes []int, edges []FEdge) {
			nPaths++
			ok := false
			for _, id := range nodes {
				if fg.Nodes[id].N != nil && stores(fg.Nodes[id]) {
					ok = true
				}
			}
			if !ok {
				bad++
			}
		})
	}
	r.Check(nPaths > 0 && bad == 0, rule, fi.Name, "Additional[name] = fnc on every path", c.Pos(loop.Pos()), fmt.Sprintf("path: all %d path(s) through the loop body store the definition under its name", nPaths),
		"a funcs-file definition can pass through AddFunctions without replacing the table entry of its name: later definitions were compiled against the newest definition, user expressions resolve the name in this table and get another one, so a call no longer equals its body written inline")
}
