package main

import (
	"fmt"
	"go/ast"
	"go/types"
)

// forEachCall visits every call expression in the repository (incl. literals)
// together with the package and the enclosing function declaration (may be nil
// for package-level initialisers).
func forEachCall(c *Ctx, f func(p *packagesPkg, fd *ast.FuncDecl, call *ast.CallExpr)) {
	for _, p := range c.Pkgs {
		for _, file := range p.Syntax {
			for _, d := range file.Decls {
				fd, _ := d.(*ast.FuncDecl)
				ast.Inspect(d, func(n ast.Node) bool {
					if ce, ok := n.(*ast.CallExpr); ok {
						f(p, fd, ce)
					}
					return true
				})
			}
		}
	}
}

func fdName(p *packagesPkg, fd *ast.FuncDecl) string {
	if fd == nil {
		return p.PkgPath + ".<init>"
	}
	return funcDisplayName(p.PkgPath, fd)
}

// constIndexCallers: every call of pkg.fn passes a non-negative constant as
// argument #argIdx.
func constIndexCallers(c *Ctx, r *Report, rule, pkg, fn string, argIdx int) {
	fi := c.MustFunc(r, rule, pkg, fn)
	if fi == nil {
		return
	}
	forEachCall(c, func(p *packagesPkg, fd *ast.FuncDecl, call *ast.CallExpr) {
		if calleeFunc(p.TypesInfo, call) != fi.Obj || argIdx >= len(call.Args) {
			return
		}
		v, ok := constInt(p.TypesInfo, call.Args[argIdx])
		r.Check(ok && v >= 0, rule, fdName(p, fd), exprStr(call), c.Pos(call.Pos()),
			"constant: index argument is a non-negative constant",
			fmt.Sprintf("argument #%d of %s is not a non-negative constant, so the callee's `idx < len(stages)` guard does not bound it from below", argIdx, fn))
	})
}

// scannerGuard re-checks the reasons given for tokenScanner.pop/peek.
func scannerGuard(c *Ctx, r *Report) {
	const rule = "C08/scanner-guard"
	const pkg = "rare/pkg/expressions/stdmath"
	pop := c.MustFunc(r, rule, pkg, "(*tokenScanner).pop")
	peek := c.MustFunc(r, rule, pkg, "(*tokenScanner).peek")
	done := c.MustFunc(r, rule, pkg, "(*tokenScanner).done")
	nextOp := c.MustFunc(r, rule, pkg, "(*tokenScanner).getNextOp")
	if pop == nil || peek == nil || done == nil || nextOp == nil {
		return
	}
	p := pop.Pkg
	info := p.TypesInfo
	consuming := func(call *ast.CallExpr) bool {
		f := calleeFunc(info, call)
		if f == nil {
			return false
		}
		switch f.Name() {
		case "pop", "getNextExpr", "compileTokens", "Compile":
			return f.Pkg() == p.Types
		case "getNextOp":
			if f.Pkg() == p.Types && len(call.Args) == 1 {
				if id, ok := call.Args[0].(*ast.Ident); ok && id.Name == "false" {
					return false
				}
				return true
			}
		}
		return false
	}
	hasDoneFalse := func(facts []Fact) bool {
		for _, f := range facts {
			if call, ok := ast.Unparen(f.Cond).(*ast.CallExpr); ok && !f.Truth && f.Tag == nil {
				if calleeFunc(info, call) == done.Obj {
					return true
				}
			}
			if ue, ok := ast.Unparen(f.Cond).(*ast.UnaryExpr); ok && f.Truth && f.Tag == nil {
				if call, ok := ast.Unparen(ue.X).(*ast.CallExpr); ok && calleeFunc(info, call) == done.Obj {
					return true
				}
			}
		}
		return false
	}
	n := 0
	for _, fi := range c.AllFuncDecls(pkg) {
		fd := fi.Decl
		vi := analyseVars(info, fd)
		fg := NewFGraph(fd.Body, info)
		fg.SolveFacts(vi)
		inspectNoLit(fd.Body, func(x ast.Node) bool {
			call, ok := x.(*ast.CallExpr)
			if !ok {
				return true
			}
			callee := calleeFunc(info, call)
			if callee == nil {
				return true
			}
			isPopPeek := callee == pop.Obj || callee == peek.Obj
			isNextOp := callee == nextOp.Obj
			if !isPopPeek && !isNextOp {
				return true
			}
			if fi.Obj == nextOp.Obj && isPopPeek {
				return true // getNextOp relies on its callers (checked below)
			}
			n++
			node := fg.NodeOf(call.Pos())
			if hasDoneFalse(fg.FactsAtPos(call.Pos())) {
				r.OK(rule, fi.Name, exprStr(call), c.Pos(call.Pos()), "guard: dominated by !s.done() with no call in between")
				return true
			}
			if isNextOp {
				// dominated by a non-consuming getNextOp(false) that was itself guarded
				okDom := false
				for _, nd := range fg.Nodes {
					if nd.N == nil || nd.ID == node {
						continue
					}
					for _, c2 := range callsIn(nd.N) {
						if calleeFunc(info, c2) != nextOp.Obj || consuming(c2) {
							continue
						}
						if !fg.Dominates(nd.ID, node) || !hasDoneFalse(fg.FactsAt(nd.ID)) {
							continue
						}
						// nothing consuming between nd and node
						between := fg.ReachSet(nd.ID, func(b *FNode) bool { return b.ID == node }, nil)
						clean := true
						for id := range between {
							if id == node || fg.Nodes[id].N == nil {
								continue
							}
							for _, c3 := range callsIn(fg.Nodes[id].N) {
								if consuming(c3) {
									clean = false
								}
							}
						}
						if clean {
							okDom = true
						}
					}
				}
				if okDom {
					r.OK(rule, fi.Name, exprStr(call), c.Pos(call.Pos()), "guard: dominated by a guarded, non-consuming getNextOp(false) with no token consumed in between")
					return true
				}
			}
			r.Bad(rule, fi.Name, exprStr(call), c.Pos(call.Pos()), "call that reads s.next[0] is not dominated by a !s.done() check: an exhausted token list indexes out of range (e.g. `{! -}`)")
			return true
		})
	}
	_ = types.Universe
	r.Floor(rule, 3, "getNextExpr's pop and compileTokens' two getNextOp calls")
}
