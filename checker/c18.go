package main

// C18 - time helpers: quarter range, zone wiring, ISO week/year pairing,
// whole-second durations, error markers.

import (
	"fmt"
	"go/ast"
	"go/token"
	"go/types"
	"strings"
)

func init() {
	register(&propDef{
		ID:  "C18",
		Run: runC18,
		Explain: "Decided: (a) the quarter attribute, evaluated from its expression for every month 1..12 (static evaluation of the integer expression with the month bound), is 1 for January-March ... 4 for October-December; (b) zone wiring: every time.Unix(..) in a stage is converted with .In(tz) using the factory's parsed location, every parse in a stage goes through ParseInLocation / dateparse.ParseIn with that same location, and no zone-less time.Parse is used; (c) the ISO week number is only paired with the ISO week-numbering year (not the calendar year); (d) durations are whole seconds: durationformat parses an integer and no floating-point value is converted to a time.Duration; (e) unparseable input yields the marker: every parse failure branch in funcsTime.go returns an error marker (same rule as C11-a). " +
			"NOT decided: calendar correctness over instants and zones (delegated to package time), format round trip, bucket layouts beyond wiring.",
		Assume: []string{"package time implements the calendar correctly"},
	})
}

func runC18(c *Ctx, r *Report) {
	c18Quarter(c, r)
	c18Zones(c, r)
	c18Week(c, r)
	c18Duration(c, r)
	// error markers restricted to funcsTime.go
	sub := NewReport(r.Prop, r.Tier)
	sub.curCfg = r.curCfg
	c11ErrorMarkers(c, sub)
	n := 0
	for _, o := range sub.Obs {
		if strings.Contains(o.Pos, "funcsTime.go") {
			o.Rule = strings.Replace(o.Rule, "C11-a", "C18-e", 1)
			o.Key = strings.Replace(o.Key, "C11-a", "C18-e", 1)
			r.Obs = append(r.Obs, o)
			n++
		}
	}
	r.Floor("C18-e/ok-checked", 5, "parse sites of funcsTime.go")
	stageKeepsNoAtomicState(c, r, "C18-f/no-memo", func(p token.Pos) bool { return inFuncsTime(c, p) }, true)
	c18WholeSecondsOut(c, r, "C18-d/whole-seconds-out")
	c18DurationAuthority(c, r, "C18-d/duration-authority")
	c18OffsetPrecision(c, r, "C18-h/offset-precision")
	// names (formats, buckets, attributes) are resolved the same way on every run: no lookup by
	// iterating a map in hash order and taking the first hit
	nm := emitMapLoops(c, r, "C18-g/map-order", analyseMapLoops(c), func(ml mapLoop) bool { return inFuncsTime(c, ml.Rs.Pos()) })
	r.OK("C18-g/map-order", stdlibPkg, "scan", "-", fmt.Sprintf("scan: %d map iteration(s) in the time helpers examined", nm))
}

// evalIntExpr evaluates an integer expression with some identifiers bound.
func evalIntExpr(info *types.Info, e ast.Expr, env map[types.Object]int64) (int64, bool) {
	e = ast.Unparen(e)
	if v, ok := constInt(info, e); ok {
		return v, true
	}
	switch t := e.(type) {
	case *ast.Ident:
		v, ok := env[info.Uses[t]]
		return v, ok
	case *ast.BinaryExpr:
		a, ok1 := evalIntExpr(info, t.X, env)
		b, ok2 := evalIntExpr(info, t.Y, env)
		if !ok1 || !ok2 {
			return 0, false
		}
		switch t.Op {
		case token.ADD:
			return a + b, true
		case token.SUB:
			return a - b, true
		case token.MUL:
			return a * b, true
		case token.QUO:
			if b == 0 {
				return 0, false
			}
			return a / b, true
		case token.REM:
			if b == 0 {
				return 0, false
			}
			return a % b, true
		}
	case *ast.CallExpr:
		if isConversion(info, t) && len(t.Args) == 1 {
			return evalIntExpr(info, t.Args[0], env)
		}
	}
	return 0, false
}

func c18Quarter(c *Ctx, r *Report) {
	const rule = "C18-a/quarter"
	init, p := c.pkgVarInit(stdlibPkg, "attrType")
	cl := asCompositeLit(init)
	if p == nil || cl == nil {
		r.Undecided(rule, stdlibPkg, "attrType", "-", "attribute table is not a composite literal")
		return
	}
	info := p.TypesInfo
	for _, e := range mapLitEntries(info, cl) {
		if !e.KeyOK || e.Key != "QUARTER" {
			continue
		}
		fl, ok := ast.Unparen(e.Value).(*ast.FuncLit)
		if !ok {
			r.Undecided(rule, stdlibPkg+".var attrType[\"QUARTER\"]", "function", c.Pos(e.Value.Pos()), "entry is not a function literal")
			return
		}
		// month := int(t.Month()) ; return strconv.Itoa(EXPR)
		var monthObj types.Object
		var result ast.Expr
		ast.Inspect(fl.Body, func(n ast.Node) bool {
			switch t := n.(type) {
			case *ast.AssignStmt:
				if len(t.Lhs) == 1 && len(t.Rhs) == 1 && strings.Contains(exprStr(t.Rhs[0]), ".Month()") {
					monthObj = identObj(info, t.Lhs[0])
				}
			case *ast.ReturnStmt:
				if len(t.Results) == 1 {
					if ce, ok := ast.Unparen(t.Results[0]).(*ast.CallExpr); ok && calleeName(info, ce) == "strconv.Itoa" {
						result = ce.Args[0]
					}
				}
			}
			return true
		})
		if result == nil {
			r.Undecided(rule, stdlibPkg+".var attrType[\"QUARTER\"]", "expression", c.Pos(fl.Pos()), "`return strconv.Itoa(<expr of month>)` not found")
			return
		}
		bad := ""
		for m := int64(1); m <= 12; m++ {
			env := map[types.Object]int64{}
			if monthObj != nil {
				env[monthObj] = m
			}
			// also allow int(t.Month()) inline: substitute by evaluating with a synthetic binding
			v, ok := evalIntExprMonth(info, result, env, m)
			want := (m-1)/3 + 1
			if !ok {
				bad = "expression cannot be evaluated statically"
				break
			}
			if v != want {
				bad = fmt.Sprintf("month %d gives quarter %d, expected %d", m, v, want)
				break
			}
		}
		r.Check(bad == "", rule, stdlibPkg+".var attrType[\"QUARTER\"]", exprStr(result), c.Pos(result.Pos()), "evaluated: months 1..12 map to quarters 1,1,1,2,2,2,3,3,3,4,4,4", "the quarter expression is wrong: "+bad)
	}
	r.Floor(rule, 1, "QUARTER entry")
}

func evalIntExprMonth(info *types.Info, e ast.Expr, env map[types.Object]int64, m int64) (int64, bool) {
	// t.Month() calls evaluate to m
	e = ast.Unparen(e)
	if ce, ok := e.(*ast.CallExpr); ok {
		if se, ok := ce.Fun.(*ast.SelectorExpr); ok && se.Sel.Name == "Month" && len(ce.Args) == 0 {
			return m, true
		}
		if isConversion(info, ce) && len(ce.Args) == 1 {
			return evalIntExprMonth(info, ce.Args[0], env, m)
		}
	}
	if be, ok := e.(*ast.BinaryExpr); ok {
		a, ok1 := evalIntExprMonth(info, be.X, env, m)
		b, ok2 := evalIntExprMonth(info, be.Y, env, m)
		if ok1 && ok2 {
			switch be.Op {
			case token.ADD:
				return a + b, true
			case token.SUB:
				return a - b, true
			case token.MUL:
				return a * b, true
			case token.QUO:
				if b != 0 {
					return a / b, true
				}
			case token.REM:
				if b != 0 {
					return a % b, true
				}
			}
		}
		return 0, false
	}
	return evalIntExpr(info, e, env)
}

func inFuncsTime(c *Ctx, pos token.Pos) bool {
	return strings.HasSuffix(c.Fset.Position(pos).Filename, "funcsTime.go")
}

func c18Zones(c *Ctx, r *Report) {
	const rule = "C18-c/zone-wiring"
	for _, fi := range c.AllFuncDecls(stdlibPkg) {
		if !inFuncsTime(c, fi.Decl.Pos()) {
			continue
		}
		info := fi.Pkg.TypesInfo
		// the location variable(s) of the factory: *time.Location typed locals/params
		isLoc := func(e ast.Expr) bool {
			t := info.TypeOf(e)
			return t != nil && isNamed(t, "time", "Location")
		}
		for _, fl := range funcLitsIn(fi.Decl.Body) {
			if !isStageLit(info, fl) {
				continue
			}
			parent := map[ast.Node]ast.Node{}
			ast.Inspect(fl.Body, func(n ast.Node) bool {
				if n == nil {
					return false
				}
				ast.Inspect(n, func(m ast.Node) bool {
					if m != nil && m != n {
						if _, has := parent[m]; !has {
							parent[m] = n
						}
					}
					return m == n
				})
				return true
			})
			ast.Inspect(fl.Body, func(n ast.Node) bool {
				ce, ok := n.(*ast.CallExpr)
				if !ok {
					return true
				}
				name := calleeName(info, ce)
				switch name {
				case "time.Unix", "time.UnixMilli", "time.UnixMicro":
					// must be the receiver of .In(tz)
					okIn := false
					ast.Inspect(fl.Body, func(m ast.Node) bool {
						if c2, ok := m.(*ast.CallExpr); ok {
							if se, ok := c2.Fun.(*ast.SelectorExpr); ok && se.Sel.Name == "In" && ast.Unparen(se.X) == ast.Expr(ce) && len(c2.Args) == 1 && isLoc(c2.Args[0]) {
								okIn = true
							}
						}
						return true
					})
					r.Check(okIn, rule, fi.Name, exprStr(ce)+".In(tz)", c.Pos(ce.Pos()), "zone: the instant is viewed in the requested location", "an instant built with "+name+" is used without .In(<requested zone>): calendar fields are reported in the machine's local zone")
				case "time.Parse":
					r.Bad(rule, fi.Name, exprStr(ce), c.Pos(ce.Pos()), "a timestamp is parsed with the zone-less time.Parse: input without an explicit offset is read as UTC instead of the requested zone (then shifted), so the instant is off by the zone's offset")
				case "time.ParseInLocation":
					r.Check(len(ce.Args) == 3 && isLoc(ce.Args[2]) && exprStr(ce.Args[2]) != "time.UTC" && exprStr(ce.Args[2]) != "time.Local", rule, fi.Name, exprStr(ce.Fun)+"(.., "+exprStr(ce.Args[len(ce.Args)-1])+")", c.Pos(ce.Pos()), "zone: parsed in the requested location", "a timestamp is parsed in a fixed location instead of the requested one")
				case "github.com/araddon/dateparse.ParseIn":
					r.Check(len(ce.Args) >= 2 && isLoc(ce.Args[1]), rule, fi.Name, exprStr(ce.Fun)+"(.., "+exprStr(ce.Args[1])+")", c.Pos(ce.Pos()), "zone: parsed in the requested location", "a timestamp is auto-parsed without the requested location")
				case "github.com/araddon/dateparse.ParseAny", "github.com/araddon/dateparse.ParseLocal", "github.com/araddon/dateparse.ParseStrict":
					r.Bad(rule, fi.Name, exprStr(ce), c.Pos(ce.Pos()), "a timestamp is auto-parsed without the requested location")
				}
				return true
			})
		}
	}
	r.Floor(rule, 5, "two time.Unix and three zone-aware parses")
}

func c18Week(c *Ctx, r *Report) {
	const rule = "C18-c/iso-week-year"
	init, p := c.pkgVarInit(stdlibPkg, "attrType")
	cl := asCompositeLit(init)
	if p == nil || cl == nil {
		return
	}
	info := p.TypesInfo
	n := 0
	for _, e := range mapLitEntries(info, cl) {
		fl, ok := ast.Unparen(e.Value).(*ast.FuncLit)
		if !ok {
			continue
		}
		usesISO, discardsYear, usesCalYear := false, false, false
		ast.Inspect(fl.Body, func(x ast.Node) bool {
			switch t := x.(type) {
			case *ast.AssignStmt:
				if len(t.Rhs) == 1 && len(t.Lhs) == 2 {
					if ce, ok := t.Rhs[0].(*ast.CallExpr); ok && calleeName(info, ce) == "(time.Time).ISOWeek" {
						usesISO = true
						if exprStr(t.Lhs[0]) == "_" {
							discardsYear = true
						}
					}
				}
			case *ast.CallExpr:
				if calleeName(info, t) == "(time.Time).Year" {
					usesCalYear = true
				}
			}
			return true
		})
		if !usesISO {
			continue
		}
		n++
		r.Check(!(usesCalYear), rule, stdlibPkg+".var attrType["+fmt.Sprintf("%q", e.Key)+"]", "ISO week with ISO year", c.Pos(fl.Pos()), "pairing: the ISO week number is not combined with the calendar year", "the ISO week number is combined with t.Year(): around New Year the week belongs to the neighbouring ISO year (2021-01-01 is week 53 of 2020)")
		_ = discardsYear
	}
	r.Floor(rule, 2, "WEEK and YEARWEEK")
}

func c18Duration(c *Ctx, r *Report) {
	const rule = "C18-d/whole-seconds"
	n := 0
	for _, fi := range c.AllFuncDecls(stdlibPkg) {
		if !inFuncsTime(c, fi.Decl.Pos()) {
			continue
		}
		info := fi.Pkg.TypesInfo
		ast.Inspect(fi.Decl.Body, func(x ast.Node) bool {
			ce, ok := x.(*ast.CallExpr)
			if !ok || !isConversion(info, ce) || len(ce.Args) != 1 {
				return true
			}
			if !isNamed(info.TypeOf(ce), "time", "Duration") {
				return true
			}
			n++
			from, _ := info.TypeOf(ce.Args[0]).Underlying().(*types.Basic)
			isFloat := from != nil && from.Info()&types.IsFloat != 0
			r.Check(!isFloat, rule, fi.Name, exprStr(ce), c.Pos(ce.Pos()), "integer: the duration is built from a whole number", "a floating-point value is converted to a time.Duration: NaN/Inf/fractions are accepted instead of yielding the error marker, and the text no longer converts back to the same whole seconds")
			return true
		})
	}
	r.Floor(rule, 1, "durationformat")
}
