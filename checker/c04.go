package main

// C04 - returned line buffers are never overwritten; errors reported once and
// end the stream; CR handling wiring; bounds.

import (
	"go/ast"
	"go/token"
	"go/types"
	"strings"
)

func init() {
	register(&propDef{
		ID:  "C04",
		Run: runC04,
		Explain: "Decided: (a) write discipline on scanner buffers: every instruction that writes bytes into a scanner's buffer (Read(dst), copy(dst, ..), append, element store) targets either a buffer that was freshly made on every path since the start of the enclosing loop iteration, or the tail s.buf[s.end:] beyond everything a token can cover; the offset/end bookkeeping is only rewound together with such a fresh buffer; tokens are only ever sub-slices of the buffer (no in-place shift as bufio.Scanner does); (b) error discipline: the error callback is invoked only under err != nil && err != io.EOF, eof is set on every path that saw an error, the byte count of a Read is added before the error is acted upon (bytes read together with the error are kept), and no Read is reachable once eof is known; (c) CR handling wiring: every newline-terminated token goes through dropCR and the EOF tail does not; (d) every slice/index expression of pkg/readahead is discharged (compiler, guard facts, reviewed reasons). dropCR returns its argument, or the argument minus exactly its last byte under the test that this byte is a carriage return. " +
			"NOT decided: that the yielded segments are exactly the newline-delimited segments for every chunking and buffer size (offset arithmetic that stays inside the buffer is invisible to these rules).",
		Assume: []string{"io.Reader implementations and the error callback do not re-enter the scanner"},
	})
}

const readaheadPkg = "rare/pkg/readahead"

func runC04(c *Ctx, r *Report) {
	c04Buffers(c, r, "C04-a")
	c04Errors(c, r)
	c04DropCR(c, r)
	c04Bounds(c, r)
	// (e) the hand-over of line slices to the consumer is stable too: a batch that was sent is never appended to again
	borrow(c, r, func(c *Ctx, r *Report) { c01BatcherLoops(c, r, "C01-b") }, "C01-b/fresh-batch", "C04-e/fresh-batch", nil, true)
	borrow(c, r, func(c *Ctx, r *Report) { c01BatcherLoops(c, r, "C01-b") }, "C01-b/remake-after-send", "C04-e/remake-after-send", nil, true)
}

// bufFieldOf: scanners are the struct types of the package that have a []byte
// field named buf and a token field.
func scannerScanFuncs(c *Ctx) []*FuncInfo {
	var out []*FuncInfo
	for _, fi := range c.AllFuncDecls(readaheadPkg) {
		if fi.Decl.Recv != nil && fi.Decl.Name.Name == "Scan" {
			out = append(out, fi)
		}
	}
	return out
}

func fieldNamed(info *types.Info, e ast.Expr, name string) bool {
	fv := fieldVar(info, e)
	return fv != nil && fv.Name() == name
}

// enclosingLoopHeads returns the body-head nodes of the loops that enclose pos
// (innermost first), followed by the function entry.
func enclosingLoopHeads(fg *FGraph, body *ast.BlockStmt, pos token.Pos) []int {
	var loops []*ast.ForStmt
	ast.Inspect(body, func(n ast.Node) bool {
		if fs, ok := n.(*ast.ForStmt); ok && within(fs.Body, pos) {
			loops = append(loops, fs)
		}
		return true
	})
	var out []int
	for i := len(loops) - 1; i >= 0; i-- {
		for _, nd := range fg.Nodes {
			if nd.N == nil && nd.Block != nil && nd.Block.Stmt == ast.Stmt(loops[i]) && nd.Block.Kind.String() == "ForBody" {
				out = append(out, nd.ID)
			}
		}
	}
	out = append(out, fg.Entry)
	return out
}

// scannerMethods: every method (Scan and whatever helpers it was split into) of the
// scanner types - the struct types of the package that own a `buf` and a `token` field.
func scannerMethods(c *Ctx) []*FuncInfo {
	var out []*FuncInfo
	for _, fi := range c.AllFuncDecls(readaheadPkg) {
		if fi.Decl.Recv == nil || len(fi.Decl.Recv.List) != 1 {
			continue
		}
		rt := fi.Pkg.TypesInfo.TypeOf(fi.Decl.Recv.List[0].Type)
		if p, ok := rt.(*types.Pointer); ok {
			rt = p.Elem()
		}
		st, ok := rt.Underlying().(*types.Struct)
		if !ok {
			continue
		}
		hasBuf, hasTok := false, false
		for i := 0; i < st.NumFields(); i++ {
			switch st.Field(i).Name() {
			case "buf":
				hasBuf = true
			case "token":
				hasTok = true
			}
		}
		if hasBuf && hasTok {
			out = append(out, fi)
		}
	}
	return out
}

func c04Buffers(c *Ctx, r *Report, prefix string) {
	rule := prefix + "/buffer-writes"
	if len(scannerScanFuncs(c)) == 0 {
		r.Undecided(rule, readaheadPkg, "Scan methods", "-", "no scanner Scan method found")
		return
	}
	for _, fi := range scannerMethods(c) {
		info := fi.Pkg.TypesInfo
		fg := NewFGraph(fi.Decl.Body, info)
		isMake := func(nd *FNode) bool {
			as, ok := nd.N.(*ast.AssignStmt)
			if !ok || len(as.Lhs) != 1 || len(as.Rhs) != 1 || !fieldNamed(info, as.Lhs[0], "buf") {
				return false
			}
			ce, ok := ast.Unparen(as.Rhs[0]).(*ast.CallExpr)
			return ok && calleeName(info, ce) == "builtin.make"
		}
		freshAt := func(pos token.Pos) bool {
			id := fg.NodeOf(pos)
			if id < 0 {
				return false
			}
			for _, head := range enclosingLoopHeads(fg, fi.Decl.Body, pos) {
				if head == id {
					continue
				}
				// every path from head to id passes a make: id unreachable from head when make nodes are barriers
				seen := fg.ReachSet(head, isMake, nil)
				if !seen[id] {
					return true
				}
			}
			return false
		}
		rootsBuf := func(e ast.Expr) bool {
			e = ast.Unparen(e)
			for {
				switch t := e.(type) {
				case *ast.SliceExpr:
					e = ast.Unparen(t.X)
					continue
				case *ast.IndexExpr:
					e = ast.Unparen(t.X)
					continue
				}
				break
			}
			return fieldNamed(info, e, "buf")
		}
		ast.Inspect(fi.Decl.Body, func(n ast.Node) bool {
			switch t := n.(type) {
			case *ast.CallExpr:
				name := calleeName(info, t)
				var dst ast.Expr
				what := ""
				switch {
				case name == "builtin.copy" && len(t.Args) == 2:
					dst, what = t.Args[0], "copy"
				case strings.HasSuffix(name, ".Read") && len(t.Args) == 1:
					dst, what = t.Args[0], "Read"
				case name == "builtin.append" && len(t.Args) >= 1:
					dst, what = t.Args[0], "append"
				}
				if dst == nil || !rootsBuf(dst) {
					return true
				}
				ok, why := false, ""
				if freshAt(t.Pos()) {
					ok, why = true, "fresh: on every path of this iteration the buffer was re-made before this write, so no token refers to it yet"
				} else if sx, isSl := ast.Unparen(dst).(*ast.SliceExpr); isSl && what == "Read" && sx.High == nil && sx.Low != nil && fieldNamed(info, unalias(info, fi.Decl.Body, sx.Low), "end") && fieldNamed(info, sx.X, "buf") {
					ok, why = true, "tail: writes only beyond s.end, the upper bound of every token"
				}
				r.Check(ok, rule, fi.Name, what+"("+exprStr(dst)+", ..)", c.Pos(t.Pos()), why,
					what+" writes into the scanner's buffer at "+exprStr(dst)+", which is neither a buffer freshly allocated on every path of this iteration nor the tail beyond s.end: bytes of lines already handed out (and still held by batches or matches) are overwritten")
			case *ast.AssignStmt:
				for i, l := range t.Lhs {
					l = ast.Unparen(l)
					// element store into buf
					if ix, ok := l.(*ast.IndexExpr); ok && rootsBuf(ix.X) {
						r.Check(freshAt(t.Pos()), rule, fi.Name, stmtStr(t), c.Pos(t.Pos()), "fresh: element store into a freshly made buffer", "a byte of the scanner's buffer is overwritten in place")
					}
					// rewinding offset/end requires a fresh buffer
					if fieldNamed(info, l, "end") || fieldNamed(info, l, "offset") {
						rewind := false
						switch t.Tok {
						case token.SUB_ASSIGN:
							rewind = true
						case token.ASSIGN:
							if i < len(t.Rhs) {
								if v, isC := constInt(info, t.Rhs[i]); isC && v == 0 {
									rewind = true
								}
							}
						}
						if rewind {
							r.Check(freshAt(t.Pos()), rule, fi.Name, stmtStr(t), c.Pos(t.Pos()), "fresh: the read position is rewound only together with a newly made buffer", "the scanner's "+exprStr(l)+" is rewound although the buffer was not re-allocated on every path: the next read lands on bytes of lines already handed out")
						}
					}
					// tokens are sub-slices of buf (or dropCR of one, or nil)
					if fieldNamed(info, l, "token") && i < len(t.Rhs) {
						rhs := ast.Unparen(t.Rhs[i])
						okTok := false
						if exprStr(rhs) == "nil" {
							okTok = true
						}
						if ce, isCall := rhs.(*ast.CallExpr); isCall && calleeName(info, ce) == readaheadPkg+".dropCR" && len(ce.Args) == 1 {
							rhs = ast.Unparen(ce.Args[0])
						}
						if _, isSl := rhs.(*ast.SliceExpr); isSl && rootsBuf(rhs) {
							okTok = true
						}
						if id, isId := rhs.(*ast.Ident); isId {
							// a local that was assigned a sub-slice of buf
							ast.Inspect(fi.Decl.Body, func(m ast.Node) bool {
								if as2, ok := m.(*ast.AssignStmt); ok && len(as2.Lhs) == 1 && len(as2.Rhs) == 1 && identObj(info, as2.Lhs[0]) == info.Uses[id] {
									if _, isSl := ast.Unparen(as2.Rhs[0]).(*ast.SliceExpr); isSl && rootsBuf(as2.Rhs[0]) {
										okTok = true
									}
								}
								return true
							})
						}
						r.Check(okTok, rule+"/token", fi.Name, stmtStr(t), c.Pos(t.Pos()), "view: a token is a sub-slice of the current buffer", "a token is not a plain sub-slice of the scanner's buffer: the write-discipline rules no longer describe what a held line aliases")
					}
				}
			}
			return true
		})
	}
	r.Floor(rule, 6, "Read and copy in both scanners plus the rewinds")
	r.Floor(rule+"/token", 5, "token assignments of both scanners")
}

func c04Errors(c *Ctx, r *Report) {
	const rule = "C04-b/error-eof"
	for _, fi := range scannerScanFuncs(c) {
		info := fi.Pkg.TypesInfo
		vi := analyseVars(info, fi.Decl)
		fg := NewFGraph(fi.Decl.Body, info)
		fg.SolveFacts(vi)
		pr := &prover{info: info, vi: vi, fg: fg, body: fi.Decl.Body}
		// the Read statement: n, err := s.r.Read(..)
		ast.Inspect(fi.Decl.Body, func(x ast.Node) bool {
			as, ok := x.(*ast.AssignStmt)
			if !ok || len(as.Lhs) != 2 || len(as.Rhs) != 1 {
				return true
			}
			ce, ok := as.Rhs[0].(*ast.CallExpr)
			if !ok || !strings.HasSuffix(calleeName(info, ce), ".Read") {
				return true
			}
			nObj, errObj := identObj(info, as.Lhs[0]), identObj(info, as.Lhs[1])
			readNode := fg.NodeOf(as.Pos())
			// (1) the count is added before anything reacts to the error
			addsN := func(nd *FNode) bool {
				a2, ok := nd.N.(*ast.AssignStmt)
				return ok && a2.Tok == token.ADD_ASSIGN && len(a2.Rhs) == 1 && identObj(info, a2.Rhs[0]) == nObj
			}
			reacts := func(nd *FNode) bool {
				if nd.N == nil {
					return false
				}
				hit := false
				inspectNoLit(nd.N, func(y ast.Node) bool {
					if id, ok := y.(*ast.Ident); ok && info.Uses[id] == errObj {
						hit = true
					}
					return true
				})
				return hit
			}
			seen := fg.ReachSet(readNode, addsN, nil)
			early := false
			for id := range seen {
				if reacts(fg.Nodes[id]) && !addsN(fg.Nodes[id]) {
					early = true
				}
			}
			r.Check(!early, rule, fi.Name, "count before error", c.Pos(as.Pos()), "order: the number of bytes read is added before the error is examined", "the error of a Read is acted upon before its byte count is added: bytes delivered together with an error (or EOF) are dropped")
			// (2) no Read once eof is known
			okEOF := pr.holdsText("fact:!s.eof", fg.FactsAtPos(as.Pos())) || pr.holdsText("!s.eof", fg.FactsAtPos(as.Pos()))
			r.Check(okEOF, rule, fi.Name, "no read after eof", c.Pos(as.Pos()), "guard: the read is only reachable while eof is known false", "the underlying reader can be read again after an error/EOF was recorded")
			return true
		})
		// (3) onError only under err != nil && err != io.EOF; eof set on every error path
		ast.Inspect(fi.Decl.Body, func(x ast.Node) bool {
			ce, ok := x.(*ast.CallExpr)
			if !ok {
				return true
			}
			se, ok := ce.Fun.(*ast.SelectorExpr)
			if !ok || !fieldNamed(info, se, "onError") {
				return true
			}
			facts := fg.FactsAtPos(ce.Pos())
			arg := exprStr(ce.Args[0])
			okG := pr.holdsText(arg+" != nil", facts) && pr.holdsText(arg+" != io.EOF", facts)
			r.Check(okG, rule, fi.Name, exprStr(ce), c.Pos(ce.Pos()), "guard: called only for a non-EOF error", "the error callback can be invoked for EOF or without an error")
			return true
		})
		// eof = true on every path after `err != nil` true edge until leaving the loop / restarting
		for _, nd := range fg.Nodes {
			for _, e := range nd.Succ {
				be, ok := ast.Unparen(e.Cond).(*ast.BinaryExpr)
				if e.Cond == nil || !ok || be.Op != token.NEQ || exprStr(be.Y) != "nil" || !e.Truth {
					continue
				}
				if t := info.TypeOf(be.X); t == nil || !isNamed(t, "", "error") && t.String() != "error" {
					continue
				}
				setsEOF := func(n2 *FNode) bool {
					a2, ok := n2.N.(*ast.AssignStmt)
					return ok && len(a2.Lhs) == 1 && fieldNamed(info, a2.Lhs[0], "eof") && exprStr(a2.Rhs[0]) == "true"
				}
				// from the true edge, can we reach a Read or the function exit without setting eof?
				seen := fg.ReachSet(e.To, setsEOF, nil)
				bad := false
				for id := range seen {
					n2 := fg.Nodes[id]
					if id == fg.Exit {
						bad = true
					}
					if n2.N != nil {
						for _, c2 := range callsIn(n2.N) {
							if strings.HasSuffix(calleeName(info, c2), ".Read") {
								bad = true
							}
						}
					}
				}
				if setsEOF(fg.Nodes[e.To]) {
					bad = false
				}
				r.Check(!bad, rule, fi.Name, "eof set after "+exprStr(e.Cond), c.Pos(e.Cond.Pos()), "path: every continuation of an error sets eof before returning or reading again", "after a read error the scanner can return or read again without recording end-of-stream")
			}
		}
	}
	r.Floor(rule, 8, "two scanners x (count order, no read after eof, callback guard, eof set)")
}

func c04DropCR(c *Ctx, r *Report) {
	const rule = "C04-c/dropcr"
	for _, fi := range scannerScanFuncs(c) {
		info := fi.Pkg.TypesInfo
		vi := analyseVars(info, fi.Decl)
		fg := NewFGraph(fi.Decl.Body, info)
		fg.SolveFacts(vi)
		ast.Inspect(fi.Decl.Body, func(x ast.Node) bool {
			as, ok := x.(*ast.AssignStmt)
			if !ok || len(as.Lhs) != 1 || len(as.Rhs) != 1 || !fieldNamed(info, as.Lhs[0], "token") {
				return true
			}
			rhs := ast.Unparen(as.Rhs[0])
			if exprStr(rhs) == "nil" {
				return true
			}
			isDrop := false
			if ce, ok := rhs.(*ast.CallExpr); ok && calleeName(info, ce) == readaheadPkg+".dropCR" {
				isDrop = true
			}
			// newline found on this path? a fact `X >= 0` true where X was assigned from bytes.IndexByte
			newline := false
			for _, f := range fg.FactsAtPos(as.Pos()) {
				be, ok := ast.Unparen(f.Cond).(*ast.BinaryExpr)
				if !ok || f.Tag != nil {
					continue
				}
				if v, isC := constInt(info, be.Y); isC && v == 0 && ((be.Op == token.GEQ && f.Truth) || (be.Op == token.LSS && !f.Truth)) {
					if o := identObj(info, be.X); o != nil {
						ast.Inspect(fi.Decl.Body, func(m ast.Node) bool {
							if a2, ok := m.(*ast.AssignStmt); ok && len(a2.Lhs) >= 1 && identObj(info, a2.Lhs[0]) == o && len(a2.Rhs) == 1 {
								if ce, ok := ast.Unparen(a2.Rhs[0]).(*ast.CallExpr); ok && strings.HasPrefix(calleeName(info, ce), "bytes.Index") {
									newline = true
								}
							}
							return true
						})
					}
				}
			}
			if newline {
				r.Check(isDrop, rule, fi.Name, stmtStr(as), c.Pos(as.Pos()), "wiring: newline-terminated token passes through dropCR", "a newline-terminated line is not passed through dropCR: a trailing carriage return is kept (or removed by ad-hoc logic that depends on how the reader chunked the input)")
			} else {
				r.Check(!isDrop, rule, fi.Name, stmtStr(as), c.Pos(as.Pos()), "wiring: the unterminated tail is delivered as is", "the unterminated final segment is passed through dropCR: a lone trailing \\r of the stream is lost")
			}
			return true
		})
	}
	// dropCR itself removes at most one byte, and only a trailing \r: every return is the argument, the
	// argument minus its last byte under the guard "last byte is \r", or TrimSuffix with a one-byte constant
	if fi := c.MustFunc(r, rule, readaheadPkg, "dropCR"); fi != nil {
		info := fi.Pkg.TypesInfo
		var param types.Object
		if fi.Decl.Type.Params != nil && len(fi.Decl.Type.Params.List) == 1 && len(fi.Decl.Type.Params.List[0].Names) == 1 {
			param = info.Defs[fi.Decl.Type.Params.List[0].Names[0]]
		}
		vi := analyseVars(info, fi.Decl)
		fg := NewFGraph(fi.Decl.Body, info)
		fg.SolveFacts(vi)
		isLenMinus1 := func(e ast.Expr) bool {
			be, ok := ast.Unparen(e).(*ast.BinaryExpr)
			if !ok || be.Op != token.SUB {
				return false
			}
			v, isC := constInt(info, be.Y)
			ce, isCall := ast.Unparen(be.X).(*ast.CallExpr)
			return isC && v == 1 && isCall && calleeName(info, ce) == "builtin.len" && len(ce.Args) == 1 && identObj(info, ce.Args[0]) == param
		}
		lastIsCR := func(pos token.Pos) bool {
			for _, f := range fg.FactsAtPos(pos) {
				if !f.Truth || f.Tag != nil {
					continue
				}
				found := false
				ast.Inspect(f.Cond, func(y ast.Node) bool {
					be, ok := y.(*ast.BinaryExpr)
					if !ok || be.Op != token.EQL {
						return true
					}
					for _, pair := range [][2]ast.Expr{{be.X, be.Y}, {be.Y, be.X}} {
						if v, isC := constInt(info, pair[1]); isC && v == '\r' {
							if ix, ok := ast.Unparen(pair[0]).(*ast.IndexExpr); ok && identObj(info, ix.X) == param && isLenMinus1(ix.Index) {
								found = true
							}
						}
					}
					return true
				})
				if found {
					return true
				}
			}
			return false
		}
		nRet := 0
		inspectNoLit(fi.Decl.Body, func(x ast.Node) bool {
			rs, ok := x.(*ast.ReturnStmt)
			if !ok || len(rs.Results) != 1 {
				return true
			}
			nRet++
			e := ast.Unparen(rs.Results[0])
			okForm, why := false, ""
			switch t := e.(type) {
			case *ast.Ident:
				okForm = info.Uses[t] == param
				why = "shape: the argument itself"
			case *ast.SliceExpr:
				lowZero := t.Low == nil
				if v, isC := constInt(info, t.Low); t.Low != nil && isC && v == 0 {
					lowZero = true
				}
				okForm = identObj(info, t.X) == param && lowZero && isLenMinus1(t.High) && lastIsCR(rs.Pos())
				why = "shape: one byte shorter, under the guard that the last byte is \\r"
			case *ast.CallExpr:
				if cn := calleeName(info, t); (cn == "bytes.TrimSuffix" || cn == "bytes.CutSuffix") && len(t.Args) == 2 && identObj(info, t.Args[0]) == param {
					if tv, ok := info.Types[ast.Unparen(t.Args[1])]; ok {
						_ = tv
					}
					if conv, ok := ast.Unparen(t.Args[1]).(*ast.CallExpr); ok && len(conv.Args) == 1 {
						if s, isS := constString(info, conv.Args[0]); isS && s == "\r" {
							okForm = true
						}
					}
					why = "shape: TrimSuffix with the one-byte constant \\r"
				}
			}
			r.Check(okForm, rule, fi.Name, stmtStr(rs), c.Pos(rs.Pos()), why,
				"dropCR returns "+exprStr(e)+", which is neither its argument, nor the argument minus exactly its last byte under the test that this byte is a carriage return: more than the one trailing \\r of a terminated line can be removed (or a byte that is not a \\r)")
			return true
		})
		if nRet == 0 {
			r.Bad(rule, fi.Name, "returns", c.Pos(fi.Decl.Pos()), "dropCR has no return statement this rule can classify")
		}
	}
	r.Floor(rule, 6, "token assignments of both scanners and at least one return of dropCR")
}

var reviewedReadahead = []reviewedEntry{
	rv("slice", "rare/pkg/readahead.(*ImmediateReadAhead).Scan", "s.buf[s.offset:s.end]", 2, "invariant 0 <= offset <= end <= len(buf): offset/end start at 0, end grows by Read counts into buf[end:], offset is set to positions of found newlines + 1 <= end, and both are rebased together with a fresh buffer", "s.offset < s.end"),
	rv("slice", "rare/pkg/readahead.(*ImmediateReadAhead).Scan", "s.buf[s.offset:s.offset + eol]", 1, "eol is an index inside buf[offset:end], so offset+eol < end <= len(buf)", "eol >= 0"),
	rv("slice", "rare/pkg/readahead.(*ImmediateReadAhead).Scan", "old[s.offset:s.end]", 1, "old is the previous buffer, same invariant offset <= end <= len(old)"),
	rv("precond", "rare/pkg/readahead.(*ImmediateReadAhead).Scan", "make([]byte, s.end - s.offset + s.bufSize)", 1, "end >= offset and bufSize is the positive constructor argument"),
	rv("slice", "rare/pkg/readahead.(*ImmediateReadAhead).Scan", "s.buf[s.end:]", 1, "end <= len(buf); after the regrow branch end < len(buf)"),
	rv("slice", "rare/pkg/readahead.(*ImmediateReadAhead).Scan", "s.buf[s.end - n:s.end]", 1, "n bytes were just added to end, so end-n is the previous end >= 0"),
	rv("slice", "rare/pkg/readahead.(*ImmediateReadAhead).Scan", "s.buf[s.offset:end]", 1, "end = (previous end) + eol with previous end >= offset and the newline inside the n new bytes", "eol >= 0"),
	rv("precond", "rare/pkg/readahead.NewImmediate", "make([]byte, bufSize)", 1, "constructor argument; callers pass the positive constant ReadAheadBufferSize"),
	rv("slice", "rare/pkg/readahead.(*BufferedReadAhead).Scan", "s.buf[s.offset:]", 2, "invariant 0 <= offset <= len(buf): offset is 0 after a refill, len(buf) after the tail, or a newline position + 1"),
	rv("slice", "rare/pkg/readahead.(*BufferedReadAhead).Scan", "s.buf[start:start + relIndex]", 1, "relIndex is an index inside buf[offset:], so start+relIndex < len(buf)", "relIndex >= 0"),
	rv("precond", "rare/pkg/readahead.(*BufferedReadAhead).Scan", "make([]byte, maxi(s.maxBufLen, len(oldbuf) - s.offset + s.maxBufLen / 2))", 1, "maxBufLen > 1 is enforced by the constructor, so the maximum is positive"),
	rv("slice", "rare/pkg/readahead.(*BufferedReadAhead).Scan", "oldbuf[s.offset:]", 1, "offset <= len(oldbuf) (same invariant, oldbuf is the buffer before the refill)"),
	rv("slice", "rare/pkg/readahead.(*BufferedReadAhead).Scan", "s.buf[readOffset:]", 1, "guarded by the loop condition readOffset < len(s.buf)", "readOffset < len(s.buf)"),
	rv("slice", "rare/pkg/readahead.(*BufferedReadAhead).Scan", "s.buf[:readOffset]", 1, "readOffset only grows by Read counts into buf[readOffset:], so it never exceeds len(buf)"),
	rv("loop", "rare/pkg/readahead.(*ImmediateReadAhead).Scan", "for ; ; ", 1, "each iteration returns, jumps to RESTART after an error, or reads; a reader that keeps returning (0, nil) blocks by contract of io.Reader (documented as discouraged), not by this loop's logic"),
	rv("loop", "rare/pkg/readahead.(*BufferedReadAhead).Scan", "for ; ; ", 1, "each iteration returns or refills with eof eventually set by the reader's error/EOF"),
	rv("loop", "rare/pkg/readahead.(*BufferedReadAhead).Scan", "for ; readOffset < len(s.buf); ", 1, "leaves on error/EOF or when the buffer is full; zero-byte reads without error are the reader's contract"),
	rv("panic", "rare/pkg/readahead.NewBuffered", "panic(\"Buf length must be > 1\")", 1, "constructor precondition on a constant argument, not data dependent"),
	rv("index", "rare/pkg/readahead.dropCR", "data[len(data) - 1]", 1, "evaluated only after len(data) > 0 (short-circuit &&)"),
	rv("slice", "rare/pkg/readahead.dropCR", "data[0:len(data) - 1]", 1, "inside len(data) > 0"),
}

func c04Bounds(c *Ctx, r *Report) {
	bce, err := bceList(c)
	if err != nil {
		r.Undecided("C04-d/bce", "compiler", "listing", "-", err.Error())
		return
	}
	pe := &panicEngine{c: c, bce: bce, reviewed: reviewedReadahead}
	pe.run(readaheadPkg)
	pe.emit(r, "C04-d", nil)
	r.Floor("C04-d/slice", 10, "slice expressions of both scanners")
}
