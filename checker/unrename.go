package main

// Un-rename pass. Rules, reviewed entries and known-finding keys name the
// constructs they talk about: fields, package-level tables, types, methods,
// locals. Renaming an unexported identifier is the most common harmless edit
// there is, and it must not change a verdict. names.json (regenerated with
// `rarecheck -write-names`) freezes the inventory of declared names of the
// pinned tree together with their types. When a frozen name is missing from
// the tree under analysis and exactly one *new* name of the same kind, owner
// and type has appeared in its place, the new name is taken to be the old one
// renamed: every identifier that resolves to that object is rewritten back to
// the frozen name in an overlay, the overlay is type-checked again, and the
// rules analyse that text. Renaming is decided on objects of the type-checked
// program (types.Info Defs/Uses), never on text. Nothing is guessed: several
// candidates, a different type, or an overlay that does not type-check leave
// the program as written.

import (
	_ "embed"
	"encoding/json"
	"fmt"
	"go/ast"
	"go/token"
	"go/types"
	"os"
	"regexp"
	"sort"
	"strings"
)

//go:embed names.json
var frozenNamesJSON []byte

type frozenField struct {
	Name string `json:"n"`
	Type string `json:"t"`
}

type frozenType struct {
	Kind    string        `json:"kind"`
	Fields  []frozenField `json:"fields,omitempty"`
	Methods []string      `json:"methods,omitempty"` // "name|signature"
}

type frozenFunc struct {
	Sig     string        `json:"sig"`
	Locals  []frozenField `json:"locals,omitempty"`  // params, results, locals (closures included) in declaration order
	Callees []string      `json:"callees,omitempty"` // functions of the same package it calls (display names)
}

type frozenPkg struct {
	Types map[string]*frozenType `json:"types,omitempty"`
	Vars  map[string]string      `json:"vars,omitempty"` // package-level vars and consts
	Funcs map[string]*frozenFunc `json:"funcs,omitempty"`
}

func pathQualifier(pk *types.Package) string { return pk.Path() }

func typeKind(t types.Type) string {
	switch t.Underlying().(type) {
	case *types.Struct:
		return "struct"
	case *types.Interface:
		return "interface"
	case *types.Signature:
		return "func"
	case *types.Map:
		return "map"
	case *types.Slice:
		return "slice"
	case *types.Array:
		return "array"
	case *types.Basic:
		return "basic"
	case *types.Pointer:
		return "pointer"
	case *types.Chan:
		return "chan"
	}
	return "other"
}

// localsOf lists the named variables declared inside a function declaration
// (parameters, results, locals, closure parameters) in source order.
func localsOf(info *types.Info, fd *ast.FuncDecl) []*types.Var {
	var out []*types.Var
	seen := map[*types.Var]bool{}
	add := func(id *ast.Ident) {
		if id == nil || id.Name == "_" {
			return
		}
		if v, ok := info.Defs[id].(*types.Var); ok && v != nil && !v.IsField() && !seen[v] {
			seen[v] = true
			out = append(out, v)
		}
	}
	if fd.Recv != nil {
		for _, f := range fd.Recv.List {
			for _, id := range f.Names {
				add(id)
			}
		}
	}
	ast.Inspect(fd, func(n ast.Node) bool {
		if id, ok := n.(*ast.Ident); ok {
			add(id)
		}
		return true
	})
	sort.SliceStable(out, func(i, j int) bool { return out[i].Pos() < out[j].Pos() })
	return out
}

func inventory(c *Ctx) map[string]*frozenPkg {
	inv := map[string]*frozenPkg{}
	for _, p := range c.Pkgs {
		if !c.IsRarePkg(p.Types) {
			continue
		}
		fp := &frozenPkg{Types: map[string]*frozenType{}, Vars: map[string]string{}, Funcs: map[string]*frozenFunc{}}
		inv[p.PkgPath] = fp
		sc := p.Types.Scope()
		for _, name := range sc.Names() {
			switch o := sc.Lookup(name).(type) {
			case *types.TypeName:
				if o.IsAlias() {
					continue
				}
				ft := &frozenType{Kind: typeKind(o.Type())}
				if st, ok := o.Type().Underlying().(*types.Struct); ok {
					for i := 0; i < st.NumFields(); i++ {
						f := st.Field(i)
						ft.Fields = append(ft.Fields, frozenField{f.Name(), types.TypeString(f.Type(), pathQualifier)})
					}
				}
				if nt, ok := o.Type().(*types.Named); ok {
					for i := 0; i < nt.NumMethods(); i++ {
						m := nt.Method(i)
						ft.Methods = append(ft.Methods, m.Name()+"|"+types.TypeString(m.Type(), pathQualifier))
					}
					sort.Strings(ft.Methods)
				}
				fp.Types[name] = ft
			case *types.Var:
				fp.Vars[name] = types.TypeString(o.Type(), pathQualifier)
			case *types.Const:
				fp.Vars[name] = "const " + types.TypeString(o.Type(), pathQualifier)
			}
		}
		for _, f := range p.Syntax {
			for _, d := range f.Decls {
				fd, ok := d.(*ast.FuncDecl)
				if !ok || fd.Body == nil {
					continue
				}
				obj, _ := p.TypesInfo.Defs[fd.Name].(*types.Func)
				if obj == nil {
					continue
				}
				ff := &frozenFunc{Sig: types.TypeString(obj.Type(), pathQualifier)}
				for _, v := range localsOf(p.TypesInfo, fd) {
					ff.Locals = append(ff.Locals, frozenField{v.Name(), types.TypeString(v.Type(), pathQualifier)})
				}
				name := fd.Name.Name
				if fd.Recv != nil && len(fd.Recv.List) == 1 {
					r := recvTypeName(fd.Recv.List[0].Type)
					if _, isStar := fd.Recv.List[0].Type.(*ast.StarExpr); isStar {
						name = "(*" + r + ")." + name
					} else {
						name = "(" + r + ")." + name
					}
				}
				if name == "init" || name == "_" {
					continue
				}
				seenCallee := map[string]bool{}
				ast.Inspect(fd.Body, func(n ast.Node) bool {
					ce, ok := n.(*ast.CallExpr)
					if !ok {
						return true
					}
					if f := calleeFunc(p.TypesInfo, ce); f != nil && f.Pkg() == p.Types {
						d := funcObjDisplay(f)
						if d != "" && d != name && !seenCallee[d] {
							seenCallee[d] = true
							ff.Callees = append(ff.Callees, d)
						}
					}
					return true
				})
				sort.Strings(ff.Callees)
				fp.Funcs[name] = ff
			}
		}
	}
	return inv
}

// funcObjDisplay: "F", "(*T).M" or "(T).M" for a function object.
func funcObjDisplay(f *types.Func) string {
	f = f.Origin()
	sig, _ := f.Type().(*types.Signature)
	if sig == nil || sig.Recv() == nil {
		return f.Name()
	}
	t := sig.Recv().Type()
	star := ""
	if pt, ok := t.(*types.Pointer); ok {
		t = pt.Elem()
		star = "*"
	}
	nt, ok := t.(*types.Named)
	if !ok {
		return ""
	}
	return "(" + star + nt.Obj().Name() + ")." + f.Name()
}

// frozenSoleCaller: the one function of the pinned tree that called the named
// function, when there was exactly one.
func frozenSoleCaller(pkgPath, name string) string {
	loadFrozenNames()
	fp := frozenNames[pkgPath]
	if fp == nil || fp.Funcs[name] == nil {
		return ""
	}
	var callers []string
	for d, ff := range fp.Funcs {
		for _, cal := range ff.Callees {
			if cal == name {
				callers = append(callers, d)
			}
		}
	}
	if len(callers) != 1 {
		return ""
	}
	return callers[0]
}

// frozenHasFunc: did the pinned tree declare this function?
func frozenHasFunc(pkgPath, display string) bool {
	loadFrozenNames()
	fp := frozenNames[pkgPath]
	return fp != nil && fp.Funcs[display] != nil
}

// frozenHasLocal: did the function of the pinned tree declare a local of this name?
func frozenHasLocal(pkgPath, display, local string) bool {
	loadFrozenNames()
	fp := frozenNames[pkgPath]
	if fp == nil || fp.Funcs[display] == nil {
		return false
	}
	for _, l := range fp.Funcs[display].Locals {
		if l.Name == local {
			return true
		}
	}
	return false
}

func loadFrozenNames() {
	if frozenNames == nil {
		frozenNames = map[string]*frozenPkg{}
		_ = json.Unmarshal(frozenNamesJSON, &frozenNames)
	}
}

func writeNames(c *Ctx, path string) error {
	b, err := json.MarshalIndent(inventory(c), "", " ")
	if err != nil {
		return err
	}
	return os.WriteFile(path, append(b, '\n'), 0o644)
}

// renamePlan: object -> frozen name.
type renamePlan struct {
	objs  map[types.Object]string
	notes []string
}

func splitRecv(display string) (recv, star, name string) {
	if strings.HasPrefix(display, "(") {
		i := strings.Index(display, ").")
		if i < 0 {
			return "", "", display
		}
		r := display[1:i]
		if strings.HasPrefix(r, "*") {
			return r[1:], "*", display[i+2:]
		}
		return r, "", display[i+2:]
	}
	return "", "", display
}

// planUnrename compares the frozen inventory with the loaded program.
func planUnrename(c *Ctx, frozen map[string]*frozenPkg, withFuncs bool) *renamePlan {
	plan := &renamePlan{objs: map[types.Object]string{}}
	cur := inventory(c)
	// ---- 1. types (per package); typeMap: pkgPath -> current name -> frozen name
	typeMap := map[string]map[string]string{}
	for pp, fp := range frozen {
		cp := cur[pp]
		p := c.ByPath[pp]
		if cp == nil || p == nil {
			continue
		}
		typeMap[pp] = map[string]string{}
		var missing, fresh []string
		for n := range fp.Types {
			if cp.Types[n] == nil {
				missing = append(missing, n)
			}
		}
		for n := range cp.Types {
			if fp.Types[n] == nil {
				fresh = append(fresh, n)
			}
		}
		sort.Strings(missing)
		sort.Strings(fresh)
		if len(missing) == 0 || len(fresh) == 0 {
			continue
		}
		// names that may differ between the two sides are blanked in type strings
		blank := func(s string) string {
			for _, n := range append(append([]string{}, missing...), fresh...) {
				s = regexp.MustCompile(`\b`+regexp.QuoteMeta(pp+"."+n)+`\b`).ReplaceAllString(s, pp+".§")
			}
			return s
		}
		shape := func(ft *frozenType) string {
			var fs, ms []string
			for _, f := range ft.Fields {
				fs = append(fs, blank(f.Type))
			}
			sort.Strings(fs)
			for _, m := range ft.Methods {
				// method names may have been renamed too: compare signatures only
				if i := strings.Index(m, "|"); i >= 0 {
					ms = append(ms, blank(m[i+1:]))
				}
			}
			sort.Strings(ms)
			return ft.Kind + "{" + strings.Join(fs, ";") + "}[" + strings.Join(ms, ";") + "]"
		}
		for _, m := range missing {
			var cands []string
			for _, f := range fresh {
				if shape(fp.Types[m]) == shape(cp.Types[f]) {
					cands = append(cands, f)
				}
			}
			// another missing type of the same shape makes the pairing ambiguous
			same := 0
			for _, m2 := range missing {
				if shape(fp.Types[m2]) == shape(fp.Types[m]) {
					same++
				}
			}
			if len(cands) == 1 && same == 1 {
				typeMap[pp][cands[0]] = m
				if o := p.Types.Scope().Lookup(cands[0]); o != nil {
					plan.objs[o] = m
					plan.notes = append(plan.notes, fmt.Sprintf("type %s.%s -> %s", pp, cands[0], m))
				}
			}
		}
	}
	// type strings of the current program with renamed types mapped back
	mapBack := func(s string) string {
		for pp, m := range typeMap {
			for curN, oldN := range m {
				s = regexp.MustCompile(`\b`+regexp.QuoteMeta(pp+"."+curN)+`\b`).ReplaceAllString(s, pp+"."+oldN)
			}
		}
		return s
	}
	for pp, fp := range frozen {
		cp := cur[pp]
		p := c.ByPath[pp]
		if cp == nil || p == nil {
			continue
		}
		tm := typeMap[pp]
		curTypeOf := func(frozenName string) string { // current name of a frozen type
			for cn, on := range tm {
				if on == frozenName {
					return cn
				}
			}
			return frozenName
		}
		// ---- 2. package-level vars / consts
		{
			var missing, fresh []string
			for n := range fp.Vars {
				if _, ok := cp.Vars[n]; !ok {
					missing = append(missing, n)
				}
			}
			for n := range cp.Vars {
				if _, ok := fp.Vars[n]; !ok {
					fresh = append(fresh, n)
				}
			}
			sort.Strings(missing)
			sort.Strings(fresh)
			for _, m := range missing {
				var cands []string
				for _, f := range fresh {
					if mapBack(cp.Vars[f]) == fp.Vars[m] {
						cands = append(cands, f)
					}
				}
				same := 0
				for _, m2 := range missing {
					if fp.Vars[m2] == fp.Vars[m] {
						same++
					}
				}
				if len(cands) == 1 && same == 1 {
					if o := p.Types.Scope().Lookup(cands[0]); o != nil {
						plan.objs[o] = m
						plan.notes = append(plan.notes, fmt.Sprintf("var %s.%s -> %s", pp, cands[0], m))
					}
				}
			}
		}
		// ---- 3. struct fields
		for tn, ft := range fp.Types {
			if ft.Kind != "struct" {
				continue
			}
			ct := cp.Types[curTypeOf(tn)]
			tobj, _ := p.Types.Scope().Lookup(curTypeOf(tn)).(*types.TypeName)
			if ct == nil || tobj == nil || ct.Kind != "struct" {
				continue
			}
			st, _ := tobj.Type().Underlying().(*types.Struct)
			if st == nil {
				continue
			}
			have := map[string]bool{}
			for _, f := range ct.Fields {
				have[f.Name] = true
			}
			was := map[string]bool{}
			for _, f := range ft.Fields {
				was[f.Name] = true
			}
			byType := map[string][2][]string{} // type -> (missing frozen names, fresh current names), declaration order
			for _, f := range ft.Fields {
				if !have[f.Name] {
					e := byType[f.Type]
					e[0] = append(e[0], f.Name)
					byType[f.Type] = e
				}
			}
			for _, f := range ct.Fields {
				if !was[f.Name] {
					t := mapBack(f.Type)
					e := byType[t]
					e[1] = append(e[1], f.Name)
					byType[t] = e
				}
			}
			for _, e := range byType {
				if len(e[0]) == 0 || len(e[0]) != len(e[1]) {
					continue
				}
				for i := range e[0] {
					for k := 0; k < st.NumFields(); k++ {
						if st.Field(k).Name() == e[1][i] {
							plan.objs[st.Field(k)] = e[0][i]
							plan.notes = append(plan.notes, fmt.Sprintf("field %s.%s.%s -> %s", pp, tn, e[1][i], e[0][i]))
						}
					}
				}
			}
		}
		// ---- 4. functions and methods; funcMap: current display name -> frozen display name
		funcMap := map[string]string{}
		curDisplay := func(display string) string { // current display name with its receiver type mapped back
			r, star, n := splitRecv(display)
			if r == "" {
				return display
			}
			if on, ok := tm[r]; ok {
				r = on
			}
			return "(" + star + r + ")." + n
		}
		curFuncs := map[string]*frozenFunc{} // keyed by display name with mapped-back receiver
		curReal := map[string]string{}
		for d, ff := range cp.Funcs {
			curFuncs[curDisplay(d)] = ff
			curReal[curDisplay(d)] = d
		}
		if withFuncs {
			var missing, fresh []string
			for n := range fp.Funcs {
				if curFuncs[n] == nil {
					missing = append(missing, n)
				}
			}
			for n := range curFuncs {
				if fp.Funcs[n] == nil {
					fresh = append(fresh, n)
				}
			}
			sort.Strings(missing)
			sort.Strings(fresh)
			for _, m := range missing {
				mr, ms, _ := splitRecv(m)
				var cands []string
				for _, f := range fresh {
					fr, fs, _ := splitRecv(f)
					if fr == mr && fs == ms && mapBack(curFuncs[f].Sig) == fp.Funcs[m].Sig {
						cands = append(cands, f)
					}
				}
				same := 0
				for _, m2 := range missing {
					r2, s2, _ := splitRecv(m2)
					if r2 == mr && s2 == ms && fp.Funcs[m2].Sig == fp.Funcs[m].Sig {
						same++
					}
				}
				if len(cands) == 1 && same == 1 {
					funcMap[cands[0]] = m
				}
			}
		}
		// ---- 5. locals, and the function objects themselves
		for _, f := range p.Syntax {
			for _, d := range f.Decls {
				fd, ok := d.(*ast.FuncDecl)
				if !ok || fd.Body == nil {
					continue
				}
				name := fd.Name.Name
				if fd.Recv != nil && len(fd.Recv.List) == 1 {
					r := recvTypeName(fd.Recv.List[0].Type)
					if _, isStar := fd.Recv.List[0].Type.(*ast.StarExpr); isStar {
						name = "(*" + r + ")." + name
					} else {
						name = "(" + r + ")." + name
					}
				}
				disp := curDisplay(name)
				frozenName := disp
				if on, ok := funcMap[disp]; ok {
					frozenName = on
					if obj := p.TypesInfo.Defs[fd.Name]; obj != nil {
						_, _, bare := splitRecv(on)
						plan.objs[obj] = bare
						plan.notes = append(plan.notes, fmt.Sprintf("func %s.%s -> %s", pp, name, on))
					}
				}
				ff := fp.Funcs[frozenName]
				if ff == nil {
					continue
				}
				locs := localsOf(p.TypesInfo, fd)
				if len(locs) != len(ff.Locals) {
					continue
				}
				// a pure rename: same number of variables, same types in the same order, different names
				okSeq := true
				differs := false
				curNames := map[string]bool{}
				for i, v := range locs {
					curNames[v.Name()] = true
					if mapBack(types.TypeString(v.Type(), pathQualifier)) != ff.Locals[i].Type {
						okSeq = false
					}
					if v.Name() != ff.Locals[i].Name {
						differs = true
					}
				}
				if !okSeq || !differs {
					continue
				}
				// the set of names must really have changed (a mere re-ordering of declarations is left alone)
				gone := false
				for _, l := range ff.Locals {
					if !curNames[l.Name] {
						gone = true
					}
				}
				if !gone {
					continue
				}
				// the frozen name must not already denote something else that the function uses
				used := map[string]types.Object{}
				ast.Inspect(fd, func(n ast.Node) bool {
					if id, ok := n.(*ast.Ident); ok {
						if o := p.TypesInfo.Uses[id]; o != nil {
							used[id.Name] = o
						}
					}
					return true
				})
				for i, v := range locs {
					want := ff.Locals[i].Name
					if v.Name() == want {
						continue
					}
					if o, clash := used[want]; clash && !within(fd, o.Pos()) {
						continue // would capture a package-level or imported name
					}
					plan.objs[v] = want
				}
			}
		}
	}
	return plan
}

// applyUnrename rewrites every identifier that resolves to a planned object.
func applyUnrename(c *Ctx, plan *renamePlan) map[string][]byte {
	type edit struct {
		off, end int
		text     string
	}
	edits := map[string][]edit{}
	for _, p := range c.Pkgs {
		if !c.IsRarePkg(p.Types) {
			continue
		}
		note := func(id *ast.Ident, o types.Object) {
			if o == nil {
				return
			}
			if v, ok := o.(*types.Var); ok {
				o = v.Origin()
			}
			if f, ok := o.(*types.Func); ok {
				o = f.Origin()
			}
			want, ok := plan.objs[o]
			if !ok || id.Name == want {
				return
			}
			pos := c.Fset.Position(id.Pos())
			edits[pos.Filename] = append(edits[pos.Filename], edit{pos.Offset, pos.Offset + len(id.Name), want})
		}
		for id, o := range p.TypesInfo.Defs {
			note(id, o)
		}
		for id, o := range p.TypesInfo.Uses {
			note(id, o)
		}
	}
	out := map[string][]byte{}
	for f, es := range edits {
		src, err := os.ReadFile(f)
		if err != nil {
			return nil
		}
		sort.Slice(es, func(i, j int) bool { return es[i].off > es[j].off })
		last := -1
		for _, e := range es {
			if e.off == last {
				continue
			}
			last = e.off
			if e.end > len(src) {
				return nil
			}
			src = append(append(append([]byte{}, src[:e.off]...), e.text...), src[e.end:]...)
		}
		out[f] = src
	}
	return out
}

var frozenNames map[string]*frozenPkg

// unrenamed returns c itself, or the same program with recognised renames
// undone (loaded from an overlay).
func unrenamed(c *Ctx) (*Ctx, []string) {
	if os.Getenv("RARECHECK_NO_UNRENAME") != "" || len(c.Overlay) > 0 {
		return c, nil
	}
	loadFrozenNames()
	if len(frozenNames) == 0 {
		return c, nil
	}
	for _, withFuncs := range []bool{true, false} {
		plan := planUnrename(c, frozenNames, withFuncs)
		if len(plan.objs) == 0 {
			return c, nil
		}
		ov := applyUnrename(c, plan)
		if len(ov) == 0 {
			return c, nil
		}
		nc, err := LoadOverlay(c.Repo, c.Config, ov)
		if err == nil {
			sort.Strings(plan.notes)
			return nc, append([]string{fmt.Sprintf("%d renamed identifier(s) read under their frozen names", len(plan.objs))}, plan.notes...)
		}
		if os.Getenv("RARECHECK_DEBUG") != "" {
			fmt.Fprintln(os.Stderr, "unrename overlay does not load:", err)
		}
	}
	return c, nil
}

var _ = token.NoPos
