package main

// Flat control-flow graph over go/cfg with labelled branch edges, plus a
// forward must-analysis of branch facts ("this condition is known true/false
// on every path reaching this node").

import (
	"fmt"
	"go/ast"
	"go/token"
	"go/types"
	"strings"

	"golang.org/x/tools/go/cfg"
)

type FEdge struct {
	To    int
	Cond  ast.Expr // condition decided on this edge (nil: unconditional)
	Tag   ast.Expr // for tagged switch cases: the tag; Cond is the case value
	Truth bool
}

type FNode struct {
	ID    int
	N     ast.Node // nil for virtual nodes
	Block *cfg.Block
	Succ  []FEdge
	Pred  []int
}

type FGraph struct {
	Nodes        []*FNode
	Entry        int
	Exit         int // normal return / fall off the end
	Abort        int // no-return call (panic, os.Exit, Fatal)
	Info         *types.Info
	Body         *ast.BlockStmt
	byNode       map[ast.Node]int
	factsIn      []factSet
	allFactsList []Fact
	InitFacts    []Fact // facts inherited from the enclosing function (closures)
	stableVars   map[types.Object]bool
	transferFn   func(i int, s map[int]bool) map[int]bool
	addFactFn    func(f Fact) int
	allFactsPtr  *[]Fact
}

type Fact struct {
	Cond  ast.Expr
	Tag   ast.Expr
	Truth bool
}

type factSet map[int]bool // index into fg.allFacts

var noReturnFuncs = map[string]bool{
	"os.Exit":                 true,
	"log.Fatal":               true,
	"log.Fatalf":              true,
	"log.Fatalln":             true,
	"log.Panic":               true,
	"log.Panicf":              true,
	"rare/pkg/logger.Fatal":   true,
	"rare/pkg/logger.Fatalf":  true,
	"rare/pkg/logger.Fatalln": true,
	"builtin.panic":           true,
	"runtime.Goexit":          true,
}

func mayReturn(info *types.Info) func(*ast.CallExpr) bool {
	return func(call *ast.CallExpr) bool {
		return !noReturnFuncs[calleeName(info, call)]
	}
}

// NewFGraph builds the flat graph for a function body.
func NewFGraph(body *ast.BlockStmt, info *types.Info) *FGraph {
	g := cfg.New(body, mayReturn(info))
	fg := &FGraph{Info: info, Body: body, byNode: map[ast.Node]int{}}
	newNode := func(n ast.Node, b *cfg.Block) int {
		nd := &FNode{ID: len(fg.Nodes), N: n, Block: b}
		fg.Nodes = append(fg.Nodes, nd)
		if n != nil {
			fg.byNode[n] = nd.ID
		}
		return nd.ID
	}
	fg.Entry = newNode(nil, nil)
	fg.Exit = newNode(nil, nil)
	fg.Abort = newNode(nil, nil)
	// case value -> switch tag
	caseTag := map[ast.Expr]ast.Expr{}
	ast.Inspect(body, func(n ast.Node) bool {
		if sw, ok := n.(*ast.SwitchStmt); ok && sw.Tag != nil {
			for _, cl := range sw.Body.List {
				for _, e := range cl.(*ast.CaseClause).List {
					caseTag[e] = sw.Tag
				}
			}
		}
		return true
	})
	head := map[*cfg.Block]int{}
	tail := map[*cfg.Block]int{}
	for _, b := range g.Blocks {
		if !b.Live {
			continue
		}
		h := newNode(nil, b)
		head[b] = h
		cur := h
		for _, n := range b.Nodes {
			id := newNode(n, b)
			fg.Nodes[cur].Succ = append(fg.Nodes[cur].Succ, FEdge{To: id})
			cur = id
		}
		tail[b] = cur
	}
	for _, b := range g.Blocks {
		if !b.Live {
			continue
		}
		t := fg.Nodes[tail[b]]
		switch {
		case len(b.Succs) == 0:
			// return (go/cfg adds a synthetic return at the end of the body),
			// no-return call, or a dead end (the fall-through of a select
			// without default, `select {}`)
			to := fg.Abort
			if len(b.Nodes) > 0 {
				if _, ok := b.Nodes[len(b.Nodes)-1].(*ast.ReturnStmt); ok {
					to = fg.Exit
				}
			}
			t.Succ = append(t.Succ, FEdge{To: to})
		case len(b.Succs) == 2 && b.Kind != cfg.KindRangeLoop && len(b.Nodes) > 0:
			if cond, ok := b.Nodes[len(b.Nodes)-1].(ast.Expr); ok {
				tag := caseTag[cond]
				t.Succ = append(t.Succ, FEdge{To: head[b.Succs[0]], Cond: cond, Tag: tag, Truth: true})
				t.Succ = append(t.Succ, FEdge{To: head[b.Succs[1]], Cond: cond, Tag: tag, Truth: false})
				break
			}
			fallthrough
		default:
			for _, s := range b.Succs {
				t.Succ = append(t.Succ, FEdge{To: head[s]})
			}
		}
	}
	if len(g.Blocks) > 0 {
		fg.Nodes[fg.Entry].Succ = append(fg.Nodes[fg.Entry].Succ, FEdge{To: head[g.Blocks[0]]})
	}
	for _, n := range fg.Nodes {
		for _, e := range n.Succ {
			fg.Nodes[e.To].Pred = append(fg.Nodes[e.To].Pred, n.ID)
		}
	}
	return fg
}

// NodeOf returns the graph node whose syntax contains pos (the innermost
// statement/expression node registered in the CFG), or -1.
func (fg *FGraph) NodeOf(pos token.Pos) int {
	best, bestLen := -1, token.Pos(1<<30)
	for _, n := range fg.Nodes {
		if n.N == nil {
			continue
		}
		if n.N.Pos() <= pos && pos < n.N.End() {
			// RangeStmt nodes never appear; composite statements (if/for)
			// are not nodes, so containment is by simple statement or expr.
			if l := n.N.End() - n.N.Pos(); l < bestLen {
				best, bestLen = n.ID, l
			}
		}
	}
	return best
}

// Reaches reports whether `to` is reachable from `from` without passing
// through a node for which barrier returns true (from itself is not tested).
func (fg *FGraph) Reaches(from, to int, barrier func(*FNode) bool) bool {
	seen := map[int]bool{}
	var stack []int
	for _, e := range fg.Nodes[from].Succ {
		stack = append(stack, e.To)
	}
	for len(stack) > 0 {
		id := stack[len(stack)-1]
		stack = stack[:len(stack)-1]
		if seen[id] {
			continue
		}
		seen[id] = true
		if id == to {
			return true
		}
		if barrier != nil && barrier(fg.Nodes[id]) {
			continue
		}
		for _, e := range fg.Nodes[id].Succ {
			stack = append(stack, e.To)
		}
	}
	return false
}

// ReachesEdge is like Reaches but follows only edges accepted by okEdge.
func (fg *FGraph) ReachSet(from int, barrier func(*FNode) bool, okEdge func(*FNode, FEdge) bool) map[int]bool {
	seen := map[int]bool{}
	var stack []int
	push := func(n *FNode) {
		for _, e := range n.Succ {
			if okEdge == nil || okEdge(n, e) {
				stack = append(stack, e.To)
			}
		}
	}
	push(fg.Nodes[from])
	for len(stack) > 0 {
		id := stack[len(stack)-1]
		stack = stack[:len(stack)-1]
		if seen[id] {
			continue
		}
		seen[id] = true
		if barrier != nil && barrier(fg.Nodes[id]) {
			continue
		}
		push(fg.Nodes[id])
	}
	return seen
}

// Dominates reports whether every path from entry to node b passes through a.
func (fg *FGraph) Dominates(a, b int) bool {
	if a == b {
		return true
	}
	return !fg.reachAvoiding(fg.Entry, b, a)
}

func (fg *FGraph) reachAvoiding(from, to, avoid int) bool {
	if from == avoid {
		return false
	}
	seen := map[int]bool{from: true}
	stack := []int{from}
	for len(stack) > 0 {
		id := stack[len(stack)-1]
		stack = stack[:len(stack)-1]
		if id == to {
			return true
		}
		for _, e := range fg.Nodes[id].Succ {
			if e.To != avoid && !seen[e.To] {
				seen[e.To] = true
				stack = append(stack, e.To)
			}
		}
	}
	return false
}

// ---------------------------------------------------------------- facts

// assignedObjs returns the objects (variables; for field stores the field
// object) whose value node n may change, and whether n contains a call.
func assignedObjs(info *types.Info, n ast.Node) (objs []types.Object, hasCall bool) {
	addLHS := func(e ast.Expr) {
		e = ast.Unparen(e)
		switch t := e.(type) {
		case *ast.Ident:
			if o := info.Defs[t]; o != nil {
				objs = append(objs, o)
			} else if o := info.Uses[t]; o != nil {
				objs = append(objs, o)
			}
		case *ast.SelectorExpr:
			if v := fieldVar(info, t); v != nil {
				objs = append(objs, v)
			} else if o := info.Uses[t.Sel]; o != nil {
				objs = append(objs, o)
			}
		case *ast.IndexExpr:
			// element store: the container's contents change, not its length;
			// facts about elements are not tracked.
			if id := rootIdent(t.X); id != nil {
				_ = id
			}
		case *ast.StarExpr:
			// store through pointer: conservatively kill everything non-local
			hasCall = true
		}
	}
	inspectNoLit(n, func(x ast.Node) bool {
		switch s := x.(type) {
		case *ast.AssignStmt:
			for _, l := range s.Lhs {
				addLHS(l)
			}
		case *ast.IncDecStmt:
			addLHS(s.X)
		case *ast.ValueSpec:
			for _, id := range s.Names {
				if o := info.Defs[id]; o != nil {
					objs = append(objs, o)
				}
			}
		case *ast.CallExpr:
			if !isConversion(info, s) {
				name := calleeName(info, s)
				if name != "builtin.len" && name != "builtin.cap" && !pureStdlib(name) {
					hasCall = true
				}
			}
		case *ast.UnaryExpr:
			if s.Op == token.ARROW {
				hasCall = true
			}
		}
		return true
	})
	// a bare identifier node that is a range key/value is an assignment
	if id, ok := n.(*ast.Ident); ok {
		if o := info.Defs[id]; o != nil {
			objs = append(objs, o)
		} else if o := info.Uses[id]; o != nil {
			objs = append(objs, o)
		}
	}
	return
}

// computeStable finds local variables (and parameters) of the outermost
// function whose address is never taken and which are never assigned inside a
// function literal other than the one declaring them. "final" variables are
// additionally assigned exactly once (their declaration).
type varInfo struct {
	stable map[types.Object]bool
	final  map[types.Object]bool
	outer  ast.Node
}

func analyseVars(info *types.Info, outer ast.Node) *varInfo {
	vi := &varInfo{stable: map[types.Object]bool{}, final: map[types.Object]bool{}, outer: outer}
	declaredIn := map[types.Object]ast.Node{} // innermost func node of declaration
	assignCount := map[types.Object]int{}
	unstable := map[types.Object]bool{}
	var stack []ast.Node
	cur := func() ast.Node {
		if len(stack) == 0 {
			return outer
		}
		return stack[len(stack)-1]
	}
	var visit func(n ast.Node) bool
	markAssign := func(e ast.Expr) {
		if id, ok := ast.Unparen(e).(*ast.Ident); ok {
			if o := info.Defs[id]; o != nil {
				declaredIn[o] = cur()
				assignCount[o]++
			} else if o := info.Uses[id]; o != nil {
				assignCount[o]++
				if declaredIn[o] != cur() {
					unstable[o] = true
				}
			}
		}
	}
	visit = func(n ast.Node) bool {
		switch t := n.(type) {
		case *ast.FuncLit:
			stack = append(stack, t)
			if t.Type.Params != nil {
				for _, f := range t.Type.Params.List {
					for _, id := range f.Names {
						if o := info.Defs[id]; o != nil {
							declaredIn[o] = t
							assignCount[o]++
						}
					}
				}
			}
			if t.Type.Results != nil {
				for _, f := range t.Type.Results.List {
					for _, id := range f.Names {
						if o := info.Defs[id]; o != nil {
							declaredIn[o] = t
							assignCount[o] += 2 // named results are assigned by return
						}
					}
				}
			}
			ast.Inspect(t.Body, visit)
			stack = stack[:len(stack)-1]
			return false
		case *ast.AssignStmt:
			for _, l := range t.Lhs {
				markAssign(l)
			}
		case *ast.IncDecStmt:
			markAssign(t.X)
		case *ast.RangeStmt:
			if t.Key != nil {
				markAssign(t.Key)
			}
			if t.Value != nil {
				markAssign(t.Value)
			}
		case *ast.ValueSpec:
			for _, id := range t.Names {
				if o := info.Defs[id]; o != nil {
					declaredIn[o] = cur()
					assignCount[o]++
				}
			}
		case *ast.UnaryExpr:
			if t.Op == token.AND {
				if id := rootIdent(t.X); id != nil {
					if _, isComp := ast.Unparen(t.X).(*ast.CompositeLit); !isComp {
						if o := info.Uses[id]; o != nil {
							if _, direct := ast.Unparen(t.X).(*ast.Ident); direct {
								unstable[o] = true
							}
						}
					}
				}
			}
		case *ast.TypeSwitchStmt:
			// the implicit per-clause objects are single-assignment
		}
		return true
	}
	switch o := outer.(type) {
	case *ast.FuncDecl:
		addParams := func(fl *ast.FieldList, w int) {
			if fl == nil {
				return
			}
			for _, f := range fl.List {
				for _, id := range f.Names {
					if ob := info.Defs[id]; ob != nil {
						declaredIn[ob] = outer
						assignCount[ob] += w
					}
				}
			}
		}
		addParams(o.Recv, 1)
		addParams(o.Type.Params, 1)
		addParams(o.Type.Results, 2)
		if o.Body != nil {
			ast.Inspect(o.Body, visit)
		}
	default:
		ast.Inspect(outer, visit)
	}
	for o := range declaredIn {
		if _, ok := o.(*types.Var); !ok {
			continue
		}
		if !unstable[o] {
			vi.stable[o] = true
			if assignCount[o] == 1 {
				vi.final[o] = true
			}
		}
	}
	return vi
}

// factMentions lists what a fact depends on.
type factDeps struct {
	locals   []types.Object
	nonLocal bool         // mentions fields, globals, derefs, calls other than len/cap
	fields   []*types.Var // mutable struct fields mentioned
	opaque   bool         // globals, derefs, element reads, calls, unstable locals
}

func depsOf(info *types.Info, vi *varInfo, exprs ...ast.Expr) factDeps {
	var d factDeps
	for _, e := range exprs {
		if e == nil {
			continue
		}
		ast.Inspect(e, func(n ast.Node) bool {
			switch t := n.(type) {
			case *ast.Ident:
				o := info.Uses[t]
				if o == nil {
					// the defining occurrence of `x := ..` (facts generated by assignments)
					o = info.Defs[t]
				}
				if o == nil {
					return true
				}
				switch ob := o.(type) {
				case *types.Var:
					if ob.IsField() {
						if immutableFields == nil || !immutableFields[ob] {
							d.nonLocal = true
							d.fields = append(d.fields, ob)
						}
					} else if ob.Parent() == ob.Pkg().Scope() {
						d.nonLocal = true
						d.opaque = true
					} else {
						d.locals = append(d.locals, ob)
						if vi != nil && !vi.stable[ob] {
							d.nonLocal = true
							d.opaque = true
						}
					}
				}
			case *ast.SelectorExpr:
				if sel, ok := info.Selections[t]; ok {
					if fv, isVar := sel.Obj().(*types.Var); isVar && fv.IsField() && immutableFields != nil && immutableFields[fv] {
						// a field that is only ever set by composite literals:
						// its value (and hence its length) cannot change under us
						return true
					}
					d.nonLocal = true
				}
			case *ast.StarExpr:
				d.nonLocal = true
				d.opaque = true
			case *ast.CallExpr:
				if !isConversion(info, t) {
					name := calleeName(info, t)
					if name != "builtin.len" && name != "builtin.cap" && !pureCallees[name] {
						d.nonLocal = true
						d.opaque = true
					}
				}
			case *ast.IndexExpr:
				d.nonLocal = true
				d.opaque = true
			}
			return true
		})
	}
	return d
}

// pureCallees are repository helpers whose result depends only on their
// arguments (checked by reading; they take slices/ints and return bools).
var pureCallees = map[string]bool{
	"rare/pkg/expressions/stdlib.isArgCountBetween": true,
}

// SolveFacts runs the must-analysis. vi describes variable stability for the
// outermost enclosing function.
func (fg *FGraph) SolveFacts(vi *varInfo) {
	// universe
	var all []Fact
	genIdx := map[int][]int{}
	idx := map[string]int{}
	add := func(f Fact) int {
		k := fg.factKey(f)
		if i, ok := idx[k]; ok {
			return i
		}
		idx[k] = len(all)
		all = append(all, f)
		return len(all) - 1
	}
	for _, f := range fg.InitFacts {
		for _, a := range atomise(f) {
			add(a)
		}
	}
	for _, n := range fg.Nodes {
		for _, e := range n.Succ {
			if e.Cond != nil {
				for _, a := range atomise(Fact{e.Cond, e.Tag, true}) {
					add(a)
					add(Fact{a.Cond, a.Tag, !a.Truth})
				}
				for _, a := range atomise(Fact{e.Cond, e.Tag, false}) {
					add(a)
					add(Fact{a.Cond, a.Tag, !a.Truth})
				}
			}
		}
	}
	for i, n := range fg.Nodes {
		if n.N == nil {
			continue
		}
		for _, gf := range genFactsOf(fg, vi, n.N) {
			gens0 := add(gf)
			genIdx[i] = append(genIdx[i], gens0)
		}
	}
	deps := make([]factDeps, len(all))
	for i, f := range all {
		deps[i] = depsOf(fg.Info, vi, f.Cond, f.Tag)
	}
	// kill sets per node
	type kill struct {
		objs  map[types.Object]bool
		call  bool
		pkgs  map[*types.Package]bool // packages of static, non-pure callees
		store bool                    // store through a pointer / whole-struct store
	}
	kills := make([]kill, len(fg.Nodes))
	for i, n := range fg.Nodes {
		if n.N == nil {
			continue
		}
		objs, hc := assignedObjs(fg.Info, n.N)
		m := map[types.Object]bool{}
		for _, o := range objs {
			m[o] = true
		}
		pk := map[*types.Package]bool{}
		st := false
		inspectNoLit(n.N, func(x ast.Node) bool {
			switch t := x.(type) {
			case *ast.CallExpr:
				if f := calleeFunc(fg.Info, t); f != nil && f.Pkg() != nil && !pureStdlib(f.FullName()) && !writesNothing(f, 0) {
					if curCtx != nil && curCtx.IsRarePkg(f.Pkg()) {
						// a repository callee: kill exactly the facts about the fields it may store to
						if fw := fieldsWrittenBy(f, 0); !fw.unknown {
							for v := range fw.fields {
								m[v] = true
							}
							return true
						}
					}
					pk[f.Pkg()] = true
				}
			case *ast.AssignStmt:
				for _, l := range t.Lhs {
					if _, isStar := ast.Unparen(l).(*ast.StarExpr); isStar {
						st = true
					}
				}
			}
			return true
		})
		kills[i] = kill{m, hc, pk, st}
	}
	full := func() factSet {
		s := factSet{}
		for i := range all {
			s[i] = true
		}
		return s
	}
	in := make([]factSet, len(fg.Nodes))
	out := make([]factSet, len(fg.Nodes))
	for i := range fg.Nodes {
		in[i] = full()
		out[i] = full()
	}
	in[fg.Entry] = factSet{}
	for _, f := range fg.InitFacts {
		for _, a := range atomise(f) {
			in[fg.Entry][add(a)] = true
		}
	}
	// facts generated by assignments of constants to stable locals
	gens := make([][]int, len(fg.Nodes))
	for i, g := range genIdx {
		gens[i] = g
	}
	transfer := func(i int, s factSet) factSet {
		o := factSet{}
		k := kills[i]
		defer func() {
			for _, g := range gens[i] {
				o[g] = true
			}
		}()
		for f := range s {
			d := deps[f]
			if k.store && d.nonLocal {
				continue
			}
			if k.call && d.opaque {
				continue
			}
			if k.call {
				// a call can change a field only if it runs code of the field's own package
				// (unexported fields) - calls through function values / interfaces into other
				// packages are assumed not to re-enter this object
				hitField := false
				for _, fv := range d.fields {
					if fv.Exported() || k.pkgs[fv.Pkg()] {
						hitField = true
					}
				}
				if hitField {
					continue
				}
			}
			dead := false
			for _, l := range d.locals {
				if k.objs[l] {
					dead = true
					break
				}
			}
			if dead {
				continue
			}
			if d.nonLocal && len(k.objs) > 0 {
				// a field/global store: kill facts that mention that very field, and opaque facts
				hit := false
				for ob := range k.objs {
					if v, ok := ob.(*types.Var); ok && (v.IsField() || (v.Pkg() != nil && v.Parent() == v.Pkg().Scope())) {
						if d.opaque {
							hit = true
						}
						for _, fv := range d.fields {
							if fv == v {
								hit = true
							}
						}
					}
				}
				if hit {
					continue
				}
			}
			o[f] = true
		}
		return o
	}
	out[fg.Entry] = transfer(fg.Entry, in[fg.Entry])
	changed := true
	for iter := 0; changed && iter < 1000; iter++ {
		changed = false
		for _, n := range fg.Nodes {
			if n.ID == fg.Entry {
				continue
			}
			var cur factSet
			first := true
			for _, p := range n.Pred {
				// facts flowing along edge p->n
				for _, e := range fg.Nodes[p].Succ {
					if e.To != n.ID {
						continue
					}
					s := factSet{}
					for f := range out[p] {
						s[f] = true
					}
					if e.Cond != nil {
						for _, a := range atomise(Fact{e.Cond, e.Tag, e.Truth}) {
							s[add(a)] = true
							delete(s, add(Fact{a.Cond, a.Tag, !a.Truth}))
						}
					}
					if first {
						cur = s
						first = false
					} else {
						for f := range cur {
							if !s[f] {
								delete(cur, f)
							}
						}
					}
				}
			}
			if first {
				cur = factSet{} // unreachable
			}
			if len(cur) != len(in[n.ID]) {
				in[n.ID] = cur
				changed = true
			} else {
				for f := range cur {
					if !in[n.ID][f] {
						in[n.ID] = cur
						changed = true
						break
					}
				}
			}
			no := transfer(n.ID, in[n.ID])
			if len(no) != len(out[n.ID]) {
				out[n.ID] = no
				changed = true
			} else {
				for f := range no {
					if !out[n.ID][f] {
						out[n.ID] = no
						changed = true
						break
					}
				}
			}
		}
	}
	fg.factsIn = in
	fg.allFactsList = all
	fg.transferFn = func(i int, s map[int]bool) map[int]bool { return transfer(i, factSet(s)) }
	fg.addFactFn = add
	fg.allFactsPtr = &all
}

// PathFactsAtPos enumerates, for a construct in the acyclic part of a function
// (no node on any entry path lies on a cycle), the fact set known on each
// individual entry path: the join over paths of FactsAtPos forgets facts that
// hold for different reasons on different paths (`if i < 0 { i = 0 } else if
// i >= n { i = n - 1 }`). ok is false when a path revisits a node or there are
// more than limit paths.
func (fg *FGraph) PathFactsAtPos(pos token.Pos, limit int) (sets [][]Fact, ok bool) {
	id := fg.NodeOf(pos)
	if id < 0 || fg.transferFn == nil {
		return nil, false
	}
	// nodes from which id is reachable
	reach := map[int]bool{id: true}
	for changed := true; changed; {
		changed = false
		for _, n := range fg.Nodes {
			if reach[n.ID] {
				continue
			}
			for _, e := range n.Succ {
				if reach[e.To] {
					reach[n.ID] = true
					changed = true
					break
				}
			}
		}
	}
	if !reach[fg.Entry] {
		return nil, false
	}
	onStack := map[int]bool{}
	ok = true
	extra := fg.FactsAtPos(pos)[len(fg.FactsAt(id)):]
	var dfs func(n int, s map[int]bool)
	dfs = func(n int, s map[int]bool) {
		if !ok {
			return
		}
		if n == id {
			var fs []Fact
			for f := range s {
				fs = append(fs, (*fg.allFactsPtr)[f])
			}
			fs = append(fs, extra...)
			sets = append(sets, fs)
			if len(sets) > limit {
				ok = false
			}
			return
		}
		if onStack[n] {
			ok = false
			return
		}
		onStack[n] = true
		out := fg.transferFn(n, s)
		for _, e := range fg.Nodes[n].Succ {
			if !reach[e.To] {
				continue
			}
			s2 := map[int]bool{}
			for f := range out {
				s2[f] = true
			}
			if e.Cond != nil {
				for _, a := range atomise(Fact{e.Cond, e.Tag, e.Truth}) {
					s2[fg.addFactFn(a)] = true
					delete(s2, fg.addFactFn(Fact{a.Cond, a.Tag, !a.Truth}))
				}
			}
			dfs(e.To, s2)
		}
		onStack[n] = false
	}
	init := map[int]bool{}
	for _, f := range fg.InitFacts {
		for _, a := range atomise(f) {
			init[fg.addFactFn(a)] = true
		}
	}
	dfs(fg.Entry, init)
	if !ok || len(sets) == 0 {
		return nil, false
	}
	return sets, true
}

// FactsAt returns the branch facts known on entry to node id.
func (fg *FGraph) FactsAt(id int) []Fact {
	if fg.factsIn == nil || id < 0 {
		return nil
	}
	var out []Fact
	for f := range fg.factsIn[id] {
		out = append(out, fg.allFactsList[f])
	}
	return out
}

// immutableFields is the set of struct fields of the repository that are
// never assigned after construction (no `x.f = ..`, `x.f++`, `&x.f`, and no
// whole-struct store `*p = T{..}` / `v = T{..}` for their struct type except
// as a variable's initialisation). Computed once per loaded configuration.
var immutableFields map[*types.Var]bool

// elementStoredArrays: array-typed struct fields some element of which is stored to somewhere.
var elementStoredArrays = map[*types.Var]bool{}

func computeImmutableFields(c *Ctx) {
	elementStoredArrays = map[*types.Var]bool{}
	written := map[*types.Var]bool{}
	all := map[*types.Var]bool{}
	markStruct := func(t types.Type) {
		if t == nil {
			return
		}
		if p, ok := t.Underlying().(*types.Pointer); ok {
			t = p.Elem()
		}
		if st, ok := t.Underlying().(*types.Struct); ok {
			for i := 0; i < st.NumFields(); i++ {
				written[st.Field(i).Origin()] = true
			}
		}
	}
	for _, p := range c.Pkgs {
		info := p.TypesInfo
		sc := p.Types.Scope()
		for _, n := range sc.Names() {
			if tn, ok := sc.Lookup(n).(*types.TypeName); ok {
				if st, ok := tn.Type().Underlying().(*types.Struct); ok {
					for i := 0; i < st.NumFields(); i++ {
						all[st.Field(i)] = true
					}
				}
			}
		}
		for _, f := range p.Syntax {
			ast.Inspect(f, func(n ast.Node) bool {
				switch t := n.(type) {
				case *ast.AssignStmt:
					for _, l := range t.Lhs {
						l = ast.Unparen(l)
						if fv := fieldVar(info, l); fv != nil {
							written[fv] = true
						}
						switch lt := l.(type) {
						case *ast.StarExpr:
							markStruct(info.TypeOf(lt))
						case *ast.Ident:
							if t.Tok != token.DEFINE {
								// v = T{..} re-binds every field of a struct variable
								if tv := info.TypeOf(lt); tv != nil {
									if _, isStruct := tv.Underlying().(*types.Struct); isStruct {
										markStruct(tv)
									}
								}
							}
						case *ast.IndexExpr:
							// element store into a field-held slice/array/map: the field's *length* is
							// unchanged for slices/arrays; nothing to mark for the length facts. An array
							// held by value keeps the stored element as state of the struct, though.
							if fv := fieldVar(info, lt.X); fv != nil {
								if _, isArr := fv.Type().Underlying().(*types.Array); isArr {
									elementStoredArrays[fv] = true
								}
							}
						}
					}
				case *ast.IncDecStmt:
					if fv := fieldVar(info, t.X); fv != nil {
						written[fv] = true
					}
				case *ast.UnaryExpr:
					if t.Op == token.AND {
						if fv := fieldVar(info, t.X); fv != nil {
							written[fv] = true
						}
					}
				case *ast.RangeStmt:
					if t.Key != nil {
						if fv := fieldVar(info, t.Key); fv != nil {
							written[fv] = true
						}
					}
					if t.Value != nil {
						if fv := fieldVar(info, t.Value); fv != nil {
							written[fv] = true
						}
					}
				}
				return true
			})
		}
	}
	immutableFields = map[*types.Var]bool{}
	for f := range all {
		if !written[f] {
			immutableFields[f] = true
		}
	}
}

// pureStdlib: library functions that neither call back into the program nor
// write memory reachable from it.
func pureStdlib(name string) bool {
	return hasPrefixAny(name, "strings.Index", "strings.LastIndex", "strings.Count", "strings.Contains", "strings.HasPrefix", "strings.HasSuffix",
		"strings.TrimSpace", "strings.ToLower", "strings.ToUpper", "bytes.Index", "bytes.LastIndex", "bytes.Count", "strconv.Itoa", "strconv.Atoi",
		"strconv.ParseInt", "strconv.ParseFloat", "strconv.FormatInt", "strconv.FormatFloat", "math.", "unicode.", "unicode/utf8.", "builtin.min", "builtin.max",
		"rare/pkg/color.StrLen")
}

// atomise splits a fact into atomic facts: !X, (A && B) true, (A || B) false.
func atomise(f Fact) []Fact {
	if f.Tag != nil {
		return []Fact{f}
	}
	c := ast.Unparen(f.Cond)
	switch t := c.(type) {
	case *ast.UnaryExpr:
		if t.Op == token.NOT {
			return atomise(Fact{t.X, nil, !f.Truth})
		}
	case *ast.BinaryExpr:
		if t.Op == token.LAND && f.Truth {
			return append(atomise(Fact{t.X, nil, true}), atomise(Fact{t.Y, nil, true})...)
		}
		if t.Op == token.LOR && !f.Truth {
			return append(atomise(Fact{t.X, nil, false}), atomise(Fact{t.Y, nil, false})...)
		}
	}
	return []Fact{{c, nil, f.Truth}}
}

// factKey gives equivalent spellings of one comparison the same identity:
// `a >= b` false, `a < b` true and `b > a` true are one fact. Identifiers are
// pinned to their objects so that shadowed names stay distinct.
func (fg *FGraph) factKey(f Fact) string {
	pin := func(e ast.Expr) string {
		var sb strings.Builder
		sb.WriteString(exprStr(e))
		ast.Inspect(e, func(n ast.Node) bool {
			if id, ok := n.(*ast.Ident); ok {
				o := fg.Info.Uses[id]
				if o == nil {
					o = fg.Info.Defs[id]
				}
				if o != nil {
					if _, isVar := o.(*types.Var); isVar {
						fmt.Fprintf(&sb, "@%d", o.Pos())
					}
				}
			}
			return true
		})
		return sb.String()
	}
	if f.Tag != nil {
		return fmt.Sprintf("tag:%s==%s:%v", pin(f.Tag), pin(f.Cond), f.Truth)
	}
	c := ast.Unparen(f.Cond)
	if be, ok := c.(*ast.BinaryExpr); ok {
		op := be.Op
		switch op {
		case token.LSS, token.LEQ, token.GTR, token.GEQ, token.EQL, token.NEQ:
			if !f.Truth {
				op = negateTok(op)
			}
			l, r := pin(be.X), pin(be.Y)
			if l > r {
				l, r = r, l
				switch op {
				case token.LSS:
					op = token.GTR
				case token.GTR:
					op = token.LSS
				case token.LEQ:
					op = token.GEQ
				case token.GEQ:
					op = token.LEQ
				}
			}
			return l + " " + op.String() + " " + r
		}
	}
	return fmt.Sprintf("%s=%v", pin(c), f.Truth)
}

func negateTok(op token.Token) token.Token {
	switch op {
	case token.LSS:
		return token.GEQ
	case token.LEQ:
		return token.GTR
	case token.GTR:
		return token.LEQ
	case token.GEQ:
		return token.LSS
	case token.EQL:
		return token.NEQ
	case token.NEQ:
		return token.EQL
	}
	return op
}

// FactsAtPos returns the branch facts known when the expression at pos is
// evaluated: the facts on entry to its CFG node plus, for positions inside the
// right operand of a short-circuit operator within that node, the outcome of
// the left operand (go/cfg keeps a whole condition in one node).
func (fg *FGraph) FactsAtPos(pos token.Pos) []Fact {
	id := fg.NodeOf(pos)
	if id < 0 {
		return nil
	}
	out := fg.FactsAt(id)
	n := fg.Nodes[id].N
	var walk func(e ast.Node)
	walk = func(e ast.Node) {
		ast.Inspect(e, func(x ast.Node) bool {
			if x == nil {
				return false
			}
			if _, isLit := x.(*ast.FuncLit); isLit {
				return false
			}
			be, ok := x.(*ast.BinaryExpr)
			if !ok || (be.Op != token.LAND && be.Op != token.LOR) {
				return true
			}
			if within(be.Y, pos) {
				out = append(out, atomise(Fact{be.X, nil, be.Op == token.LAND})...)
			}
			return true
		})
	}
	if n != nil {
		walk(n)
	}
	return out
}

// curCtx is the configuration being analysed (set by Load); used to look up
// callee bodies for the purity test below.
var curCtx *Ctx
var fieldsWrittenCache = map[*types.Func]*fieldWrites{}

type fieldWrites struct {
	fields  map[*types.Var]bool
	unknown bool
}

// fieldsWrittenBy: the struct fields a repository function may store to
// (directly or through repository callees). unknown is set when it stores
// through a pointer, assigns package-level variables, starts goroutines, or
// calls code this summary cannot see into (other than pure library functions
// and calls through function values / interfaces, which are assumed not to
// re-enter the object - the same assumption the fact transfer makes).
func fieldsWrittenBy(f *types.Func, depth int) *fieldWrites {
	out := &fieldWrites{fields: map[*types.Var]bool{}}
	if curCtx == nil || depth > 4 {
		out.unknown = true
		return out
	}
	f = f.Origin()
	if v, ok := fieldsWrittenCache[f]; ok {
		if v == nil { // recursion
			out.unknown = true
			return out
		}
		return v
	}
	fieldsWrittenCache[f] = nil
	fi := funcDeclOf(curCtx, f)
	if fi == nil {
		out.unknown = true
		fieldsWrittenCache[f] = out
		return out
	}
	info := fi.Pkg.TypesInfo
	lhs := func(e ast.Expr) {
		e = ast.Unparen(e)
		switch t := e.(type) {
		case *ast.Ident:
			if o, isVar := info.Uses[t].(*types.Var); isVar && o.Pkg() != nil && o.Parent() == o.Pkg().Scope() {
				out.unknown = true
			}
		case *ast.SelectorExpr:
			if v := fieldVar(info, t); v != nil {
				out.fields[v] = true
			} else {
				out.unknown = true
			}
		case *ast.IndexExpr:
			// element store: lengths and bindings of fields are unchanged
		case *ast.StarExpr:
			out.unknown = true
		default:
			out.unknown = true
		}
	}
	ast.Inspect(fi.Decl.Body, func(n ast.Node) bool {
		switch t := n.(type) {
		case *ast.AssignStmt:
			for _, l := range t.Lhs {
				lhs(l)
			}
		case *ast.IncDecStmt:
			lhs(t.X)
		case *ast.GoStmt:
			out.unknown = true
		case *ast.CallExpr:
			if isConversion(info, t) {
				return true
			}
			name := calleeName(info, t)
			if strings.HasPrefix(name, "builtin.") || pureStdlib(name) {
				return true
			}
			if g := calleeFunc(info, t); g != nil && curCtx.IsRarePkg(g.Pkg()) {
				sub := fieldsWrittenBy(g, depth+1)
				if sub.unknown {
					out.unknown = true
				}
				for v := range sub.fields {
					out.fields[v] = true
				}
			}
			// other callees (library code, function values): cannot name unexported fields of this
			// package; exported fields are handled by the caller of this summary
		}
		return true
	})
	fieldsWrittenCache[f] = out
	return out
}

var writesNothingCache = map[*types.Func]int{}

// writesNothing: the function (of the repository) stores to nothing but its
// own locals and calls only functions with the same property or pure library
// functions. Such a call cannot invalidate facts about fields.
func writesNothing(f *types.Func, depth int) bool {
	if curCtx == nil || depth > 3 {
		return false
	}
	f = f.Origin()
	if v, ok := writesNothingCache[f]; ok {
		return v == 1
	}
	writesNothingCache[f] = 0 // recursion guard: assume impure while computing
	fi := funcDeclOf(curCtx, f)
	if fi == nil {
		return false
	}
	info := fi.Pkg.TypesInfo
	ok := true
	ast.Inspect(fi.Decl.Body, func(n ast.Node) bool {
		if !ok {
			return false
		}
		switch t := n.(type) {
		case *ast.AssignStmt:
			for _, l := range t.Lhs {
				if _, isId := ast.Unparen(l).(*ast.Ident); !isId {
					ok = false
				} else if o, isVar := info.Uses[ast.Unparen(l).(*ast.Ident)].(*types.Var); isVar && o.Pkg() != nil && o.Parent() == o.Pkg().Scope() {
					ok = false
				}
			}
		case *ast.IncDecStmt:
			if _, isId := ast.Unparen(t.X).(*ast.Ident); !isId {
				ok = false
			}
		case *ast.GoStmt, *ast.SendStmt, *ast.DeferStmt:
			ok = false
		case *ast.CallExpr:
			if isConversion(info, t) {
				return true
			}
			name := calleeName(info, t)
			if strings.HasPrefix(name, "builtin.") {
				if name == "builtin.copy" || name == "builtin.delete" || name == "builtin.close" {
					ok = false
				}
				return true
			}
			if pureStdlib(name) {
				return true
			}
			if g := calleeFunc(info, t); g != nil && curCtx.IsRarePkg(g.Pkg()) && writesNothing(g, depth+1) {
				return true
			}
			ok = false
		}
		return true
	})
	if ok {
		writesNothingCache[f] = 1
	}
	return ok
}

// genFactsOf: facts established by executing node n: `x = K`, `x = pure
// integer expression` (x == e, killed like any other fact when an operand is
// re-bound), `x = min(a, b)` (x <= a, x <= b) and `x = max(a, b)`.
func genFactsOf(fg *FGraph, vi *varInfo, n ast.Node) []Fact {
	as, ok := n.(*ast.AssignStmt)
	if !ok || len(as.Lhs) != 1 || len(as.Rhs) != 1 || (as.Tok != token.ASSIGN && as.Tok != token.DEFINE) {
		return nil
	}
	id, ok := ast.Unparen(as.Lhs[0]).(*ast.Ident)
	if !ok {
		return nil
	}
	ob := fg.Info.Uses[id]
	if ob == nil {
		ob = fg.Info.Defs[id]
	}
	if ob == nil || vi == nil || !vi.stable[ob] {
		return nil
	}
	rhs := as.Rhs[0]
	tv, ok := fg.Info.Types[rhs]
	if !ok {
		return nil
	}
	// x := make([]T, n): len(x) == n until x or an operand of n is re-bound
	if mk, isCall := ast.Unparen(rhs).(*ast.CallExpr); isCall && calleeName(fg.Info, mk) == "builtin.make" && len(mk.Args) >= 2 {
		if _, isSlice := tv.Type.Underlying().(*types.Slice); isSlice {
			if _, isC := constInt(fg.Info, mk.Args[1]); isC || isPureIntExpr(fg.Info, mk.Args[1]) {
				self := false
				ast.Inspect(mk.Args[1], func(x ast.Node) bool {
					if i2, ok := x.(*ast.Ident); ok && fg.Info.Uses[i2] == ob {
						self = true
					}
					return true
				})
				if !self {
					ln := &ast.CallExpr{Fun: ast.NewIdent("len"), Args: []ast.Expr{id}}
					synthLen[ln] = true
					return []Fact{{&ast.BinaryExpr{X: ln, Op: token.EQL, Y: mk.Args[1]}, nil, true}}
				}
			}
		}
		return nil
	}
	if !isIntegerType(tv.Type) {
		return nil
	}
	mentionsSelf := false
	ast.Inspect(rhs, func(x ast.Node) bool {
		if i2, ok := x.(*ast.Ident); ok && fg.Info.Uses[i2] == ob {
			mentionsSelf = true
		}
		return true
	})
	if mentionsSelf {
		return nil
	}
	return genIntFacts(fg, id, rhs, tv)
}

// synthLen marks len(x) calls built by the analysis itself (they have no type information).
var synthLen = map[*ast.CallExpr]bool{}

func genIntFacts(fg *FGraph, id *ast.Ident, rhs ast.Expr, tv types.TypeAndValue) []Fact {
	var out []Fact
	if tv.Value != nil || isPureIntExpr(fg.Info, rhs) {
		for _, op := range []token.Token{token.EQL, token.GEQ, token.LEQ} {
			out = append(out, Fact{&ast.BinaryExpr{X: id, Op: op, Y: rhs}, nil, true})
		}
		return out
	}
	if ce, ok := ast.Unparen(rhs).(*ast.CallExpr); ok && len(ce.Args) >= 2 {
		if k := minMaxKind(fg.Info, ce); k != 0 {
			op := token.LEQ
			if k > 0 {
				op = token.GEQ
			}
			for _, a := range ce.Args {
				if _, isC := constInt(fg.Info, a); isC || isPureIntExpr(fg.Info, a) {
					out = append(out, Fact{&ast.BinaryExpr{X: id, Op: op, Y: a}, nil, true})
				}
			}
		}
	}
	return out
}

// isPureIntExpr: variables, fields, len/cap of variables or fields, integer
// constants, combined with + and -. Evaluating it has no effect and its value
// changes only when one of the mentioned variables or fields is re-bound.
func isPureIntExpr(info *types.Info, e ast.Expr) bool {
	e = ast.Unparen(e)
	if tv, ok := info.Types[e]; ok && tv.Value != nil {
		return true
	}
	switch t := e.(type) {
	case *ast.Ident:
		_, isVar := info.Uses[t].(*types.Var)
		return isVar
	case *ast.SelectorExpr:
		return isPlainPath(info, t)
	case *ast.BinaryExpr:
		if t.Op == token.ADD || t.Op == token.SUB {
			return isPureIntExpr(info, t.X) && isPureIntExpr(info, t.Y)
		}
	case *ast.CallExpr:
		n := calleeName(info, t)
		if (n == "builtin.len" || n == "builtin.cap") && len(t.Args) == 1 {
			a := ast.Unparen(t.Args[0])
			switch at := a.(type) {
			case *ast.Ident:
				_, isVar := info.Uses[at].(*types.Var)
				return isVar
			case *ast.SelectorExpr:
				return isPlainPath(info, at)
			}
		}
	}
	return false
}

// isPlainPath: x.f.g with x a variable and every selection a struct field.
func isPlainPath(info *types.Info, se *ast.SelectorExpr) bool {
	sel, ok := info.Selections[se]
	if !ok || sel.Kind() != types.FieldVal {
		return false
	}
	switch x := ast.Unparen(se.X).(type) {
	case *ast.Ident:
		_, isVar := info.Uses[x].(*types.Var)
		return isVar
	case *ast.SelectorExpr:
		return isPlainPath(info, x)
	}
	return false
}

// minMaxKind: -1 when the call computes the minimum of its integer arguments,
// +1 for the maximum, 0 otherwise. Recognised: the min/max builtins and
// two-parameter repository functions whose whole body is
// `if a OP b { return a }; return b`.
func minMaxKind(info *types.Info, ce *ast.CallExpr) int {
	switch calleeName(info, ce) {
	case "builtin.min":
		return -1
	case "builtin.max":
		return 1
	}
	f := calleeFunc(info, ce)
	if f == nil || curCtx == nil || f.Pkg() == nil || !curCtx.IsRarePkg(f.Pkg()) {
		return 0
	}
	fi := funcDeclOf(curCtx, f)
	if fi == nil || fi.Decl.Recv != nil || len(fi.Decl.Body.List) != 2 {
		return 0
	}
	var ps []types.Object
	for _, fld := range fi.Decl.Type.Params.List {
		for _, nm := range fld.Names {
			ps = append(ps, fi.Pkg.TypesInfo.Defs[nm])
		}
	}
	if len(ps) != 2 {
		return 0
	}
	is, ok := fi.Decl.Body.List[0].(*ast.IfStmt)
	ret2, ok2 := fi.Decl.Body.List[1].(*ast.ReturnStmt)
	if !ok || !ok2 || is.Init != nil || is.Else != nil || len(is.Body.List) != 1 || len(ret2.Results) != 1 {
		return 0
	}
	ret1, ok := is.Body.List[0].(*ast.ReturnStmt)
	be, okb := ast.Unparen(is.Cond).(*ast.BinaryExpr)
	if !ok || !okb || len(ret1.Results) != 1 {
		return 0
	}
	hi := fi.Pkg.TypesInfo
	x, y := identObj(hi, be.X), identObj(hi, be.Y)
	r1, r2 := identObj(hi, ret1.Results[0]), identObj(hi, ret2.Results[0])
	if x == nil || y == nil || x == y || !((x == ps[0] && y == ps[1]) || (x == ps[1] && y == ps[0])) {
		return 0
	}
	if r1 == nil || r2 == nil || r1 == r2 || (r1 != x && r1 != y) || (r2 != x && r2 != y) {
		return 0
	}
	// `if x OP y { return r1 }; return r2`
	less := be.Op == token.LSS || be.Op == token.LEQ
	greater := be.Op == token.GTR || be.Op == token.GEQ
	if !less && !greater {
		return 0
	}
	if (less && r1 == x) || (greater && r1 == y) {
		return -1
	}
	return 1
}
