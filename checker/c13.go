package main

// C13 - output ordering is a deterministic function of the data.
// C03 - aggregates independent of parallelism (shares the map-order and
// sampling rules).

import (
	"fmt"
	"go/ast"
	"go/token"
	"go/types"
	"sort"
	"strings"
)

func init() {
	register(&propDef{
		ID:  "C13",
		Run: runC13,
		Explain: "Decided: (a) comparator purity: every comparator literal of pkg/aggregation/sorting writes no captured or package-level variable (a comparator with memory makes the order depend on the sequence of comparisons, i.e. on arrival order); (b) per-element strategy: a comparator must not choose between two different order relations by a condition that conjoins facts about both arguments unless the mixed case is ordered by class; (c) nothing reaches the screen or CSV in hash order: every range over a map in pkg/aggregation, pkg/csv, cmd and pkg/multiterm is order-insensitive or its collected slice is sorted before any use (through callers, depth 2), and every comparator over name/value pairs consults the names of both arguments (a tie-break), so distinct keys are never left in input order; (d) Reverse returns the negation of the same comparator on the same argument order, the value sort compares values and falls back to names, sort modifiers map to the documented directions; (e) the weekday/month tables put every name and abbreviation at its calendar position. Comparator values are built per use: none is stored in package-level state at run time, and no package-level comparator is built from a constructor with memory; the per-pair-strategy rule covers nested and De Morgan forms and identifies the class order by the predicates used. " +
			"NOT decided: chronological correctness of `date` (delegated to dateparse/time), numeric ordering of every spelling, transitivity beyond the structural conditions above.",
		Assume: []string{"sort.Sort yields a permutation determined by the comparator when the comparator is a strict weak order on distinct keys"},
	})
	register(&propDef{
		ID:  "C03",
		Run: runC03,
		Explain: "Decided: (a) single sampler: every call that mutates an aggregator (Sample, SampleValue, SampleItem, Samplef, Trim) from outside pkg/aggregation happens in RunAggregationLoop with the output mutex held, or inside a render callback (which runs under that mutex or after the ticker stopped); workers hand matches over only through the extractor's channel; the final render is unconditional and ordered after the done handshake (same rules as C05-b); (b) no hash order in any exported result: every range over a map in pkg/aggregation, pkg/csv and cmd is order-insensitive or sorted before use, and name/value comparators carry a name tie-break; (c) CSV goes through encoding/csv: every record written by pkg/csv reaches (*encoding/csv.Writer).Write, Close flushes before closing the file; (d) exit status: DetermineErrorState returns 2 exactly on the paths with read errors or parse errors, 1 exactly when neither and nothing matched, nil otherwise, and every aggregating command ends by returning it. (e) what the aggregators fold is what was extracted: the redundant-state rules of C07 (same accumulation set on all paths, bad increments counted and never sampled, min/max independent). " +
			"NOT decided: equality with an independent aggregation for every corpus, RFC-4180 round trip of arbitrary keys (delegated to encoding/csv), independence from file order for order-sensitive accumulators.",
		Assume: []string{"encoding/csv quotes fields per RFC 4180"},
	})
}

const sortingPkg = "rare/pkg/aggregation/sorting"

func runC13(c *Ctx, r *Report) {
	c13Comparators(c, r, "C13")
	c13SorterSharing(c, r)
	loops := analyseMapLoops(c)
	emitMapLoops(c, r, "C13-c/map-order", loops, func(ml mapLoop) bool {
		pp := ml.Fi.Pkg.PkgPath
		return strings.HasPrefix(pp, "rare/pkg/aggregation") || pp == "rare/pkg/csv" || strings.HasPrefix(pp, "rare/cmd") || strings.HasPrefix(pp, "rare/pkg/multiterm")
	})
	r.Floor("C13-c/map-order", 10, "Items, Rows, Columns, Groups, ComputeMinMax, Sum, Trim ...")
	c13TieBreak(c, r, "C13-c/tie-break")
	c13Reverse(c, r)
	c13Calendar(c, r)
	c13NumberClass(c, r, "C13-f/number-class")
	c13NaNOrder(c, r, "C13-b/nan-order")
	c13BothDirections(c, r, "C13-d/both-directions")
	c13TimePrecision(c, r, "C13-g/time-precision")
}

func runC03(c *Ctx, r *Report) {
	units := allBodies(c, "rare/cmd/helpers")
	c05AggregationLoopAs(c, r, units, "C03-a")
	c03SingleSampler(c, r)
	loops := analyseMapLoops(c)
	emitMapLoops(c, r, "C03-b/map-order", loops, func(ml mapLoop) bool {
		pp := ml.Fi.Pkg.PkgPath
		return strings.HasPrefix(pp, "rare/pkg/aggregation") || pp == "rare/pkg/csv" || strings.HasPrefix(pp, "rare/cmd")
	})
	r.Floor("C03-b/map-order", 10, "aggregator accessors")
	c13TieBreak(c, r, "C03-b/tie-break")
	c03CSV(c, r)
	c03CSVVerbatim(c, r, "C03-c/csv-verbatim")
	c03ExitStatus(c, r)
	// the exit status reads the read-error count: every failure is counted (the C06-b rules)
	borrow(c, r, c06ErrorsCounted, "C06-b", "C03-d", nil, true)
	// (e) what the aggregators fold is what was extracted: the redundant-state rules of C07
	borrow(c, r, c07PairedUpdates, "C07-a", "C03-e", nil, true)
	borrow(c, r, c07ParseErrors, "C07-c", "C03-e", nil, true)
	c07IncrementField(c, r, "C03-e/increment-field")
	borrow(c, r, c07Numerical, "C07-d", "C03-e", nil, true)
	c07DerivedState(c, r, "C03-e")
}

// c05AggregationLoopAs runs the C05-b rules and files them under another prefix.
func c05AggregationLoopAs(c *Ctx, r *Report, units []*bodyUnit, prefix string) {
	sub := NewReport(r.Prop, r.Tier)
	sub.curCfg = r.curCfg
	c05AggregationLoop(c, sub, units)
	for _, o := range sub.Obs {
		o.Rule = strings.Replace(o.Rule, "C05-b", prefix, 1)
		o.Key = strings.Replace(o.Key, "C05-b", prefix, 1)
		r.Obs = append(r.Obs, o)
	}
	for k, v := range sub.floors {
		r.Floor(strings.Replace(k, "C05-b", prefix, 1), v, sub.floorWhy[k])
	}
}

// ---------------------------------------------------------------- comparators

// comparatorLits lists function literals/declarations of shape func(a, b T) bool.
type comparator struct {
	where string
	pos   token.Pos
	body  *ast.BlockStmt
	outer ast.Node // node delimiting "captured" (the literal or the declaration)
	a, b  types.Object
	info  *types.Info
	pkg   *packagesPkg
}

func isComparatorSig(sig *types.Signature) bool {
	if sig == nil || sig.Params().Len() != 2 || sig.Results().Len() != 1 {
		return false
	}
	if !types.Identical(sig.Params().At(0).Type(), sig.Params().At(1).Type()) {
		return false
	}
	return isBool(sig.Results().At(0).Type())
}

func comparatorsIn(c *Ctx, prefixes ...string) []comparator {
	var out []comparator
	for _, fi := range c.AllFuncDecls(prefixes...) {
		if isTestSupportPkg(fi.Pkg.PkgPath) {
			continue
		}
		info := fi.Pkg.TypesInfo
		params := func(ft *ast.FuncType) (a, b types.Object) {
			var objs []types.Object
			if ft.Params != nil {
				for _, f := range ft.Params.List {
					for _, id := range f.Names {
						objs = append(objs, info.Defs[id])
					}
				}
			}
			if len(objs) == 2 {
				return objs[0], objs[1]
			}
			return nil, nil
		}
		isIndexLess := func(sig *types.Signature) bool {
			// sort.Interface's Less(i, j int): compares positions, not keys
			b, ok := sig.Params().At(0).Type().Underlying().(*types.Basic)
			return ok && b.Kind() == types.Int
		}
		if sig, ok := fi.Obj.Type().(*types.Signature); ok && isComparatorSig(sig) && (fi.Decl.Recv == nil || !isIndexLess(sig)) {
			a, b := params(fi.Decl.Type)
			out = append(out, comparator{fi.Name, fi.Decl.Pos(), fi.Decl.Body, fi.Decl, a, b, info, fi.Pkg})
		}
		for _, fl := range funcLitsIn(fi.Decl.Body) {
			sig, _ := info.TypeOf(fl).(*types.Signature)
			if !isComparatorSig(sig) {
				continue
			}
			a, b := params(fl.Type)
			out = append(out, comparator{fi.Name, fl.Pos(), fl.Body, fl, a, b, info, fi.Pkg})
		}
	}
	return out
}

func c13Comparators(c *Ctx, r *Report, prefix string) {
	rule := prefix + "-a/pure-comparator"
	rule2 := prefix + "-b/mixed-strategy"
	comps := comparatorsIn(c, sortingPkg)
	for _, cm := range comps {
		// (a) writes to captured / package-level variables
		var written, writtenTypes []string
		ast.Inspect(cm.body, func(n ast.Node) bool {
			var lhs []ast.Expr
			switch t := n.(type) {
			case *ast.AssignStmt:
				lhs = t.Lhs
			case *ast.IncDecStmt:
				lhs = []ast.Expr{t.X}
			}
			for _, l := range lhs {
				id := rootIdent(l)
				if id == nil || id.Name == "_" {
					continue
				}
				o, ok := cm.info.Uses[id].(*types.Var)
				if !ok {
					continue
				}
				if (o.Pkg() != nil && o.Parent() == o.Pkg().Scope()) || !within(cm.outer, o.Pos()) {
					written = append(written, o.Name())
					writtenTypes = append(writtenTypes, types.TypeString(o.Type(), func(p *types.Package) string { return p.Name() }))
				}
			}
			return true
		})
		written = dedupStrings(written)
		sort.Strings(written)
		writtenTypes = dedupStrings(writtenTypes)
		sort.Strings(writtenTypes)
		if len(written) == 0 {
			r.OK(rule, cm.where, "comparator", c.Pos(cm.pos), "effect: comparator assigns only its own locals")
		} else {
			// the construct names the kinds of state, not the variables: renaming them changes no key
			r.Bad(rule, cm.where, "comparator writes captured "+strings.Join(writtenTypes, ","), c.Pos(cm.pos),
				"comparator remembers state between comparisons (writes "+strings.Join(written, ", ")+"): which strategy it uses depends on the first pair the sort happens to compare, so the same key set can sort differently for different arrival orders")
		}
		// (b) mixed strategy
		if cm.a == nil || cm.b == nil {
			continue
		}
		if ms := mixedStrategy(cm); len(ms) > 0 {
			for _, m := range ms {
				r.Bad(rule2, cm.where, m[0], c.Pos(cm.pos), m[1])
			}
		} else {
			r.OK(rule2, cm.where, "comparator", c.Pos(cm.pos), "shape: no per-pair choice between different order relations (or the mixed case is ordered by class)")
		}
	}
	r.Floor(rule, 6, "ByName, ByNameSmart, ValueSorterEx, ValueNilSorter, Reverse, ByContextualEx, ByDate, SortBy")
	r.Floor(rule2, 6, "same comparators")
}

// derivedTag: which of the two comparator arguments an expression depends on.
func derivedTag(cm comparator, e ast.Expr, tags map[types.Object]int) int {
	t := 0
	ast.Inspect(e, func(n ast.Node) bool {
		if id, ok := n.(*ast.Ident); ok {
			o := cm.info.Uses[id]
			if o == cm.a {
				t |= 1
			} else if o == cm.b {
				t |= 2
			} else if v, ok := tags[o]; ok {
				t |= v
			}
		}
		return true
	})
	return t
}

// mixedStrategy: anywhere in the comparator, `if P(a) && Q(b) { .. return R1 .. }`
// (or the De Morgan form `if !P(a) || !Q(b) { .. } else { return R1 }`) followed
// by returns R2 that compare something else, where no other branch orders the
// case "exactly one of the two holds" by class *using the same predicates*.
// Returns (construct, detail) pairs.
func mixedStrategy(cm comparator) [][2]string {
	tags := map[types.Object]int{}
	defs := map[types.Object][]ast.Expr{} // local -> defining right-hand sides
	// propagate: v := f(a) etc. (two passes are enough for straight-line code)
	for pass := 0; pass < 2; pass++ {
		ast.Inspect(cm.body, func(n ast.Node) bool {
			as, ok := n.(*ast.AssignStmt)
			if !ok {
				return true
			}
			for i, l := range as.Lhs {
				o := identObj(cm.info, l)
				if o == nil {
					continue
				}
				var rhs ast.Expr
				if len(as.Rhs) == len(as.Lhs) {
					rhs = as.Rhs[i]
				} else if len(as.Rhs) == 1 {
					rhs = as.Rhs[0]
				}
				if rhs != nil && within(cm.body, o.Pos()) { // state captured from outside is not a function of this pair
					tags[o] |= derivedTag(cm, rhs, tags)
					if pass == 0 {
						defs[o] = append(defs[o], rhs)
					}
				}
			}
			return true
		})
	}
	// predicate identity of an expression: the functions it calls and the locals it
	// reads, locals defined by a plain (call-free) expression being expanded.
	var predObjs func(e ast.Expr, depth int, out map[types.Object]bool)
	predObjs = func(e ast.Expr, depth int, out map[types.Object]bool) {
		ast.Inspect(e, func(n ast.Node) bool {
			id, ok := n.(*ast.Ident)
			if !ok {
				return true
			}
			o := cm.info.Uses[id]
			if o == nil || o == cm.a || o == cm.b {
				return true
			}
			switch ov := o.(type) {
			case *types.Func:
				out[o] = true
			case *types.Var:
				if !within(cm.body, ov.Pos()) {
					return true // captured or package-level state is not a predicate of the arguments
				}
				expanded := false
				if depth < 3 {
					for _, d := range defs[o] {
						if !containsCall(d) {
							predObjs(d, depth+1, out)
							expanded = true
						}
					}
				}
				if !expanded {
					out[o] = true
				}
			}
			return true
		})
	}
	flatten := func(e ast.Expr, op token.Token) []ast.Expr {
		var out []ast.Expr
		var rec func(e ast.Expr)
		rec = func(e ast.Expr) {
			e = ast.Unparen(e)
			if be, ok := e.(*ast.BinaryExpr); ok && be.Op == op {
				rec(be.X)
				rec(be.Y)
				return
			}
			out = append(out, e)
		}
		rec(e)
		return out
	}
	returnsIn := func(n ast.Node) []string {
		var out []string
		if n == nil {
			return nil
		}
		inspectNoLit(n, func(x ast.Node) bool {
			if rs, ok := x.(*ast.ReturnStmt); ok && len(rs.Results) == 1 {
				out = append(out, exprStr(rs.Results[0]))
			}
			return true
		})
		return out
	}
	writesIn := func(n ast.Node) []string {
		var out []string
		if n == nil {
			return nil
		}
		inspectNoLit(n, func(x ast.Node) bool {
			if as, ok := x.(*ast.AssignStmt); ok && as.Tok == token.ASSIGN {
				for _, l := range as.Lhs {
					if id := rootIdent(l); id != nil {
						if o, ok := cm.info.Uses[id].(*types.Var); ok && !within(cm.body, o.Pos()) {
							out = append(out, o.Name())
						}
					}
				}
			}
			return true
		})
		out = dedupStrings(out)
		sort.Strings(out)
		return out
	}
	var ifs []*ast.IfStmt
	inspectNoLit(cm.body, func(x ast.Node) bool {
		if is, ok := x.(*ast.IfStmt); ok {
			ifs = append(ifs, is)
		}
		return true
	})
	var out [][2]string
	for _, is := range ifs {
		cond := ast.Unparen(is.Cond)
		var conj []ast.Expr
		var bothBranch, mixedBranch ast.Node
		if be, ok := cond.(*ast.BinaryExpr); ok && be.Op == token.LAND {
			conj = flatten(cond, token.LAND)
			bothBranch = is.Body
			if is.Else != nil {
				mixedBranch = is.Else
			}
		} else if ok && be.Op == token.LOR && is.Else != nil {
			conj = flatten(cond, token.LOR) // !P(a) || !Q(b): the else branch is the "both hold" case
			bothBranch, mixedBranch = is.Else, is.Body
		} else {
			continue
		}
		hasA, hasB := false, false
		preds := map[types.Object]bool{}
		for _, cj := range conj {
			switch derivedTag(cm, cj, tags) {
			case 1:
				hasA = true
				predObjs(cj, 0, preds)
			case 2:
				hasB = true
				predObjs(cj, 0, preds)
			}
		}
		if !hasA || !hasB || len(preds) == 0 {
			continue
		}
		r1 := returnsIn(bothBranch)
		if len(r1) == 0 {
			continue
		}
		// R2: returns of the mixed branch and every return textually after the statement
		r2 := returnsIn(mixedBranch)
		inspectNoLit(cm.body, func(x ast.Node) bool {
			if rs, ok := x.(*ast.ReturnStmt); ok && len(rs.Results) == 1 && rs.Pos() > is.End() {
				r2 = append(r2, exprStr(rs.Results[0]))
			}
			return true
		})
		if len(r2) == 0 {
			continue
		}
		same := true
		for _, x := range r1 {
			found := false
			for _, y := range r2 {
				if x == y {
					found = true
				}
			}
			if !found {
				same = false
			}
		}
		if same {
			continue
		}
		// class ordering: another branch whose condition depends on one argument alone, or on both through
		// != / == / ||, built from the same predicates
		classOrdered := false
		for _, other := range ifs {
			if other == is {
				continue
			}
			oc := ast.Unparen(other.Cond)
			t := derivedTag(cm, oc, tags)
			ok := t == 1 || t == 2
			if be, isBin := oc.(*ast.BinaryExpr); isBin && t == 3 && (be.Op == token.NEQ || be.Op == token.EQL || be.Op == token.LOR) {
				ok = true
			}
			if !ok {
				continue
			}
			op := map[types.Object]bool{}
			predObjs(oc, 0, op)
			for o := range op {
				if preds[o] {
					classOrdered = true
				}
			}
		}
		if classOrdered {
			continue
		}
		// what the mixed case does, read off the control flow (not the syntax): captured variables written
		// on the paths that leave the condition on its "not both" side
		mixed := "falls through"
		{
			fg := NewFGraph(cm.body, cm.info)
			wantTruth := bothBranch == ast.Node(is.Else) // LOR form: the mixed side is the true side
			isConj := map[ast.Expr]bool{}
			for _, cj := range conj {
				isConj[ast.Unparen(cj)] = true
			}
			isConj[ast.Unparen(is.Cond)] = true
			var starts []int
			for _, nd := range fg.Nodes {
				for _, e := range nd.Succ {
					if e.Cond != nil && isConj[ast.Unparen(e.Cond)] && e.Truth == wantTruth && within(is, e.Cond.Pos()) {
						starts = append(starts, e.To)
					}
				}
			}
			wr := map[string]bool{}
			seen := map[int]bool{}
			for len(starts) > 0 {
				id := starts[len(starts)-1]
				starts = starts[:len(starts)-1]
				if seen[id] {
					continue
				}
				seen[id] = true
				nd := fg.Nodes[id]
				if nd.N != nil {
					for _, w := range writesIn(nd.N) {
						wr[w] = true
					}
				}
				for _, e := range nd.Succ {
					starts = append(starts, e.To)
				}
			}
			var ws []string
			for w := range wr {
				// by kind of state, not by name (a rename changes no key)
				tname := w
				ast.Inspect(cm.outer, func(x ast.Node) bool {
					if id, ok := x.(*ast.Ident); ok && id.Name == w {
						if v, isVar := cm.info.Uses[id].(*types.Var); isVar {
							tname = types.TypeString(v.Type(), func(p *types.Package) string { return p.Name() })
						} else if v, isVar := cm.info.Defs[id].(*types.Var); isVar {
							tname = types.TypeString(v.Type(), func(p *types.Package) string { return p.Name() })
						}
					}
					return true
				})
				ws = append(ws, tname)
			}
			ws = dedupStrings(ws)
			sort.Strings(ws)
			if len(ws) > 0 {
				mixed = "sets " + strings.Join(ws, ",")
			}
		}
		construct := "per-pair strategy; mixed case " + mixed
		which := "when " + exprStr(is.Cond) + " (a condition on both arguments)"
		if bothBranch == is.Else {
			which = "when " + exprStr(is.Cond) + " is false (a condition on both arguments)"
		}
		out = append(out, [2]string{construct, fmt.Sprintf("comparator returns %s %s and %s otherwise, without ordering by class the pairs for which the condition holds for exactly one argument: two different order relations are mixed pair by pair, the decisions are not transitive (as in \"2\" < \"10\" < \"1a\" < \"2\"), so the sorted sequence depends on the initial permutation", strings.Join(dedupStrings(r1), " / "), which, strings.Join(dedupStrings(r2), " / "))})
	}
	return out
}

func containsCall(e ast.Expr) bool {
	found := false
	ast.Inspect(e, func(n ast.Node) bool {
		if _, ok := n.(*ast.CallExpr); ok {
			found = true
		}
		return true
	})
	return found
}

// c13TieBreak: every comparator over sorting.NameValuePair mentions the Name
// of both arguments (directly or by handing them to another comparator).
func c13TieBreak(c *Ctx, r *Report, rule string) {
	n := 0
	for _, cm := range comparatorsIn(c) {
		if cm.a == nil || !isNamed(cm.a.Type(), sortingPkg, "NameValuePair") {
			continue
		}
		n++
		usesName := map[types.Object]bool{}
		ast.Inspect(cm.body, func(x ast.Node) bool {
			if se, ok := x.(*ast.SelectorExpr); ok && se.Sel.Name == "Name" {
				if o := identObj(cm.info, se.X); o != nil {
					usesName[o] = true
				}
			}
			// passing the whole pair to another comparator
			if ce, ok := x.(*ast.CallExpr); ok && len(ce.Args) == 2 {
				if identObj(cm.info, ce.Args[0]) == cm.a && identObj(cm.info, ce.Args[1]) == cm.b {
					usesName[cm.a], usesName[cm.b] = true, true
				}
			}
			return true
		})
		r.Check(usesName[cm.a] && usesName[cm.b], rule, cm.where, "name/value comparator", c.Pos(cm.pos), "total: the comparator consults the names of both arguments",
			"a comparator over name/value pairs never looks at the names: keys with equal values stay in the order they were collected from the hash map, which changes from run to run")
	}
	r.Floor(rule, 2, "ValueSorterEx and ValueNilSorter")
}

// c13Reverse: Reverse returns !sorter(a, b) with the arguments in order; the
// value sorter compares values and falls back to the names.
func c13Reverse(c *Ctx, r *Report) {
	const rule = "C13-d/reverse"
	if fi := c.MustFunc(r, rule, sortingPkg, "Reverse"); fi != nil {
		info := fi.Pkg.TypesInfo
		var sorterParam types.Object
		if fi.Decl.Type.Params != nil && len(fi.Decl.Type.Params.List) == 1 && len(fi.Decl.Type.Params.List[0].Names) == 1 {
			sorterParam = info.Defs[fi.Decl.Type.Params.List[0].Names[0]]
		}
		ok := false
		detail := "Reverse no longer returns the negation of its argument applied to (a, b)"
		for _, fl := range funcLitsIn(fi.Decl.Body) {
			var ps []types.Object
			for _, f := range fl.Type.Params.List {
				for _, id := range f.Names {
					ps = append(ps, info.Defs[id])
				}
			}
			if len(ps) != 2 {
				continue
			}
			isCall := func(e ast.Expr, x, y types.Object) bool {
				ce, isC := ast.Unparen(e).(*ast.CallExpr)
				return isC && identObj(info, ce.Fun) == sorterParam && len(ce.Args) == 2 && identObj(info, ce.Args[0]) == x && identObj(info, ce.Args[1]) == y
			}
			// locals holding the comparator's answer for (a, b)
			answer := map[types.Object]bool{}
			ast.Inspect(fl.Body, func(x ast.Node) bool {
				if as, isAs := x.(*ast.AssignStmt); isAs && len(as.Lhs) == 1 && len(as.Rhs) == 1 && isCall(as.Rhs[0], ps[0], ps[1]) {
					if o := identObj(info, as.Lhs[0]); o != nil {
						answer[o] = true
					}
				}
				return true
			})
			isAnswer := func(e ast.Expr) bool {
				return isCall(e, ps[0], ps[1]) || answer[identObj(info, e)]
			}
			fg := NewFGraph(fl.Body, info)
			paths, good := 0, true
			enumPaths(fg, fg.Entry, func(id int) bool { return id == fg.Exit }, func(nodes []int, edges []FEdge) {
				paths++
				assumed := 0
				for _, e := range edges {
					if e.Cond == nil || e.Tag != nil {
						continue
					}
					for _, at := range atomise(Fact{e.Cond, nil, e.Truth}) {
						if isAnswer(at.Cond) {
							if at.Truth {
								assumed = 1
							} else {
								assumed = -1
							}
						}
					}
				}
				var rs *ast.ReturnStmt
				for i := len(nodes) - 1; i >= 0 && rs == nil; i-- {
					rs, _ = fg.Nodes[nodes[i]].N.(*ast.ReturnStmt)
				}
				if rs == nil || len(rs.Results) != 1 {
					good = false
					return
				}
				e := ast.Unparen(rs.Results[0])
				switch {
				case isCall(e, ps[1], ps[0]):
					// argument swap
				default:
					if ue, isNot := e.(*ast.UnaryExpr); isNot && ue.Op == token.NOT && isAnswer(ue.X) {
						return
					}
					if tv, has := info.Types[e]; has && tv.Value != nil && assumed != 0 {
						ret := tv.Value.String() == "true"
						if ret == (assumed < 0) {
							return
						}
					}
					good = false
				}
			})
			if paths > 0 && good {
				ok = true
			}
		}
		r.Check(ok, rule, fi.Name, "return !sorter(a, b)", c.Pos(fi.Decl.Pos()), "shape: negation (or argument swap) of the same comparator", detail)
	}
	// ValueSorterEx
	if fi := c.MustFunc(r, rule, sortingPkg, "ValueSorterEx"); fi != nil {
		info := fi.Pkg.TypesInfo
		okVal, okFallback := false, false
		// the comparator may be a literal of the function or a method value it returns (valueThenName{..}.less)
		bodies := []ast.Node{fi.Decl.Body}
		ast.Inspect(fi.Decl.Body, func(n ast.Node) bool {
			if se, ok := n.(*ast.SelectorExpr); ok {
				if sel, isSel := info.Selections[se]; isSel && (sel.Kind() == types.MethodVal || sel.Kind() == types.MethodExpr) {
					if f, isF := sel.Obj().(*types.Func); isF && c.IsRarePkg(f.Pkg()) {
						if mfi := funcDeclOf(c, f); mfi != nil && mfi.Decl.Body != nil {
							bodies = append(bodies, mfi.Decl.Body)
						}
					}
				}
			}
			return true
		})
		for _, body := range bodies {
			ast.Inspect(body, func(n ast.Node) bool {
				switch t := n.(type) {
				case *ast.BinaryExpr:
					if (t.Op == token.LSS || t.Op == token.GTR) && strings.HasSuffix(exprStr(t.X), ".Value") && strings.HasSuffix(exprStr(t.Y), ".Value") {
						okVal = true
					}
				case *ast.CallExpr:
					if len(t.Args) == 2 && strings.HasSuffix(exprStr(t.Args[0]), ".Name") && strings.HasSuffix(exprStr(t.Args[1]), ".Name") {
						okFallback = true
					}
				}
				return true
			})
		}
		_ = info
		r.Check(okVal && okFallback, rule, fi.Name, "value then name", c.Pos(fi.Decl.Pos()), "shape: compares values and falls back to the name comparator on ties", "the value sorter no longer compares values with a name fall-back")
	}
	// parseSort: modifiers (lenient: only when the switch form exists)
	if fi := c.Func("rare/cmd/helpers", "parseSort"); fi != nil {
		info := fi.Pkg.TypesInfo
		var revObj types.Object
		if fi.Decl.Type.Results != nil {
			for _, f := range fi.Decl.Type.Results.List {
				for _, id := range f.Names {
					if o := info.Defs[id]; o != nil && isBool(o.Type()) {
						revObj = o
					}
				}
			}
		}
		found := 0
		ast.Inspect(fi.Decl.Body, func(n ast.Node) bool {
			cc, ok := n.(*ast.CaseClause)
			if !ok || revObj == nil {
				return true
			}
			var consts []string
			for _, e := range cc.List {
				if s, ok := constString(info, e); ok {
					consts = append(consts, s)
				}
			}
			for _, st := range cc.Body {
				as, ok := st.(*ast.AssignStmt)
				if !ok || len(as.Lhs) != 1 || identObj(info, as.Lhs[0]) != revObj {
					continue
				}
				rhs := exprStr(as.Rhs[0])
				for _, k := range consts {
					var want string
					switch k {
					case "desc":
						want = "true"
					case "asc":
						want = "false"
					case "rev", "reverse":
						want = "!" + revObj.Name()
					default:
						continue
					}
					found++
					r.Check(rhs == want, rule, fi.Name, "modifier "+k, c.Pos(as.Pos()), "table: modifier sets the documented direction", fmt.Sprintf("sort modifier %q sets reverse = %s instead of %s", k, rhs, want))
				}
			}
			return true
		})
		if found == 0 {
			r.Notes = append(r.Notes, "parseSort has no switch over modifier constants; the modifier table was not checked")
		}
	}
	r.Floor(rule, 2, "Reverse and ValueSorterEx")
}

// c13Calendar: weekday / month tables.
func c13Calendar(c *Ctx, r *Report) {
	const rule = "C13-e/calendar"
	ref := map[string][]string{
		"weekdays": {"sunday", "monday", "tuesday", "wednesday", "thursday", "friday", "saturday"},
		"months":   {"january", "february", "march", "april", "may", "june", "july", "august", "september", "october", "november", "december"},
	}
	for _, tbl := range []string{"weekdays", "months"} {
		init, p := c.pkgVarInit(sortingPkg, tbl)
		cl := asCompositeLit(init)
		if p == nil || cl == nil {
			r.Undecided(rule, sortingPkg, tbl, "-", "table is not a package-level composite literal")
			continue
		}
		info := p.TypesInfo
		long := ref[tbl]
		seenLong := map[int]bool{}
		for _, e := range mapLitEntries(info, cl) {
			if !e.KeyOK {
				r.Undecided(rule, sortingPkg+".var "+tbl, exprStr(e.KeyExp), c.Pos(e.KeyExp.Pos()), "non-constant key")
				continue
			}
			v, ok := constInt(info, e.Value)
			if !ok {
				r.Undecided(rule, sortingPkg+".var "+tbl, e.Key, c.Pos(e.Value.Pos()), "non-constant value")
				continue
			}
			// which calendar name does the key abbreviate?
			want := -1
			for i, l := range long {
				if strings.HasPrefix(l, strings.ToLower(e.Key)) && len(e.Key) >= 3 {
					want = i
				}
			}
			if want >= 0 && strings.ToLower(e.Key) == long[want] {
				seenLong[want] = true
			}
			r.Check(want >= 0 && int64(want) == v, rule, sortingPkg+".var "+tbl, fmt.Sprintf("%q", e.Key), c.Pos(e.KeyExp.Pos()), "table: value is the calendar position of the name it abbreviates",
				fmt.Sprintf("%q is mapped to position %d but abbreviates calendar position %d (or no calendar name at all): contextual sorting puts it in the wrong place", e.Key, v, want))
		}
		for i, l := range long {
			r.Check(seenLong[i], rule, sortingPkg+".var "+tbl, "full name "+l, c.Pos(cl.Pos()), "table: full name present", "the full name "+l+" is missing from the table")
		}
	}
	r.Floor(rule, 60, "17+23 entries and 19 full names")
}

// ---------------------------------------------------------------- C03 specifics

func c03SingleSampler(c *Ctx, r *Report) {
	const rule = "C03-a/single-sampler"
	render := renderClosures(c)
	mutators := map[string]bool{"Sample": true, "SampleValue": true, "SampleItem": true, "Samplef": true, "Trim": true}
	forEachCall(c, func(p *packagesPkg, fd *ast.FuncDecl, call *ast.CallExpr) {
		if isTestSupportPkg(p.PkgPath) || strings.HasPrefix(p.PkgPath, "rare/pkg/aggregation") {
			return
		}
		se, ok := call.Fun.(*ast.SelectorExpr)
		if !ok || !mutators[se.Sel.Name] {
			return
		}
		f := calleeFunc(p.TypesInfo, call)
		if f == nil || f.Pkg() == nil || !strings.HasPrefix(f.Pkg().Path(), "rare/pkg/aggregation") {
			return
		}
		where := fdName(p, fd)
		okSite := false
		why := ""
		if fd != nil && p.PkgPath == "rare/cmd/helpers" && fd.Name.Name == "RunAggregationLoop" {
			okSite, why = true, "inside RunAggregationLoop (mutex checked by C03-a/exclusion)"
		}
		if fd != nil && !okSite && p.PkgPath == "rare/cmd/helpers" {
			if own := privateOwner(p, fd); own != nil && own.Name.Name == "RunAggregationLoop" {
				okSite, why = true, "inside a helper that only RunAggregationLoop calls (mutex checked by C03-a/exclusion on the expanded program)"
			}
		}
		for fl := range render {
			if within(fl, call.Pos()) {
				okSite, why = true, "inside a render callback, which RunAggregationLoop runs under the output mutex or after the ticker stopped"
			}
		}
		r.Check(okSite, rule, where, exprStr(call), c.Pos(call.Pos()), "who-may-call: "+why, "an aggregator is mutated outside the aggregation loop: samples would not be serialised with rendering and with each other")
	})
	r.Floor(rule, 2, "aggregator.Sample in the loop and Trim in the spark render callback")
}

func c03CSV(c *Ctx, r *Report) {
	const rule = "C03-c/csv"
	const pkg = "rare/pkg/csv"
	p := c.ByPath[pkg]
	if p == nil {
		r.Undecided(rule, pkg, "package", "-", "package not found")
		return
	}
	info := p.TypesInfo
	// every Write/WriteRow call on a csv.CSV value in the writers resolves to the interface or CSVFile methods;
	// CSVFile.WriteRow ends in s.Write(record) and CSVFile embeds *encoding/csv.Writer.
	st, _ := p.Types.Scope().Lookup("CSVFile").Type().Underlying().(*types.Struct)
	embeds := false
	if st != nil {
		for i := 0; i < st.NumFields(); i++ {
			if st.Field(i).Embedded() && isNamed(st.Field(i).Type(), "encoding/csv", "Writer") {
				embeds = true
			}
		}
	}
	r.Check(embeds, rule, pkg+".CSVFile", "embeds *encoding/csv.Writer", "-", "type: records are written by encoding/csv", "CSVFile no longer embeds encoding/csv.Writer: records may be assembled by hand without RFC 4180 quoting")
	// no direct writes of hand-built text to the underlying file
	for _, fi := range c.AllFuncDecls(pkg) {
		ast.Inspect(fi.Decl.Body, func(n ast.Node) bool {
			ce, ok := n.(*ast.CallExpr)
			if !ok {
				return true
			}
			name := calleeName(info, ce)
			if hasPrefixAny(name, "fmt.Fprint", "io.WriteString", "(*os.File).Write", "(*bufio.Writer).Write") {
				r.Bad(rule, fi.Name, exprStr(ce), c.Pos(ce.Pos()), "CSV output written without encoding/csv: keys containing commas, quotes or newlines would corrupt the export")
			}
			if se, ok := ce.Fun.(*ast.SelectorExpr); ok && (se.Sel.Name == "Write" || se.Sel.Name == "WriteRow" || se.Sel.Name == "WriteAll") {
				if strings.Contains(name, "encoding/csv.Writer") || strings.Contains(name, "rare/pkg/csv.") {
					r.OK(rule, fi.Name, exprStr(ce), c.Pos(ce.Pos()), "flow: record handed to the CSV writer")
				}
			}
			return true
		})
	}
	// Close flushes before closing
	if fi := c.MustFunc(r, rule, pkg, "(*CSVFile).Close"); fi != nil {
		fg := NewFGraph(fi.Decl.Body, info)
		flush, closeN := -1, -1
		for _, nd := range fg.Nodes {
			if nd.N == nil {
				continue
			}
			for _, ce := range callsIn(nd.N) {
				n := calleeName(info, ce)
				if n == "(*encoding/csv.Writer).Flush" {
					flush = nd.ID
				}
				if se, ok := ce.Fun.(*ast.SelectorExpr); ok && se.Sel.Name == "Close" && n != "" && !strings.Contains(n, "CSVFile") {
					closeN = nd.ID
				}
			}
		}
		r.Check(flush >= 0 && closeN >= 0 && fg.Dominates(flush, closeN), rule, fi.Name, "Flush before Close", c.Pos(fi.Decl.Pos()), "order: Flush dominates closing the file", "the CSV file is closed without (or before) flushing the buffered writer: the tail of the export is lost")
	}
	// WriteAccumulator: group parts may be longer than the group columns (a group value that holds separators);
	// the data columns must be copied after them (or the parts copy must be bounded) so that data wins
	if fi := c.MustFunc(r, rule, pkg, "WriteAccumulator"); fi != nil {
		fg := NewFGraph(fi.Decl.Body, info)
		parts, data := -1, -1
		bounded := false
		for _, nd := range fg.Nodes {
			if nd.N == nil {
				continue
			}
			for _, ce := range callsIn(nd.N) {
				if calleeName(info, ce) != "builtin.copy" || len(ce.Args) != 2 {
					continue
				}
				if strings.Contains(exprStr(ce.Args[1]), ".Parts()") {
					parts = nd.ID
					if sx, ok := ast.Unparen(ce.Args[0]).(*ast.SliceExpr); ok && sx.High != nil {
						bounded = true
					}
				} else if sx, ok := ast.Unparen(ce.Args[0]).(*ast.SliceExpr); ok && sx.Low != nil {
					data = nd.ID
				}
			}
		}
		if parts >= 0 && data >= 0 {
			r.Check(bounded || fg.Dominates(parts, data), rule, fi.Name, "group parts before data columns", c.Pos(fi.Decl.Pos()), "order: data columns are written after (over) the group parts", "the group parts are copied into the row after the data columns without a bound: a group value that holds separators overwrites the accumulator columns in the export")
		}
	}
	// TryWriteCSV closes the writer (deferred) on the success path
	if fi := c.MustFunc(r, rule, "rare/cmd/helpers", "TryWriteCSV"); fi != nil {
		hasDeferClose := false
		ast.Inspect(fi.Decl.Body, func(n ast.Node) bool {
			if d, ok := n.(*ast.DeferStmt); ok {
				if se, ok := d.Call.Fun.(*ast.SelectorExpr); ok && se.Sel.Name == "Close" {
					hasDeferClose = true
				}
			}
			return true
		})
		r.Check(hasDeferClose, rule, fi.Name, "defer w.Close()", c.Pos(fi.Decl.Pos()), "pairing: the CSV writer is closed (and flushed) on every exit", "the CSV writer opened by TryWriteCSV is not closed on every exit: buffered rows are never written")
	}
	r.Floor(rule, 8, "embedding, writes, Close order, TryWriteCSV")
}

// c03ExitStatus: path enumeration of DetermineErrorState.
func c03ExitStatus(c *Ctx, r *Report) {
	const rule = "C03-d/exit-status"
	fi := c.MustFunc(r, rule, "rare/cmd/helpers", "DetermineErrorState")
	if fi == nil {
		return
	}
	info := fi.Pkg.TypesInfo
	fg := NewFGraph(fi.Decl.Body, info)
	type pathFact struct {
		text  string
		truth bool
	}
	nPaths := 0
	var dfs func(id int, facts []pathFact, seen map[int]bool)
	classify := func(facts []pathFact) (read, parse, nomatch int) {
		// -1 false, +1 true, 0 unknown
		for _, f := range facts {
			v := -1
			if f.truth {
				v = 1
			}
			switch {
			case strings.Contains(f.text, "ReadErrors() > 0"):
				read = v
			case strings.Contains(f.text, "ParseErrors() > 0"):
				parse = v
			case strings.Contains(f.text, "MatchedLines() == 0"):
				nomatch = v
			case strings.Contains(f.text, "!= nil") && !f.truth:
				// agg == nil: no parse errors possible
				if parse == 0 {
					parse = -1
				}
			}
		}
		return
	}
	dfs = func(id int, facts []pathFact, seen map[int]bool) {
		if seen[id] || nPaths > 200 {
			return
		}
		nd := fg.Nodes[id]
		if rs, ok := nd.N.(*ast.ReturnStmt); ok && len(rs.Results) == 1 {
			nPaths++
			read, parse, nomatch := classify(facts)
			code := int64(0)
			if ce, ok := ast.Unparen(rs.Results[0]).(*ast.CallExpr); ok && len(ce.Args) == 2 {
				if v, ok := constInt(info, ce.Args[1]); ok {
					code = v
				} else {
					code = -1
				}
			} else if exprStr(rs.Results[0]) != "nil" {
				code = -1
			}
			want := int64(0)
			switch {
			case read == 1 || parse == 1:
				want = 2
			case nomatch == 1:
				want = 1
			}
			desc := fmt.Sprintf("read=%d parse=%d nomatch=%d", read, parse, nomatch)
			r.Check(code == want, rule, fi.Name, "return on path "+desc, c.Pos(rs.Pos()), fmt.Sprintf("path: exit status %d as documented", want), fmt.Sprintf("on the path with %s the function returns exit status %d, the documented status is %d", desc, code, want))
			return
		}
		seen[id] = true
		for _, e := range nd.Succ {
			nf := facts
			if e.Cond != nil {
				for _, a := range atomise(Fact{e.Cond, e.Tag, e.Truth}) {
					nf = append(append([]pathFact{}, nf...), pathFact{exprStr(a.Cond), a.Truth})
				}
			}
			dfs(e.To, nf, seen)
		}
		delete(seen, id)
	}
	dfs(fg.Entry, nil, map[int]bool{})
	r.Floor(rule, 4, "four outcomes of DetermineErrorState")
	// the constants
	for name, want := range map[string]int64{"ExitCodeNoData": 1, "ExitCodeInvalidUsage": 2} {
		init, p := c.pkgVarInit("rare/cmd/helpers", name)
		if init == nil || p == nil {
			r.Undecided(rule, "rare/cmd/helpers", name, "-", "exit code constant not found")
			continue
		}
		v, ok := constInt(p.TypesInfo, init)
		r.Check(ok && v == want, rule, "rare/cmd/helpers", name, c.Pos(init.Pos()), "constant: documented value", fmt.Sprintf("%s is %d, documented %d", name, v, want))
	}
	// every aggregating command ends by returning DetermineErrorState
	rule2 := "C03-d/commands"
	seenCmd := map[*ast.FuncDecl]bool{}
	forEachCall(c, func(p *packagesPkg, fd *ast.FuncDecl, call *ast.CallExpr) {
		if fd == nil || p.PkgPath != "rare/cmd" || calleeName(p.TypesInfo, call) != "rare/cmd/helpers.RunAggregationLoop" || seenCmd[fd] {
			return
		}
		seenCmd[fd] = true
		// the last statement of the declaration returns DetermineErrorState(..)
		last := fd.Body.List[len(fd.Body.List)-1]
		ok := false
		if rs, isRet := last.(*ast.ReturnStmt); isRet && len(rs.Results) == 1 {
			if ce, isCall := ast.Unparen(rs.Results[0]).(*ast.CallExpr); isCall && calleeName(p.TypesInfo, ce) == "rare/cmd/helpers.DetermineErrorState" {
				ok = true
			}
		}
		r.Check(ok, rule2, funcDisplayName(p.PkgPath, fd), "return helpers.DetermineErrorState(..)", c.Pos(last.Pos()), "shape: the command's result is the documented exit status", "an aggregating command does not end by returning DetermineErrorState: read/parse errors or an empty result no longer set the exit status")
	})
	r.Floor(rule2, 7, "histogram, table, heatmap, spark, bargraph, analyze, reduce")
}

// c13SorterSharing (C13-a/fresh-comparator): comparators with memory exist in
// this code base (contextual, date: known findings), so a comparator value
// must be built per use. No comparator-typed value may be stored into
// package-level state at run time, and no package-level initialiser may hold
// the result of a constructor whose comparator keeps state.
func c13SorterSharing(c *Ctx, r *Report) {
	const rule = "C13-a/fresh-comparator"
	isCmpType := func(t types.Type) bool {
		if t == nil {
			return false
		}
		if sig, ok := t.Underlying().(*types.Signature); ok {
			return isComparatorSig(sig)
		}
		switch u := t.Underlying().(type) {
		case *types.Map:
			if sig, ok := u.Elem().Underlying().(*types.Signature); ok {
				return isComparatorSig(sig)
			}
		case *types.Slice:
			if sig, ok := u.Elem().Underlying().(*types.Signature); ok {
				return isComparatorSig(sig)
			}
		}
		return false
	}
	// constructors (functions of the sorting package returning a comparator) whose literal writes captured state,
	// closed under "calls such a constructor"
	stateful := map[*types.Func]bool{}
	decls := c.AllFuncDecls(sortingPkg)
	for _, cm := range comparatorsIn(c, sortingPkg) {
		fl, ok := cm.outer.(*ast.FuncLit)
		if !ok {
			continue
		}
		writes := false
		ast.Inspect(cm.body, func(n ast.Node) bool {
			if as, ok := n.(*ast.AssignStmt); ok {
				for _, l := range as.Lhs {
					if id := rootIdent(l); id != nil {
						if o, ok := cm.info.Uses[id].(*types.Var); ok && !within(fl, o.Pos()) {
							writes = true
						}
					}
				}
			}
			return true
		})
		if !writes {
			continue
		}
		for _, fi := range decls {
			if within(fi.Decl, fl.Pos()) {
				stateful[fi.Obj] = true
			}
		}
	}
	for changed := true; changed; {
		changed = false
		for _, fi := range decls {
			if stateful[fi.Obj] {
				continue
			}
			ast.Inspect(fi.Decl.Body, func(n ast.Node) bool {
				if ce, ok := n.(*ast.CallExpr); ok {
					if f := calleeFunc(fi.Pkg.TypesInfo, ce); f != nil && stateful[f] {
						stateful[fi.Obj] = true
						changed = true
					}
				}
				return true
			})
		}
	}
	n := 0
	for _, p := range c.Pkgs {
		if isTestSupportPkg(p.PkgPath) {
			continue
		}
		info := p.TypesInfo
		for _, file := range p.Syntax {
			for _, d := range file.Decls {
				switch dd := d.(type) {
				case *ast.GenDecl:
					if dd.Tok != token.VAR {
						continue
					}
					for _, sp := range dd.Specs {
						vs := sp.(*ast.ValueSpec)
						for i, nm := range vs.Names {
							o := info.Defs[nm]
							if o == nil || !isCmpType(o.Type()) {
								continue
							}
							n++
							var init ast.Expr
							if i < len(vs.Values) {
								init = vs.Values[i]
							}
							bad := ""
							if init != nil {
								ast.Inspect(init, func(x ast.Node) bool {
									if ce, ok := x.(*ast.CallExpr); ok {
										if f := calleeFunc(info, ce); f != nil && stateful[f] {
											bad = f.Name()
										}
									}
									return true
								})
							}
							r.Check(bad == "", rule, p.PkgPath, "var "+nm.Name, c.Pos(nm.Pos()), "stateless: the shared comparator is built from comparators that keep no state",
								"a package-level comparator is built by "+bad+", whose comparator remembers what it inferred from earlier pairs: every sort in the process would share (and inherit) that memory, so the order of one key set depends on which other keys were sorted before")
						}
					}
				case *ast.FuncDecl:
					if dd.Body == nil {
						continue
					}
					ast.Inspect(dd.Body, func(x ast.Node) bool {
						as, ok := x.(*ast.AssignStmt)
						if !ok {
							return true
						}
						for i, l := range as.Lhs {
							id := rootIdent(l)
							if id == nil {
								continue
							}
							o, ok := info.Uses[id].(*types.Var)
							if !ok || o.Pkg() == nil || o.Parent() != o.Pkg().Scope() {
								continue
							}
							var rt types.Type
							if len(as.Rhs) == len(as.Lhs) {
								rt = info.TypeOf(as.Rhs[i])
							}
							lt := info.TypeOf(l)
							if !(isCmpType(lt) || isCmpType(rt)) {
								continue
							}
							n++
							r.Bad(rule, fdName(p, dd), exprStr(l)+" = ..", c.Pos(as.Pos()),
								"a comparator is stored into the package-level variable "+o.Name()+" at run time: comparators of the contextual and date modes keep state (inferred set / layout, sticky fallback), so a stored comparator carries what it learnt from one key set into the next sort and the order no longer depends on the data alone")
						}
						return true
					})
				}
			}
		}
	}
	r.OK(rule, sortingPkg, "scan", "-", fmt.Sprintf("scan: %d package-level comparator variables / run-time stores examined; constructors with memory: %d", n, len(stateful)))
	r.Floor(rule, 3, "NVValueSorter, NVNameSorter, NVSmartSorter + scan")
}
