package main

// Rules added in the fourth round (seeded changes m10-m12, neutral sweep N12-N21, side findings).

import (
	"go/ast"
	"go/token"
	"go/types"
)

// ---------------------------------------------------------------- C13-b NaN in a magnitude order

// boolLocalDefs: single-assignment boolean locals `x := <expr>` of a body
// (x is never assigned again), so that a fact "x is true" can be unfolded
// into the facts of its defining expression.
func boolLocalDefs(info *types.Info, body ast.Node) map[types.Object]ast.Expr {
	defs := map[types.Object]ast.Expr{}
	count := map[types.Object]int{}
	ast.Inspect(body, func(n ast.Node) bool {
		switch t := n.(type) {
		case *ast.AssignStmt:
			for i, l := range t.Lhs {
				id, ok := ast.Unparen(l).(*ast.Ident)
				if !ok {
					continue
				}
				o := info.Defs[id]
				if o == nil {
					o = info.Uses[id]
				}
				if o == nil {
					continue
				}
				count[o]++
				if t.Tok == token.DEFINE && len(t.Lhs) == len(t.Rhs) && isBool(o.Type()) {
					defs[o] = t.Rhs[i]
				}
			}
		case *ast.IncDecStmt:
			if o := identObj(info, t.X); o != nil {
				count[o]++
			}
		case *ast.UnaryExpr:
			if t.Op == token.AND {
				if o := identObj(info, t.X); o != nil {
					count[o] += 2 // address taken: not a plain definition any more
				}
			}
		}
		return true
	})
	for o := range defs {
		if count[o] != 1 {
			delete(defs, o)
		}
	}
	return defs
}

// unfoldFacts expands facts about single-assignment boolean locals into the
// atoms of their definitions (to a small depth).
func unfoldFacts(info *types.Info, facts []Fact, defs map[types.Object]ast.Expr) []Fact {
	out := append([]Fact{}, facts...)
	for depth := 0; depth < 4; depth++ {
		var extra []Fact
		for _, f := range out {
			if f.Tag != nil {
				continue
			}
			if id, ok := ast.Unparen(f.Cond).(*ast.Ident); ok {
				if def, has := defs[info.Uses[id]]; has {
					extra = append(extra, atomise(Fact{def, nil, f.Truth})...)
				}
			}
		}
		if len(extra) == 0 {
			break
		}
		// avoid unbounded growth: keep only atoms not seen yet
		seen := map[string]bool{}
		for _, f := range out {
			if f.Tag == nil {
				seen[exprStr(f.Cond)+map[bool]string{true: "+", false: "-"}[f.Truth]] = true
			}
		}
		added := false
		for _, f := range extra {
			k := exprStr(f.Cond) + map[bool]string{true: "+", false: "-"}[f.Truth]
			if !seen[k] {
				seen[k] = true
				out = append(out, f)
				added = true
			}
		}
		if !added {
			break
		}
	}
	return out
}

// c13NaNOrder (C13-b/nan-order): a comparator that orders keys by the float64
// strconv.ParseFloat returned for them must have excluded NaN at the
// comparison. ParseFloat accepts the spellings "NaN"/"nan" without an error;
// NaN is neither below nor above any number, so the comparator would treat
// it as equal to every number while the numbers differ among themselves -
// not a strict weak order: the sort result depends on arrival order.
func c13NaNOrder(c *Ctx, r *Report, rule string) {
	n := 0
	for _, fi := range c.AllFuncDecls("rare/pkg/aggregation/sorting") {
		info := fi.Pkg.TypesInfo
		bodies := []ast.Node{fi.Decl.Body}
		for _, fl := range funcLitsIn(fi.Decl.Body) {
			bodies = append(bodies, fl.Body)
		}
		for _, body := range bodies {
			blk, _ := body.(*ast.BlockStmt)
			if blk == nil {
				continue
			}
			parsed := map[types.Object]bool{}
			inspectNoLit(blk, func(x ast.Node) bool {
				as, ok := x.(*ast.AssignStmt)
				if !ok || len(as.Rhs) != 1 || len(as.Lhs) != 2 {
					return true
				}
				if ce, isC := ast.Unparen(as.Rhs[0]).(*ast.CallExpr); isC && calleeName(info, ce) == "strconv.ParseFloat" {
					if o := identObj(info, as.Lhs[0]); o != nil {
						parsed[o] = true
					}
				}
				return true
			})
			if len(parsed) == 0 {
				continue
			}
			var fg *FGraph
			defs := boolLocalDefs(info, blk)
			vi := analyseVars(info, fi.Decl)
			inspectNoLit(blk, func(x ast.Node) bool {
				be, ok := x.(*ast.BinaryExpr)
				if !ok {
					return true
				}
				switch be.Op {
				case token.LSS, token.GTR, token.LEQ, token.GEQ:
				default:
					return true
				}
				var ops []types.Object
				for _, e := range []ast.Expr{be.X, be.Y} {
					if o := identObj(info, e); o != nil && parsed[o] {
						ops = append(ops, o)
					}
				}
				if len(ops) == 0 {
					return true
				}
				n++
				if fg == nil {
					fg = NewFGraph(blk, info)
					fg.SolveFacts(vi)
				}
				facts := unfoldFacts(info, fg.FactsAtPos(be.Pos()), defs)
				missing := ""
				for _, o := range ops {
					excluded := false
					for _, f := range facts {
						if f.Tag != nil {
							continue
						}
						cond := ast.Unparen(f.Cond)
						if ce, isC := cond.(*ast.CallExpr); isC && calleeName(info, ce) == "math.IsNaN" && len(ce.Args) == 1 && identObj(info, ce.Args[0]) == o && !f.Truth {
							excluded = true
						}
						if b2, isB := cond.(*ast.BinaryExpr); isB && identObj(info, b2.X) == o && identObj(info, b2.Y) == o {
							if (b2.Op == token.EQL && f.Truth) || (b2.Op == token.NEQ && !f.Truth) {
								excluded = true
							}
						}
					}
					if !excluded {
						missing = o.Name()
					}
				}
				r.Check(missing == "", rule, fi.Name, exprStr(be), c.Pos(be.Pos()), "guard: NaN is excluded for every parsed operand of the magnitude comparison",
					"the comparator orders keys by the float64 "+missing+" that strconv.ParseFloat returned without having excluded NaN: the key \"NaN\" parses without error and compares neither below nor above any number, so it ties with every number while the numbers differ among themselves - the relation is not a strict weak order and the sorted sequence depends on arrival order")
				return true
			})
		}
	}
	r.Floor(rule, 1, "the magnitude comparison of ByNameSmart")
	_ = n
}
