package main

// Second batch of rules from the third round of seeded changes.

import (
	"fmt"
	"go/ast"
	"go/constant"
	"go/token"
	"go/types"
	"sort"
	"strings"
)

// ---------------------------------------------------------------- C11-c coalesce / decimal

// c11Coalesce: coalesce is "the first non-empty result". The value it
// returns from its argument loop must be returned under the emptiness test
// of that very value - not under another predicate (blank-only text is not empty).
func c11Coalesce(c *Ctx, r *Report, rule string) {
	fi := c.MustFunc(r, rule, stdlibPkg, "kfCoalesce")
	if fi == nil {
		return
	}
	info := fi.Pkg.TypesInfo
	n := 0
	for _, fl := range funcLitsIn(fi.Decl.Body) {
		if !isStageLit(info, fl) {
			continue
		}
		vi := analyseVars(info, fi.Decl)
		fg := NewFGraph(fl.Body, info)
		fg.SolveFacts(vi)
		inspectNoLit(fl.Body, func(x ast.Node) bool {
			rs, ok := x.(*ast.ReturnStmt)
			if !ok || len(rs.Results) != 1 {
				return true
			}
			o := identObj(info, rs.Results[0])
			if o == nil {
				return true // a constant / computed fallback
			}
			if _, isVar := o.(*types.Var); !isVar {
				return true
			}
			if tv, isC := info.Types[rs.Results[0]]; isC && tv.Value != nil {
				return true
			}
			n++
			good := false
			var other string
			for _, ft := range fg.FactsAtPos(rs.Pos()) {
				if ft.Tag != nil {
					continue
				}
				cond := ast.Unparen(ft.Cond)
				if be, isB := cond.(*ast.BinaryExpr); isB {
					isEmptyConst := func(e ast.Expr) bool { s, ok := constString(info, e); return ok && s == "" }
					if (identObj(info, be.X) == o && isEmptyConst(be.Y)) || (identObj(info, be.Y) == o && isEmptyConst(be.X)) {
						if (be.Op == token.NEQ && ft.Truth) || (be.Op == token.EQL && !ft.Truth) {
							good = true
						}
						continue
					}
					// len(val) > 0 / len(val) != 0
					if ce, isC := ast.Unparen(be.X).(*ast.CallExpr); isC && exprStr(ce.Fun) == "len" && len(ce.Args) == 1 && identObj(info, ce.Args[0]) == o {
						if v, isK := constInt(info, be.Y); isK && v == 0 && ((be.Op == token.GTR || be.Op == token.NEQ) && ft.Truth || be.Op == token.EQL && !ft.Truth) {
							good = true
						}
						continue
					}
				}
				mentions := false
				ast.Inspect(cond, func(y ast.Node) bool {
					if id, isI := y.(*ast.Ident); isI && info.Uses[id] == o {
						mentions = true
					}
					return true
				})
				if mentions {
					other = exprStr(cond)
				}
			}
			detail := "coalesce returns an argument's value without having tested that it is non-empty"
			if other != "" {
				detail = "coalesce chooses an argument's value under " + other + " instead of the emptiness test: a result that is not empty (e.g. blank-only text) is skipped, so the answer is no longer the first non-empty result"
				good = false
			}
			r.Check(good, rule, fi.Name, stmtStr(rs), c.Pos(rs.Pos()), "guard: returned under value != \"\"", detail)
			return true
		})
	}
	if n == 0 {
		r.Bad(rule, fi.Name, "returned value", c.Pos(fi.Decl.Pos()), "coalesce never returns one of its arguments' values")
	}
}

// c11DecimalBase: integer arguments of the helpers (and increments of the
// aggregators) are decimal: every strconv.ParseInt / ParseUint passes the
// constant base 10. Base 0 reads 0100 as octal, rejects 08 and accepts 0x1F / 1_000.
func c11DecimalBase(c *Ctx, r *Report, rule string, prefixes ...string) {
	for _, fi := range c.AllFuncDecls(prefixes...) {
		info := fi.Pkg.TypesInfo
		ast.Inspect(fi.Decl.Body, func(x ast.Node) bool {
			ce, ok := x.(*ast.CallExpr)
			if !ok || len(ce.Args) != 3 {
				return true
			}
			switch calleeName(info, ce) {
			case "strconv.ParseInt", "strconv.ParseUint":
			default:
				return true
			}
			base, isK := constInt(info, ce.Args[1])
			r.Check(isK && base == 10, rule, fi.Name, exprStr(ce), c.Pos(ce.Pos()), "constant: base 10",
				"an integer argument is parsed with a base other than the constant 10: zero-padded decimals are read as octal (0100 -> 64), 08/09 become <BAD-TYPE>, and 0x1F / 0b101 / 1_000 yield numbers instead of the error marker")
			return true
		})
	}
	r.Floor(rule, 8, "ParseInt/ParseUint sites of the helpers")
}

// ---------------------------------------------------------------- C13-f number classification

// c13NumberClass: `numeric` orders numbers by magnitude: every key that
// strconv.ParseFloat accepts is a number. A function of the sorting package
// that classifies through ParseFloat must reach the parse on every path;
// the only early "not a number" accepted without parsing is the empty string.
func c13NumberClass(c *Ctx, r *Report, rule string) {
	n := 0
	for _, fi := range c.AllFuncDecls("rare/pkg/aggregation/sorting") {
		info := fi.Pkg.TypesInfo
		params := map[types.Object]bool{}
		for _, f := range fi.Decl.Type.Params.List {
			for _, id := range f.Names {
				params[info.Defs[id]] = true
			}
		}
		// the parse calls on a parameter
		parsed := map[types.Object][]*ast.CallExpr{}
		inspectNoLit(fi.Decl.Body, func(x ast.Node) bool {
			ce, ok := x.(*ast.CallExpr)
			if ok && calleeName(info, ce) == "strconv.ParseFloat" && len(ce.Args) == 2 {
				if o := identObj(info, ce.Args[0]); o != nil && params[o] {
					parsed[o] = append(parsed[o], ce)
				}
			}
			return true
		})
		if len(parsed) == 0 {
			continue
		}
		fg := NewFGraph(fi.Decl.Body, info)
		for o, calls := range parsed {
			n++
			isParse := map[int]bool{}
			for _, ce := range calls {
				if id := fg.NodeOf(ce.Pos()); id >= 0 {
					isParse[id] = true
				}
			}
			bad := ""
			enumPaths(fg, fg.Entry, func(id int) bool { return id == fg.Exit || isParse[id] }, func(nodes []int, edges []FEdge) {
				if isParse[nodes[len(nodes)-1]] {
					return
				}
				// reached the exit without parsing: only under "the text is empty"
				empty := false
				var conds []string
				for _, e := range edges {
					if e.Cond == nil || e.Tag != nil {
						continue
					}
					conds = append(conds, exprStr(e.Cond))
					for _, a := range atomise(Fact{e.Cond, nil, e.Truth}) {
						be, isB := ast.Unparen(a.Cond).(*ast.BinaryExpr)
						if !isB {
							continue
						}
						if ce, isC := ast.Unparen(be.X).(*ast.CallExpr); isC && exprStr(ce.Fun) == "len" && len(ce.Args) == 1 && identObj(info, ce.Args[0]) == o {
							if v, isK := constInt(info, be.Y); isK && v == 0 && (be.Op == token.EQL && a.Truth || be.Op == token.NEQ && !a.Truth || be.Op == token.GTR && !a.Truth) {
								empty = true
							}
						}
						if identObj(info, be.X) == o {
							if s, isS := constString(info, be.Y); isS && s == "" && (be.Op == token.EQL && a.Truth || be.Op == token.NEQ && !a.Truth) {
								empty = true
							}
						}
					}
				}
				if !empty {
					bad = strings.Join(conds, ", ")
				}
			})
			r.Check(bad == "", rule, fi.Name, "ParseFloat("+o.Name()+")", c.Pos(fi.Decl.Pos()), "path: the key is classified by the parse itself on every path",
				"a key can be classified as text without being parsed (path conditions: "+bad+"): spellings the pre-check does not anticipate (.5, inf, NaN ...) are numbers for strconv but sort as text, after every number")
		}
	}
	r.Floor(rule, 2, "both arguments of ByNameSmart")
	_ = n
}

// ---------------------------------------------------------------- C14-e visible length

// c14StrLenRunes: color.StrLen is what every width computation of the
// renderers rests on; it counts visible characters. It must never answer
// with the byte length of its argument.
func c14StrLenRunes(c *Ctx, r *Report, rule string) {
	fi := c.MustFunc(r, rule, "rare/pkg/color", "StrLen")
	if fi == nil {
		return
	}
	info := fi.Pkg.TypesInfo
	var named types.Object
	if fi.Decl.Type.Results != nil && len(fi.Decl.Type.Results.List) == 1 && len(fi.Decl.Type.Results.List[0].Names) == 1 {
		named = info.Defs[fi.Decl.Type.Results.List[0].Names[0]]
	}
	byteLen := func(e ast.Expr) *ast.CallExpr {
		var hit *ast.CallExpr
		ast.Inspect(e, func(y ast.Node) bool {
			ce, ok := y.(*ast.CallExpr)
			if !ok || len(ce.Args) != 1 {
				return true
			}
			if id, isI := ast.Unparen(ce.Fun).(*ast.Ident); isI && id.Name == "len" {
				if _, isB := info.Uses[id].(*types.Builtin); isB {
					if b, isS := info.TypeOf(ce.Args[0]).Underlying().(*types.Basic); isS && b.Info()&types.IsString != 0 {
						hit = ce
					}
				}
			}
			return true
		})
		return hit
	}
	bad := token.NoPos
	nret := 0
	inspectNoLit(fi.Decl.Body, func(x ast.Node) bool {
		switch t := x.(type) {
		case *ast.ReturnStmt:
			nret++
			for _, e := range t.Results {
				if ce := byteLen(e); ce != nil {
					bad = ce.Pos()
				}
			}
		case *ast.AssignStmt:
			for i, l := range t.Lhs {
				if named != nil && identObj(info, l) == named && i < len(t.Rhs) {
					if ce := byteLen(t.Rhs[i]); ce != nil {
						bad = ce.Pos()
					}
				}
			}
		}
		return true
	})
	r.Check(bad == token.NoPos, rule, fi.Name, "result counts characters", c.Pos(fi.Decl.Pos()), fmt.Sprintf("shape: none of the %d return(s) answers with a byte length", nret),
		"StrLen answers with the byte length of its argument at "+c.Pos(bad)+": a multi-byte key is taken to be wider than it is drawn, so padding is short and table columns no longer line up")
}

// ---------------------------------------------------------------- C15

// c15EventForwarded: in the watcher goroutine every file-system event of a
// forwarded kind (the case arms testing event.Op) raises its signal on every
// path through the arm. A dropped wake-up (throttling, sampling) leaves
// appended bytes undelivered until some later write.
func c15EventForwarded(c *Ctx, r *Report, rule string) {
	fi := c.MustFunc(r, rule, "rare/pkg/followreader", "(*NotifyFollowReader).startWatcher")
	if fi == nil {
		return
	}
	info := fi.Pkg.TypesInfo
	var golit *ast.FuncLit
	ast.Inspect(fi.Decl.Body, func(n ast.Node) bool {
		if g, ok := n.(*ast.GoStmt); ok && golit == nil {
			golit, _ = ast.Unparen(g.Call.Fun).(*ast.FuncLit)
		}
		return true
	})
	if golit == nil {
		r.Undecided(rule, fi.Name, "watcher goroutine", c.Pos(fi.Decl.Pos()), "watcher goroutine not found")
		return
	}
	fg := NewFGraph(golit.Body, info)
	signals := func(nd *FNode) bool {
		if nd.N == nil {
			return false
		}
		if len(nodeSends(c, info, nd)) > 0 {
			return true
		}
		return false
	}
	n := 0
	ast.Inspect(golit.Body, func(x ast.Node) bool {
		cc, ok := x.(*ast.CaseClause)
		if !ok || len(cc.List) == 0 {
			return true
		}
		// an arm that tests the event's operation bits
		isOp := false
		for _, e := range cc.List {
			ast.Inspect(e, func(y ast.Node) bool {
				if se, isS := y.(*ast.SelectorExpr); isS {
					if id, isI := se.X.(*ast.Ident); isI {
						if pn, isP := info.Uses[id].(*types.PkgName); isP && strings.HasSuffix(pn.Imported().Path(), "fsnotify") {
							switch se.Sel.Name {
							case "Write", "Remove", "Create", "Rename", "Chmod":
								isOp = true
							}
						}
					}
				}
				return true
			})
		}
		if !isOp {
			return true
		}
		n++
		if len(cc.Body) == 0 {
			r.Bad(rule, fi.Name, exprStr(cc.List[0]), c.Pos(cc.Pos()), "an event kind is recognised but nothing is signalled")
			return true
		}
		start := fg.NodeOf(cc.Body[0].Pos())
		if start < 0 {
			r.Undecided(rule, fi.Name, exprStr(cc.List[0]), c.Pos(cc.Pos()), "arm not found in the control-flow graph")
			return true
		}
		inArm := func(id int) bool {
			nd := fg.Nodes[id]
			if nd.N == nil {
				// virtual block heads: inside when the block's statements are inside
				if nd.Block != nil && len(nd.Block.Nodes) > 0 {
					p := nd.Block.Nodes[0].Pos()
					return cc.Pos() <= p && p < cc.End()
				}
				return false
			}
			return cc.Pos() <= nd.N.Pos() && nd.N.Pos() < cc.End()
		}
		bad := false
		nPaths := 0
		// paths from the first statement of the arm to the first node outside it
		var walk func(id int, seen map[int]bool, sent bool)
		walk = func(id int, seen map[int]bool, sent bool) {
			if nPaths > 2000 {
				return
			}
			if seen[id] {
				return
			}
			if id != start && !inArm(id) {
				nPaths++
				if !sent {
					bad = true
				}
				return
			}
			seen[id] = true
			if signals(fg.Nodes[id]) {
				sent = true
			}
			for _, e := range fg.Nodes[id].Succ {
				walk(e.To, seen, sent)
			}
			seen[id] = false
		}
		walk(start, map[int]bool{}, false)
		r.Check(!bad && nPaths > 0, rule, fi.Name, exprStr(cc.List[0]), c.Pos(cc.Pos()), fmt.Sprintf("path: all %d path(s) through the arm raise the signal", nPaths),
			"a file-system event of this kind can pass through the watcher without raising its (coalescing, non-blocking) signal: when it is the last event for a while the reader keeps sleeping although bytes were appended - they are delivered only with some later write, or never")
		return true
	})
	r.Floor(rule, 3, "write, remove and create arms")
	_ = n
}

// c15ArgumentOrder: the follow switches travel as positional bool arguments
// (reopen, poll, tail) through two calls. Where an argument is a plain name,
// and that name is (or contains) the name of a *different* parameter of the
// same type while that parameter's argument names this one, the two are swapped.
func c15ArgumentOrder(c *Ctx, r *Report, rule string) {
	n := 0
	lowerName := func(e ast.Expr) string {
		switch t := ast.Unparen(e).(type) {
		case *ast.Ident:
			return strings.ToLower(t.Name)
		case *ast.SelectorExpr:
			return strings.ToLower(t.Sel.Name)
		}
		return ""
	}
	for _, fi := range c.AllFuncDecls("rare/pkg/extractor/batchers", "rare/pkg/followreader", "rare/cmd/helpers") {
		info := fi.Pkg.TypesInfo
		ast.Inspect(fi.Decl.Body, func(x ast.Node) bool {
			ce, ok := x.(*ast.CallExpr)
			if !ok {
				return true
			}
			f := calleeFunc(info, ce)
			if f == nil || f.Pkg() == nil {
				return true
			}
			pp := f.Pkg().Path()
			if pp != "rare/pkg/followreader" && pp != "rare/pkg/extractor/batchers" {
				return true
			}
			sig, _ := f.Type().(*types.Signature)
			if sig == nil || sig.Variadic() || sig.Params().Len() != len(ce.Args) {
				return true
			}
			// parameters of one basic type that occur at least twice
			involved := false
			swapped := ""
			for i := 0; i < sig.Params().Len(); i++ {
				for j := i + 1; j < sig.Params().Len(); j++ {
					pi, pj := sig.Params().At(i), sig.Params().At(j)
					if !types.Identical(pi.Type(), pj.Type()) {
						continue
					}
					if _, isB := pi.Type().Underlying().(*types.Basic); !isB {
						continue
					}
					involved = true
					ai, aj := lowerName(ce.Args[i]), lowerName(ce.Args[j])
					ni, nj := strings.ToLower(pi.Name()), strings.ToLower(pj.Name())
					if ai == "" || aj == "" || ni == "" || nj == "" || ni == "_" || nj == "_" {
						continue
					}
					if strings.Contains(ai, nj) && strings.Contains(aj, ni) && !strings.Contains(ai, ni) && !strings.Contains(aj, nj) {
						swapped = fmt.Sprintf("argument %s is passed for parameter %s and %s for %s", exprStr(ce.Args[i]), pi.Name(), exprStr(ce.Args[j]), pj.Name())
					}
				}
			}
			if !involved {
				return true
			}
			n++
			r.Check(swapped == "", rule, fi.Name, exprStr(ce.Fun), c.Pos(ce.Pos()), "names: same-typed arguments line up with the parameters they name",
				swapped+": the switches reach the reader crossed over, so -F without --poll polls without re-opening and -f --poll never ends after the file is removed")
			return true
		})
	}
	r.Floor(rule, 2, "followreader.New and TailFilesToChan")
	_ = n
}

// ---------------------------------------------------------------- pool-full-init

// poolFullInit (…/pool-full-init): a context taken from an object pool still
// holds whatever its previous user left in it. Before it is used as a
// context, every field that is mutable after construction - element by
// element for fixed-size arrays - must have been assigned: by a whole-struct
// assignment, by field assignments in the stage closure, or by the binding
// method through which the stage is evaluated.
func poolFullInit(c *Ctx, r *Report, rule string) {
	n := 0
	for _, fi := range c.AllFuncDecls("rare/pkg/expressions") {
		info := fi.Pkg.TypesInfo
		for _, fl := range funcLitsIn(fi.Decl.Body) {
			if !isStageLit(info, fl) {
				continue
			}
			for idx, st := range fl.Body.List {
				as, ok := st.(*ast.AssignStmt)
				if !ok || len(as.Lhs) != 1 || len(as.Rhs) != 1 {
					continue
				}
				ce, ok := ast.Unparen(as.Rhs[0]).(*ast.CallExpr)
				if !ok || !isPoolCall(info, ce, "Get") {
					continue
				}
				x := identObj(info, as.Lhs[0])
				if x == nil {
					continue
				}
				pt, ok := x.Type().Underlying().(*types.Pointer)
				if !ok {
					continue
				}
				nt := namedOf(pt.Elem())
				stt, ok := pt.Elem().Underlying().(*types.Struct)
				if !ok || nt == nil {
					continue
				}
				n++
				// names for the same object: `y := x` after the Get (an acquire helper expanded in place leaves one)
				alias := map[types.Object]bool{x: true}
				for _, later := range fl.Body.List[idx+1:] {
					if a2, ok := later.(*ast.AssignStmt); ok && a2.Tok == token.DEFINE && len(a2.Lhs) == 1 && len(a2.Rhs) == 1 {
						if ro := identObj(info, a2.Rhs[0]); ro != nil && alias[ro] {
							if lo := identObj(info, a2.Lhs[0]); lo != nil {
								alias[lo] = true
							}
						}
					}
				}
				type cover struct {
					whole bool
					elems map[int64]bool
				}
				assigned := map[*types.Var]*cover{}
				all := false
				var note func(recv types.Object, inf *types.Info, s ast.Stmt)
				note = func(recv types.Object, inf *types.Info, s ast.Stmt) {
					if blk, isBlk := s.(*ast.BlockStmt); isBlk {
						// a plain nested block runs unconditionally (an expanded helper call leaves one behind)
						for _, st := range blk.List {
							note(recv, inf, st)
						}
						return
					}
					a, ok := s.(*ast.AssignStmt)
					if !ok {
						return
					}
					isRecv := func(o types.Object) bool {
						return o != nil && (o == recv || (recv == x && alias[o]))
					}
					for _, l := range a.Lhs {
						l = ast.Unparen(l)
						if se, isStar := l.(*ast.StarExpr); isStar && isRecv(identObj(inf, se.X)) {
							all = true
							continue
						}
						if sel, isSel := l.(*ast.SelectorExpr); isSel && isRecv(identObj(inf, sel.X)) {
							if fv := fieldVar(inf, sel); fv != nil {
								if assigned[fv] == nil {
									assigned[fv] = &cover{elems: map[int64]bool{}}
								}
								assigned[fv].whole = true
							}
							continue
						}
						if ix, isIx := l.(*ast.IndexExpr); isIx {
							if sel, isSel := ast.Unparen(ix.X).(*ast.SelectorExpr); isSel && isRecv(identObj(inf, sel.X)) {
								if fv := fieldVar(inf, sel); fv != nil {
									if k, isK := constInt(inf, ix.Index); isK {
										if assigned[fv] == nil {
											assigned[fv] = &cover{elems: map[int64]bool{}}
										}
										assigned[fv].elems[k] = true
									}
								}
							}
						}
					}
				}
				// uses: anywhere after the Get inside the stage literal
				type use struct {
					pos    token.Pos
					method *types.Func
					text   string
				}
				var uses []use
				for _, later := range fl.Body.List[idx+1:] {
					ast.Inspect(later, func(y ast.Node) bool {
						call, ok := y.(*ast.CallExpr)
						if !ok {
							return true
						}
						if isPoolCall(info, call, "Return") {
							return true
						}
						if sel, isSel := call.Fun.(*ast.SelectorExpr); isSel && alias[identObj(info, sel.X)] {
							if m := calleeFunc(info, call); m != nil {
								uses = append(uses, use{call.Pos(), m.Origin(), exprStr(call.Fun)})
							}
							return true
						}
						for _, a := range call.Args {
							if alias[identObj(info, a)] {
								uses = append(uses, use{call.Pos(), nil, exprStr(call.Fun)})
							}
						}
						return true
					})
				}
				if len(uses) == 0 {
					continue
				}
				sort.Slice(uses, func(i, j int) bool { return uses[i].pos < uses[j].pos })
				first := uses[0]
				// assignments by top-level statements of the stage literal before the statement holding the first use
				for _, later := range fl.Body.List[idx+1:] {
					if later.Pos() <= first.pos && first.pos < later.End() {
						break
					}
					note(x, info, later)
				}
				closureAll := all
				closureAssigned := map[*types.Var]*cover{}
				for k, v := range assigned {
					cp := &cover{whole: v.whole, elems: map[int64]bool{}}
					for e := range v.elems {
						cp.elems[e] = true
					}
					closureAssigned[k] = cp
				}
				// every use must see all mutable fields assigned
				var missing []string
				for _, u := range uses {
					all = closureAll
					assigned = map[*types.Var]*cover{}
					for k, v := range closureAssigned {
						cp := &cover{whole: v.whole, elems: map[int64]bool{}}
						for e := range v.elems {
							cp.elems[e] = true
						}
						assigned[k] = cp
					}
					if u.method != nil {
						if mfi := funcDeclOf(c, u.method); mfi != nil && mfi.Decl.Recv != nil && len(mfi.Decl.Recv.List[0].Names) == 1 {
							minfo := mfi.Pkg.TypesInfo
							recv := minfo.Defs[mfi.Decl.Recv.List[0].Names[0]]
							for _, ms := range mfi.Decl.Body.List {
								// stop at the statement that evaluates something with the receiver as context
								stop := false
								ast.Inspect(ms, func(y ast.Node) bool {
									if call, ok := y.(*ast.CallExpr); ok {
										for _, a := range call.Args {
											if identObj(minfo, a) == recv {
												stop = true
											}
										}
									}
									return true
								})
								if stop {
									break
								}
								note(recv, minfo, ms)
							}
						}
					}
					if all {
						continue
					}
					for i := 0; i < stt.NumFields(); i++ {
						f := stt.Field(i)
						if immutableFields[f.Origin()] && !elementStoredArrays[f.Origin()] {
							continue
						}
						cv := assigned[f.Origin()]
						if cv == nil {
							cv = assigned[f]
						}
						okF := cv != nil && cv.whole
						if !okF && cv != nil {
							if ln, isArr := arrayLen(f.Type()); isArr {
								okF = true
								for k := int64(0); k < ln; k++ {
									if !cv.elems[k] {
										okF = false
									}
								}
							}
						}
						if !okF {
							missing = append(missing, fmt.Sprintf("%s (before %s)", f.Name(), u.text))
						}
					}
				}
				sort.Strings(missing)
				missing = uniqStrings(missing)
				r.Check(len(missing) == 0, rule, fi.Name, stmtStr(as), c.Pos(as.Pos()), fmt.Sprintf("typestate: every mutable field of %s is assigned before each of the %d use(s)", nt.Obj().Name(), len(uses)),
					"a pooled "+nt.Obj().Name()+" is used while still holding its previous user's "+strings.Join(missing, ", ")+": the sub-expression reads values left over from another evaluation (or another worker's line) instead of empty ones")
			}
		}
	}
	r.Floor(rule, 6, "pool Get sites in funcsRange, kfMath and the funcs-file stage")
	_ = n
}

func uniqStrings(in []string) []string {
	var out []string
	for i, s := range in {
		if i == 0 || s != in[i-1] {
			out = append(out, s)
		}
	}
	return out
}

// ---------------------------------------------------------------- C17-b done only on miss

// c17DoneOnlyOnMiss: the splitter declares itself finished (next = -1, the
// rest is the last element) only when the search for the delimiter missed or
// the delimiter is empty. Finishing under any other test swallows delimiters
// that are still ahead.
func c17DoneOnlyOnMiss(c *Ctx, r *Report, rule string) {
	fi := c.MustFunc(r, rule, "rare/pkg/stringSplitter", "(*Splitter).Next")
	if fi == nil {
		return
	}
	info := fi.Pkg.TypesInfo
	fg := NewFGraph(fi.Decl.Body, info)
	// results of a search
	searchVar := map[types.Object]bool{}
	ast.Inspect(fi.Decl.Body, func(x ast.Node) bool {
		if as, ok := x.(*ast.AssignStmt); ok && len(as.Lhs) == 1 && len(as.Rhs) == 1 {
			if ce, isC := ast.Unparen(as.Rhs[0]).(*ast.CallExpr); isC {
				switch calleeName(info, ce) {
				case "strings.Index", "strings.IndexByte", "strings.IndexRune", "bytes.Index":
					if o := identObj(info, as.Lhs[0]); o != nil {
						searchVar[o] = true
					}
				}
			}
		}
		return true
	})
	var accept func(cond ast.Expr, truth bool) bool
	accept = func(cond ast.Expr, truth bool) bool {
		cond = ast.Unparen(cond)
		switch t := cond.(type) {
		case *ast.UnaryExpr:
			if t.Op == token.NOT {
				return accept(t.X, !truth)
			}
		case *ast.BinaryExpr:
			switch {
			case t.Op == token.LAND && truth, t.Op == token.LOR && !truth:
				return accept(t.X, truth) || accept(t.Y, truth)
			case t.Op == token.LAND && !truth, t.Op == token.LOR && truth:
				return accept(t.X, truth) && accept(t.Y, truth)
			}
			// idx < 0 / idx == -1 / idx >= 0 false
			if o := identObj(info, t.X); o != nil && searchVar[o] {
				if v, isK := constInt(info, t.Y); isK {
					switch {
					case t.Op == token.LSS && v == 0 && truth, t.Op == token.GEQ && v == 0 && !truth, t.Op == token.EQL && v == -1 && truth, t.Op == token.NEQ && v == -1 && !truth, t.Op == token.LEQ && v == -1 && truth:
						return true
					}
				}
			}
			// the delimiter is empty
			if fv := fieldVar(info, t.X); fv != nil && fv.Name() == "Delim" {
				if s, isS := constString(info, t.Y); isS && s == "" && (t.Op == token.EQL && truth || t.Op == token.NEQ && !truth) {
					return true
				}
			}
			if ce, isC := ast.Unparen(t.X).(*ast.CallExpr); isC && exprStr(ce.Fun) == "len" && len(ce.Args) == 1 {
				if fv := fieldVar(info, ce.Args[0]); fv != nil && fv.Name() == "Delim" {
					if v, isK := constInt(info, t.Y); isK && v == 0 && (t.Op == token.EQL && truth || t.Op == token.NEQ && !truth || t.Op == token.GTR && !truth) {
						return true
					}
				}
			}
		}
		return false
	}
	n := 0
	for _, nd := range fg.Nodes {
		as, ok := nd.N.(*ast.AssignStmt)
		if !ok || len(as.Lhs) != 1 || len(as.Rhs) != 1 {
			continue
		}
		fv := fieldVar(info, as.Lhs[0])
		if fv == nil || fv.Name() != "next" {
			continue
		}
		v, isK := constInt(info, as.Rhs[0])
		if !isK || v >= 0 {
			continue
		}
		n++
		bad := false
		target := nd.ID
		enumPaths(fg, fg.Entry, func(id int) bool { return id == target }, func(nodes []int, edges []FEdge) {
			ok := false
			for _, e := range edges {
				if e.Cond != nil && e.Tag == nil && accept(e.Cond, e.Truth) {
					ok = true
				}
			}
			if !ok {
				bad = true
			}
		})
		r.Check(!bad, rule, fi.Name, stmtStr(as), c.Pos(as.Pos()), "path: the splitter finishes only after a missed search or for an empty delimiter",
			"the splitter can mark itself finished on a path where the delimiter search did not miss: the rest of the text - which may still contain delimiters - becomes the last element, so trailing empty elements vanish and a raw separator ends up inside an element")
	}
	if n == 0 {
		r.Bad(rule, fi.Name, "next = -1", c.Pos(fi.Decl.Pos()), "the splitter never finishes")
	}
}

// ---------------------------------------------------------------- stage state through atomics

// stageKeepsNoAtomicState: c05StagePurity accepts sync/atomic stores because
// they are race-free. For "a helper is a function of its arguments" they are
// state all the same: a stage closure must not Store/Swap/Add/CompareAndSwap
// a captured or package-level atomic. The documented layout cache of
// {time ..} ("cache" mode) is exempt where the property is about the helper's
// documented behaviour (C11, C18) and is NOT exempt for C10: the optimiser's
// probe evaluates the stage with a dummy context at compile time, and what the
// stage remembers from that evaluation survives into the run.
func stageKeepsNoAtomicState(c *Ctx, r *Report, rule string, fileFilter func(pos token.Pos) bool, exemptFormatCache bool) {
	n := 0
	for _, fi := range c.AllFuncDecls("rare/pkg/expressions") {
		info := fi.Pkg.TypesInfo
		for _, fl := range funcLitsIn(fi.Decl.Body) {
			if !isStageLit(info, fl) {
				continue
			}
			if fileFilter != nil && !fileFilter(fl.Pos()) {
				continue
			}
			n++
			bad := ""
			badPos := fl.Pos()
			ast.Inspect(fl.Body, func(y ast.Node) bool {
				ce, ok := y.(*ast.CallExpr)
				if !ok {
					return true
				}
				name := calleeName(info, ce)
				isMut := false
				var target ast.Expr
				switch {
				case strings.HasPrefix(name, "(*sync/atomic."):
					for _, m := range []string{").Store", ").Swap", ").Add", ").CompareAndSwap", ").And", ").Or"} {
						if strings.HasSuffix(name, m) {
							isMut = true
						}
					}
					if se, isS := ce.Fun.(*ast.SelectorExpr); isS {
						target = se.X
					}
				case strings.HasPrefix(name, "sync/atomic.Store"), strings.HasPrefix(name, "sync/atomic.Add"), strings.HasPrefix(name, "sync/atomic.Swap"), strings.HasPrefix(name, "sync/atomic.CompareAndSwap"):
					isMut = true
					if len(ce.Args) > 0 {
						if ue, isU := ast.Unparen(ce.Args[0]).(*ast.UnaryExpr); isU && ue.Op == token.AND {
							target = ue.X
						}
					}
				}
				if !isMut || target == nil {
					return true
				}
				id := rootIdent(target)
				if id == nil {
					return true
				}
				v, isVar := info.Uses[id].(*types.Var)
				if !isVar {
					return true
				}
				if within(fl, v.Pos()) {
					return true // the stage's own local
				}
				if exemptFormatCache && inlSuffix.ReplaceAllString(v.Name(), "") == "atomicFormat" && strings.HasSuffix(fi.Name, "smartDateParseWrapper") {
					// one named symbol: the documented "cache" mode of {time ..} remembers the layout detected on
					// the first parsable value. That is the helper's documented behaviour, not a deviation from
					// the calendar (C18) or from the helper's documentation (C11); for C10 it is a finding.
					return true
				}
				bad, badPos = v.Name(), ce.Pos()
				return true
			})
			construct := "stage literal"
			if bad != "" {
				construct = "stage updates captured atomic " + bad
			}
			r.Check(bad == "", rule, fi.Name, construct, c.Pos(badPos), "effect: updates no captured or package-level atomic",
				"a stage closure updates the captured atomic "+bad+": the helper remembers something from earlier evaluations, so its answer for a line depends on what the same compiled stage was evaluated on before - earlier lines, another worker's lines, and the optimiser's compile-time probe, whose dummy context answers every lookup with the empty string")
		}
	}
	_ = n
}

// ---------------------------------------------------------------- C18-d seconds of a duration

// c18WholeSecondsOut: the seconds printed for a duration are its whole
// seconds: the integer conversion applies directly to Duration.Seconds() (or
// an integer division by time.Second). Float arithmetic in between (+0.5
// "rounding") is asymmetric for negative durations.
func c18WholeSecondsOut(c *Ctx, r *Report, rule string) {
	n := 0
	for _, fi := range c.AllFuncDecls(stdlibPkg) {
		if !inFuncsTime(c, fi.Decl.Pos()) {
			continue
		}
		info := fi.Pkg.TypesInfo
		ast.Inspect(fi.Decl.Body, func(x ast.Node) bool {
			ce, ok := x.(*ast.CallExpr)
			if !ok || !isConversion(info, ce) || len(ce.Args) != 1 {
				return true
			}
			to, _ := info.TypeOf(ce).Underlying().(*types.Basic)
			from, _ := info.TypeOf(ce.Args[0]).Underlying().(*types.Basic)
			if to == nil || from == nil || to.Info()&types.IsInteger == 0 || from.Info()&types.IsFloat == 0 {
				return true
			}
			// does the operand involve a duration's Seconds/Minutes/Hours?
			involves := false
			ast.Inspect(ce.Args[0], func(y ast.Node) bool {
				if c2, isC := y.(*ast.CallExpr); isC {
					switch calleeName(info, c2) {
					case "(time.Duration).Seconds", "(time.Duration).Minutes", "(time.Duration).Hours":
						involves = true
					}
				}
				return true
			})
			if !involves {
				return true
			}
			n++
			_, direct := ast.Unparen(ce.Args[0]).(*ast.CallExpr)
			r.Check(direct, rule, fi.Name, exprStr(ce), c.Pos(ce.Pos()), "shape: the conversion truncates the duration's seconds directly",
				"the seconds of a duration pass through floating-point arithmetic before they are truncated: an adjustment such as +0.5 moves negative durations the wrong way (-1h gives -3599), so duration and durationformat no longer convert whole seconds consistently")
			return true
		})
	}
	r.Floor(rule, 1, "duration")
	_ = n
}

// ---------------------------------------------------------------- C19-c constant nodes / C19-g groups

// c19ConstNodes: a constant node of a formula is either a literal of the
// formula (built from the strconv parse of a token) or the result of the
// probe-guarded simplifier (C19-c/fold). A constant computed anywhere else
// re-associates or pre-evaluates operands without the probe's proof that
// nothing variable is involved.
func c19ConstNodes(c *Ctx, r *Report, rule string) {
	n := 0
	for _, fi := range c.AllFuncDecls(stdmathPkg) {
		if fi.Pkg.PkgPath != stdmathPkg {
			continue
		}
		info := fi.Pkg.TypesInfo
		// locals assigned from strconv parses
		parsed := map[types.Object]bool{}
		ast.Inspect(fi.Decl.Body, func(x ast.Node) bool {
			if as, ok := x.(*ast.AssignStmt); ok && len(as.Rhs) == 1 {
				if ce, isC := ast.Unparen(as.Rhs[0]).(*ast.CallExpr); isC && strings.HasPrefix(calleeName(info, ce), "strconv.Parse") && len(as.Lhs) >= 1 {
					if o := identObj(info, as.Lhs[0]); o != nil {
						parsed[o] = true
					}
				}
			}
			return true
		})
		ast.Inspect(fi.Decl.Body, func(x ast.Node) bool {
			cl, ok := x.(*ast.CompositeLit)
			if !ok || !isNamed(info.TypeOf(cl), stdmathPkg, "exprVal") {
				return true
			}
			n++
			if fi.Decl.Name.Name == "simplify" && fi.Decl.Recv == nil {
				r.OK(rule, fi.Name, exprStr(cl), c.Pos(cl.Pos()), "simplifier: replaces only under the probe's verdict (C19-c/fold)")
				return true
			}
			good := len(cl.Elts) == 1
			if good {
				v := cl.Elts[0]
				if kv, isKV := v.(*ast.KeyValueExpr); isKV {
					v = kv.Value
				}
				v = ast.Unparen(v)
				if ce, isC := v.(*ast.CallExpr); isC && isConversion(info, ce) && len(ce.Args) == 1 {
					v = ast.Unparen(ce.Args[0])
				}
				o := identObj(info, v)
				_, isLit := v.(*ast.BasicLit)
				good = isLit || (o != nil && parsed[o])
			}
			r.Check(good, rule, fi.Name, exprStr(cl), c.Pos(cl.Pos()), "literal: the constant is a parsed token of the formula",
				"a constant node is computed outside the probe-guarded simplifier: operands are evaluated or re-associated at compile time (floating-point + and * are not associative), so the same formula with the constant replaced by a variable of equal value gives a different result")
			return true
		})
	}
	r.Floor(rule, 3, "two literal sites and the simplifier")
	_ = n
}

// c19GroupOpaque: text inside parentheses is collected verbatim and
// tokenised by the recursive call; while a group is open the tokenizer must
// not emit any other token. Every token creation except the group token
// lies under the fact that no group is open (depth counter not positive).
func c19GroupOpaque(c *Ctx, r *Report, rule string) {
	fi := c.MustFunc(r, rule, stdmathPkg, "tokenizeExpr")
	if fi == nil {
		return
	}
	info := fi.Pkg.TypesInfo
	p := fi.Pkg
	typeGroup := p.Types.Scope().Lookup("typeGroup")
	// the depth counter: the int local that is incremented where '(' is seen and decremented where ')' is seen
	var depth types.Object
	incs, decs := map[types.Object]int{}, map[types.Object]int{}
	ast.Inspect(fi.Decl.Body, func(x ast.Node) bool {
		if id, ok := x.(*ast.IncDecStmt); ok {
			if o := identObj(info, id.X); o != nil {
				if id.Tok == token.INC {
					incs[o]++
				} else {
					decs[o]++
				}
			}
		}
		return true
	})
	for o := range incs {
		if decs[o] > 0 && (depth == nil || o.Pos() < depth.Pos()) {
			depth = o
		}
	}
	if depth == nil || typeGroup == nil {
		r.Undecided(rule, fi.Name, "depth counter", c.Pos(fi.Decl.Pos()), "the parenthesis depth counter or the group token kind was not found")
		return
	}
	vi := analyseVars(info, fi.Decl)
	fg := NewFGraph(fi.Decl.Body, info)
	fg.SolveFacts(vi)
	closedBy := func(facts []Fact) bool {
		// unit propagation over the path's facts
		type lit struct {
			e     ast.Expr
			truth bool
		}
		var work []lit
		for _, f := range facts {
			if f.Tag == nil {
				work = append(work, lit{f.Cond, f.Truth})
			}
		}
		known := map[string]bool{} // exprStr -> truth
		has := map[string]bool{}
		var pending []lit
		for len(work) > 0 {
			l := work[len(work)-1]
			work = work[:len(work)-1]
			e := ast.Unparen(l.e)
			if ue, ok := e.(*ast.UnaryExpr); ok && ue.Op == token.NOT {
				work = append(work, lit{ue.X, !l.truth})
				continue
			}
			if be, ok := e.(*ast.BinaryExpr); ok && (be.Op == token.LAND || be.Op == token.LOR) {
				if (be.Op == token.LAND) == l.truth {
					work = append(work, lit{be.X, l.truth}, lit{be.Y, l.truth})
				} else {
					pending = append(pending, lit{be, l.truth})
				}
				continue
			}
			k := exprStr(e)
			known[k], has[k] = l.truth, true
		}
		for round := 0; round < 4; round++ {
			var next []lit
			for _, pl := range pending {
				be := ast.Unparen(pl.e).(*ast.BinaryExpr)
				// (X && Y) false: if X is known true then Y is false (and symmetrically); (X || Y) true: if X known false then Y true
				want := be.Op == token.LAND // the value of a side that forces the other
				kx, ky := exprStr(ast.Unparen(be.X)), exprStr(ast.Unparen(be.Y))
				switch {
				case has[kx] && known[kx] == want:
					work = append(work, lit{be.Y, pl.truth})
				case has[ky] && known[ky] == want:
					work = append(work, lit{be.X, pl.truth})
				default:
					next = append(next, pl)
				}
			}
			pending = next
			for len(work) > 0 {
				l := work[len(work)-1]
				work = work[:len(work)-1]
				e := ast.Unparen(l.e)
				if ue, ok := e.(*ast.UnaryExpr); ok && ue.Op == token.NOT {
					work = append(work, lit{ue.X, !l.truth})
					continue
				}
				if be, ok := e.(*ast.BinaryExpr); ok && (be.Op == token.LAND || be.Op == token.LOR) {
					if (be.Op == token.LAND) == l.truth {
						work = append(work, lit{be.X, l.truth}, lit{be.Y, l.truth})
					} else {
						pending = append(pending, lit{be, l.truth})
					}
					continue
				}
				k := exprStr(e)
				known[k], has[k] = l.truth, true
			}
		}
		d := depth.Name()
		for _, alt := range []struct {
			k string
			t bool
		}{{d + " == 0", true}, {d + " > 0", false}, {d + " <= 0", true}, {d + " != 0", false}, {d + " >= 1", false}, {d + " < 1", true}} {
			if has[alt.k] && known[alt.k] == alt.t {
				return true
			}
		}
		return false
	}
	n := 0
	ast.Inspect(fi.Decl.Body, func(x ast.Node) bool {
		cl, ok := x.(*ast.CompositeLit)
		if !ok || !isNamed(info.TypeOf(cl), stdmathPkg, "token") {
			return true
		}
		var kind ast.Expr
		for i, el := range cl.Elts {
			if kv, isKV := el.(*ast.KeyValueExpr); isKV {
				if exprStr(kv.Key) == "t" {
					kind = kv.Value
				}
			} else if i == 1 {
				kind = el
			}
		}
		if kind != nil && identObj(info, kind) == typeGroup {
			return true
		}
		n++
		sets, okSets := fg.PathFactsAtPos(cl.Pos(), 400)
		good := okSets && len(sets) > 0
		for _, fs := range sets {
			if !closedBy(fs) {
				good = false
			}
		}
		if !good {
			// the dominating facts alone may already decide it
			good = closedBy(fg.FactsAtPos(cl.Pos()))
		}
		r.Check(good, rule, fi.Name, exprStr(cl), c.Pos(cl.Pos()), "guard: emitted only while no parenthesis is open",
			"a token is emitted while a parenthesised group may be open: the character is taken out of the group's text (and applied to the whole group), so a group that starts with a unary operator - (-x+y) - is no longer evaluated first, as written")
		return true
	})
	r.Floor(rule, 5, "literal, unary, operator and trailing-literal token sites")
	_ = n
}

// ---------------------------------------------------------------- C20-c escape terminator

// evalCharPred evaluates a boolean expression over comparisons of one
// character-valued subject with constants, for a given character.
func evalCharPred(c *Ctx, info *types.Info, e ast.Expr, isSubject func(ast.Expr) bool, ch int64, depth int) (val bool, ok bool, mentions bool) {
	e = ast.Unparen(e)
	num := func(x ast.Expr) (int64, bool, bool) {
		x = ast.Unparen(x)
		if isSubject(x) {
			return ch, true, true
		}
		if ce, isC := x.(*ast.CallExpr); isC && isConversion(info, ce) && len(ce.Args) == 1 && isSubject(ast.Unparen(ce.Args[0])) {
			return ch, true, true
		}
		if v, isK := constInt(info, x); isK {
			return v, true, false
		}
		return 0, false, false
	}
	switch t := e.(type) {
	case *ast.UnaryExpr:
		if t.Op == token.NOT {
			v, ok, m := evalCharPred(c, info, t.X, isSubject, ch, depth)
			return !v, ok, m
		}
	case *ast.BinaryExpr:
		switch t.Op {
		case token.LAND, token.LOR:
			a, oka, ma := evalCharPred(c, info, t.X, isSubject, ch, depth)
			b, okb, mb := evalCharPred(c, info, t.Y, isSubject, ch, depth)
			if !oka || !okb {
				return false, false, ma || mb
			}
			if t.Op == token.LAND {
				return a && b, true, ma || mb
			}
			return a || b, true, ma || mb
		case token.EQL, token.NEQ, token.LSS, token.LEQ, token.GTR, token.GEQ:
			a, oka, ma := num(t.X)
			b, okb, mb := num(t.Y)
			if !oka || !okb {
				return false, false, ma || mb
			}
			var v bool
			switch t.Op {
			case token.EQL:
				v = a == b
			case token.NEQ:
				v = a != b
			case token.LSS:
				v = a < b
			case token.LEQ:
				v = a <= b
			case token.GTR:
				v = a > b
			case token.GEQ:
				v = a >= b
			}
			return v, true, ma || mb
		}
	case *ast.CallExpr:
		// a repository predicate with one parameter and a single return statement
		if depth < 3 && len(t.Args) == 1 {
			arg := ast.Unparen(t.Args[0])
			if ce, isC := arg.(*ast.CallExpr); isC && isConversion(info, ce) && len(ce.Args) == 1 {
				arg = ast.Unparen(ce.Args[0])
			}
			if isSubject(arg) {
				if f := calleeFunc(info, t); f != nil && f.Pkg() != nil && c.IsRarePkg(f.Pkg()) {
					if hfi := funcDeclOf(c, f.Origin()); hfi != nil && len(hfi.Decl.Body.List) == 1 && len(hfi.Decl.Type.Params.List) == 1 && len(hfi.Decl.Type.Params.List[0].Names) == 1 {
						if rs, isR := hfi.Decl.Body.List[0].(*ast.ReturnStmt); isR && len(rs.Results) == 1 {
							hinfo := hfi.Pkg.TypesInfo
							p0 := hinfo.Defs[hfi.Decl.Type.Params.List[0].Names[0]]
							v, ok, _ := evalCharPred(c, hinfo, rs.Results[0], func(x ast.Expr) bool { return identObj(hinfo, x) == p0 && p0 != nil }, ch, depth+1)
							return v, ok, true
						}
					}
				}
				return false, false, true
			}
		}
	}
	return false, false, false
}

// c20EscapeTerminator: the trimmer skips a colour escape sequence as a
// whole: ESC, '[', parameter bytes (digits and ';') up to the final 'm'.
// The inner loop's character test is evaluated for each of these
// characters: it must keep skipping over ESC, '[', digits and ';' and stop at 'm'.
func c20EscapeTerminator(c *Ctx, r *Report, rule string) {
	fi := c.MustFunc(r, rule, multitermPkg, "WriteLineNoWrap")
	if fi == nil {
		return
	}
	info := fi.Pkg.TypesInfo
	var outer *ast.ForStmt
	ast.Inspect(fi.Decl.Body, func(n ast.Node) bool {
		if fs, ok := n.(*ast.ForStmt); ok && outer == nil {
			outer = fs
		}
		return true
	})
	n := 0
	if outer != nil {
		ast.Inspect(outer.Body, func(x ast.Node) bool {
			inner, ok := x.(*ast.ForStmt)
			if !ok || inner.Cond == nil {
				return true
			}
			// the subject: an element of the rune slice
			isSubject := func(e ast.Expr) bool {
				ix, ok := ast.Unparen(e).(*ast.IndexExpr)
				if !ok {
					return false
				}
				b, isB := info.TypeOf(ix).Underlying().(*types.Basic)
				return isB && (b.Kind() == types.Int32 || b.Kind() == types.Uint8)
			}
			// character conjuncts of the loop condition
			var conj []ast.Expr
			var split func(e ast.Expr)
			split = func(e ast.Expr) {
				e = ast.Unparen(e)
				if be, ok := e.(*ast.BinaryExpr); ok && be.Op == token.LAND {
					split(be.X)
					split(be.Y)
					return
				}
				conj = append(conj, e)
			}
			split(inner.Cond)
			var charConj []ast.Expr
			for _, cj := range conj {
				if _, _, m := evalCharPred(c, info, cj, isSubject, 'm', 0); m {
					charConj = append(charConj, cj)
				}
			}
			if len(charConj) == 0 {
				return true
			}
			n++
			skips := func(ch int64) (bool, bool) {
				for _, cj := range charConj {
					v, ok, _ := evalCharPred(c, info, cj, isSubject, ch, 0)
					if !ok {
						return false, false
					}
					if !v {
						return false, true
					}
				}
				return true, true
			}
			var wrong []string
			undecided := false
			for _, ch := range []int64{0x1b, '[', '0', '1', '3', '9', ';'} {
				v, ok := skips(ch)
				if !ok {
					undecided = true
				} else if !v {
					wrong = append(wrong, fmt.Sprintf("stops at %q", rune(ch)))
				}
			}
			if v, ok := skips('m'); !ok {
				undecided = true
			} else if v {
				wrong = append(wrong, "does not stop at 'm'")
			}
			switch {
			case undecided:
				r.Undecided(rule, fi.Name, exprStr(inner.Cond), c.Pos(inner.Pos()), "the character test of the escape-skipping loop could not be evaluated")
			default:
				r.Check(len(wrong) == 0, rule, fi.Name, "escape skip: "+exprStr(charConj[0]), c.Pos(inner.Pos()), "evaluated: the skip continues over ESC [ digits ; and ends at m",
					"the escape-skipping loop "+strings.Join(wrong, ", ")+": the rest of a colour sequence is counted as visible text, so a long coloured line is cut inside the sequence (or too early)")
			}
			return true
		})
	}
	if n == 0 {
		r.OK(rule, fi.Name, "no nested skip loop", c.Pos(fi.Decl.Pos()), "shape: no character-driven inner loop")
	}
	_ = constant.MakeBool
}
