package main

// C16-e/number-grammar: abstract interpretation of the hand-written numeric
// recogniser of pkg/minijson against the JSON number grammar (RFC 8259).
//
// WriteInferred copies a capture into the object *unquoted* when isNumeric
// accepts it, so every string the recogniser accepts must be a JSON number
// or the object is not valid JSON. The recogniser is a forward scan over the
// bytes of its argument that looks at them only through comparisons with
// constants. That makes an exact finite abstraction possible:
//
//   - bytes are abstracted to the classes induced by the constants the function
//     mentions plus the ones the grammar distinguishes (an interval partition
//     of 0..255: every comparison has one answer per class);
//   - the scanned prefix s[0:i) is abstracted to the state of the JSON-number
//     DFA after reading it (a typestate of the index variable);
//   - the store keeps, besides that state: whether i is 0, 1 or more, the class
//     of s[i] (unknown / end of string / class) and of s[i+1], the classes of
//     the first two bytes once they were read, and the classes held by
//     byte-typed locals.
//
// The function's control-flow graph is explored over these abstract states
// to a fixpoint (finitely many states, so loops need no bound). Every abstract
// state reached corresponds to a concrete input prefix, which is kept as a
// witness. A `return true` reached with unread input, or at the end of the
// input in a non-accepting DFA state, is a concrete string that is accepted
// but is not a JSON number.
//
// The interpreter understands the idiom this code base uses (index variable,
// s[i] / s[0] / s[1] reads, i++ / i = 1, s = s[1:], len(s) comparisons,
// && || !). When the function uses anything else the rule says so and does
// NOT fail: I cannot tell a harmless rewrite from a harmful one there, and an
// alarm on a harmless rewrite would be a false alarm. (What it costs: a
// recogniser rewritten outside the idiom is not decided.)

import (
	"fmt"
	"go/ast"
	"go/token"
	"go/types"
	"os"
	"sort"
	"strings"
)

type byteClass struct{ lo, hi int }

type recState struct {
	dfa    int
	cur    int // -2 unknown, -1 end of string, >= 0 class index
	next   int
	cnt    int    // bytes consumed since the (re)start of s: 0, 1, 2 (= two or more)
	b0, b1 int    // classes of s[0], s[1] once consumed
	vars   [4]int // classes held by byte locals (-2 unset)
	ints   [2]int // small constants held by other int locals (-2 unset)
}

type recItem struct {
	node int
	st   recState
	wit  string
}

const (
	recUnknown = -2
	recEnd     = -1
)

type recogniser struct {
	info    *types.Info
	fg      *FGraph
	classes []byteClass
	sObj    types.Object
	iObj    types.Object
	byteVar map[types.Object]int
	intVar  map[types.Object]int
	unsup   string
	ctx     *Ctx
	bind    map[types.Object]ast.Expr // parameter of a predicate helper being evaluated -> the argument at the call
}

// JSON number DFA over {zero, nonzero digit, dot, minus, plus, exp, other}
func jsonStep(st int, b byte) int {
	isDigit := b >= '0' && b <= '9'
	switch st {
	case 0:
		switch {
		case b == '-':
			return 1
		case b == '0':
			return 2
		case isDigit:
			return 3
		}
	case 1:
		switch {
		case b == '0':
			return 2
		case isDigit:
			return 3
		}
	case 2:
		switch {
		case b == '.':
			return 4
		case b == 'e' || b == 'E':
			return 6
		}
	case 3:
		switch {
		case isDigit:
			return 3
		case b == '.':
			return 4
		case b == 'e' || b == 'E':
			return 6
		}
	case 4:
		if isDigit {
			return 5
		}
	case 5:
		switch {
		case isDigit:
			return 5
		case b == 'e' || b == 'E':
			return 6
		}
	case 6:
		switch {
		case b == '+' || b == '-':
			return 7
		case isDigit:
			return 8
		}
	case 7, 8:
		if isDigit {
			return 8
		}
	}
	return 9 // dead
}

func jsonAccepting(st int) bool { return st == 2 || st == 3 || st == 5 || st == 8 }

func (rc *recogniser) rep(c int) byte { return byte(rc.classes[c].lo) }

func (rc *recogniser) fail(why string) {
	if rc.unsup == "" {
		rc.unsup = why
	}
}

// split enumerates the possibilities of a position class.
func (rc *recogniser) split(v int, allowEnd bool) []int {
	if v != recUnknown {
		return []int{v}
	}
	var out []int
	if allowEnd {
		out = append(out, recEnd)
	}
	for i := range rc.classes {
		out = append(out, i)
	}
	return out
}

// consume advances the index over s[i].
func (rc *recogniser) consume(st recState, wit string) []recItem {
	var out []recItem
	for _, c := range rc.split(st.cur, true) {
		n := st
		n.cur = c
		if c == recEnd {
			// stepping past the end: nothing more to read
			if n.cnt < 2 {
				n.cnt++
			}
			out = append(out, recItem{st: n, wit: wit})
			continue
		}
		n.dfa = jsonStep(st.dfa, rc.rep(c))
		n.cur, n.next = st.next, recUnknown
		switch st.cnt {
		case 0:
			n.b0, n.cnt = c, 1
		case 1:
			n.b1, n.cnt = c, 2
		}
		out = append(out, recItem{st: n, wit: wit + string(rune(rc.rep(c)))})
	}
	return out
}

type condOut struct {
	truth bool
	st    recState
}

// position class of a byte-valued expression; which = 0 cur, 1 next, 2 a local
func (rc *recogniser) bytePos(e ast.Expr, st recState) (kind int, varIdx int, ok bool) {
	e = ast.Unparen(e)
	if id, isId := e.(*ast.Ident); isId {
		if arg, bound := rc.bind[rc.info.Uses[id]]; bound {
			return rc.bytePos(arg, st)
		}
		if k, has := rc.byteVar[rc.info.Uses[id]]; has {
			return 2, k, true
		}
		return 0, 0, false
	}
	ix, isIx := e.(*ast.IndexExpr)
	if !isIx || identObj(rc.info, ix.X) != rc.sObj {
		return 0, 0, false
	}
	if identObj(rc.info, ix.Index) == rc.iObj && rc.iObj != nil {
		return 0, 0, true
	}
	if k, isK := constInt(rc.info, ix.Index); isK {
		switch {
		case k == 0 && st.cnt == 0, k == 1 && st.cnt == 1:
			return 0, 0, true
		case k == 1 && st.cnt == 0:
			return 1, 0, true
		case k == 0 && st.cnt >= 1:
			return 3, 0, true // remembered first byte
		case k == 1 && st.cnt >= 2:
			return 4, 0, true // remembered second byte
		}
	}
	if be, isB := ast.Unparen(ix.Index).(*ast.BinaryExpr); isB && be.Op == token.ADD && identObj(rc.info, be.X) == rc.iObj {
		if k, isK := constInt(rc.info, be.Y); isK && k == 1 {
			return 1, 0, true
		}
	}
	return 0, 0, false
}

func cmpInts(a int64, op token.Token, b int64) bool {
	switch op {
	case token.EQL:
		return a == b
	case token.NEQ:
		return a != b
	case token.LSS:
		return a < b
	case token.LEQ:
		return a <= b
	case token.GTR:
		return a > b
	case token.GEQ:
		return a >= b
	}
	return false
}

func flipOp(op token.Token) token.Token {
	switch op {
	case token.LSS:
		return token.GTR
	case token.GTR:
		return token.LSS
	case token.LEQ:
		return token.GEQ
	case token.GEQ:
		return token.LEQ
	}
	return op
}

// smallConst: a constant, or an int local that holds a known small constant in this state.
func (rc *recogniser) smallConst(e ast.Expr, st recState) (int64, bool) {
	if k, ok := constInt(rc.info, e); ok {
		return k, true
	}
	if vi, has := rc.intVar[identObj(rc.info, e)]; has && st.ints[vi] != recUnknown {
		return int64(st.ints[vi]), true
	}
	return 0, false
}

func (rc *recogniser) isLenS(e ast.Expr) bool {
	ce, ok := ast.Unparen(e).(*ast.CallExpr)
	return ok && calleeName(rc.info, ce) == "builtin.len" && len(ce.Args) == 1 && identObj(rc.info, ce.Args[0]) == rc.sObj
}

func (rc *recogniser) evalCond(e ast.Expr, st recState) []condOut {
	e = ast.Unparen(e)
	if tv, ok := rc.info.Types[e]; ok && tv.Value != nil {
		return []condOut{{tv.Value.String() == "true", st}}
	}
	switch t := e.(type) {
	case *ast.CallExpr:
		// a private predicate of the package: func p(b byte) bool { return <expr over b> }
		if f := calleeFunc(rc.info, t); f != nil && rc.ctx != nil && !f.Exported() && rc.ctx.IsRarePkg(f.Pkg()) && len(t.Args) == 1 && len(rc.bind) == 0 {
			if hfi := funcDeclOf(rc.ctx, f); hfi != nil && hfi.Decl.Recv == nil && hfi.Decl.Type.Params != nil && len(hfi.Decl.Type.Params.List) == 1 && len(hfi.Decl.Type.Params.List[0].Names) == 1 && len(hfi.Decl.Body.List) == 1 {
				if rs, isRet := hfi.Decl.Body.List[0].(*ast.ReturnStmt); isRet && len(rs.Results) == 1 && hfi.Pkg.TypesInfo == rc.info {
					param := rc.info.Defs[hfi.Decl.Type.Params.List[0].Names[0]]
					if _, _, okArg := rc.bytePos(t.Args[0], st); okArg && param != nil {
						rc.bind = map[types.Object]ast.Expr{param: t.Args[0]}
						outs := rc.evalCond(rs.Results[0], st)
						rc.bind = nil
						return outs
					}
				}
			}
		}
	case *ast.UnaryExpr:
		if t.Op == token.NOT {
			outs := rc.evalCond(t.X, st)
			for i := range outs {
				outs[i].truth = !outs[i].truth
			}
			return outs
		}
	case *ast.BinaryExpr:
		switch t.Op {
		case token.LAND, token.LOR:
			var res []condOut
			for _, l := range rc.evalCond(t.X, st) {
				if (t.Op == token.LAND && !l.truth) || (t.Op == token.LOR && l.truth) {
					res = append(res, l)
					continue
				}
				res = append(res, rc.evalCond(t.Y, l.st)...)
			}
			return res
		case token.EQL, token.NEQ, token.LSS, token.LEQ, token.GTR, token.GEQ:
			x, y, op := t.X, t.Y, t.Op
			// normalise: constant / len on the right
			if _, isK := constInt(rc.info, x); isK || (rc.isLenS(x) && identObj(rc.info, y) == rc.iObj && rc.iObj != nil) {
				x, y, op = y, x, flipOp(op)
			}
			// index variable against a constant or len(s)
			if identObj(rc.info, x) == rc.iObj && rc.iObj != nil {
				if k, isK := rc.smallConst(y, st); isK {
					if k >= 0 && k <= 2 {
						// cnt is i exactly for 0 and 1, and "2 or more" otherwise
						if st.cnt < 2 {
							return []condOut{{cmpInts(int64(st.cnt), op, k), st}}
						}
						switch {
						case k < 2:
							return []condOut{{cmpInts(2, op, k), st}}
						case op == token.GEQ:
							return []condOut{{true, st}}
						case op == token.LSS:
							return []condOut{{false, st}}
						}
					}
					rc.fail("index compared with " + exprStr(y))
					return nil
				}
				if rc.isLenS(y) {
					var res []condOut
					for _, c := range rc.split(st.cur, true) {
						n := st
						n.cur = c
						atEnd := c == recEnd
						var truth bool
						switch op {
						case token.LSS, token.NEQ:
							truth = !atEnd
						case token.GEQ, token.EQL:
							truth = atEnd
						default:
							rc.fail("index compared with len through " + op.String())
							return nil
						}
						res = append(res, condOut{truth, n})
					}
					return res
				}
			}
			// len(s) against a small constant, at the start of the string
			if rc.isLenS(x) {
				if k, isK := constInt(rc.info, y); isK && k >= 0 && k <= 2 {
					// len(s) is cnt + (what is still ahead): exact up to "2 or more"
					var res []condOut
					switch {
					case st.cnt >= 2:
						if k == 2 && (op == token.EQL || op == token.LEQ || op == token.GTR || op == token.NEQ) {
							rc.fail("len(s) compared with 2")
							return nil
						}
						return []condOut{{cmpInts(2, op, k), st}}
					case st.cnt == 1:
						for _, c := range rc.split(st.cur, true) {
							n := st
							n.cur = c
							ln := int64(1)
							if c != recEnd {
								ln = 2
								if k == 2 && (op == token.EQL || op == token.LEQ || op == token.GTR || op == token.NEQ) {
									rc.fail("len(s) compared with 2")
									return nil
								}
							}
							res = append(res, condOut{cmpInts(ln, op, k), n})
						}
						return res
					}
					for _, c := range rc.split(st.cur, true) {
						n := st
						n.cur = c
						if c == recEnd {
							res = append(res, condOut{cmpInts(0, op, k), n})
							continue
						}
						for _, c2 := range rc.split(st.next, true) {
							m := n
							m.next = c2
							ln := int64(1)
							if c2 != recEnd {
								ln = 2 // 2 or more
								if k == 2 && (op == token.EQL || op == token.LEQ || op == token.GTR || op == token.NEQ) {
									rc.fail("len(s) compared with 2")
									return nil
								}
							}
							res = append(res, condOut{cmpInts(ln, op, k), m})
						}
					}
					return res
				}
				rc.fail("len(s) comparison " + exprStr(e))
				return nil
			}
			// a byte against a constant
			if k, isK := constInt(rc.info, y); isK {
				if kind, vi, ok := rc.bytePos(x, st); ok {
					var cur int
					switch kind {
					case 0:
						cur = st.cur
					case 1:
						cur = st.next
					case 3:
						cur = st.b0
					case 4:
						cur = st.b1
					default:
						cur = st.vars[vi]
						if cur == recUnknown {
							rc.fail("byte local read before it is set")
							return nil
						}
					}
					var res []condOut
					for _, c := range rc.split(cur, false) {
						if c == recEnd {
							continue // would be an out-of-range read: the bounds obligations (C16-f) cover that
						}
						n := st
						switch kind {
						case 0:
							n.cur = c
						case 1:
							n.next = c
						}
						res = append(res, condOut{cmpInts(int64(rc.classes[c].lo), op, k), n})
					}
					return res
				}
			}
		}
	}
	rc.fail("condition " + exprStr(e))
	return nil
}

// transfer applies a statement node.
func (rc *recogniser) transfer(n ast.Node, it recItem) []recItem {
	one := func(st recState) []recItem { return []recItem{{st: st, wit: it.wit}} }
	switch t := n.(type) {
	case nil:
		return one(it.st)
	case ast.Expr:
		return one(it.st) // a condition: decided on the edges
	case *ast.BranchStmt, *ast.EmptyStmt, *ast.LabeledStmt:
		return one(it.st)
	case *ast.ReturnStmt:
		return one(it.st)
	case *ast.IncDecStmt:
		if identObj(rc.info, t.X) == rc.iObj && t.Tok == token.INC {
			return rc.consume(it.st, it.wit)
		}
	case *ast.DeclStmt:
		if gd, ok := t.Decl.(*ast.GenDecl); ok && gd.Tok == token.VAR {
			okAll := true
			for _, sp := range gd.Specs {
				vs, isV := sp.(*ast.ValueSpec)
				if !isV || len(vs.Values) != 0 {
					okAll = false
				}
			}
			if okAll {
				return one(it.st)
			}
		}
	case *ast.AssignStmt:
		if len(t.Lhs) == 1 && len(t.Rhs) == 1 {
			lo := identObj(rc.info, t.Lhs[0])
			rhs := ast.Unparen(t.Rhs[0])
			switch {
			case lo == rc.iObj && lo != nil:
				if k, isK := constInt(rc.info, rhs); isK && (t.Tok == token.DEFINE || t.Tok == token.ASSIGN) {
					if k == 0 && it.st.cnt == 0 {
						return one(it.st)
					}
					if k == 1 && it.st.cnt == 0 {
						return rc.consume(it.st, it.wit)
					}
					if k == 1 && it.st.cnt == 1 {
						return one(it.st)
					}
				}
				if k, isK := constInt(rc.info, rhs); isK && t.Tok == token.ADD_ASSIGN && k == 1 {
					return rc.consume(it.st, it.wit)
				}
				if be, isB := rhs.(*ast.BinaryExpr); isB && be.Op == token.ADD && identObj(rc.info, be.X) == rc.iObj {
					if k, isK := constInt(rc.info, be.Y); isK && k == 1 && t.Tok == token.ASSIGN {
						return rc.consume(it.st, it.wit)
					}
				}
			case lo == rc.sObj && lo != nil:
				// s = s[1:] at the start of the scan
				if se, isS := rhs.(*ast.SliceExpr); isS && identObj(rc.info, se.X) == rc.sObj && se.High == nil && it.st.cnt == 0 {
					if k, isK := constInt(rc.info, se.Low); isK && k == 1 {
						outs := rc.consume(it.st, it.wit)
						var keep []recItem
						for _, o := range outs {
							if o.st.cur == recEnd && it.st.cur == recEnd {
								continue
							}
							o.st.cnt, o.st.b0, o.st.b1 = 0, recUnknown, recUnknown
							keep = append(keep, o)
						}
						return keep
					}
				}
			default:
				if vi, isInt := rc.intVar[lo]; isInt {
					if k, isK := constInt(rc.info, rhs); isK && k >= 0 && k <= 2 && (t.Tok == token.DEFINE || t.Tok == token.ASSIGN) {
						n := it.st
						n.ints[vi] = int(k)
						return one(n)
					}
				}
				if vi, isByte := rc.byteVar[lo]; isByte {
					if kind, _, ok := rc.bytePos(rhs, it.st); ok && kind != 2 {
						cur := it.st.cur
						switch kind {
						case 1:
							cur = it.st.next
						case 3:
							cur = it.st.b0
						case 4:
							cur = it.st.b1
						}
						var res []recItem
						for _, c := range rc.split(cur, false) {
							if c == recEnd {
								continue
							}
							n := it.st
							switch kind {
							case 0:
								n.cur = c
							case 1:
								n.next = c
							}
							n.vars[vi] = c
							res = append(res, recItem{st: n, wit: it.wit})
						}
						return res
					}
				}
			}
		}
	}
	rc.fail("statement " + fmt.Sprintf("%T", n))
	return nil
}

// c16NumberGrammar runs the analysis on minijson.isNumeric; when the function as written leaves
// the interpreted idiom (a digit predicate in a helper, say) it is tried once more on the
// normalised view, in which new private helpers are expanded in place.
func c16NumberGrammar(c *Ctx, r *Report, rule string) {
	if c16NumberGrammarOn(c, r, rule, c.Overlay == nil && os.Getenv("RARECHECK_NO_NORMALISE") == "") {
		return
	}
	if nc, n, _ := LoadNormalised(c); nc != nil {
		r.Notes = append(r.Notes, fmt.Sprintf("C16-e/number-grammar: isNumeric decided on the normalised view (%d helper calls expanded in place)", n))
		c16NumberGrammarOn(nc, r, rule, false)
		return
	}
	c16NumberGrammarOn(c, r, rule, false)
}

// c16NumberGrammarOn analyses the recogniser of one view. With deferUndecided it reports nothing and
// returns false when the function is outside the idiom, so that the caller can try another view.
func c16NumberGrammarOn(c *Ctx, r *Report, rule string, deferUndecided bool) bool {
	fi := c.MustFunc(r, rule, minijsonPkg, "isNumeric")
	if fi == nil {
		return true
	}
	info := fi.Pkg.TypesInfo
	fd := fi.Decl
	rc := &recogniser{info: info, ctx: c, byteVar: map[types.Object]int{}, intVar: map[types.Object]int{}}
	if fd.Type.Params == nil || len(fd.Type.Params.List) != 1 || len(fd.Type.Params.List[0].Names) != 1 {
		r.OK(rule, fi.Name, "recogniser", c.Pos(fd.Pos()), "not decided: the recogniser does not take a single string (outside the interpreted idiom)")
		return true
	}
	rc.sObj = info.Defs[fd.Type.Params.List[0].Names[0]]
	// the index variable: the identifier s is indexed with; byte locals; the constants compared
	cuts := map[int]bool{0: true, 256: true}
	for _, b := range []int{'0', '1', '9' + 1, '.', '.' + 1, '-', '-' + 1, '+', '+' + 1, 'e', 'e' + 1, 'E', 'E' + 1} {
		cuts[b] = true
	}
	ast.Inspect(fd.Body, func(x ast.Node) bool {
		switch t := x.(type) {
		case *ast.IndexExpr:
			if identObj(info, t.X) == rc.sObj {
				if o := identObj(info, t.Index); o != nil {
					if rc.iObj != nil && rc.iObj != o {
						rc.fail("two index variables")
					}
					rc.iObj = o
				}
			}
		case *ast.Ident:
			if v, ok := info.Defs[t].(*types.Var); ok {
				if b, isB := v.Type().Underlying().(*types.Basic); isB && (b.Kind() == types.Uint8) {
					if _, has := rc.byteVar[v]; !has {
						if len(rc.byteVar) >= 4 {
							rc.fail("more than four byte locals")
						} else {
							rc.byteVar[v] = len(rc.byteVar)
						}
					}
				}
			}
		case *ast.BasicLit:
			if t.Kind == token.CHAR || t.Kind == token.INT {
				if k, ok := constInt(info, t); ok && k >= 0 && k < 256 {
					cuts[int(k)] = true
					cuts[int(k)+1] = true
				}
			}
		case *ast.CallExpr:
			// constants compared inside a private predicate the scan calls split the classes as well
			if f := calleeFunc(info, t); f != nil && !f.Exported() && c.IsRarePkg(f.Pkg()) {
				if hfi := funcDeclOf(c, f); hfi != nil && hfi.Decl.Body != nil {
					ast.Inspect(hfi.Decl.Body, func(y ast.Node) bool {
						if bl, ok := y.(*ast.BasicLit); ok && (bl.Kind == token.CHAR || bl.Kind == token.INT) {
							if k, ok := constInt(hfi.Pkg.TypesInfo, bl); ok && k >= 0 && k < 256 {
								cuts[int(k)] = true
								cuts[int(k)+1] = true
							}
						}
						return true
					})
				}
			}
		}
		return true
	})
	ast.Inspect(fd.Body, func(x ast.Node) bool {
		if id, ok := x.(*ast.Ident); ok {
			if v, isVar := info.Defs[id].(*types.Var); isVar && v != rc.iObj {
				if b, isB := v.Type().Underlying().(*types.Basic); isB && b.Kind() == types.Int {
					if _, has := rc.intVar[v]; !has {
						if len(rc.intVar) >= 2 {
							rc.fail("more than two further int locals")
						} else {
							rc.intVar[v] = len(rc.intVar)
						}
					}
				}
			}
		}
		return true
	})
	var cs []int
	for k := range cuts {
		cs = append(cs, k)
	}
	sort.Ints(cs)
	for i := 0; i+1 < len(cs); i++ {
		rc.classes = append(rc.classes, byteClass{cs[i], cs[i+1] - 1})
	}
	rc.fg = NewFGraph(fd.Body, info)
	start := recState{dfa: 0, cur: recUnknown, next: recUnknown, b0: recUnknown, b1: recUnknown, vars: [4]int{recUnknown, recUnknown, recUnknown, recUnknown}, ints: [2]int{recUnknown, recUnknown}}
	type key struct {
		node int
		st   recState
	}
	seen := map[key]bool{}
	work := []recItem{{node: rc.fg.Entry, st: start}}
	var witnesses []string
	explored := 0
	addWitness := func(w, why string) {
		witnesses = append(witnesses, fmt.Sprintf("%q (%s)", w, why))
	}
	// acceptance of the whole string at a `return true`
	accept := func(it recItem) {
		for _, c := range rc.split(it.st.cur, true) {
			if c == recEnd {
				if !jsonAccepting(it.st.dfa) {
					addWitness(it.wit, "accepted, not a JSON number")
				}
				continue
			}
			// unread input: whatever follows is accepted as well
			addWitness(it.wit+string(rune(rc.rep(c)))+"x", "accepted without looking at the rest of the text")
			break
		}
	}
	for len(work) > 0 && rc.unsup == "" && explored < 200000 {
		it := work[len(work)-1]
		work = work[:len(work)-1]
		k := key{it.node, it.st}
		if seen[k] {
			continue
		}
		seen[k] = true
		explored++
		nd := rc.fg.Nodes[it.node]
		if rs, isRet := nd.N.(*ast.ReturnStmt); isRet {
			if len(rs.Results) != 1 {
				rc.fail("return without a single result")
				break
			}
			for _, o := range rc.evalCond(rs.Results[0], it.st) {
				if o.truth {
					accept(recItem{st: o.st, wit: it.wit})
				}
			}
			continue
		}
		for _, after := range rc.transfer(nd.N, it) {
			// successors
			var cond ast.Expr
			for _, e := range nd.Succ {
				if e.Cond != nil {
					cond = e.Cond
					if e.Tag != nil {
						rc.fail("tagged switch")
					}
				}
			}
			if cond == nil {
				for _, e := range nd.Succ {
					work = append(work, recItem{node: e.To, st: after.st, wit: after.wit})
				}
				continue
			}
			for _, o := range rc.evalCond(cond, after.st) {
				for _, e := range nd.Succ {
					if e.Cond != nil && e.Truth == o.truth {
						work = append(work, recItem{node: e.To, st: o.st, wit: after.wit})
					}
				}
			}
		}
	}
	if explored >= 200000 {
		rc.fail("state space larger than expected")
	}
	if rc.unsup != "" {
		if deferUndecided {
			return false
		}
		r.OK(rule, fi.Name, "recogniser", c.Pos(fd.Pos()), "not decided: the recogniser uses a construct outside the interpreted idiom ("+rc.unsup+"); no verdict either way")
		r.Notes = append(r.Notes, "C16-e/number-grammar: isNumeric not decided ("+rc.unsup+")")
		return true
	}
	sort.Strings(witnesses)
	witnesses = uniqStrings(witnesses)
	if len(witnesses) > 4 {
		witnesses = witnesses[:4]
	}
	r.Check(len(witnesses) == 0, rule, fi.Name, "accepted language within the JSON number grammar", c.Pos(fd.Pos()),
		fmt.Sprintf("typestate: %d abstract states (%d byte classes x JSON-number DFA) explored to a fixpoint; every accepting return is reached at the end of the text in an accepting DFA state", explored, len(rc.classes)),
		"the numeric recogniser accepts text that is not a JSON number, and WriteInferred copies accepted text into the object unquoted: "+strings.Join(witnesses, "; ")+" - the result is not valid JSON")
	return true
}
