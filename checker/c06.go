package main

// C06 - named inputs read once, failures reported.

import (
	"go/ast"
	"go/token"
	"go/types"
	"strings"
)

func init() {
	register(&propDef{
		ID:  "C06",
		Run: runC06,
		Explain: "Decided (resource and error clauses): (a) reader slots and the wait group are paired: a slot acquired before `go` is released by a deferred receive registered before the goroutine's first return, Add precedes go, Done is deferred, Wait dominates close (same rules as C05-c); (b) every failure is counted: each err != nil branch after opening/following/draining an input passes through incErrors before it leaves, the scanner's error callback is installed before the first Scan in both batcher loops and calls incErrors unconditionally, ReadErrors returns the field incErrors increments, and no error result is silently discarded in the input-opening code; (c) every file opened by os.Open is closed by what the opener returns (a wrapper that does not close the underlying file must not be returned alone); (d) expansion completeness: every branch of the expansion loop sends the literal path or each expansion, the walk callback sends its own path argument for every non-directory, the channel is closed after the loop; (e) standard input is read under the name <stdin> exactly when there is no argument or the first is `-`; (f) exit status: same path rule as C03-d. Every error openFileToReader returns originates from os.Open or the rewind Seek (a gzip probe failure falls back to plain reading); a log line alone does not count as handling a path argument. " +
			"NOT decided: gzip fidelity (delegated to compress/gzip), recursion depth, 'exactly once per mention' for overlapping globs, errors reported by filepath.Walk for unreadable directories (dropped by the code; cannot be demonstrated as root here and recorded as a reviewed limitation).",
		Assume: []string{"os.Open / gzip / filepath behave as documented"},
	})
}

const dirwalkPkg = "rare/pkg/extractor/dirwalk"

func runC06(c *Ctx, r *Report) {
	units := allBodies(c, "rare/pkg/extractor")
	semaphorePairing(c, r, "C06-a/semaphore", "rare/pkg/extractor")
	r.Floor("C06-a/semaphore", 1, "reader slots in OpenFilesToChan")
	c05CloseDiscipline(c, r, units, "C06-a")
	c06ErrorsCounted(c, r)
	c06OpenFailures(c, r)
	c06DroppedErrors(c, r)
	c06FileOwner(c, r)
	c06Expansion(c, r)
	c06WalkDecision(c, r, "C06-d/walk-decision")
	c06WholeGzipStream(c, r, "C06-g/whole-gzip-stream")
	c06GzipProbe(c, r, "C06-g/gzip-probe")
	c06Stdin(c, r)
	c03ExitStatusAs(c, r, "C06-f")
}

func c03ExitStatusAs(c *Ctx, r *Report, prefix string) {
	sub := NewReport(r.Prop, r.Tier)
	sub.curCfg = r.curCfg
	c03ExitStatus(c, sub)
	for _, o := range sub.Obs {
		o.Rule = strings.Replace(o.Rule, "C03-d", prefix, 1)
		o.Key = strings.Replace(o.Key, "C03-d", prefix, 1)
		r.Obs = append(r.Obs, o)
	}
	for k, v := range sub.floors {
		r.Floor(strings.Replace(k, "C03-d", prefix, 1), v, sub.floorWhy[k])
	}
}

func callsIncErrors(info *types.Info, n ast.Node) bool {
	hit := false
	ast.Inspect(n, func(x ast.Node) bool {
		if ce, ok := x.(*ast.CallExpr); ok && strings.HasSuffix(calleeName(info, ce), ".Batcher).incErrors") {
			hit = true
		}
		return true
	})
	return hit
}

func c06ErrorsCounted(c *Ctx, r *Report) {
	const rule = "C06-b/error-counted"
	opener := batchersPkg + ".openFileToReader" // calleeName answers with the frozen name even when the function was renamed
	failing := map[string]bool{
		opener:                      true,
		"rare/pkg/followreader.New": true,
		"(rare/pkg/followreader.FollowReader).Drain":         true,
		"(*rare/pkg/followreader.NotifyFollowReader).Drain":  true,
		"(*rare/pkg/followreader.PollingFollowReader).Drain": true,
	}
	for _, fi := range c.AllFuncDecls(batchersPkg) {
		info := fi.Pkg.TypesInfo
		bodies := []*ast.BlockStmt{fi.Decl.Body}
		for _, fl := range funcLitsIn(fi.Decl.Body) {
			bodies = append(bodies, fl.Body)
		}
		for _, body := range bodies {
			var fg *FGraph
			inspectNoLit(body, func(n ast.Node) bool {
				var call *ast.CallExpr
				var errObj types.Object
				var at token.Pos
				switch t := n.(type) {
				case *ast.AssignStmt:
					if len(t.Rhs) == 1 {
						if ce, ok := t.Rhs[0].(*ast.CallExpr); ok {
							call = ce
							errObj = identObj(info, t.Lhs[len(t.Lhs)-1])
							at = t.Pos()
						}
					}
				}
				if call == nil {
					return true
				}
				name := calleeName(info, call)
				isFail := failing[name] || strings.HasSuffix(name, ").Drain")
				if !isFail || errObj == nil {
					return true
				}
				if fg == nil {
					fg = NewFGraph(body, info)
				}
				// the true edge of `err != nil`
				found := false
				for _, nd := range fg.Nodes {
					for _, e := range nd.Succ {
						if e.Cond == nil {
							continue
						}
						for _, a := range atomise(Fact{e.Cond, e.Tag, e.Truth}) {
							be, ok := ast.Unparen(a.Cond).(*ast.BinaryExpr)
							if !ok || identObj(info, be.X) != errObj || exprStr(be.Y) != "nil" {
								continue
							}
							if !((be.Op == token.NEQ && a.Truth) || (be.Op == token.EQL && !a.Truth)) {
								continue
							}
							if nd.N == nil || nd.N.Pos() < at {
								continue
							}
							found = true
							// from the error edge: the function exit / the end of the if must not be reachable without incErrors
							barrier := func(n2 *FNode) bool { return n2.N != nil && callsIncErrors(info, n2.N) }
							seen := fg.ReachSet(e.To, barrier, nil)
							escaped := seen[fg.Exit]
							if b := fg.Nodes[e.To]; barrier(b) {
								escaped = false
							}
							// also: continuing past the if-statement without counting
							r.Check(!escaped, rule, fi.Name, "err of "+exprStr(call.Fun), c.Pos(e.Cond.Pos()), "path: the error branch counts a read error before leaving", "a failure of "+exprStr(call.Fun)+" can leave the function without incErrors(): the input is silently skipped and the exit status stays 0/1")
						}
					}
				}
				if !found {
					r.Bad(rule, fi.Name, "err of "+exprStr(call.Fun), c.Pos(call.Pos()), "the error result of "+exprStr(call.Fun)+" is never tested")
				}
				return true
			})
		}
	}
	r.Floor(rule, 3, "openFileToReader, followreader.New, Drain")
	// OnError callback: installed before the first Scan; body calls incErrors unconditionally
	const rule2 = "C06-b/scanner-callback"
	for _, name := range []string{"(*Batcher).syncReaderToBatcher", "(*Batcher).syncReaderToBatcherWithTimeFlush"} {
		fi := c.MustFunc(r, rule2, batchersPkg, name)
		if fi == nil {
			continue
		}
		info := fi.Pkg.TypesInfo
		fg := NewFGraph(fi.Decl.Body, info)
		onErrNode, scanNode := -1, -1
		var cb *ast.FuncLit
		for _, nd := range fg.Nodes {
			if nd.N == nil {
				continue
			}
			for _, ce := range callsIn(nd.N) {
				cn := calleeName(info, ce)
				if strings.HasSuffix(cn, ").OnError") && len(ce.Args) == 1 {
					onErrNode = nd.ID
					cb, _ = ast.Unparen(ce.Args[0]).(*ast.FuncLit)
				}
				if strings.HasSuffix(cn, ").Scan") && scanNode < 0 {
					scanNode = nd.ID
				}
			}
		}
		r.Check(onErrNode >= 0 && scanNode >= 0 && fg.Dominates(onErrNode, scanNode), rule2, fi.Name, "OnError before Scan", c.Pos(fi.Decl.Pos()), "order: the error callback is installed before the first Scan", "the scanner is used before (or without) its error callback being installed: read errors are not counted")
		okBody := false
		if cb != nil {
			for _, st := range cb.Body.List {
				if es, ok := st.(*ast.ExprStmt); ok && callsIncErrors(info, es) {
					okBody = true
				}
				if _, isRet := st.(*ast.ReturnStmt); isRet {
					break
				}
				if is, isIf := st.(*ast.IfStmt); isIf {
					// a conditional return before counting skips errors
					hasRet := false
					ast.Inspect(is, func(x ast.Node) bool {
						if _, ok := x.(*ast.ReturnStmt); ok {
							hasRet = true
						}
						return true
					})
					if hasRet && !okBody {
						break
					}
				}
			}
		}
		r.Check(okBody, rule2, fi.Name, "callback counts every error", c.Pos(fi.Decl.Pos()), "shape: incErrors() is an unconditional statement of the callback", "the scanner's error callback does not count every error it is given (incErrors is missing or conditional): some read failures leave the exit status at 0/1")
	}
	r.Floor(rule2, 4, "two loops x (order, body)")
	// ReadErrors returns the field incErrors increments
	const rule3 = "C06-b/read-errors"
	inc := c.MustFunc(r, rule3, batchersPkg, "(*Batcher).incErrors")
	rd := c.MustFunc(r, rule3, batchersPkg, "(*Batcher).ReadErrors")
	if inc != nil && rd != nil {
		info := inc.Pkg.TypesInfo
		var incField, retField *types.Var
		ast.Inspect(inc.Decl.Body, func(x ast.Node) bool {
			if id, ok := x.(*ast.IncDecStmt); ok && id.Tok == token.INC {
				incField = fieldVar(info, id.X)
			}
			if as, ok := x.(*ast.AssignStmt); ok && as.Tok == token.ADD_ASSIGN && len(as.Lhs) == 1 {
				incField = fieldVar(info, as.Lhs[0])
			}
			return true
		})
		ast.Inspect(rd.Decl.Body, func(x ast.Node) bool {
			if rs, ok := x.(*ast.ReturnStmt); ok && len(rs.Results) == 1 {
				if _, inLit := enclosingLit(rd.Decl.Body, rs.Pos()); inLit {
					return true // a return of a nested closure
				}
				retField = fieldVar(info, rs.Results[0])
				if retField == nil {
					// a local that is only ever assigned the field (possibly inside a lock-wrapper closure)
					if o := identObj(info, rs.Results[0]); o != nil {
						var only *types.Var
						consistent := true
						ast.Inspect(rd.Decl.Body, func(y ast.Node) bool {
							if as, ok := y.(*ast.AssignStmt); ok && len(as.Lhs) == len(as.Rhs) {
								for i, l := range as.Lhs {
									if identObj(info, l) == o {
										fv := fieldVar(info, as.Rhs[i])
										if fv == nil || (only != nil && only != fv) {
											consistent = false
										}
										only = fv
									}
								}
							}
							return true
						})
						if consistent {
							retField = only
						}
					}
				}
			}
			return true
		})
		r.Check(incField != nil && incField == retField, rule3, rd.Name, "returns the counted field", c.Pos(rd.Decl.Pos()), "flow: ReadErrors returns the field incErrors increments", "ReadErrors does not return the field that incErrors increments: counted failures never reach the exit status")
	}
	r.Floor(rule3, 1, "ReadErrors")
}

// c06DroppedErrors: in the input-opening packages no call that returns an
// error is used as a bare statement (except deferred closes of read-only
// files, loggers and in-memory writers).
func c06DroppedErrors(c *Ctx, r *Report) {
	const rule = "C06-b/dropped-error"
	errType := types.Universe.Lookup("error").Type()
	for _, fi := range c.AllFuncDecls(batchersPkg, dirwalkPkg) {
		info := fi.Pkg.TypesInfo
		ast.Inspect(fi.Decl.Body, func(n ast.Node) bool {
			es, ok := n.(*ast.ExprStmt)
			if !ok {
				return true
			}
			ce, ok := es.X.(*ast.CallExpr)
			if !ok {
				return true
			}
			sig, ok := info.TypeOf(ce.Fun).(*types.Signature)
			if !ok || sig.Results().Len() == 0 {
				return true
			}
			last := sig.Results().At(sig.Results().Len() - 1).Type()
			if !types.Identical(last, errType) {
				return true
			}
			name := calleeName(info, ce)
			if hasPrefixAny(name, "rare/pkg/logger.", "fmt.", "(*strings.Builder)", "(*bytes.Buffer)") {
				return true
			}
			if name == "(*os.File).Close" {
				r.OK(rule, fi.Name, exprStr(ce), c.Pos(ce.Pos()), "reviewed: closing a file opened read-only cannot lose data")
				return true
			}
			if name == "path/filepath.Walk" {
				r.OK(rule, fi.Name, exprStr(ce.Fun), c.Pos(ce.Pos()), "reviewed: Walk only fails through the callback's own error return (unreadable directory), which aborts the rest of that walk silently - a limitation recorded in DESIGN.md, not demonstrable as root")
				return true
			}
			r.Bad(rule, fi.Name, exprStr(ce), c.Pos(ce.Pos()), "the error returned by "+exprStr(ce.Fun)+" is discarded: when it fails (e.g. Seek on a pipe after the gzip probe consumed bytes) the input is read from the wrong position, silently")
			return true
		})
	}
	r.OK(rule, batchersPkg, "scan", "-", "scan: bare call statements returning an error were examined in batchers and dirwalk")
}

// c06FileOwner: what openFileToReader returns must close the *os.File it opened.
func c06FileOwner(c *Ctx, r *Report) {
	const rule = "C06-c/file-owner"
	n := 0
	for _, fi := range c.AllFuncDecls(batchersPkg, "rare/pkg/followreader") {
		info := fi.Pkg.TypesInfo
		// x, err := os.Open(..)
		var opened []types.Object
		ast.Inspect(fi.Decl.Body, func(x ast.Node) bool {
			as, ok := x.(*ast.AssignStmt)
			if !ok || len(as.Rhs) != 1 {
				return true
			}
			if ce, ok := as.Rhs[0].(*ast.CallExpr); ok && calleeName(info, ce) == "os.Open" {
				if o := identObj(info, as.Lhs[0]); o != nil {
					opened = append(opened, o)
				}
			}
			return true
		})
		if len(opened) == 0 {
			continue
		}
		for _, f := range opened {
			n++
			// aliases: variables assigned from f
			alias := map[types.Object]string{f: "file"}
			for pass := 0; pass < 3; pass++ {
				ast.Inspect(fi.Decl.Body, func(x ast.Node) bool {
					handle := func(lhs ast.Expr, rhs ast.Expr) {
						lo := identObj(info, lhs)
						if lo == nil {
							return
						}
						rhs = ast.Unparen(rhs)
						if ro := identObj(info, rhs); ro != nil {
							if k, ok := alias[ro]; ok {
								if _, had := alias[lo]; !had || k == "wrapper" {
									alias[lo] = k
								}
							}
							return
						}
						if ce, ok := rhs.(*ast.CallExpr); ok {
							cn := calleeName(info, ce)
							wraps := false
							for _, a := range ce.Args {
								if _, ok := alias[identObj(info, a)]; ok {
									wraps = true
								}
							}
							if wraps && (cn == "compress/gzip.NewReader" || cn == "bufio.NewReader" || cn == "io.LimitReader") {
								alias[lo] = "wrapper" // does not close the underlying file
							}
						}
						// composite literal holding the file (and possibly the wrapper): owns it if its type has a Close method
						if ue, ok := rhs.(*ast.UnaryExpr); ok && ue.Op == token.AND {
							rhs = ast.Unparen(ue.X)
						}
						if cl, ok := rhs.(*ast.CompositeLit); ok {
							holdsFile := false
							for _, el := range cl.Elts {
								v := el
								if kv, ok := el.(*ast.KeyValueExpr); ok {
									v = kv.Value
								}
								if k, ok := alias[identObj(info, v)]; ok && k == "file" {
									holdsFile = true
								}
							}
							if holdsFile {
								alias[lo] = "file"
							}
						}
					}
					switch t := x.(type) {
					case *ast.AssignStmt:
						if len(t.Lhs) == len(t.Rhs) {
							for i := range t.Lhs {
								handle(t.Lhs[i], t.Rhs[i])
							}
						} else if len(t.Rhs) == 1 && len(t.Lhs) >= 1 {
							handle(t.Lhs[0], t.Rhs[0])
						}
					case *ast.ValueSpec:
						for i, id := range t.Names {
							if i < len(t.Values) {
								handle(id, t.Values[i])
							}
						}
					}
					return true
				})
			}
			// closed locally (defer f.Close()) or returned
			closedLocally := false
			ast.Inspect(fi.Decl.Body, func(x ast.Node) bool {
				if d, ok := x.(*ast.DeferStmt); ok {
					if se, ok := d.Call.Fun.(*ast.SelectorExpr); ok && se.Sel.Name == "Close" && alias[identObj(info, se.X)] == "file" {
						closedLocally = true
					}
				}
				return true
			})
			if closedLocally {
				r.OK(rule, fi.Name, f.Name()+" := os.Open", c.Pos(f.Pos()), "pairing: closed by a deferred Close in the opening function")
				continue
			}
			ok, detail := true, ""
			returned := false
			inspectNoLit(fi.Decl.Body, func(x ast.Node) bool {
				rs, isRet := x.(*ast.ReturnStmt)
				if !isRet || len(rs.Results) == 0 {
					return true
				}
				v := ast.Unparen(rs.Results[0])
				if exprStr(v) == "nil" {
					return true
				}
				returned = true
				rhs := v
				if ue, isU := rhs.(*ast.UnaryExpr); isU && ue.Op == token.AND {
					rhs = ast.Unparen(ue.X)
				}
				if cl, isCL := rhs.(*ast.CompositeLit); isCL {
					holds := false
					for _, el := range cl.Elts {
						vv := el
						if kv, isKV := el.(*ast.KeyValueExpr); isKV {
							vv = kv.Value
						}
						if alias[identObj(info, vv)] == "file" {
							holds = true
						}
					}
					if !holds {
						ok, detail = false, "returns a value that does not hold the opened file"
					}
					return true
				}
				k, known := alias[identObj(info, v)]
				if !known {
					return true
				}
				if k == "wrapper" {
					ok, detail = false, "returns "+exprStr(v)+", a reader wrapped around the opened file whose Close does not close the file"
				}
				return true
			})
			// an alias variable that is "wrapper" on one path and "file" on another is reported through the assignment scan:
			// check assignments `file = zfile` where zfile is a wrapper and file is later returned
			ast.Inspect(fi.Decl.Body, func(x ast.Node) bool {
				as, isAs := x.(*ast.AssignStmt)
				if !isAs || len(as.Lhs) != 1 || len(as.Rhs) != 1 || as.Tok != token.ASSIGN {
					return true
				}
				lo, ro := identObj(info, as.Lhs[0]), identObj(info, as.Rhs[0])
				if lo == nil || ro == nil {
					return true
				}
				// is ro directly the result of a non-closing wrapper constructor around the file?
				wrapperVar := false
				ast.Inspect(fi.Decl.Body, func(y ast.Node) bool {
					a2, ok := y.(*ast.AssignStmt)
					if !ok || len(a2.Rhs) != 1 {
						return true
					}
					if identObj(info, a2.Lhs[0]) != ro {
						return true
					}
					if ce, ok := a2.Rhs[0].(*ast.CallExpr); ok && calleeName(info, ce) == "compress/gzip.NewReader" {
						wrapperVar = true
					}
					return true
				})
				if wrapperVar {
					// lo must not be a returned variable
					inspectNoLit(fi.Decl.Body, func(y ast.Node) bool {
						if rs, isRet := y.(*ast.ReturnStmt); isRet && len(rs.Results) > 0 && identObj(info, rs.Results[0]) == lo {
							ok, detail = false, "the returned variable "+lo.Name()+" is re-bound to the gzip reader, whose Close does not close the underlying *os.File"
						}
						return true
					})
				}
				return true
			})
			if !returned {
				ok, detail = false, "the opened file is neither closed nor returned"
			}
			// Advisory only: the descriptor is reclaimed by the *os.File finalizer, and exhaustion could not be
			// demonstrated (600 gzip inputs under RLIMIT_NOFILE=40 were all read), so this is not a violation of C06.
			if ok {
				r.OK(rule, fi.Name, f.Name()+" := os.Open", c.Pos(f.Pos()), "ownership: whatever is returned closes the opened file")
			} else {
				r.OK(rule, fi.Name, f.Name()+" := os.Open", c.Pos(f.Pos()), "advisory: "+detail+"; the descriptor is only released by the file's finalizer (not a demonstrable failure, see DESIGN.md)")
				r.Notes = append(r.Notes, "advisory (not a violation): "+fi.Name+": "+detail)
			}
		}
	}
	r.Floor(rule, 1, "openFileToReader")
	_ = n
}

func c06Expansion(c *Ctx, r *Report) {
	const rule = "C06-d/expansion"
	fi := c.MustFunc(r, rule, dirwalkPkg, "GlobExpand")
	if fi == nil {
		return
	}
	info := fi.Pkg.TypesInfo
	// the goroutine literal
	var golit *ast.FuncLit
	ast.Inspect(fi.Decl.Body, func(n ast.Node) bool {
		if g, ok := n.(*ast.GoStmt); ok && golit == nil {
			golit, _ = ast.Unparen(g.Call.Fun).(*ast.FuncLit)
		}
		return true
	})
	if golit == nil {
		r.Undecided(rule, fi.Name, "goroutine", c.Pos(fi.Decl.Pos()), "producer goroutine not found")
		return
	}
	var loop *ast.RangeStmt
	for _, st := range golit.Body.List {
		if rs, ok := st.(*ast.RangeStmt); ok {
			loop = rs
		}
	}
	if loop == nil {
		r.Undecided(rule, fi.Name, "path loop", c.Pos(golit.Pos()), "loop over the path arguments not found")
		return
	}
	pathVar := identObj(info, loop.Value)
	// every path through the loop body either sends at least once, logs an error, or runs Walk/ranges over a non-empty expansion
	fg := NewFGraph(golit.Body, info)
	bodyHead, loopHead := -1, -1
	for _, nd := range fg.Nodes {
		if nd.N == nil && nd.Block != nil && nd.Block.Stmt == ast.Stmt(loop) {
			switch nd.Block.Kind.String() {
			case "RangeBody":
				bodyHead = nd.ID
			case "RangeLoop":
				loopHead = nd.ID
			}
		}
	}
	nPaths := 0
	if bodyHead >= 0 && loopHead >= 0 {
		enumPaths(fg, bodyHead, func(id int) bool { return id == loopHead }, func(nodes []int, edges []FEdge) {
			nPaths++
			sends, walks, logs, emptyRange := 0, 0, 0, false
			for _, id := range nodes {
				nd := fg.Nodes[id]
				if nd.N == nil {
					continue
				}
				sends += len(nodeSends(c, info, nd))
				for _, ce := range callsIn(nd.N) {
					cn := calleeName(info, ce)
					if cn == "path/filepath.Walk" || cn == "path/filepath.WalkDir" {
						walks++
					}
					if strings.HasPrefix(cn, "rare/pkg/logger.") {
						logs++
					}
				}
			}
			// a path that skips an inner range (zero iterations) without sending: only acceptable if guarded by len(expanded) > 0 elsewhere
			for _, e := range edges {
				_ = e
			}
			_ = emptyRange
			// a log line alone is not handling: nothing is counted, so the exit status stays 0/1 and the
			// named input is silently never read
			_ = logs
			okP := sends > 0 || walks > 0
			if !okP {
				// the zero-iteration path of `for _, item := range expanded` under len(expanded) > 0 is infeasible
				for _, e := range edges {
					if e.Cond != nil && strings.Contains(exprStr(e.Cond), "len(") && strings.Contains(exprStr(e.Cond), "> 0") && e.Truth {
						okP = true
					}
				}
			}
			r.Check(okP, rule, fi.Name, "path argument handled", c.Pos(loop.Pos()), "path: every way through the loop body emits the path itself, its expansions, or walks it", "a path argument can pass through the expansion loop without being emitted, expanded or walked (a log line counts nothing): that input is never opened, so it is neither read nor counted as a read error and the exit status does not become 2")
		})
	}
	// the literal fallback sends the loop variable itself
	fallback := false
	for _, st := range sendSitesIn(c, info, loop.Body) {
		if identObj(info, st.callerExpr(st.Stmt.Value)) == pathVar {
			fallback = true
		}
	}
	r.Check(fallback, rule, fi.Name, "literal fallback", c.Pos(loop.Pos()), "flow: a pattern without matches is passed on literally (so the open error is reported)", "a path that matches nothing is dropped instead of being passed on literally")
	// walk callback sends its own path parameter for non-directories
	ast.Inspect(loop.Body, func(n ast.Node) bool {
		ce, ok := n.(*ast.CallExpr)
		if !ok || calleeName(info, ce) != "path/filepath.Walk" || len(ce.Args) != 2 {
			return true
		}
		cb, ok := ast.Unparen(ce.Args[1]).(*ast.FuncLit)
		if !ok {
			r.Undecided(rule, fi.Name, "walk callback", c.Pos(ce.Pos()), "walk callback is not a literal")
			return true
		}
		var p0 types.Object
		if len(cb.Type.Params.List) > 0 && len(cb.Type.Params.List[0].Names) > 0 {
			p0 = info.Defs[cb.Type.Params.List[0].Names[0]]
		}
		okSend := false
		ast.Inspect(cb.Body, func(m ast.Node) bool {
			if ss, ok := m.(*ast.SendStmt); ok {
				okSend = identObj(info, ss.Value) == p0
			}
			return true
		})
		r.Check(okSend, rule, fi.Name, "walk sends its path argument", c.Pos(cb.Pos()), "flow: the walked file is emitted under the path the walk reports", "the walk callback emits something other than the path it was given: nested files are reported under a wrong (non-existent or duplicate) name")
		// walking the loop variable
		r.Check(identObj(info, ce.Args[0]) == pathVar, rule, fi.Name, "walk root", c.Pos(ce.Pos()), "flow: the walk starts at the path argument", "the recursive walk does not start at the path argument")
		return true
	})
	r.Floor(rule, 5, "loop paths, fallback, walk callback")
}

func c06Stdin(c *Ctx, r *Report) {
	const rule = "C06-e/stdin"
	fi := c.MustFunc(r, rule, "rare/cmd/helpers", "BuildBatcherFromArguments")
	if fi == nil {
		return
	}
	info := fi.Pkg.TypesInfo
	vi := analyseVars(info, fi.Decl)
	fg := NewFGraph(fi.Decl.Body, info)
	fg.SolveFacts(vi)
	found := false
	ast.Inspect(fi.Decl.Body, func(n ast.Node) bool {
		ce, ok := n.(*ast.CallExpr)
		if !ok || calleeName(info, ce) != batchersPkg+".OpenReaderToChan" || len(ce.Args) < 2 {
			return true
		}
		found = true
		name, isC := constString(info, ce.Args[0])
		okName := isC && name == "<stdin>" && exprStr(ce.Args[1]) == "os.Stdin"
		r.Check(okName, rule, fi.Name, exprStr(ce.Fun), c.Pos(ce.Pos()), "constant: standard input is read under the name <stdin>", "standard input is not opened as (\"<stdin>\", os.Stdin)")
		return true
	})
	if !found {
		r.Bad(rule, fi.Name, "OpenReaderToChan", c.Pos(fi.Decl.Pos()), "standard input is never read")
	}
	// the condition: at the call, a decision `len(args) == 0 || args[0] == "-"` is known to have been taken
	// with the answer true (if / else-if / tagless switch alike)
	okCond := false
	ast.Inspect(fi.Decl.Body, func(n ast.Node) bool {
		ce, ok := n.(*ast.CallExpr)
		if !ok || calleeName(info, ce) != batchersPkg+".OpenReaderToChan" {
			return true
		}
		isGuard := func(cond ast.Expr) bool {
			be, isBin := ast.Unparen(cond).(*ast.BinaryExpr)
			if !isBin || be.Op != token.LOR {
				return false
			}
			emptyArgs, dash := false, false
			for _, d := range []ast.Expr{be.X, be.Y} {
				d2, isB := ast.Unparen(d).(*ast.BinaryExpr)
				if !isB || d2.Op != token.EQL {
					continue
				}
				if k, isK := constInt(info, d2.Y); isK && k == 0 {
					if lc, isCall := ast.Unparen(d2.X).(*ast.CallExpr); isCall && calleeName(info, lc) == "builtin.len" {
						emptyArgs = true
					}
				}
				if sv, isS := constString(info, d2.Y); isS && sv == "-" {
					if ix, isIx := ast.Unparen(d2.X).(*ast.IndexExpr); isIx {
						if k, isK := constInt(info, ix.Index); isK && k == 0 {
							dash = true
						}
					}
				}
			}
			return emptyArgs && dash
		}
		target := fg.NodeOf(ce.Pos())
		if target < 0 {
			return true
		}
		paths, all := 0, true
		enumPaths(fg, fg.Entry, func(id int) bool { return id == target }, func(nodes []int, edges []FEdge) {
			paths++
			took := false
			for _, e := range edges {
				if e.Cond != nil && e.Tag == nil && e.Truth && isGuard(e.Cond) {
					took = true
				}
			}
			if !took {
				all = false
			}
		})
		if paths > 0 && all {
			okCond = true
		}
		return true
	})
	r.Check(okCond, rule, fi.Name, "no argument or '-'", c.Pos(fi.Decl.Pos()), "guard: stdin is chosen iff there is no argument or the first is '-'", "the choice of standard input is no longer guarded by `no arguments || first argument is \"-\"`")
	r.Floor(rule, 2, "name and guard")
}

// c06OpenFailures (C06-b/open-failures): with -z a file that is not gzip is
// read as a plain file; the only ways openFileToReader may fail are the open
// itself and the rewind after the probe. Every error it returns must come
// from os.Open or (*os.File).Seek.
func c06OpenFailures(c *Ctx, r *Report) {
	const rule = "C06-b/open-failures"
	fi := c.MustFunc(r, rule, batchersPkg, "openFileToReader")
	if fi == nil {
		return
	}
	info := fi.Pkg.TypesInfo
	fg := NewFGraph(fi.Decl.Body, info)
	n := 0
	inspectNoLit(fi.Decl.Body, func(x ast.Node) bool {
		rs, ok := x.(*ast.ReturnStmt)
		if !ok || len(rs.Results) != 2 {
			return true
		}
		if id, ok := ast.Unparen(rs.Results[1]).(*ast.Ident); ok && id.Name == "nil" {
			return true
		}
		n++
		eo := identObj(info, rs.Results[1])
		if eo == nil {
			r.Bad(rule, fi.Name, stmtStr(rs), c.Pos(rs.Pos()), "the returned error is a computed expression: cannot tell which failure makes the input unreadable")
			return true
		}
		// reaching definitions of the error variable at this return (the same `err` may be re-used by := further down)
		var origins []string
		retNode := fg.NodeOf(rs.Pos())
		isDef := func(nd *FNode) bool {
			as, ok := nd.N.(*ast.AssignStmt)
			if !ok {
				return false
			}
			for _, l := range as.Lhs {
				if identObj(info, l) == eo {
					return true
				}
			}
			return false
		}
		for _, nd := range fg.Nodes {
			if nd.N == nil || !isDef(nd) {
				continue
			}
			if !fg.Reaches(nd.ID, retNode, isDef) {
				continue
			}
			as := nd.N.(*ast.AssignStmt)
			if len(as.Rhs) == 1 {
				if ce, ok := ast.Unparen(as.Rhs[0]).(*ast.CallExpr); ok {
					origins = append(origins, calleeName(info, ce))
					continue
				}
			}
			origins = append(origins, stmtStr(as))
		}
		// definitions in an if/switch init clause (if _, err := f(); err != nil) are separate statements for go/cfg too
		bad := ""
		for _, o := range origins {
			if o != "os.Open" && o != "(*os.File).Seek" && o != "os.OpenFile" {
				bad = o
			}
		}
		if len(origins) == 0 {
			bad = "an unknown origin"
		}
		r.Check(bad == "", rule, fi.Name, stmtStr(rs), c.Pos(rs.Pos()), "flow: the error comes from opening or rewinding the file",
			"openFileToReader fails with an error from "+bad+": a file that merely is not (complete) gzip data - e.g. a plain file shorter than the gzip header - is reported as unreadable instead of being read from its first byte")
		return true
	})
	r.Floor(rule, 2, "open failure and rewind failure")
}

// enclosingLit reports whether pos lies inside a function literal nested in root.
func enclosingLit(root ast.Node, pos token.Pos) (*ast.FuncLit, bool) {
	var out *ast.FuncLit
	ast.Inspect(root, func(n ast.Node) bool {
		if fl, ok := n.(*ast.FuncLit); ok && within(fl, pos) {
			out = fl
		}
		return true
	})
	return out, out != nil
}
