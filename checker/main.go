package main

import (
	"encoding/json"
	"flag"
	"fmt"
	"os"
	"sort"
	"strconv"
	"strings"
	"time"
)

type propFunc func(c *Ctx, r *Report)

type propDef struct {
	ID      string
	Run     propFunc
	Explain string
	Assume  []string
}

var props = map[string]*propDef{}

func register(p *propDef) { props[p.ID] = p }

func main() {
	prop := flag.String("property", "", "property id (C01..C20)")
	tier := flag.String("tier", "quick", "quick|thorough")
	repo := flag.String("repo", "/repo", "repository root")
	verif := flag.String("verif", "/verif", "verif root (evidence, known_findings.txt)")
	noEv := flag.Bool("no-evidence", false, "do not write evidence/replay files")
	dump := flag.String("dump", "", "debug: dump undischarged obligations of a scope")
	list := flag.Bool("list", false, "print every obligation")
	writeAnchors := flag.String("write-anchors", "", "maintenance: run every property once and write the receiver/signature of every anchor function to this file")
	writeNamesTo := flag.String("write-names", "", "maintenance: write the inventory of declared names (types, fields, vars, functions, locals) of the tree to this file")
	flag.Parse()
	if *writeNamesTo != "" {
		c, err := LoadOverlay(*repo, BuildConfig{"linux", "amd64"}, nil)
		if err == nil {
			err = writeNames(c, *writeNamesTo)
		}
		if err != nil {
			fmt.Fprintln(os.Stderr, err)
			os.Exit(2)
		}
		return
	}
	if *writeAnchors != "" {
		c, err := Load(*repo, BuildConfig{"linux", "amd64"})
		if err != nil {
			fmt.Fprintln(os.Stderr, err)
			os.Exit(2)
		}
		for _, pd := range props {
			func() {
				defer func() { recover() }()
				pd.Run(c, NewReport(pd.ID, "quick"))
			}()
		}
		// functions named by reviewed entries and functions rules recognise as callees are anchors too
		for _, tab := range [][]reviewedEntry{reviewedExpr, reviewedRender, reviewedReadahead, reviewedAgg, reviewedDissect} {
			for _, re := range tab {
				pk, nm := splitDisplayName(re.Where)
				if nm != "" {
					c.Func(pk, nm)
				}
			}
		}
		for _, a := range calleeAnchors {
			c.Func(a[0], a[1])
		}
		out := map[string]string{}
		for k, fi := range anchorsSeen {
			out[k] = sigKey(fi.Pkg, fi.Decl)
		}
		b, _ := json.MarshalIndent(out, "", " ")
		if err := os.WriteFile(*writeAnchors, append(b, '\n'), 0o644); err != nil {
			fmt.Fprintln(os.Stderr, err)
			os.Exit(2)
		}
		fmt.Printf("%d anchors written\n", len(out))
		return
	}
	t0 := time.Now()
	seed := int64(0)
	if s := os.Getenv("VERIF_SEED"); s != "" {
		if v, err := strconv.ParseInt(s, 10, 64); err == nil {
			seed = v
		}
	}
	if *dump != "" {
		debugDump(*repo, *dump)
		return
	}
	if f := os.Getenv("RARECHECK_DUMP_INLINED"); f != "" && *prop == "" {
		c, err := Load(*repo, BuildConfig{"linux", "amd64"})
		if err != nil {
			fmt.Fprintln(os.Stderr, err)
			os.Exit(2)
		}
		nc, n, err := LoadNormalised(c)
		fmt.Fprintf(os.Stderr, "normalised: %d call sites expanded, err=%v, ok=%v\n", n, err, nc != nil)
		return
	}
	pd := props[*prop]
	if pd == nil {
		fmt.Fprintf(os.Stderr, "unknown property %q\n", *prop)
		os.Exit(2)
	}
	configs := []BuildConfig{{"linux", "amd64"}}
	if *tier == "thorough" {
		configs = append(configs, BuildConfig{"windows", "amd64"}, BuildConfig{"linux", "386"})
	}
	r := NewReport(pd.ID, *tier)
	r.Explain = pd.Explain
	r.Assume = pd.Assume
	var first *Ctx
	var cfgNames []string
	for _, bc := range configs {
		cfgNames = append(cfgNames, bc.String())
		r.curCfg = bc.String()
		c, err := Load(*repo, bc)
		if err != nil {
			r.Undecided("harness", "load", bc.String(), "-", err.Error())
			continue
		}
		if first == nil {
			first = c
		}
		if len(c.RenameNotes) > 0 {
			r.Notes = append(r.Notes, bc.String()+": "+strings.Join(c.RenameNotes, "; "))
		}
		start := len(r.Obs)
		if os.Getenv("RARECHECK_FORCE_VIEW") != "" {
			// maintenance: analyse the normalised view itself, to see what it fails on
			if nc, n, err := LoadNormalised(c); nc != nil {
				fmt.Fprintf(os.Stderr, "analysing the normalised view (%d expansions)\n", n)
				c = nc
			} else {
				fmt.Fprintln(os.Stderr, "no normalised view:", err)
			}
		}
		func() {
			defer func() {
				if e := recover(); e != nil {
					r.Undecided("harness", "analyser", "panic", "-", fmt.Sprintf("analyser panicked: %v", e))
					if os.Getenv("RARECHECK_DEBUG") != "" {
						panic(e)
					}
				}
			}()
			pd.Run(c, r)
		}()
		secondOpinion(pd, c, r, start, *verif)
	}
	r.curCfg = ""
	if *tier == "thorough" {
		runSelfTest(pd.ID, *repo, *verif, seed, r)
	}
	if *list {
		obs := append([]Ob(nil), r.Obs...)
		sort.SliceStable(obs, func(i, j int) bool { return obs[i].Rule < obs[j].Rule })
		for _, o := range obs {
			fmt.Printf("%-12s %-10s %s  [%s] %s%s\n", o.Status, o.Rule, o.Key, o.Pos, o.By, o.Detail)
		}
	}
	os.Exit(r.Finish(*verif, seed, t0, first, cfgNames, !*noEv))
}

// secondOpinion: rules that fail on the program as written are evaluated once
// more on the normalised view (private helpers expanded in place, inline.go).
// A rule that holds there - with at least as many instances as its floor - is
// taken from that view; what fails in both views is reported from the
// original. The obligations of r from index start on belong to the current
// configuration.
func secondOpinion(pd *propDef, c *Ctx, r *Report, start int, verif string) {
	if os.Getenv("RARECHECK_NO_NORMALISE") != "" {
		return
	}
	known := map[string]bool{}
	if fs, err := loadFindings(verif + "/known_findings.txt"); err == nil {
		for _, f := range fs {
			if f.Kind == "finding" && f.Prop == r.Prop {
				known[f.Key] = true
			}
		}
	}
	failing := map[string]bool{}
	counts := map[string]int{}
	for _, o := range r.Obs[start:] {
		counts[o.Rule]++
		if (o.Status == "violation" && !known[keyForFile(o.Key)]) || o.Status == "undecided" {
			failing[o.Rule] = true
		}
	}
	for rule, fl := range r.floors {
		if counts[rule] < fl {
			failing[rule] = true
		}
	}
	if len(failing) == 0 {
		return
	}
	nc, n, err := LoadNormalised(c)
	if nc == nil {
		if err != nil {
			r.Notes = append(r.Notes, "normalised view not available: "+err.Error())
		}
		return
	}
	r2 := NewReport(r.Prop, r.Tier)
	r2.curCfg = r.curCfg
	func() {
		defer func() {
			if e := recover(); e != nil {
				r2.Undecided("harness", "analyser", "panic", "-", fmt.Sprintf("analyser panicked on the normalised view: %v", e))
			}
		}()
		pd.Run(nc, r2)
	}()
	cnt2, bad2 := map[string]int{}, map[string]int{}
	for _, o := range r2.Obs {
		cnt2[o.Rule]++
		if (o.Status == "violation" && !known[keyForFile(o.Key)]) || o.Status == "undecided" {
			bad2[o.Rule]++
		}
	}
	for _, o := range r2.Obs {
		if o.Rule == "harness" {
			return // the view could not be analysed: keep the original verdict
		}
	}
	if os.Getenv("RARECHECK_DEBUG") != "" {
		for rule := range failing {
			fmt.Fprintf(os.Stderr, "second opinion: %s instances=%d bad=%d floor=%d/%d\n", rule, cnt2[rule], bad2[rule], r.floors[rule], r2.floors[rule])
			for _, o := range r2.Obs {
				if o.Rule == rule && o.Status != "discharged" {
					fmt.Fprintf(os.Stderr, "   %s %s %s %s\n", o.Status, o.Key, o.Pos, o.Detail)
				}
			}
		}
	}
	var kept []Ob
	kept = append(kept, r.Obs[:start]...)
	replaced := map[string]bool{}
	for rule := range failing {
		fl := r.floors[rule]
		if f2, ok := r2.floors[rule]; ok && f2 > fl {
			fl = f2
		}
		if bad2[rule] == 0 && cnt2[rule] >= fl && cnt2[rule] > 0 {
			replaced[rule] = true
		}
	}
	// a rule that fails in both views is reported from the original; when the original only lost
	// sight of the code (too few instances) and the view sees it again and finds it wrong, the view's
	// findings name the construct, so they are added to the report
	for rule := range failing {
		if replaced[rule] || bad2[rule] == 0 || cnt2[rule] < r.floors[rule] {
			continue
		}
		origBad := 0
		for _, o := range r.Obs[start:] {
			if o.Rule == rule && (o.Status == "violation" || o.Status == "undecided") {
				origBad++
			}
		}
		if origBad > 0 {
			continue
		}
		for _, o := range r2.Obs {
			if o.Rule == rule && (o.Status == "violation" || o.Status == "undecided") {
				o.Detail = fmt.Sprintf("(seen once %d private helper calls are expanded in place) %s", n, o.Detail)
				o.Pos = "~" + o.Pos
				r.Obs = append(r.Obs, o)
			}
		}
	}
	if len(replaced) == 0 {
		return
	}
	kept = append([]Ob{}, r.Obs[:start]...)
	for _, o := range r.Obs[start:] {
		if !replaced[o.Rule] {
			kept = append(kept, o)
		}
	}
	for _, o := range r2.Obs {
		if replaced[o.Rule] {
			o.By = fmt.Sprintf("normalised view (%d helper calls expanded in place): %s", n, o.By)
			o.Pos = "~" + o.Pos
			kept = append(kept, o)
		}
	}
	r.Obs = kept
	var names []string
	for rule := range replaced {
		names = append(names, rule)
	}
	sort.Strings(names)
	r.Notes = append(r.Notes, fmt.Sprintf("%s: rule(s) %v did not hold on the program as written but hold once private helpers are expanded in place; verdict taken from the normalised view", r.curCfg, names))
}

// calleeAnchors: repository functions that rules recognise by name when they are called.
var calleeAnchors = [][2]string{
	{"rare/pkg/readahead", "dropCR"}, {"rare/pkg/extractor/batchers", "(*Batcher).incErrors"},
	{"rare/pkg/expressions", "splitTokenizedArguments"}, {"rare/pkg/expressions/stdlib", "csvItemEncode"},
	{"rare/pkg/expressions", "(*CompiledKeyBuilder).optimize"}, {"rare/pkg/minijson", "escape"},
	{"rare/pkg/multiterm", "eraseRemainingLine"}, {"rare/pkg/multiterm", "hideCursor"}, {"rare/pkg/multiterm", "showCursor"},
	{"rare/pkg/multiterm", "moveUp"}, {"rare/pkg/expressions/stdlib", "isArgCountBetween"},
	{"rare/pkg/expressions", "stageSimpleVariable"}, {"rare/pkg/expressions", "stageLiteral"},
	{"rare/pkg/extractor/batchers", "(*Batcher).syncReaderToBatcher"}, {"rare/pkg/extractor/batchers", "(*Batcher).syncReaderToBatcherWithTimeFlush"},
	{"rare/pkg/multiterm/termunicode", "barWriteRunes"},
}
