package main

import (
	"flag"
	"fmt"
	"os"
	"sort"
	"strconv"
	"time"
)

type propFunc func(c *Ctx, r *Report)

type propDef struct {
	ID      string
	Run     propFunc
	Explain string
	Assume  []string
}

var props = map[string]*propDef{}

func register(p *propDef) { props[p.ID] = p }

func main() {
	prop := flag.String("property", "", "property id (C01..C20)")
	tier := flag.String("tier", "quick", "quick|thorough")
	repo := flag.String("repo", "/repo", "repository root")
	verif := flag.String("verif", "/verif", "verif root (evidence, known_findings.txt)")
	noEv := flag.Bool("no-evidence", false, "do not write evidence/replay files")
	dump := flag.String("dump", "", "debug: dump undischarged obligations of a scope")
	list := flag.Bool("list", false, "print every obligation")
	flag.Parse()
	t0 := time.Now()
	seed := int64(0)
	if s := os.Getenv("VERIF_SEED"); s != "" {
		if v, err := strconv.ParseInt(s, 10, 64); err == nil {
			seed = v
		}
	}
	if *dump != "" {
		debugDump(*repo, *dump)
		return
	}
	pd := props[*prop]
	if pd == nil {
		fmt.Fprintf(os.Stderr, "unknown property %q\n", *prop)
		os.Exit(2)
	}
	configs := []BuildConfig{{"linux", "amd64"}}
	if *tier == "thorough" {
		configs = append(configs, BuildConfig{"windows", "amd64"}, BuildConfig{"linux", "386"})
	}
	r := NewReport(pd.ID, *tier)
	r.Explain = pd.Explain
	r.Assume = pd.Assume
	var first *Ctx
	var cfgNames []string
	for _, bc := range configs {
		cfgNames = append(cfgNames, bc.String())
		r.curCfg = bc.String()
		c, err := Load(*repo, bc)
		if err != nil {
			r.Undecided("harness", "load", bc.String(), "-", err.Error())
			continue
		}
		if first == nil {
			first = c
		}
		func() {
			defer func() {
				if e := recover(); e != nil {
					r.Undecided("harness", "analyser", "panic", "-", fmt.Sprintf("analyser panicked: %v", e))
					if os.Getenv("RARECHECK_DEBUG") != "" {
						panic(e)
					}
				}
			}()
			pd.Run(c, r)
		}()
	}
	r.curCfg = ""
	if *tier == "thorough" {
		runSelfTest(pd.ID, *repo, *verif, seed, r)
	}
	if *list {
		obs := append([]Ob(nil), r.Obs...)
		sort.SliceStable(obs, func(i, j int) bool { return obs[i].Rule < obs[j].Rule })
		for _, o := range obs {
			fmt.Printf("%-12s %-10s %s  [%s] %s%s\n", o.Status, o.Rule, o.Key, o.Pos, o.By, o.Detail)
		}
	}
	os.Exit(r.Finish(*verif, seed, t0, first, cfgNames, !*noEv))
}
