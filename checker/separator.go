package main

// Separator discipline: a conditional separator write inside a loop must be
// guarded by an "an element was already emitted" fact in an accepted form.

import (
	"fmt"
	"go/ast"
	"go/token"
	"go/types"
	"strings"
)

type sepSite struct {
	Fi    *FuncInfo
	Loop  ast.Stmt
	If    *ast.IfStmt
	Write *ast.CallExpr
	OK    bool
	Why   string
}

func isWriteCall(info *types.Info, ce *ast.CallExpr) (recv string, ok bool) {
	se, isSel := ce.Fun.(*ast.SelectorExpr)
	if !isSel {
		return "", false
	}
	switch se.Sel.Name {
	case "WriteString", "WriteRune", "WriteByte":
		return exprStr(se.X), true
	}
	return "", false
}

// findSeparatorSites locates `if COND { w.Write*(SEP) }` inside loops that
// also write elements to the same writer.
func findSeparatorSites(c *Ctx, prefixes ...string) []sepSite {
	var out []sepSite
	for _, fi := range c.AllFuncDecls(prefixes...) {
		if isTestSupportPkg(fi.Pkg.PkgPath) {
			continue
		}
		info := fi.Pkg.TypesInfo
		var loops []ast.Stmt
		ast.Inspect(fi.Decl.Body, func(n ast.Node) bool {
			switch t := n.(type) {
			case *ast.ForStmt:
				loops = append(loops, t)
			case *ast.RangeStmt:
				loops = append(loops, t)
			}
			return true
		})
		for _, lp := range loops {
			var body *ast.BlockStmt
			switch t := lp.(type) {
			case *ast.ForStmt:
				body = t.Body
			case *ast.RangeStmt:
				body = t.Body
			}
			// conditional single-write ifs directly in this loop (not in a nested loop)
			ast.Inspect(body, func(n ast.Node) bool {
				switch n.(type) {
				case *ast.ForStmt, *ast.RangeStmt, *ast.FuncLit:
					return false
				}
				is, ok := n.(*ast.IfStmt)
				if !ok || is.Else != nil || len(is.Body.List) != 1 {
					return true
				}
				es, ok := is.Body.List[0].(*ast.ExprStmt)
				if !ok {
					return true
				}
				ce, ok := es.X.(*ast.CallExpr)
				if !ok {
					return true
				}
				recv, isW := isWriteCall(info, ce)
				if !isW || len(ce.Args) != 1 {
					return true
				}
				// the argument is a list separator: the array separator constant, a comma, or a
				// delimiter parameter of the enclosing function (not something derived from the loop element)
				arg := ast.Unparen(ce.Args[0])
				isSep := false
				if tv, ok := info.Types[arg]; ok && tv.Value != nil {
					v := tv.Value.ExactString()
					switch v {
					case "0", `"\x00"`, `","`, `", "`, "44":
						isSep = true
					}
				} else if id, isId := arg.(*ast.Ident); isId {
					if o, isVar := info.Uses[id].(*types.Var); isVar && !within(lp, o.Pos()) {
						// a parameter of the function or of an enclosing literal
						isParam := false
						ast.Inspect(fi.Decl, func(m ast.Node) bool {
							if ft, ok := m.(*ast.FuncType); ok && ft.Params != nil && within(ft.Params, o.Pos()) {
								isParam = true
							}
							return true
						})
						isSep = isParam
					}
				}
				if !isSep {
					return true
				}
				// the loop writes elements to the same writer elsewhere
				others := 0
				ast.Inspect(body, func(m ast.Node) bool {
					if c2, ok := m.(*ast.CallExpr); ok && c2 != ce {
						if r2, w2 := isWriteCall(info, c2); w2 && r2 == recv {
							others++
						}
					}
					return true
				})
				if others == 0 {
					return true
				}
				s := sepSite{Fi: fi, Loop: lp, If: is, Write: ce}
				s.OK, s.Why = judgeSeparator(c, fi, lp, body, is, ce, recv)
				out = append(out, s)
				return true
			})
		}
	}
	return out
}

func judgeSeparator(c *Ctx, fi *FuncInfo, lp ast.Stmt, body *ast.BlockStmt, is *ast.IfStmt, sepWrite *ast.CallExpr, recv string) (bool, string) {
	info := fi.Pkg.TypesInfo
	cond := ast.Unparen(is.Cond)
	// element writes of this loop (to the same writer, not the separator itself)
	type elemWrite struct {
		call    *ast.CallExpr
		topLvl  bool
		guardIf *ast.IfStmt
	}
	var elems []elemWrite
	for _, st := range body.List {
		if es, ok := st.(*ast.ExprStmt); ok {
			if ce, ok := es.X.(*ast.CallExpr); ok && ce != sepWrite {
				if r2, w := isWriteCall(info, ce); w && r2 == recv {
					elems = append(elems, elemWrite{ce, true, nil})
				}
			}
		}
	}
	ast.Inspect(body, func(n ast.Node) bool {
		inner, ok := n.(*ast.IfStmt)
		if !ok || inner == is {
			return true
		}
		for _, st := range inner.Body.List {
			if es, ok := st.(*ast.ExprStmt); ok {
				if ce, ok := es.X.(*ast.CallExpr); ok && ce != sepWrite {
					if r2, w := isWriteCall(info, ce); w && r2 == recv {
						elems = append(elems, elemWrite{ce, false, inner})
					}
				}
			}
		}
		return true
	})
	// loop induction variable and its start
	var iv types.Object
	start := int64(0)
	startKnown := false
	var bound ast.Expr
	boundTxt := ""
	switch t := lp.(type) {
	case *ast.RangeStmt:
		if t.Key != nil {
			iv = identObj(info, t.Key)
			startKnown = true
			// ranging over a slice or array visits indices 0..len-1
			if tt := info.TypeOf(t.X); tt != nil {
				switch tt.Underlying().(type) {
				case *types.Slice, *types.Array:
					boundTxt = "len(" + exprStr(t.X) + ")"
				}
			}
		}
	case *ast.ForStmt:
		if as, ok := t.Init.(*ast.AssignStmt); ok && len(as.Lhs) == 1 && len(as.Rhs) == 1 {
			iv = identObj(info, as.Lhs[0])
			if v, isC := constInt(info, as.Rhs[0]); isC {
				start, startKnown = v, true
			}
		}
		if be, ok := ast.Unparen(t.Cond).(*ast.BinaryExpr); ok && t.Cond != nil {
			if identObj(info, be.X) == iv && be.Op == token.LSS {
				bound = be.Y
				boundTxt = exprStr(be.Y)
			}
		}
	}
	if fs, isFor := lp.(*ast.ForStmt); isFor && fs.Init == nil && iv == nil {
		// `v := K` before the loop, `v++` as a top-level statement of the body after the element writes
		if be, ok := ast.Unparen(is.Cond).(*ast.BinaryExpr); ok {
			if cand := identObj(info, be.X); cand != nil {
				vi := analyseVars(info, fi.Decl)
				pr := &prover{info: info, vi: vi, body: fi.Decl.Body}
				pr.collectAssigns()
				okShape, k := true, int64(0)
				nInit, nInc := 0, 0
				for _, a := range pr.assigns[cand] {
					switch a.kind {
					case "assign":
						if v, isC := constInt(info, a.rhs); isC && !within(lp, a.pos) {
							k = v
							nInit++
						} else {
							okShape = false
						}
					case "inc":
						if within(lp, a.pos) {
							nInc++
						} else {
							okShape = false
						}
					default:
						okShape = false
					}
				}
				incTop := false
				for _, st := range body.List {
					if id, ok := st.(*ast.IncDecStmt); ok && identObj(info, id.X) == cand && id.Tok == token.INC {
						incTop = true
					}
				}
				if okShape && nInit == 1 && nInc == 1 && incTop {
					iv, start, startKnown = cand, k, true
				}
			}
		}
	}
	allTop := len(elems) > 0
	for _, e := range elems {
		if !e.topLvl {
			allTop = false
		}
	}
	switch t := cond.(type) {
	case *ast.Ident:
		// boolean flag
		flag := info.Uses[t]
		if flag == nil || !isBool(flag.Type()) {
			break
		}
		// every element write is followed in its block by flag = true; flag is false before the loop
		okSet := len(elems) > 0
		for _, e := range elems {
			blk := body.List
			if e.guardIf != nil {
				blk = e.guardIf.Body.List
			}
			after, set := false, false
			for _, st := range blk {
				if es, ok := st.(*ast.ExprStmt); ok && es.X == ast.Expr(e.call) {
					after = true
					continue
				}
				if after {
					if as, ok := st.(*ast.AssignStmt); ok && len(as.Lhs) == 1 && identObj(info, as.Lhs[0]) == flag && exprStr(as.Rhs[0]) == "true" {
						set = true
					}
				}
			}
			if !set {
				okSet = false
			}
		}
		if okSet {
			return true, "flag: separator guarded by a flag that is set after each element write"
		}
		return false, "the flag " + t.Name + " is not set after every element write"
	case *ast.BinaryExpr:
		// recv.Len() > 0
		if ce, ok := ast.Unparen(t.X).(*ast.CallExpr); ok {
			if se, ok := ce.Fun.(*ast.SelectorExpr); ok && se.Sel.Name == "Len" && exprStr(se.X) == recv {
				if v, isC := constInt(info, t.Y); isC && v == 0 && (t.Op == token.GTR || t.Op == token.NEQ) {
					// only sound when every element is non-empty
					for _, e := range elems {
						if !provablyNonEmpty(info, e.call.Args[0]) {
							return false, "the separator is guarded by " + exprStr(cond) + ", i.e. by the emptiness of everything written so far, but elements (" + exprStr(e.call.Args[0]) + ") may be empty: an empty first element swallows its separator and shifts the list"
						}
					}
					return true, "non-empty: guarded by the writer's length and every element written is non-empty"
				}
			}
		}
		// trailing form: i+1 < N  /  i < N-1 after an unconditional element
		_ = bound
		if boundTxt != "" && allTop {
			l := exprStr(t.X)
			if iv != nil && t.Op == token.LSS && (l == iv.Name()+" + 1" && exprStr(t.Y) == boundTxt || l == iv.Name() && exprStr(t.Y) == boundTxt+" - 1") {
				return true, "trailing: separator after every element except the last (i+1 < bound)"
			}
		}
		// i > S
		if iv != nil && identObj(info, t.X) == iv && (t.Op == token.GTR || t.Op == token.NEQ) {
			if v, isC := constInt(info, t.Y); isC {
				if startKnown && v == start && allTop {
					return true, fmt.Sprintf("position: separator before every element except the first (%s > %d, loop starts at %d, element written every iteration)", iv.Name(), v, start)
				}
				return false, fmt.Sprintf("separator guarded by %s but the loop starts at %d or elements are not written on every iteration", exprStr(cond), start)
			}
			// i > S with variable S: the element must be written under i >= S (same S) and S must be >= loop start
			S := t.Y
			nested := false
			for _, e := range elems {
				if e.guardIf != nil {
					if gb, ok := ast.Unparen(e.guardIf.Cond).(*ast.BinaryExpr); ok && identObj(info, gb.X) == iv && gb.Op == token.GEQ && exprStr(gb.Y) == exprStr(S) {
						nested = true
					}
				}
			}
			if !nested && allTop {
				// early-continue form: `if i < S { continue }` as a top-level statement before the
				// separator, elements written unconditionally after it
				for _, st := range body.List {
					if st.Pos() >= is.Pos() {
						break
					}
					g, ok := st.(*ast.IfStmt)
					if !ok || g.Init != nil || g.Else != nil || len(g.Body.List) != 1 {
						continue
					}
					br, isBr := g.Body.List[0].(*ast.BranchStmt)
					gb, isBin := ast.Unparen(g.Cond).(*ast.BinaryExpr)
					if isBr && br.Tok == token.CONTINUE && br.Label == nil && isBin && identObj(info, gb.X) == iv && gb.Op == token.LSS && exprStr(gb.Y) == exprStr(S) {
						nested = true
						for _, e := range elems {
							if e.call.Pos() < g.End() {
								nested = false // an element written before the window test
							}
						}
					}
				}
			}
			if nested && startKnown {
				vi := analyseVars(info, fi.Decl)
				var bodyBlk *ast.BlockStmt = fi.Decl.Body
				for _, fl := range funcLitsIn(fi.Decl.Body) {
					if within(fl.Body, is.Pos()) && fl.Body.End()-fl.Body.Pos() < bodyBlk.End()-bodyBlk.Pos() {
						bodyBlk = fl.Body
					}
				}
				fg := NewFGraph(bodyBlk, info)
				fg.SolveFacts(vi)
				pr := &prover{info: info, vi: vi, fg: fg, body: bodyBlk}
				if pr.proveAtLeast(S, fg.FactsAtPos(is.Cond.Pos()), start) {
					return true, "position: first emitted element is at index " + exprStr(S) + " >= loop start"
				}
				return false, "the separator is written for every index above " + exprStr(S) + ", which is not known to be >= " + fmt.Sprint(start) + " (the first index of the loop): when it is smaller, the first element emitted is preceded by a separator (e.g. a negative slice start beyond the list length)"
			}
		}
	}
	return false, "separator guard " + exprStr(cond) + " is not one of the accepted 'an element was already emitted' forms (position index, flag set after each element, non-empty writer with non-empty elements)"
}

func provablyNonEmpty(info *types.Info, e ast.Expr) bool {
	e = ast.Unparen(e)
	if s, ok := constString(info, e); ok {
		return s != ""
	}
	if ce, ok := e.(*ast.CallExpr); ok {
		n := calleeName(info, ce)
		if n == "strconv.Itoa" || n == "strconv.FormatInt" || n == "strconv.FormatUint" || n == "strconv.FormatFloat" {
			return true
		}
	}
	return false
}

func emitSeparatorSites(c *Ctx, r *Report, rule string, sites []sepSite, filter func(s sepSite) bool) {
	for _, s := range sites {
		if filter != nil && !filter(s) {
			continue
		}
		key := exprStr(s.If.Cond) + " => " + exprStr(s.Write)
		if s.OK {
			r.OK(rule, s.Fi.Name, key, c.Pos(s.If.Pos()), s.Why)
		} else {
			r.Bad(rule, s.Fi.Name, key, c.Pos(s.If.Pos()), "list separator written under a guard that does not mean 'an element was already emitted': "+s.Why)
		}
	}
}

// unconditionalJoinLoops: `first; for { sep; elem }` forms - the element
// before the loop must exist.
func unconditionalJoinOK(c *Ctx, fi *FuncInfo) bool { return true }

var _ = strings.Contains
