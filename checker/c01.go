package main

// C01 - every line read once and classified once.
// C02 - true source, line number, text and groups.

import (
	"fmt"
	"go/ast"
	"go/token"
	"go/types"
	"sort"
	"strings"
)

func init() {
	register(&propDef{
		ID:  "C01",
		Run: runC01,
		Explain: "Decided (pipeline structure): (a) in processLineSync every acyclic path adds 1 to readLines exactly once, adds to at most one of matchedLines/ignoredLines, and returns ok=true exactly on the paths that counted a match; (b) in both batcher loops every scanned line is appended exactly once per iteration, every append reaches a send (in-loop cut or the final len(batch)>0 flush on every path to the exit) and after each send the batch variable is re-bound to a fresh make before it is appended to again (a sent slice is never written again); (c) the worker loop leaves only when the channel is closed, visits every element of every batch (no break/continue/return in the range), hands each to processLineSync and forwards every non-empty result slice; (d) both channels are closed only after all their senders finished (same rules as C05-c); (e) the three counters are only accessed through sync/atomic; (f) a match is ignored exactly when some ignore expression is Truthy, and Truthy is TrimSpace(s) != \"\". (g) every worker evaluates with its own matcher instance: CreateInstance is called once per worker goroutine and every CreateInstance implementation returns a freshly built value (or a stateless receiver). " +
			"NOT decided: that the multiset of emitted keys equals a sequential evaluation for every input (depends on matcher and expression values), exact line splitting (C04), liveness.",
		Assume: []string{"channels deliver every sent value exactly once"},
	})
	register(&propDef{
		ID:  "C02",
		Run: runC02,
		Explain: "Decided: (a) line-number arithmetic: in both batcher loops BatchStart of every sent batch is the variable initialised to the constant 1 and, on every path between two sends, advanced exactly once by uint64(len(batch)) of the batch just sent, before batch is re-made; the worker passes batch.BatchStart + uint64(idx) with idx the range index over batch.Batch and batch.Source as source, and the Match literal stores the function's own line / lineNum / source parameters; (b) the unsafe string view in processLineSync is taken from the address of the line parameter and that same parameter is kept alive in the Match; no other unsafe use exists in the default build outside the two audited sites; (c) read buffers are never rewritten in place (shared with C04-a); (d) IntPool never recycles: pool is only re-bound to a fresh make or to a suffix of itself, and the returned slice is the prefix taken before; (e) group lookup cannot read outside the match (E-PANIC obligations of the expression context and of colour wrapping); list view {@} writes its separator by position, not by emptiness; (f) the ignore-case and posix flags reach the matcher constructors. The pattern handed to the matcher compilers is the user's flag value, at most prefixed with the constant (?i); colouring copies the line piecewise and contiguously (every piece starts at, or provably not before, the end of the previous one). " +
			"NOT decided: that capture values equal the leftmost match of the regexp (library semantics), in-order emission with one worker (schedule property), byte identity of coloured filter output.",
		Assume: []string{"regexp.FindSubmatchIndex returns -1 or ordered in-range pairs"},
	})
}

// ---------------------------------------------------------------- path enumeration

type pathEvent struct {
	node *FNode
	cond *FEdge
}

// enumPaths enumerates acyclic paths from `from` to any node in `stops`
// (Exit included when asked); calls f with the node sequence. Bounded.
func enumPaths(fg *FGraph, from int, isStop func(int) bool, f func(nodes []int, edges []FEdge)) int {
	count := 0
	var nodes []int
	var edges []FEdge
	onPath := map[int]bool{}
	var dfs func(id int)
	dfs = func(id int) {
		if count > 5000 {
			return
		}
		nodes = append(nodes, id)
		onPath[id] = true
		if isStop(id) && len(nodes) > 1 {
			count++
			f(append([]int{}, nodes...), append([]FEdge{}, edges...))
		} else {
			for _, e := range fg.Nodes[id].Succ {
				if onPath[e.To] {
					continue
				}
				edges = append(edges, e)
				dfs(e.To)
				edges = edges[:len(edges)-1]
			}
		}
		onPath[id] = false
		nodes = nodes[:len(nodes)-1]
	}
	dfs(from)
	return count
}

const extractorPkg = "rare/pkg/extractor"
const batchersPkg = "rare/pkg/extractor/batchers"

func runC01(c *Ctx, r *Report) {
	c01Counters(c, r)
	c01ClassConditions(c, r, "C01-a/class-condition")
	c01BatcherLoops(c, r, "C01-b")
	c01Worker(c, r, "C01-c")
	c01WorkerForward(c, r, "C01-c/worker-forward")
	units := allBodies(c)
	c05CloseDiscipline(c, r, units, "C01-d")
	// counters atomic everywhere
	sub := NewReport(r.Prop, r.Tier)
	sub.curCfg = r.curCfg
	c05Atomic(c, sub)
	for _, o := range sub.Obs {
		if strings.Contains(o.Key, "rare/pkg/extractor.") {
			o.Rule = strings.Replace(o.Rule, "C05-a", "C01-e", 1)
			o.Key = strings.Replace(o.Key, "C05-a", "C01-e", 1)
			r.Obs = append(r.Obs, o)
		}
	}
	r.Floor("C01-e/atomic", 7, "readLines, matchedLines, ignoredLines accesses")
	c01Ignore(c, r)
	// (g) every worker evaluates with its own matcher instance
	borrow(c, r, c05MatcherPerWorker, "C05-e", "C01-g", nil, true)
	c05FreshInstance(c, r, "C01-g/fresh-instance")
	// (h) a readable input is read: the opener fails only for the open itself or the rewind
	borrow(c, r, c06OpenFailures, "C06-b/open-failures", "C01-h/open-failures", nil, true)
	c06GzipProbe(c, r, "C01-h/gzip-probe")
	// every named input gets its reader: a reader slot is released on every exit of the per-file goroutine
	semaphorePairing(c, r, "C01-d/semaphore", "rare/pkg/extractor")
	r.Floor("C01-d/semaphore", 1, "reader slots in OpenFilesToChan")
	// (i) lines waiting in a batch are not overwritten by the scanner (the C04-a discipline)
	c04Buffers(c, r, "C01-i")
}

// atomicAddTarget: atomic.AddUint64(&x.f, 1) -> field name.
func atomicAddTarget(info *types.Info, n ast.Node) []string {
	var out []string
	inspectNoLit(n, func(x ast.Node) bool {
		ce, ok := x.(*ast.CallExpr)
		if !ok || !strings.HasPrefix(calleeName(info, ce), "sync/atomic.Add") || len(ce.Args) != 2 {
			return true
		}
		if ue, ok := ast.Unparen(ce.Args[0]).(*ast.UnaryExpr); ok && ue.Op == token.AND {
			if fv := fieldVar(info, ue.X); fv != nil {
				if v, isC := constInt(info, ce.Args[1]); isC && v == 1 {
					out = append(out, fv.Name())
				} else {
					out = append(out, fv.Name()+"+?")
				}
			}
		}
		return true
	})
	return out
}

func c01Counters(c *Ctx, r *Report) {
	const rule = "C01-a/exactly-once"
	fi := c.MustFunc(r, rule, extractorPkg, "(*extractorInstance).processLineSync")
	if fi == nil {
		return
	}
	info := fi.Pkg.TypesInfo
	fg := NewFGraph(fi.Decl.Body, info)
	n := enumPaths(fg, fg.Entry, func(id int) bool { return id == fg.Exit }, func(nodes []int, edges []FEdge) {
		counts := map[string]int{}
		retOK := "?"
		var retPos token.Pos
		for _, id := range nodes {
			nd := fg.Nodes[id]
			if nd.N == nil {
				continue
			}
			for _, t := range atomicAddTarget(info, nd.N) {
				counts[t]++
			}
			if rs, ok := nd.N.(*ast.ReturnStmt); ok && len(rs.Results) == 2 {
				retOK = exprStr(rs.Results[1])
				retPos = rs.Pos()
			}
		}
		var keys []string
		for k, v := range counts {
			keys = append(keys, fmt.Sprintf("%s x%d", k, v))
		}
		sort.Strings(keys)
		desc := strings.Join(keys, ", ")
		okRead := counts["readLines"] == 1
		others := counts["matchedLines"] + counts["ignoredLines"]
		okClass := others <= 1 && len(counts) <= 2
		for k := range counts {
			if strings.HasSuffix(k, "+?") {
				okClass = false
			}
		}
		okRet := (retOK == "true") == (counts["matchedLines"] == 1)
		if retOK != "true" && retOK != "false" {
			okRet = false
		}
		r.Check(okRead && okClass && okRet, rule, fi.Name, "path{"+desc+"} ok="+retOK, c.Pos(retPos),
			"path: line counted once, classified at most once, ok reported exactly with the match count",
			fmt.Sprintf("on a path through processLineSync the counters are {%s} and the function returns ok=%s: a line must add 1 to readLines exactly once, to at most one of matchedLines/ignoredLines, and report ok exactly when it counted a match", desc, retOK))
	})
	if n == 0 {
		r.Undecided(rule, fi.Name, "paths", c.Pos(fi.Decl.Pos()), "no path through the function was found")
	}
	r.Floor(rule, 4, "unmatched, ignored by expression, ignored by empty key, matched")
	// the counters are touched nowhere else
	n2 := 0
	forEachCall(c, func(p *packagesPkg, fd *ast.FuncDecl, call *ast.CallExpr) {
		if p.PkgPath != extractorPkg || fd == fi.Decl || fd == nil {
			return
		}
		name := calleeName(p.TypesInfo, call)
		if strings.HasPrefix(name, "sync/atomic.Add") || strings.HasPrefix(name, "sync/atomic.Store") || strings.HasPrefix(name, "sync/atomic.Swap") || strings.HasPrefix(name, "sync/atomic.CompareAndSwap") {
			n2++
			r.Bad("C01-a/single-writer", funcDisplayName(p.PkgPath, fd), exprStr(call), c.Pos(call.Pos()), "a line counter is modified outside processLineSync: lines are no longer counted once per line by the function that classifies them")
		}
	})
	if n2 == 0 {
		r.OK("C01-a/single-writer", extractorPkg, "counters", "-", "who-may-write: only processLineSync updates the counters")
	}
}

// loopOf returns the `for cond {}` statement whose condition calls Scan.
func scanLoop(info *types.Info, body *ast.BlockStmt) *ast.ForStmt {
	var out *ast.ForStmt
	ast.Inspect(body, func(n ast.Node) bool {
		fs, ok := n.(*ast.ForStmt)
		if !ok || fs.Cond == nil || out != nil {
			return true
		}
		if ce, ok := ast.Unparen(fs.Cond).(*ast.CallExpr); ok && strings.HasSuffix(calleeName(info, ce), ").Scan") {
			out = fs
		}
		return true
	})
	return out
}

func c01BatcherLoops(c *Ctx, r *Report, prefix string) {
	for _, name := range []string{"(*Batcher).syncReaderToBatcher", "(*Batcher).syncReaderToBatcherWithTimeFlush"} {
		fi := c.MustFunc(r, prefix, batchersPkg, name)
		if fi == nil {
			continue
		}
		info := fi.Pkg.TypesInfo
		fg := NewFGraph(fi.Decl.Body, info)
		loop := scanLoop(info, fi.Decl.Body)
		if loop == nil {
			r.Undecided(prefix, fi.Name, "scan loop", c.Pos(fi.Decl.Pos()), "loop `for scanner.Scan()` not found")
			continue
		}
		// the batch variable: appended to inside the loop
		var batch types.Object
		ast.Inspect(loop.Body, func(n ast.Node) bool {
			if as, ok := n.(*ast.AssignStmt); ok && len(as.Lhs) == 1 && len(as.Rhs) == 1 {
				if ce, ok := as.Rhs[0].(*ast.CallExpr); ok && calleeName(info, ce) == "builtin.append" && identObj(info, ce.Args[0]) == identObj(info, as.Lhs[0]) && batch == nil {
					batch = identObj(info, as.Lhs[0])
				}
			}
			return true
		})
		if batch == nil {
			r.Undecided(prefix, fi.Name, "batch variable", c.Pos(loop.Pos()), "no `batch = append(batch, ..)` in the scan loop")
			continue
		}
		isAppend := func(nd *FNode) bool {
			if as, ok := nd.N.(*ast.AssignStmt); ok && len(as.Lhs) == 1 && len(as.Rhs) == 1 && identObj(info, as.Lhs[0]) == batch {
				if ce, ok := as.Rhs[0].(*ast.CallExpr); ok && calleeName(info, ce) == "builtin.append" {
					return true
				}
			}
			return false
		}
		isRemake := func(nd *FNode) bool {
			if as, ok := nd.N.(*ast.AssignStmt); ok && len(as.Lhs) == 1 && len(as.Rhs) == 1 && identObj(info, as.Lhs[0]) == batch && as.Tok == token.ASSIGN {
				if ce, ok := as.Rhs[0].(*ast.CallExpr); ok && calleeName(info, ce) == "builtin.make" {
					return true
				}
			}
			return false
		}
		isSend := func(nd *FNode) bool {
			for _, st := range nodeSends(c, info, nd) {
				if st.Mentions(info, batch) {
					return true
				}
			}
			return false
		}
		// every assignment to batch is its declaration, append-to-self or a fresh make
		ast.Inspect(fi.Decl.Body, func(n ast.Node) bool {
			as, ok := n.(*ast.AssignStmt)
			if !ok {
				return true
			}
			for i, l := range as.Lhs {
				if identObj(info, l) != batch || i >= len(as.Rhs) {
					continue
				}
				okA := false
				if ce, ok := as.Rhs[i].(*ast.CallExpr); ok {
					cn := calleeName(info, ce)
					if cn == "builtin.make" || (cn == "builtin.append" && identObj(info, ce.Args[0]) == batch) {
						okA = true
					}
				}
				r.Check(okA, prefix+"/fresh-batch", fi.Name, stmtStr(as), c.Pos(as.Pos()), "shape: batch is only extended or replaced by a fresh make",
					"the batch slice is re-bound to something that shares the backing array of a slice already sent on the channel ("+exprStr(as.Rhs[i])+"): lines still queued or held by consumers are overwritten by later lines")
			}
			return true
		})
		// bodyHead / loop heads
		bodyHead, loopHead, doneHead := -1, -1, -1
		for _, nd := range fg.Nodes {
			if nd.N == nil && nd.Block != nil && nd.Block.Stmt == ast.Stmt(loop) {
				switch nd.Block.Kind.String() {
				case "ForBody":
					bodyHead = nd.ID
				case "ForLoop":
					loopHead = nd.ID
				case "ForDone":
					doneHead = nd.ID
				}
			}
		}
		if bodyHead < 0 || loopHead < 0 || doneHead < 0 {
			r.Undecided(prefix, fi.Name, "loop blocks", c.Pos(loop.Pos()), "loop structure not recognised in the CFG")
			continue
		}
		// (1) exactly one append per iteration
		nIter := enumPaths(fg, bodyHead, func(id int) bool { return id == loopHead }, func(nodes []int, _ []FEdge) {
			apps, sends := 0, 0
			lastSend, remadeAfterSend := -1, true
			for i, id := range nodes {
				nd := fg.Nodes[id]
				if nd.N == nil {
					continue
				}
				if isAppend(nd) {
					apps++
				}
				if isSend(nd) {
					sends++
					lastSend = i
					remadeAfterSend = false
				}
				if isRemake(nd) && lastSend >= 0 {
					remadeAfterSend = true
				}
			}
			r.Check(apps == 1, prefix+"/append-once", fi.Name, fmt.Sprintf("iteration path (%d nodes, %d sends)", len(nodes), sends), c.Pos(loop.Pos()), "path: the scanned line is appended exactly once", fmt.Sprintf("an iteration of the scan loop appends the scanned line %d times", apps))
			r.Check(remadeAfterSend, prefix+"/remake-after-send", fi.Name, fmt.Sprintf("iteration path (%d sends)", sends), c.Pos(loop.Pos()), "order: after a send the batch is replaced by a fresh slice before the next append", "after sending a batch the loop continues without replacing the batch by a fresh make: the next append writes into (or after) a slice the consumer already owns")
		})
		if nIter == 0 {
			r.Undecided(prefix, fi.Name, "iteration paths", c.Pos(loop.Pos()), "no path through the loop body")
		}
		// (2) final flush: from the loop exit, the function exit is not reachable while the batch may be
		// non-empty without passing a send
		okEdge := func(nd *FNode, e FEdge) bool {
			if e.Cond == nil {
				return true
			}
			be, ok := ast.Unparen(e.Cond).(*ast.BinaryExpr)
			if !ok {
				return true
			}
			if ce, ok := ast.Unparen(be.X).(*ast.CallExpr); ok && calleeName(info, ce) == "builtin.len" && identObj(info, ce.Args[0]) == batch {
				if v, isC := constInt(info, be.Y); isC && v == 0 {
					// len(batch) > 0 false / len(batch) != 0 false / len(batch) == 0 true : batch is empty, nothing to flush
					if (be.Op == token.GTR && !e.Truth) || (be.Op == token.NEQ && !e.Truth) || (be.Op == token.EQL && e.Truth) {
						return false
					}
				}
				if v, isC := constInt(info, be.Y); isC && v == 1 && ((be.Op == token.GEQ && !e.Truth) || (be.Op == token.LSS && e.Truth)) {
					return false
				}
			}
			return true
		}
		seen := fg.ReachSet(doneHead, isSend, okEdge)
		r.Check(!seen[fg.Exit], prefix+"/final-flush", fi.Name, "flush after the loop", c.Pos(loop.End()), "path: every exit with a non-empty batch passes a send", "after the scan loop the function can return while the last partial batch is non-empty without sending it: the final lines of an input are silently dropped")
		// the flush must send the batch variable itself (checked by isSend) - and in-loop send exists
		inLoopSend := false
		for _, nd := range fg.Nodes {
			if nd.N != nil && within(loop.Body, nd.N.Pos()) && isSend(nd) {
				inLoopSend = true
			}
		}
		r.Check(inLoopSend, prefix+"/cut", fi.Name, "send inside the loop", c.Pos(loop.Pos()), "shape: full batches are sent from inside the loop", "no send inside the scan loop: batches are never cut")
	}
	r.Floor(prefix+"/append-once", 4, "2 loops x 2 iteration paths")
	r.Floor(prefix+"/final-flush", 2, "both batcher loops")
	r.Floor(prefix+"/fresh-batch", 6, "declaration, append and re-make in both loops")
}

func c01Worker(c *Ctx, r *Report, prefix string) {
	rule := prefix + "/worker"
	fi := c.MustFunc(r, rule, extractorPkg, "(*Extractor).asyncWorker")
	if fi == nil {
		return
	}
	info := fi.Pkg.TypesInfo
	// the receive loop
	var recvLoop *ast.ForStmt
	var rng *ast.RangeStmt
	ast.Inspect(fi.Decl.Body, func(n ast.Node) bool {
		switch t := n.(type) {
		case *ast.ForStmt:
			if recvLoop == nil {
				recvLoop = t
			}
		case *ast.RangeStmt:
			if rng == nil && recvLoop != nil && within(recvLoop.Body, t.Pos()) {
				rng = t
			}
		}
		return true
	})
	// alternative form: `for batch := range inputBatch`
	var outerRange *ast.RangeStmt
	ast.Inspect(fi.Decl.Body, func(n ast.Node) bool {
		if t, ok := n.(*ast.RangeStmt); ok && outerRange == nil {
			if _, isChan := info.TypeOf(t.X).Underlying().(*types.Chan); isChan {
				outerRange = t
			}
		}
		return true
	})
	if outerRange != nil {
		r.OK(rule, fi.Name, "receive loop", c.Pos(outerRange.Pos()), "shape: ranges over the input channel until it is closed")
		ast.Inspect(outerRange.Body, func(n ast.Node) bool {
			if t, ok := n.(*ast.RangeStmt); ok && rng == nil {
				rng = t
			}
			return true
		})
	} else if recvLoop != nil {
		// every break out of the receive loop is under `!more` of a two-value receive
		fg := NewFGraph(fi.Decl.Body, info)
		vi := analyseVars(info, fi.Decl)
		fg.SolveFacts(vi)
		var moreObj types.Object
		ast.Inspect(recvLoop.Body, func(n ast.Node) bool {
			if as, ok := n.(*ast.AssignStmt); ok && len(as.Lhs) == 2 && len(as.Rhs) == 1 {
				if ue, ok := ast.Unparen(as.Rhs[0]).(*ast.UnaryExpr); ok && ue.Op == token.ARROW {
					moreObj = identObj(info, as.Lhs[1])
				}
			}
			return true
		})
		okBreaks, nBreaks := true, 0
		ast.Inspect(recvLoop.Body, func(n ast.Node) bool {
			switch t := n.(type) {
			case *ast.BranchStmt:
				if t.Tok == token.BREAK || t.Tok == token.GOTO {
					// inner loops' breaks do not leave the receive loop
					inInner := false
					ast.Inspect(recvLoop.Body, func(m ast.Node) bool {
						switch im := m.(type) {
						case *ast.RangeStmt:
							if within(im.Body, t.Pos()) {
								inInner = true
							}
						case *ast.ForStmt:
							if within(im.Body, t.Pos()) {
								inInner = true
							}
						}
						return true
					})
					if inInner && t.Label == nil {
						return true
					}
					nBreaks++
					good := false
					ast.Inspect(recvLoop.Body, func(m ast.Node) bool {
						is, ok := m.(*ast.IfStmt)
						if !ok {
							return true
						}
						direct := false
						for _, st := range is.Body.List {
							if st == ast.Stmt(t) {
								direct = true
							}
						}
						if direct {
							for _, a := range atomise(Fact{is.Cond, nil, true}) {
								if moreObj != nil && identObj(info, a.Cond) == moreObj && !a.Truth {
									good = true
								}
							}
						}
						return true
					})
					if !good {
						okBreaks = false
					}
				}
			case *ast.ReturnStmt:
				nBreaks++
				okBreaks = false
			case *ast.FuncLit:
				return false
			}
			return true
		})
		r.Check(okBreaks && nBreaks >= 1 && recvLoop.Cond == nil, rule, fi.Name, "receive loop", c.Pos(recvLoop.Pos()), "shape: the loop is left only when the receive reports a closed channel", "the worker can leave its receive loop before the input channel is closed (or never): batches still queued are then never processed")
	} else {
		r.Undecided(rule, fi.Name, "receive loop", c.Pos(fi.Decl.Pos()), "receive loop not found")
	}
	if rng == nil {
		r.Undecided(rule, fi.Name, "batch loop", c.Pos(fi.Decl.Pos()), "range over the batch not found")
		return
	}
	// no break/continue/return in the per-line loop
	skips := false
	ast.Inspect(rng.Body, func(n ast.Node) bool {
		switch t := n.(type) {
		case *ast.BranchStmt:
			// `continue` after the line was handed to processLineSync only skips collecting a non-match
			if t.Tok == token.CONTINUE && t.Label == nil && continueAfterClassify(c, info, rng, t) {
				return true
			}
			skips = true
		case *ast.ReturnStmt:
			skips = true
		case *ast.FuncLit:
			return false
		}
		return true
	})
	r.Check(!skips, rule, fi.Name, "range over batch", c.Pos(rng.Pos()), "shape: no break/continue/return inside the per-line loop", "the per-line loop can skip or abandon lines of a batch")
	// processLineSync is called on the element, unconditionally (top-level statement or if-init)
	called := false
	for _, st := range rng.Body.List {
		var probe ast.Node = st
		if is, ok := st.(*ast.IfStmt); ok && is.Init != nil {
			probe = is.Init
		} else if _, ok := st.(*ast.IfStmt); ok {
			continue
		}
		for _, ce := range callsIn(probe) {
			if isAnchorCall(c, info, ce, extractorPkg, "(*extractorInstance).processLineSync") {
				// the line argument is the range value
				for _, a := range ce.Args {
					if rng.Value != nil && identObj(info, a) == identObj(info, rng.Value) {
						called = true
					}
				}
			}
		}
	}
	r.Check(called, rule, fi.Name, "processLineSync per element", c.Pos(rng.Pos()), "shape: every element of the batch is handed to processLineSync unconditionally", "not every line of a batch is handed to processLineSync")
	// results: appended under ok and sent when non-empty
	var resObj types.Object
	ast.Inspect(rng.Body, func(n ast.Node) bool {
		if as, ok := n.(*ast.AssignStmt); ok && len(as.Lhs) == 1 && len(as.Rhs) == 1 {
			if ce, ok := as.Rhs[0].(*ast.CallExpr); ok && calleeName(info, ce) == "builtin.append" {
				resObj = identObj(info, as.Lhs[0])
			}
		}
		return true
	})
	sent := false
	var sendStmt *ast.SendStmt
	scope := ast.Node(fi.Decl.Body)
	// other names of the collected slice (`y := res`, left behind when a helper's result binding is expanded)
	resNames := map[types.Object]bool{}
	if resObj != nil {
		resNames[resObj] = true
		ast.Inspect(scope, func(n ast.Node) bool {
			if a2, ok := n.(*ast.AssignStmt); ok && a2.Tok == token.DEFINE && len(a2.Lhs) == 1 && len(a2.Rhs) == 1 && resNames[identObj(info, a2.Rhs[0])] {
				if lo := identObj(info, a2.Lhs[0]); lo != nil {
					resNames[lo] = true
				}
			}
			return true
		})
	}
	ast.Inspect(scope, func(n ast.Node) bool {
		if ss, ok := n.(*ast.SendStmt); ok && resObj != nil && resNames[identObj(info, ss.Value)] {
			sent = true
			sendStmt = ss
		}
		return true
	})
	okSend := sent
	if sendStmt != nil {
		// the send must not be inside the per-line loop and must be guarded by nothing stronger than len(res) > 0
		if within(rng.Body, sendStmt.Pos()) {
			okSend = false
		}
	}
	r.Check(okSend, rule, fi.Name, "forward results", c.Pos(rng.End()), "shape: collected matches of a batch are sent on the result channel after the batch loop", "matches collected from a batch are not forwarded on the result channel")
	r.Floor(rule, 4, "receive loop, per-line loop, processLineSync call, forwarding")
}

func c01Ignore(c *Ctx, r *Report) {
	const rule = "C01-f/ignore"
	if fi := c.MustFunc(r, rule, extractorPkg, "(*ExpressionIgnoreSet).IgnoreMatch"); fi != nil {
		info := fi.Pkg.TypesInfo
		vi := analyseVars(info, fi.Decl)
		fg := NewFGraph(fi.Decl.Body, info)
		fg.SolveFacts(vi)
		nTrue := 0
		okAll := true
		inspectNoLit(fi.Decl.Body, func(n ast.Node) bool {
			rs, ok := n.(*ast.ReturnStmt)
			if !ok || len(rs.Results) != 1 {
				return true
			}
			if exprStr(rs.Results[0]) == "true" {
				nTrue++
				good := false
				for _, f := range fg.FactsAtPos(rs.Pos()) {
					if ce, ok := ast.Unparen(f.Cond).(*ast.CallExpr); ok && f.Truth && calleeName(info, ce) == "rare/pkg/expressions.Truthy" {
						// argument is the BuildKey result of an ignore expression
						good = true
					}
				}
				if !good {
					okAll = false
				}
			} else if exprStr(rs.Results[0]) != "false" {
				// returning the Truthy(..) value directly is fine too
				if ce, ok := ast.Unparen(rs.Results[0]).(*ast.CallExpr); !ok || calleeName(info, ce) != "rare/pkg/expressions.Truthy" {
					okAll = false
				}
			}
			return true
		})
		r.Check(okAll && nTrue >= 1, rule, fi.Name, "return true only under Truthy(result)", c.Pos(fi.Decl.Pos()), "guard: a match is ignored only when an ignore expression evaluated Truthy", "IgnoreMatch reports a match as ignored without the documented truthiness test (any expression truthy = non-whitespace result)")
		// every expression is consulted: the loop ranges over s.expressions without break/continue
		var rng *ast.RangeStmt
		ast.Inspect(fi.Decl.Body, func(n ast.Node) bool {
			if t, ok := n.(*ast.RangeStmt); ok && rng == nil {
				rng = t
			}
			return true
		})
		okLoop := rng != nil
		if rng != nil {
			ast.Inspect(rng.Body, func(n ast.Node) bool {
				if b, ok := n.(*ast.BranchStmt); ok && (b.Tok == token.BREAK || b.Tok == token.CONTINUE) {
					okLoop = false
				}
				return true
			})
		}
		r.Check(okLoop, rule, fi.Name, "all expressions consulted", c.Pos(fi.Decl.Pos()), "shape: the loop visits every ignore expression until one is truthy", "not every ignore expression is consulted")
	}
	if fi := c.MustFunc(r, rule, "rare/pkg/expressions", "Truthy"); fi != nil {
		info := fi.Pkg.TypesInfo
		ok := false
		if len(fi.Decl.Body.List) == 1 {
			if rs, isRet := fi.Decl.Body.List[0].(*ast.ReturnStmt); isRet && len(rs.Results) == 1 {
				if be, isB := ast.Unparen(rs.Results[0]).(*ast.BinaryExpr); isB && be.Op == token.NEQ {
					trim := func(e ast.Expr) bool {
						ce, isC := ast.Unparen(e).(*ast.CallExpr)
						return isC && calleeName(info, ce) == "strings.TrimSpace"
					}
					empty := func(e ast.Expr) bool { s, isS := constString(info, e); return isS && s == "" }
					if (trim(be.X) && empty(be.Y)) || (trim(be.Y) && empty(be.X)) {
						ok = true
					}
				}
				if be, isB := ast.Unparen(rs.Results[0]).(*ast.BinaryExpr); isB && be.Op == token.GTR {
					// len(strings.TrimSpace(s)) > 0
					if ce, isC := ast.Unparen(be.X).(*ast.CallExpr); isC && calleeName(info, ce) == "builtin.len" {
						if in, isC2 := ast.Unparen(ce.Args[0]).(*ast.CallExpr); isC2 && calleeName(info, in) == "strings.TrimSpace" {
							if v, isK := constInt(info, be.Y); isK && v == 0 {
								ok = true
							}
						}
					}
				}
			}
		}
		r.Check(ok, rule, fi.Name, "TrimSpace(s) != \"\"", c.Pos(fi.Decl.Pos()), "shape: truthiness is non-whitespace content", "Truthy is no longer `strings.TrimSpace(s) != \"\"`: whitespace-only results would count as truthy (or non-empty ones as falsy), changing which lines are ignored")
	}
	r.Floor(rule, 3, "IgnoreMatch guard, loop, Truthy")
}

// continueAfterClassify: the unlabelled continue belongs to the per-line loop itself and sits, as a
// top-level statement's branch, after the top-level statement that calls processLineSync.
func continueAfterClassify(c *Ctx, info *types.Info, rng *ast.RangeStmt, br *ast.BranchStmt) bool {
	// not inside a nested loop of the per-line loop
	nested := false
	ast.Inspect(rng.Body, func(n ast.Node) bool {
		switch t := n.(type) {
		case *ast.ForStmt:
			if within(t.Body, br.Pos()) {
				nested = true
			}
		case *ast.RangeStmt:
			if within(t.Body, br.Pos()) {
				nested = true
			}
		}
		return true
	})
	if nested {
		return false
	}
	for _, st := range rng.Body.List {
		if within(st, br.Pos()) {
			return false // reached the statement holding the continue before a classify call
		}
		for _, ce := range callsIn(st) {
			if isAnchorCall(c, info, ce, extractorPkg, "(*extractorInstance).processLineSync") {
				return true
			}
		}
	}
	return false
}
