package main

import (
	"fmt"
	"go/ast"
	"go/token"
	"go/types"
	"strings"
)

func runC02(c *Ctx, r *Report) {
	c02LineNumbers(c, r)
	c02Unsafe(c, r)
	c04Buffers(c, r, "C02-c")
	c02IntPool(c, r, "C02-d")
	// (e) group lookup bounds: E-PANIC restricted to the context and colouring
	if bce, err := bceList(c); err != nil {
		r.Undecided("C02-e/bce", "compiler", "listing", "-", err.Error())
	} else {
		rev := append(append([]reviewedEntry{}, reviewedExpr...), reviewedRender...)
		pe := &panicEngine{c: c, bce: bce, reviewed: rev, scope: map[ast.Node]bool{}}
		for _, fi := range c.AllFuncDecls(extractorPkg, "rare/pkg/color") {
			if fi.Decl.Recv != nil && recvTypeName(fi.Decl.Recv.List[0].Type) == "SliceSpaceExpressionContext" || fi.Decl.Name.Name == "WrapIndices" {
				pe.scope[fi.Decl] = true
			}
		}
		pe.run(extractorPkg, "rare/pkg/color")
		pe.emit(r, "C02-e", nil)
		r.Floor("C02-e/index", 3, "index pairs in GetMatch and WrapIndices")
		r.Floor("C02-e/slice", 3, "line slices in GetMatch and WrapIndices")
	}
	c02ContiguousCopy(c, r)
	c02ResultNotRecycled(c, r, "C02-g/result-not-recycled")
	c02NamesVerbatim(c, r, "C02-h/names-verbatim")
	sites := findSeparatorSites(c, extractorPkg)
	emitSeparatorSites(c, r, "C02-e/list-view", sites, nil)
	r.Floor("C02-e/list-view", 1, "SliceSpaceExpressionContext.array")
	c02Flags(c, r)
	c02PosixLongest(c, r, "C02-f/posix-longest")
	c02MatcherVerbatim(c, r, "C02-i/matcher-verbatim")
	c16ContextReadOnly(c, r, "C02-e/context-read-only")
}

// ---------------------------------------------------------------- (a) line numbers

func c02LineNumbers(c *Ctx, r *Report) {
	const rule = "C02-a/line-number"
	for _, name := range []string{"(*Batcher).syncReaderToBatcher", "(*Batcher).syncReaderToBatcherWithTimeFlush"} {
		fi := c.MustFunc(r, rule, batchersPkg, name)
		if fi == nil {
			continue
		}
		info := fi.Pkg.TypesInfo
		fg := NewFGraph(fi.Decl.Body, info)
		loop := scanLoop(info, fi.Decl.Body)
		if loop == nil {
			r.Undecided(rule, fi.Name, "scan loop", c.Pos(fi.Decl.Pos()), "scan loop not found")
			continue
		}
		// sends and the composite literal fields
		var startObj, batchObj types.Object
		nSends := 0
		for _, st := range sendSitesIn(c, info, fi.Decl.Body) {
			if !isNamed(st.SentType(info), extractorPkg, "InputBatch") {
				continue
			}
			if _, ok := ast.Unparen(st.Stmt.Value).(*ast.CompositeLit); !ok {
				continue
			}
			nSends++
			so, bo := identObj(info, st.Field("BatchStart")), identObj(info, st.Field("Batch"))
			srcOK := false
			if fi.Decl.Type.Params != nil && len(fi.Decl.Type.Params.List) > 0 && len(fi.Decl.Type.Params.List[0].Names) > 0 {
				srcOK = identObj(info, st.Field("Source")) == info.Defs[fi.Decl.Type.Params.List[0].Names[0]]
			}
			if startObj == nil {
				startObj, batchObj = so, bo
			}
			r.Check(so != nil && so == startObj && bo != nil && bo == batchObj && srcOK, rule, fi.Name, "InputBatch{..}", c.Pos(st.Node().Pos()), "flow: the batch carries the batch slice, the running start line and the source-name parameter",
				"a sent InputBatch does not carry the batch variable, the running BatchStart variable and the function's source-name parameter")
		}
		if startObj == nil || batchObj == nil {
			r.Undecided(rule, fi.Name, "sends", c.Pos(fi.Decl.Pos()), "no InputBatch send found")
			continue
		}
		// initialised to the constant 1 and only ever advanced by += uint64(len(batch))
		initOK := false
		ast.Inspect(fi.Decl.Body, func(n ast.Node) bool {
			switch t := n.(type) {
			case *ast.ValueSpec:
				for i, id := range t.Names {
					if info.Defs[id] == startObj && i < len(t.Values) {
						if v, isC := constInt(info, t.Values[i]); isC && v == 1 {
							initOK = true
						}
					}
				}
			case *ast.AssignStmt:
				for i, l := range t.Lhs {
					if identObj(info, l) != startObj {
						continue
					}
					if t.Tok == token.DEFINE && i < len(t.Rhs) {
						if v, isC := constInt(info, t.Rhs[i]); isC && v == 1 {
							initOK = true
						}
						continue
					}
					okAdv := false
					// x += e, or the spelled-out x = x + e / x = e + x
					var addend ast.Expr
					if t.Tok == token.ADD_ASSIGN && len(t.Rhs) == 1 {
						addend = t.Rhs[0]
					} else if t.Tok == token.ASSIGN && len(t.Rhs) == 1 && len(t.Lhs) == 1 {
						if sum, isSum := ast.Unparen(t.Rhs[0]).(*ast.BinaryExpr); isSum && sum.Op == token.ADD {
							if identObj(info, sum.X) == startObj {
								addend = sum.Y
							} else if identObj(info, sum.Y) == startObj {
								addend = sum.X
							}
						}
					}
					if addend != nil {
						if conv, ok := ast.Unparen(addend).(*ast.CallExpr); ok && isConversion(info, conv) && len(conv.Args) == 1 {
							if ln, ok := ast.Unparen(conv.Args[0]).(*ast.CallExpr); ok && calleeName(info, ln) == "builtin.len" && identObj(info, ln.Args[0]) == batchObj {
								okAdv = true
							}
						}
					}
					r.Check(okAdv, rule, fi.Name, stmtStr(t), c.Pos(t.Pos()), "arith: the start line advances by the length of the batch just sent", "the running line number is advanced by "+exprStr(t.Rhs[0])+" instead of the number of lines in the batch that was just sent: line numbers drift after a short (time-flushed) batch")
				}
			}
			return true
		})
		r.Check(initOK, rule, fi.Name, startObj.Name()+" = 1", c.Pos(fi.Decl.Pos()), "constant: numbering starts at line 1", "the running line number is not initialised to 1")
		// per iteration path: after a send, exactly one advance, before the re-make
		bodyHead, loopHead := -1, -1
		for _, nd := range fg.Nodes {
			if nd.N == nil && nd.Block != nil && nd.Block.Stmt == ast.Stmt(loop) {
				switch nd.Block.Kind.String() {
				case "ForBody":
					bodyHead = nd.ID
				case "ForLoop":
					loopHead = nd.ID
				}
			}
		}
		if bodyHead >= 0 && loopHead >= 0 {
			enumPaths(fg, bodyHead, func(id int) bool { return id == loopHead }, func(nodes []int, _ []FEdge) {
				var seq []string
				for _, id := range nodes {
					nd := fg.Nodes[id]
					for _, st := range nodeSends(c, info, nd) {
						if isNamed(st.SentType(info), extractorPkg, "InputBatch") {
							seq = append(seq, "send")
						}
					}
					switch t := nd.N.(type) {
					case *ast.AssignStmt:
						if len(t.Lhs) == 1 && identObj(info, t.Lhs[0]) == startObj {
							seq = append(seq, "advance")
						}
						if len(t.Lhs) == 1 && identObj(info, t.Lhs[0]) == batchObj && t.Tok == token.ASSIGN && len(t.Rhs) == 1 {
							if mk, ok := ast.Unparen(t.Rhs[0]).(*ast.CallExpr); ok && calleeName(info, mk) == "builtin.make" {
								seq = append(seq, "rebind")
							}
						}
					}
				}
				s := strings.Join(seq, ",")
				ok := s == "" || s == "send,advance,rebind"
				r.Check(ok, rule, fi.Name, "iteration{"+s+"}", c.Pos(loop.Pos()), "order: send -> advance by len(batch) -> fresh batch", "an iteration performs {"+s+"}: after a send the start line must be advanced exactly once, using the length of the batch before it is replaced")
			})
		}
	}
	// worker and processLineSync
	if fi := c.MustFunc(r, rule, extractorPkg, "(*Extractor).asyncWorker"); fi != nil {
		info := fi.Pkg.TypesInfo
		found := false
		ast.Inspect(fi.Decl.Body, func(n ast.Node) bool {
			rs, ok := n.(*ast.RangeStmt)
			if !ok || !strings.HasSuffix(exprStr(rs.X), ".Batch") {
				return true
			}
			batchVar := exprStr(rs.X)[:len(exprStr(rs.X))-len(".Batch")]
			ast.Inspect(rs.Body, func(m ast.Node) bool {
				ce, ok := m.(*ast.CallExpr)
				if !ok || !isAnchorCall(c, info, ce, extractorPkg, "(*extractorInstance).processLineSync") || len(ce.Args) != 3 {
					return true
				}
				found = true
				okSrc := exprStr(ce.Args[0]) == batchVar+".Source"
				okNum := false
				if be, ok := ast.Unparen(ce.Args[1]).(*ast.BinaryExpr); ok && be.Op == token.ADD {
					l, rr := be.X, be.Y
					if exprStr(rr) == batchVar+".BatchStart" {
						l, rr = rr, l
					}
					if exprStr(l) == batchVar+".BatchStart" {
						if conv, ok := ast.Unparen(rr).(*ast.CallExpr); ok && isConversion(info, conv) && rs.Key != nil && identObj(info, conv.Args[0]) == identObj(info, rs.Key) {
							okNum = true
						}
					}
				}
				okLine := rs.Value != nil && identObj(info, ce.Args[2]) == identObj(info, rs.Value)
				r.Check(okSrc && okNum && okLine, rule, fi.Name, exprStr(ce), c.Pos(ce.Pos()), "flow: source, BatchStart + index, and the element itself", "the worker does not pass (batch.Source, batch.BatchStart + index-in-batch, the element) to processLineSync: matches carry a wrong source or line number")
				return true
			})
			return true
		})
		if !found {
			r.Undecided(rule, fi.Name, "processLineSync call", c.Pos(fi.Decl.Pos()), "call inside `range batch.Batch` not found")
		}
	}
	if fi := c.MustFunc(r, rule, extractorPkg, "(*extractorInstance).processLineSync"); fi != nil {
		info := fi.Pkg.TypesInfo
		var params []types.Object
		for _, f := range fi.Decl.Type.Params.List {
			for _, id := range f.Names {
				params = append(params, info.Defs[id])
			}
		}
		if len(params) != 3 {
			r.Undecided(rule, fi.Name, "signature", c.Pos(fi.Decl.Pos()), "expected (source, lineNum, line)")
		} else {
			found := false
			ast.Inspect(fi.Decl.Body, func(n ast.Node) bool {
				cl, ok := n.(*ast.CompositeLit)
				if !ok || !isNamed(info.TypeOf(cl), extractorPkg, "Match") || len(cl.Elts) == 0 {
					return true
				}
				found = true
				fields := map[string]ast.Expr{}
				for _, el := range cl.Elts {
					if kv, ok := el.(*ast.KeyValueExpr); ok {
						fields[exprStr(kv.Key)] = kv.Value
					}
				}
				ok1 := identObj(info, fields["Source"]) == params[0]
				ok2 := identObj(info, fields["LineNumber"]) == params[1]
				ok3 := identObj(info, fields["bLine"]) == params[2]
				r.Check(ok1 && ok2 && ok3, rule, fi.Name, "Match{..}", c.Pos(cl.Pos()), "flow: Match carries the function's own source, line number and line buffer", "the emitted Match does not store the source / lineNum / line parameters of this very call")
				return true
			})
			if !found {
				r.Undecided(rule, fi.Name, "Match literal", c.Pos(fi.Decl.Pos()), "Match{..} literal not found")
			}
		}
	}
	r.Floor(rule, 12, "sends, advances, initialisation, iteration orders, worker call, Match literal")
}

// ---------------------------------------------------------------- (b) unsafe

func c02Unsafe(c *Ctx, r *Report) {
	const rule = "C02-b/unsafe-view"
	audited := map[string]bool{}
	for _, a := range [][2]string{{extractorPkg, "(*extractorInstance).processLineSync"}, {"rare/pkg/matchers/dissect", "(*Dissect).FindSubmatchIndex"}, {"rare/pkg/matchers/dissect", "(*DissectInstance).FindSubmatchIndex"}} {
		if fi := c.Func(a[0], a[1]); fi != nil {
			audited[funcDisplayName(fi.Pkg.PkgPath, fi.Decl)] = true
		}
	}
	n := 0
	for _, fi := range c.AllFuncDecls() {
		if isTestSupportPkg(fi.Pkg.PkgPath) {
			continue
		}
		info := fi.Pkg.TypesInfo
		ast.Inspect(fi.Decl.Body, func(x ast.Node) bool {
			se, ok := x.(*ast.SelectorExpr)
			if !ok {
				return true
			}
			id, ok := se.X.(*ast.Ident)
			if !ok {
				return true
			}
			pn, ok := info.Uses[id].(*types.PkgName)
			if !ok || pn.Imported().Path() != "unsafe" {
				return true
			}
			n++
			if !audited[fi.Name] {
				r.Undecided(rule, fi.Name, exprStr(se), c.Pos(se.Pos()), "new use of package unsafe outside the two audited zero-copy sites: lifetime and aliasing of the view cannot be confirmed")
				return true
			}
			r.OK(rule, fi.Name, exprStr(se), c.Pos(se.Pos()), "audited: zero-copy string view of a []byte that outlives the view")
			return true
		})
	}
	// processLineSync: the view is of &line (the parameter) and the same parameter is stored in the Match
	if fi := c.MustFunc(r, rule, extractorPkg, "(*extractorInstance).processLineSync"); fi != nil {
		info := fi.Pkg.TypesInfo
		var lineParam types.Object
		ps := fi.Decl.Type.Params.List
		if len(ps) > 0 && len(ps[len(ps)-1].Names) > 0 {
			lineParam = info.Defs[ps[len(ps)-1].Names[len(ps[len(ps)-1].Names)-1]]
		}
		okView := false
		var viewObj types.Object
		ast.Inspect(fi.Decl.Body, func(x ast.Node) bool {
			as, ok := x.(*ast.AssignStmt)
			if !ok || len(as.Rhs) != 1 {
				return true
			}
			found := false
			ast.Inspect(as.Rhs[0], func(y ast.Node) bool {
				if ce, ok := y.(*ast.CallExpr); ok && exprStr(ce.Fun) == "unsafe.Pointer" && len(ce.Args) == 1 {
					if ue, ok := ast.Unparen(ce.Args[0]).(*ast.UnaryExpr); ok && ue.Op == token.AND && identObj(info, ue.X) == lineParam {
						found = true
					}
				}
				return true
			})
			if found {
				okView = true
				viewObj = identObj(info, as.Lhs[0])
			}
			return true
		})
		okKeep := false
		ast.Inspect(fi.Decl.Body, func(x ast.Node) bool {
			cl, ok := x.(*ast.CompositeLit)
			if !ok || !isNamed(info.TypeOf(cl), extractorPkg, "Match") {
				return true
			}
			hasB, hasL := false, false
			for _, el := range cl.Elts {
				if kv, ok := el.(*ast.KeyValueExpr); ok {
					if exprStr(kv.Key) == "bLine" && identObj(info, kv.Value) == lineParam {
						hasB = true
					}
					if exprStr(kv.Key) == "Line" && viewObj != nil && identObj(info, kv.Value) == viewObj {
						hasL = true
					}
				}
			}
			if hasB && hasL {
				okKeep = true
			}
			return true
		})
		r.Check(okView && okKeep, rule, fi.Name, "view of &line kept alive by bLine", c.Pos(fi.Decl.Pos()), "lifetime: the string view aliases the line parameter and the Match retains that same slice", "the zero-copy string is not a view of the line parameter that the Match keeps alive: the text of a held match can be collected or belong to another buffer")
	}
	r.Floor(rule, 3, "two audited sites and the keep-alive check")
	_ = n
}

// ---------------------------------------------------------------- (d) IntPool

func c02IntPool(c *Ctx, r *Report, prefix string) {
	rule := prefix + "/intpool-no-recycle"
	const pkg = "rare/pkg/slicepool"
	p := c.ByPath[pkg]
	if p == nil {
		r.Undecided(rule, pkg, "package", "-", "package not found")
		return
	}
	info := p.TypesInfo
	n := 0
	for _, fi := range c.AllFuncDecls(pkg) {
		isPoolMethod := fi.Decl.Recv != nil && recvTypeName(fi.Decl.Recv.List[0].Type) == "IntPool"
		ast.Inspect(fi.Decl.Body, func(x ast.Node) bool {
			as, ok := x.(*ast.AssignStmt)
			if !ok {
				return true
			}
			for i, l := range as.Lhs {
				fv := fieldVar(info, l)
				// element stores into the pool are writes to handed-out memory
				if ix, isIx := ast.Unparen(l).(*ast.IndexExpr); isIx {
					if f2 := fieldVar(info, ix.X); f2 != nil && f2.Name() == "pool" && fieldOwnerName(p, f2) == "IntPool" {
						n++
						r.Bad(rule, fi.Name, stmtStr(as), c.Pos(as.Pos()), "the pool writes into its backing array: slices handed out earlier share it")
					}
				}
				if fv == nil || fv.Name() != "pool" || fieldOwnerName(p, fv) != "IntPool" || i >= len(as.Rhs) {
					continue
				}
				n++
				rhs := ast.Unparen(as.Rhs[i])
				ok2 := false
				why := ""
				if ce, isCall := rhs.(*ast.CallExpr); isCall && calleeName(info, ce) == "builtin.make" {
					ok2, why = true, "fresh: pool re-bound to a newly made array"
				}
				if sx, isSl := rhs.(*ast.SliceExpr); isSl && fieldVar(info, sx.X) == fv && sx.Low != nil && sx.High == nil {
					ok2, why = true, "suffix: pool shrinks to the part not handed out"
				}
				_ = isPoolMethod
				r.Check(ok2, rule, fi.Name, stmtStr(as), c.Pos(as.Pos()), why, "IntPool.pool is re-bound to "+exprStr(rhs)+", which is neither a fresh array nor the unused suffix: index slices returned for earlier lines are handed out again and overwritten by later matches")
			}
			return true
		})
	}
	// Get returns the prefix taken before the suffix assignment
	if fi := c.MustFunc(r, rule, pkg, "(*IntPool).Get"); fi != nil {
		fg := NewFGraph(fi.Decl.Body, info)
		prefixNode, suffixNode := -1, -1
		for _, nd := range fg.Nodes {
			as, ok := nd.N.(*ast.AssignStmt)
			if !ok || len(as.Lhs) != 1 || len(as.Rhs) != 1 {
				continue
			}
			if sx, isSl := ast.Unparen(as.Rhs[0]).(*ast.SliceExpr); isSl {
				if fv := fieldVar(info, sx.X); fv != nil && fv.Name() == "pool" {
					if sx.Low == nil && sx.High != nil && fieldVar(info, as.Lhs[0]) == nil {
						prefixNode = nd.ID
					}
					if sx.Low != nil && sx.High == nil && fieldVar(info, as.Lhs[0]) == fv {
						suffixNode = nd.ID
						if exprStr(sx.Low) == "" {
							suffixNode = -1
						}
					}
				}
			}
		}
		okOrder := prefixNode >= 0 && suffixNode >= 0 && fg.Dominates(prefixNode, suffixNode)
		// same n on both sides
		r.Check(okOrder, rule, fi.Name, "ret = pool[:n]; pool = pool[n:]", c.Pos(fi.Decl.Pos()), "order: the returned prefix is taken before the pool advances past it", "Get does not return the prefix pool[:n] taken before advancing the pool to pool[n:]")
		n++
	}
	r.Floor(rule, 3, "two assignments to pool and the Get order")
}

// ---------------------------------------------------------------- (f) flags

func c02Flags(c *Ctx, r *Report) {
	const rule = "C02-f/matcher-flags"
	fi := c.MustFunc(r, rule, "rare/cmd/helpers", "BuildMatcherFromArguments")
	if fi == nil {
		return
	}
	info := fi.Pkg.TypesInfo
	// variables assigned from c.Bool("ignore-case") / c.Bool("posix")
	flagVar := map[string]types.Object{}
	ast.Inspect(fi.Decl.Body, func(n ast.Node) bool {
		vs, ok := n.(*ast.ValueSpec)
		if ok {
			for i, id := range vs.Names {
				if i < len(vs.Values) {
					if ce, ok := vs.Values[i].(*ast.CallExpr); ok && len(ce.Args) == 1 {
						if s, isS := constString(info, ce.Args[0]); isS {
							flagVar[s] = info.Defs[id]
						}
					}
				}
			}
		}
		if as, ok := n.(*ast.AssignStmt); ok && as.Tok == token.DEFINE {
			for i, l := range as.Lhs {
				if i < len(as.Rhs) {
					if ce, ok := as.Rhs[i].(*ast.CallExpr); ok && len(ce.Args) == 1 {
						if s, isS := constString(info, ce.Args[0]); isS {
							flagVar[s] = identObj(info, l)
						}
					}
				}
			}
		}
		return true
	})
	ic, px := flagVar["ignore-case"], flagVar["posix"]
	if ic == nil || px == nil {
		r.Undecided(rule, fi.Name, "flag reads", c.Pos(fi.Decl.Pos()), "reads of the ignore-case / posix flags not found")
		return
	}
	okDissect, okRegexIC, okPosix := false, false, false
	vi := analyseVars(info, fi.Decl)
	fg := NewFGraph(fi.Decl.Body, info)
	fg.SolveFacts(vi)
	ast.Inspect(fi.Decl.Body, func(n ast.Node) bool {
		switch t := n.(type) {
		case *ast.CallExpr:
			name := calleeName(info, t)
			if name == "rare/pkg/matchers/dissect.CompileEx" && len(t.Args) == 2 && identObj(info, t.Args[1]) == ic {
				okDissect = true
			}
			if name == "rare/pkg/matchers/fastregex.CompileEx" && len(t.Args) == 2 && identObj(info, t.Args[1]) == px {
				okPosix = true
			}
		case *ast.AssignStmt:
			// matchExpr = "(?i)" + matchExpr under ignoreCase
			if len(t.Rhs) == 1 {
				if be, ok := ast.Unparen(t.Rhs[0]).(*ast.BinaryExpr); ok && be.Op == token.ADD {
					if s, isS := constString(info, be.X); isS && s == "(?i)" && identObj(info, be.Y) == identObj(info, t.Lhs[0]) {
						for _, f := range fg.FactsAtPos(t.Pos()) {
							if identObj(info, f.Cond) == ic && f.Truth {
								okRegexIC = true
							}
						}
					}
				}
			}
		}
		return true
	})
	r.Check(okDissect, rule, fi.Name, "dissect.CompileEx(.., ignoreCase)", c.Pos(fi.Decl.Pos()), "flow: the ignore-case flag reaches the dissect compiler", "the ignore-case flag no longer reaches dissect.CompileEx")
	r.Check(okRegexIC, rule, fi.Name, "(?i) prefix under ignoreCase", c.Pos(fi.Decl.Pos()), "flow: the ignore-case flag prefixes the regular expression with (?i)", "the ignore-case flag no longer turns into a (?i) prefix of the regular expression")
	r.Check(okPosix, rule, fi.Name, "fastregex.CompileEx(.., posix)", c.Pos(fi.Decl.Pos()), "flow: the posix flag reaches the regexp compiler", "the posix flag no longer reaches fastregex.CompileEx")
	// the pattern handed to either compiler is the user's flag value, at most prefixed with "(?i)": every
	// assignment of the pattern variable is the flag read or that prefixing
	for _, cname := range []string{"rare/pkg/matchers/fastregex.CompileEx", "rare/pkg/matchers/dissect.CompileEx"} {
		ast.Inspect(fi.Decl.Body, func(n ast.Node) bool {
			ce, ok := n.(*ast.CallExpr)
			if !ok || calleeName(info, ce) != cname || len(ce.Args) < 1 {
				return true
			}
			pv := identObj(info, ce.Args[0])
			if pv == nil {
				r.Bad(rule, fi.Name, exprStr(ce), c.Pos(ce.Pos()), "the pattern argument is a computed expression, not the variable holding the user's pattern: captures would no longer be those of the pattern the user gave")
				return true
			}
			bad := ""
			check := func(lhs ast.Expr, rhs ast.Expr, pos token.Pos) {
				if identObj(info, lhs) != pv || rhs == nil {
					return
				}
				rhs = ast.Unparen(rhs)
				if call, ok := rhs.(*ast.CallExpr); ok && len(call.Args) == 1 {
					if _, isS := constString(info, call.Args[0]); isS {
						return // flag read
					}
				}
				if be, ok := rhs.(*ast.BinaryExpr); ok && be.Op == token.ADD {
					if s, isS := constString(info, be.X); isS && s == "(?i)" && identObj(info, be.Y) == pv {
						return
					}
				}
				bad = c.Pos(pos) + ": " + exprStr(lhs) + " = " + exprStr(rhs)
			}
			ast.Inspect(fi.Decl.Body, func(m ast.Node) bool {
				switch t := m.(type) {
				case *ast.AssignStmt:
					for i, l := range t.Lhs {
						if len(t.Rhs) == len(t.Lhs) {
							check(l, t.Rhs[i], t.Pos())
						} else if identObj(info, l) == pv {
							bad = c.Pos(t.Pos()) + ": " + exprStr(l) + " assigned from a multi-value expression"
						}
					}
				case *ast.ValueSpec:
					for i, id := range t.Names {
						if i < len(t.Values) {
							check(id, t.Values[i], t.Pos())
						}
					}
				}
				return true
			})
			r.Check(bad == "", rule, fi.Name, "pattern of "+exprStr(ce.Fun), c.Pos(ce.Pos()), "flow: the compiled pattern is the user's flag value, at most prefixed with the constant (?i)",
				"the pattern is rewritten before it is compiled ("+bad+"): the matcher then implements a different expression than the one selected, so captures are not those of its leftmost match (e.g. folding i into a leading (?: group limits the flag to that group)")
			return true
		})
	}
	r.Floor(rule, 5, "three flag flows and two pattern flows")
	_ = fmt.Sprint
}

// c02ContiguousCopy (C02-e/contiguous-copy): colouring copies the line into
// the output piecewise. With colour codes removed the result is byte-identical
// to the line only if the pieces are consecutive: every piece s[lo:hi] written
// inside the group loop starts at the running cursor, or at a position known
// (dominating facts) to be >= the cursor, and the cursor is then moved to hi.
func c02ContiguousCopy(c *Ctx, r *Report) {
	const rule = "C02-e/contiguous-copy"
	fi := c.MustFunc(r, rule, "rare/pkg/color", "WrapIndices")
	if fi == nil {
		return
	}
	info := fi.Pkg.TypesInfo
	var sParam types.Object
	if fi.Decl.Type.Params != nil && len(fi.Decl.Type.Params.List) > 0 && len(fi.Decl.Type.Params.List[0].Names) > 0 {
		sParam = info.Defs[fi.Decl.Type.Params.List[0].Names[0]]
	}
	var loop *ast.ForStmt
	for _, st := range fi.Decl.Body.List {
		if fs, ok := st.(*ast.ForStmt); ok {
			loop = fs
		}
	}
	if sParam == nil || loop == nil {
		r.Undecided(rule, fi.Name, "group loop", c.Pos(fi.Decl.Pos()), "line parameter or group loop not found")
		return
	}
	vi := analyseVars(info, fi.Decl)
	fg := NewFGraph(fi.Decl.Body, info)
	fg.SolveFacts(vi)
	pr := &prover{info: info, vi: vi, fg: fg, body: fi.Decl.Body}
	// pieces of the line written inside the loop
	type piece struct {
		sx   *ast.SliceExpr
		call *ast.CallExpr
	}
	var pieces []piece
	ast.Inspect(loop.Body, func(x ast.Node) bool {
		ce, ok := x.(*ast.CallExpr)
		if !ok || len(ce.Args) != 1 {
			return true
		}
		if sx, ok := ast.Unparen(ce.Args[0]).(*ast.SliceExpr); ok && identObj(info, sx.X) == sParam {
			pieces = append(pieces, piece{sx, ce})
		}
		return true
	})
	// the cursor: a variable declared outside the loop, assigned inside it, used as low bound of a piece
	var cursor types.Object
	for _, p := range pieces {
		if o, ok := identObj(info, p.sx.Low).(*types.Var); ok && o != nil && !within(loop, o.Pos()) {
			cursor = o
		}
	}
	if cursor == nil || len(pieces) == 0 {
		r.Bad(rule, fi.Name, "cursor", c.Pos(loop.Pos()), "no running cursor found: the pieces of the line written by the group loop are not anchored to the end of the previous piece")
		return
	}
	for _, p := range pieces {
		lo, hi := p.sx.Low, p.sx.High
		facts := fg.FactsAtPos(p.call.Pos())
		startsAtCursor := identObj(info, lo) == cursor
		okStart := startsAtCursor || (lo != nil && pr.holdsText(exprStr(lo)+" >= "+cursor.Name(), facts))
		// a piece that does not start at the cursor must be preceded by the gap piece s[cursor:lo] ... accept: lo >= cursor known
		r.Check(okStart, rule, fi.Name, exprStr(p.sx), c.Pos(p.sx.Pos()), "order: the piece starts at (or is known not to start before) the end of what was already written",
			"the piece "+exprStr(p.sx)+" of the line is written although it may start before the position already written ("+cursor.Name()+"): with nested or out-of-order groups that text is emitted twice, so the output with colour codes removed is no longer the matched line")
		if !startsAtCursor && hi != nil {
			// cursor moves to hi afterwards
			moved := false
			ast.Inspect(loop.Body, func(y ast.Node) bool {
				if as, ok := y.(*ast.AssignStmt); ok && len(as.Lhs) == 1 && len(as.Rhs) == 1 && identObj(info, as.Lhs[0]) == cursor && exprStr(as.Rhs[0]) == exprStr(hi) && as.Pos() > p.call.Pos() {
					moved = true
				}
				return true
			})
			r.Check(moved, rule, fi.Name, cursor.Name()+" = "+exprStr(hi), c.Pos(p.call.Pos()), "order: the cursor moves to the end of the piece just written",
				"after writing "+exprStr(p.sx)+" the cursor is not moved to "+exprStr(hi)+": the following text is written again")
		}
	}
	r.Floor(rule, 3, "gap piece, group piece, cursor move")
}
