package main

import (
	"go/ast"
	"go/types"
	"sort"

	"golang.org/x/tools/go/ssa"
)

// methodsOfImplementers returns the SSA functions of every method of every
// named type in the repository that implements the interface pkg.name.
func methodsOfImplementers(c *Ctx, pkgPath, name string) []*ssa.Function {
	p := c.ByPath[pkgPath]
	if p == nil {
		return nil
	}
	obj := p.Types.Scope().Lookup(name)
	if obj == nil {
		return nil
	}
	iface, ok := obj.Type().Underlying().(*types.Interface)
	if !ok {
		return nil
	}
	var out []*ssa.Function
	for _, q := range c.Pkgs {
		sc := q.Types.Scope()
		for _, n := range sc.Names() {
			tn, ok := sc.Lookup(n).(*types.TypeName)
			if !ok || tn.IsAlias() {
				continue
			}
			T := tn.Type()
			if _, isIface := T.Underlying().(*types.Interface); isIface {
				continue
			}
			for _, tt := range []types.Type{T, types.NewPointer(T)} {
				if !types.Implements(tt, iface) {
					continue
				}
				ms := c.Prog.MethodSets.MethodSet(tt)
				for i := 0; i < ms.Len(); i++ {
					if f := c.Prog.MethodValue(ms.At(i)); f != nil {
						out = append(out, f)
					}
				}
			}
		}
	}
	return out
}

// scopeC08: expression compilation and evaluation.
func scopeExpressions(c *Ctx) map[ast.Node]bool {
	roots := fnsOfPackages(c,
		"rare/pkg/expressions",
		"rare/pkg/expressions/stdlib",
		"rare/pkg/expressions/stdmath",
		"rare/pkg/expressions/funcfile",
		"rare/pkg/expressions/funclib",
		"rare/pkg/stringSplitter",
	)
	roots = append(roots, methodsOfImplementers(c, "rare/pkg/expressions", "KeyBuilderContext")...)
	roots = append(roots, methodsOfImplementers(c, "rare/pkg/expressions/stdmath", "Context")...)
	return syntaxScope(reachableFrom(c, roots))
}

func scopeNames(c *Ctx, sc map[ast.Node]bool) []string {
	m := map[string]bool{}
	for n := range sc {
		m[c.Fset.Position(n.Pos()).Filename] = true
	}
	var out []string
	for k := range m {
		out = append(out, k)
	}
	sort.Strings(out)
	return out
}

// fnsBySyntax returns the SSA functions whose syntax is one of the nodes.
func fnsBySyntax(c *Ctx, nodes map[ast.Node]bool) []*ssa.Function {
	var out []*ssa.Function
	for f := range c.allFns {
		if s := f.Syntax(); s != nil && nodes[s] {
			out = append(out, f)
		}
	}
	return out
}

// renderClosures returns the function literals passed as the render callback
// to helpers.RunAggregationLoop.
func renderClosures(c *Ctx) map[ast.Node]bool {
	out := map[ast.Node]bool{}
	forEachCall(c, func(p *packagesPkg, fd *ast.FuncDecl, call *ast.CallExpr) {
		if calleeName(p.TypesInfo, call) == "rare/cmd/helpers.RunAggregationLoop" && len(call.Args) == 3 {
			if fl, ok := ast.Unparen(call.Args[2]).(*ast.FuncLit); ok {
				out[fl] = true
			}
		}
	})
	return out
}

// scopeRenderers: everything the terminal renderers execute.
func scopeRenderers(c *Ctx) map[ast.Node]bool {
	var pk []string
	for _, p := range c.Pkgs {
		if p.PkgPath == "rare/pkg/multiterm" || len(p.PkgPath) > len("rare/pkg/multiterm/") && p.PkgPath[:len("rare/pkg/multiterm/")] == "rare/pkg/multiterm/" {
			pk = append(pk, p.PkgPath)
		}
	}
	pk = append(pk, "rare/pkg/color")
	roots := fnsOfPackages(c, pk...)
	roots = append(roots, fnsBySyntax(c, renderClosures(c))...)
	return syntaxScope(reachableFrom(c, roots))
}
