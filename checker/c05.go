package main

// C05 - race freedom (lock-set / atomic discipline), atomic render,
// complete final render, close-after-senders discipline.

import (
	"fmt"
	"go/ast"
	"go/token"
	"go/types"
	"sort"
	"strings"
)

func init() {
	register(&propDef{
		ID:  "C05",
		Run: runC05,
		Explain: "Decided: (a) protection discipline: every struct type of the repository that owns a sync.Mutex/RWMutex field or has a field accessed through sync/atomic is a shared type; each of its fields must be immutable after construction, a sync/channel value, accessed only through sync/atomic, or accessed only with the owner's mutex in the must-hold lock set (lock sets computed per body over the CFG, with deferred unlocks and helper entry sets); the same for package-level variables of packages that own a package-level mutex; a field accessed atomically anywhere is accessed atomically everywhere; local variables captured by go-closures must be single-assignment or sync/channel values; (b) in RunAggregationLoop every Sample and every periodic render holds outputMutex, the final render is unconditional, post-dominates the function, follows the send on the unbuffered outputDone channel whose only receiver is the ticker arm that returns; (c) every close of a channel is ordered after its senders: same-goroutine closes are deferred or followed by no send, cross-goroutine closes are dominated by a WaitGroup.Wait whose Add precedes each spawning go statement and whose Done is deferred in each spawned body; sender helpers are only called from goroutines covered by such a close; (d) pooled contexts handed to sub-expressions are re-initialised with the caller's context before use and returned on every exit; stage closures write no captured or package-level state; (e) matcher instances are created per worker goroutine. (f) a match is counted before it is published: the totals are advanced only inside the classifying function, which returns before the worker sends; CreateInstance implementations return fresh instances; a pooled context is returned to its pool at most once per path. " +
			"NOT decided: absence of deadlock in general and termination of the pipeline (only the close/handshake structure), monotonicity of intermediate renders, races inside third-party code, races on objects reachable only through interfaces the call graph cannot resolve.",
		Assume: []string{
			"goroutines are only started by go statements in the repository (and fsnotify's internal goroutine)",
			"package initialisation (init functions, variable initialisers) is single-threaded",
			"a composite literal initialises an object before it is published to another goroutine",
		},
	})
}

func nonTestRarePrefixes() []string {
	return []string{"rare"}
}

func isTestSupportPkg(path string) bool {
	return strings.HasPrefix(path, "rare/pkg/testutil")
}

func runC05(c *Ctx, r *Report) {
	units := allBodies(c)
	c05Atomic(c, r)
	c05SharedTypes(c, r, units)
	c05SnapshotEscape(c, r, units, "C05-a/snapshot-escape")
	c05PackageMutex(c, r, units)
	c05CapturedLocals(c, r)
	c05AggregationLoop(c, r, units)
	c05CloseDiscipline(c, r, units, "C05-c")
	semaphorePairing(c, r, "C05-c/semaphore", "rare/pkg/extractor")
	r.Floor("C05-c/semaphore", 1, "reader slots in OpenFilesToChan")
	c05PoolTypestate(c, r, "C05-d")
	c05StagePurity(c, r, "C05-d")
	c05MatcherPerWorker(c, r)
	c05FreshInstance(c, r, "C05-e/fresh-instance")
	// (f) a match is counted before it is published: the counters are advanced only inside the
	// classifying function, which returns before the worker sends the match to the aggregation loop
	borrow(c, r, c01Counters, "C01-a", "C05-f", nil, true)
	// (g) the final render reflects all matches: a worker leaves nothing it collected unsent
	c01WorkerForward(c, r, "C05-b/worker-forward")
}

// ---------------------------------------------------------------- (a) atomics

func c05Atomic(c *Ctx, r *Report) {
	const rule = "C05-a/atomic"
	targets := atomicTargets(c)
	if len(targets) == 0 {
		r.Floor(rule, 1, "atomic counters of Extractor and Batcher")
		return
	}
	for _, p := range c.Pkgs {
		if isTestSupportPkg(p.PkgPath) {
			continue
		}
		info := p.TypesInfo
		for _, file := range p.Syntax {
			// parents: selector -> enclosing &x passed to atomic
			okSel := map[ast.Expr]bool{}
			ast.Inspect(file, func(n ast.Node) bool {
				ce, ok := n.(*ast.CallExpr)
				if !ok || !strings.HasPrefix(calleeName(info, ce), "sync/atomic.") || len(ce.Args) == 0 {
					return true
				}
				if ue, ok := ast.Unparen(ce.Args[0]).(*ast.UnaryExpr); ok && ue.Op == token.AND {
					okSel[ast.Unparen(ue.X)] = true
				}
				return true
			})
			var encl *ast.FuncDecl
			for _, d := range file.Decls {
				fd, _ := d.(*ast.FuncDecl)
				encl = fd
				ast.Inspect(d, func(n ast.Node) bool {
					var v *types.Var
					var e ast.Expr
					switch t := n.(type) {
					case *ast.SelectorExpr:
						v = fieldVar(info, t)
						e = t
					case *ast.Ident:
						if o, ok := info.Uses[t].(*types.Var); ok && !o.IsField() {
							v = o
							e = t
						}
					}
					if v == nil || targets[v] == nil {
						return true
					}
					where := p.PkgPath + ".<init>"
					if encl != nil {
						where = funcDisplayName(p.PkgPath, encl)
					}
					r.Check(okSel[e], rule, where, exprStr(e), c.Pos(e.Pos()), "atomic: accessed through sync/atomic",
						fmt.Sprintf("%s is updated with sync/atomic elsewhere (e.g. %s) but read or written plainly here: a data race, and a possibly torn/stale value", v.Name(), c.Pos(targets[v][0])))
					return true
				})
			}
		}
	}
	r.Floor(rule, 9, "readLines/matchedLines/ignoredLines (8 accesses) and readBytes")
}

// ---------------------------------------------------------------- (a) shared types

type fieldAccess struct {
	pos    token.Pos
	where  string
	expr   string
	locked bool
	write  bool
	ctor   bool
}

func c05SharedTypes(c *Ctx, r *Report, units []*bodyUnit) {
	const rule = "C05-a/lockset"
	atom := atomicTargets(c)
	nTypes := 0
	for _, p := range c.Pkgs {
		if isTestSupportPkg(p.PkgPath) {
			continue
		}
		sc := p.Types.Scope()
		for _, name := range sc.Names() {
			tn, ok := sc.Lookup(name).(*types.TypeName)
			if !ok {
				continue
			}
			st, ok := tn.Type().Underlying().(*types.Struct)
			if !ok {
				continue
			}
			var mutex *types.Var
			shared := false
			for i := 0; i < st.NumFields(); i++ {
				f := st.Field(i)
				if isNamed(f.Type(), "sync", "Mutex") || isNamed(f.Type(), "sync", "RWMutex") {
					mutex = f
					shared = true
				}
				if atom[f] != nil {
					shared = true
				}
			}
			if !shared {
				continue
			}
			nTypes++
			tname := p.PkgPath + "." + name
			for i := 0; i < st.NumFields(); i++ {
				f := st.Field(i)
				if f == mutex || isSyncType(f.Type()) {
					continue
				}
				if atom[f] != nil {
					continue // C05-a/atomic
				}
				if immutableFields[f] {
					r.OK(rule, tname, f.Name(), c.Pos(f.Pos()), "immutable: only set by the constructing composite literal")
					continue
				}
				if f.Embedded() {
					continue
				}
				accs := fieldAccesses(c, units, f, mutex)
				if mutex == nil {
					// atomically-counted type without a mutex: a mutable plain field must be confined
					bad := false
					for _, a := range accs {
						if !a.ctor && a.write {
							bad = true
							r.Bad(rule, a.where, a.expr, c.Pos(a.pos), fmt.Sprintf("field %s.%s of a type shared between goroutines is written after construction without a lock or sync/atomic", tname, f.Name()))
						}
					}
					if !bad {
						r.OK(rule, tname, f.Name(), c.Pos(f.Pos()), "confined: never written outside the constructor")
					}
					continue
				}
				allOK := true
				for _, a := range accs {
					if a.ctor || a.locked {
						continue
					}
					allOK = false
					kind := "read"
					if a.write {
						kind = "written"
					}
					r.Bad(rule, a.where, a.expr, c.Pos(a.pos), fmt.Sprintf("field %s.%s is %s without holding %s, although the field is mutable and the type is shared between goroutines (other accesses hold the lock): data race", tname, f.Name(), kind, mutex.Name()))
				}
				if allOK {
					r.OK(rule, tname, f.Name(), c.Pos(f.Pos()), fmt.Sprintf("locked: all %d accesses outside the constructor hold %s", len(accs), mutex.Name()))
				}
			}
		}
	}
	r.Extra["shared_types"] = nTypes
	r.Floor(rule, 10, "fields of Batcher, Extractor and ObjectPool")
}

// fieldAccesses lists every selector access to field f with the lock state.
func fieldAccesses(c *Ctx, units []*bodyUnit, f *types.Var, mutex *types.Var) []fieldAccess {
	var out []fieldAccess
	for _, u := range units {
		info := u.Pkg.TypesInfo
		// constructor: the enclosing declaration builds the struct with a composite literal
		ctor := false
		if u.Decl != nil {
			ast.Inspect(u.Decl.Body, func(n ast.Node) bool {
				if cl, ok := n.(*ast.CompositeLit); ok {
					if t := info.TypeOf(cl); t != nil {
						if st, ok := t.Underlying().(*types.Struct); ok {
							for i := 0; i < st.NumFields(); i++ {
								if st.Field(i).Origin() == f {
									ctor = true
								}
							}
						}
					}
				}
				return true
			})
		}
		writes := map[ast.Expr]bool{}
		inspectNoLit(u.Body, func(n ast.Node) bool {
			switch t := n.(type) {
			case *ast.AssignStmt:
				for _, l := range t.Lhs {
					l = ast.Unparen(l)
					writes[l] = true
					if ix, ok := l.(*ast.IndexExpr); ok {
						writes[ast.Unparen(ix.X)] = true
					}
				}
			case *ast.IncDecStmt:
				writes[ast.Unparen(t.X)] = true
			}
			return true
		})
		inspectNoLit(u.Body, func(n ast.Node) bool {
			se, ok := n.(*ast.SelectorExpr)
			if !ok || fieldVar(info, se) != f {
				return true
			}
			a := fieldAccess{pos: se.Pos(), where: u.Name, expr: exprStr(se), write: writes[se], ctor: ctor && u.Lit == nil}
			if mutex != nil {
				id := u.FG.NodeOf(se.Pos())
				if id >= 0 {
					want := exprStr(se.X) + "." + mutex.Name()
					ls := u.Locks[id]
					if a.write {
						a.locked = ls.holdsW(want)
					} else {
						a.locked = ls.holds(want)
					}
				}
			}
			out = append(out, a)
			return true
		})
	}
	sort.Slice(out, func(i, j int) bool { return out[i].pos < out[j].pos })
	return out
}

// c05PackageMutex: packages owning a package-level mutex: every mutable
// package-level variable of that package is accessed with the mutex held.
func c05PackageMutex(c *Ctx, r *Report, units []*bodyUnit) {
	const rule = "C05-a/pkg-lockset"
	n := 0
	for _, p := range c.Pkgs {
		if isTestSupportPkg(p.PkgPath) {
			continue
		}
		sc := p.Types.Scope()
		var mutex *types.Var
		for _, name := range sc.Names() {
			if v, ok := sc.Lookup(name).(*types.Var); ok {
				if isNamed(v.Type(), "sync", "Mutex") || isNamed(v.Type(), "sync", "RWMutex") {
					mutex = v
				}
			}
		}
		if mutex == nil {
			continue
		}
		for _, name := range sc.Names() {
			v, ok := sc.Lookup(name).(*types.Var)
			if !ok || v == mutex || isSyncType(v.Type()) {
				continue
			}
			writers := writersOfGlobal(c, v)
			mutable := false
			for _, w := range writers {
				if !strings.HasSuffix(w, ".init") {
					mutable = true
				}
			}
			if !mutable {
				continue
			}
			n++
			bad := 0
			for _, u := range units {
				if u.Pkg != p {
					continue
				}
				if u.Lit == nil && u.Decl.Name.Name == "init" && u.Decl.Recv == nil {
					continue
				}
				info := u.Pkg.TypesInfo
				writes := map[*ast.Ident]bool{}
				inspectNoLit(u.Body, func(x ast.Node) bool {
					if as, ok := x.(*ast.AssignStmt); ok {
						for _, l := range as.Lhs {
							if id, ok := ast.Unparen(l).(*ast.Ident); ok {
								writes[id] = true
							}
						}
					}
					return true
				})
				inspectNoLit(u.Body, func(x ast.Node) bool {
					id, ok := x.(*ast.Ident)
					if !ok || info.Uses[id] != v {
						return true
					}
					nd := u.FG.NodeOf(id.Pos())
					if nd < 0 {
						return true
					}
					ls := u.Locks[nd]
					held := ls.holds(mutex.Name())
					if writes[id] {
						held = ls.holdsW(mutex.Name())
					}
					if !held {
						bad++
						r.Bad(rule, u.Name, id.Name, c.Pos(id.Pos()), fmt.Sprintf("package variable %s.%s is accessed without %s (write lock for writes): it is re-assigned at run time and used from several goroutines", p.PkgPath, v.Name(), mutex.Name()))
					}
					return true
				})
			}
			if bad == 0 {
				r.OK(rule, p.PkgPath, v.Name(), c.Pos(v.Pos()), "locked: every access outside init holds "+mutex.Name())
			}
		}
	}
	r.Floor(rule, 2, "logger.logger and logger.logBuffer")
	_ = n
}

// c05CapturedLocals: variables captured by a go-closure must be
// single-assignment or synchronisation values.
func c05CapturedLocals(c *Ctx, r *Report) {
	const rule = "C05-a/captured"
	for _, fi := range c.AllFuncDecls() {
		if isTestSupportPkg(fi.Pkg.PkgPath) {
			continue
		}
		info := fi.Pkg.TypesInfo
		var gos []*ast.FuncLit
		ast.Inspect(fi.Decl.Body, func(n ast.Node) bool {
			if g, ok := n.(*ast.GoStmt); ok {
				if fl, ok := ast.Unparen(g.Call.Fun).(*ast.FuncLit); ok {
					gos = append(gos, fl)
				}
			}
			return true
		})
		if len(gos) == 0 {
			continue
		}
		vi := analyseVars(info, fi.Decl)
		pr := &prover{info: info, vi: vi, body: fi.Decl.Body}
		pr.collectAssigns()
		for _, fl := range gos {
			seen := map[types.Object]bool{}
			ast.Inspect(fl.Body, func(n ast.Node) bool {
				id, ok := n.(*ast.Ident)
				if !ok {
					return true
				}
				v, ok := info.Uses[id].(*types.Var)
				if !ok || v.IsField() || seen[v] {
					return true
				}
				if v.Pkg() == nil || v.Parent() == v.Pkg().Scope() {
					return true // globals: other rules
				}
				if within(fl, v.Pos()) {
					return true // declared inside the goroutine
				}
				seen[v] = true
				if isSyncType(v.Type()) {
					r.OK(rule, fi.Name, v.Name(), c.Pos(id.Pos()), "sync: channel / sync value")
					return true
				}
				// assignments after the declaration?
				var inside, after int
				for _, a := range pr.assigns[v] {
					if within(fl, a.pos) {
						inside++
					} else if a.pos > fl.Pos() {
						after++
					}
				}
				// loop variables re-bound per iteration are fresh (Go >= 1.22); a write inside the goroutine
				// or after the go statement while the goroutine runs is a race unless it is a struct whose fields are checked elsewhere
				ok2 := inside == 0 && after == 0
				r.Check(ok2, rule, fi.Name, v.Name(), c.Pos(id.Pos()), "single-assignment: not written inside the goroutine nor after it was started",
					fmt.Sprintf("local variable %s is shared with a goroutine and written %d time(s) inside it / %d time(s) after the go statement without synchronisation", v.Name(), inside, after))
				return true
			})
		}
	}
	r.Floor(rule, 12, "variables captured by the pipeline goroutines")
}

// ---------------------------------------------------------------- (b) aggregation loop

func c05AggregationLoop(c *Ctx, r *Report, units []*bodyUnit) {
	const rule = "C05-b"
	fi := c.MustFunc(r, rule, "rare/cmd/helpers", "RunAggregationLoop")
	if fi == nil {
		return
	}
	info := fi.Pkg.TypesInfo
	fd := fi.Decl
	// parameters: aggregator (interface with Sample) and the render callback (func())
	var aggParam, renderParam types.Object
	for _, f := range fd.Type.Params.List {
		for _, id := range f.Names {
			o := info.Defs[id]
			if o == nil {
				continue
			}
			if _, isFn := o.Type().Underlying().(*types.Signature); isFn {
				renderParam = o
			} else if isNamed(o.Type(), "rare/pkg/aggregation", "Aggregator") {
				aggParam = o
			}
		}
	}
	if aggParam == nil || renderParam == nil {
		r.Undecided(rule, fi.Name, "parameters", c.Pos(fd.Pos()), "aggregator / render callback parameters not recognised")
		return
	}
	// the mutex and the done channel: locals of sync.Mutex / chan type
	var mutexObj, doneObj types.Object
	var doneMake *ast.CallExpr
	ast.Inspect(fd.Body, func(n ast.Node) bool {
		switch t := n.(type) {
		case *ast.ValueSpec:
			for _, id := range t.Names {
				if o := info.Defs[id]; o != nil && isNamed(o.Type(), "sync", "Mutex") {
					mutexObj = o
				}
			}
		case *ast.AssignStmt:
			if t.Tok == token.DEFINE && len(t.Lhs) == 1 && len(t.Rhs) == 1 {
				if ce, ok := t.Rhs[0].(*ast.CallExpr); ok && calleeName(info, ce) == "builtin.make" {
					if _, isChan := info.TypeOf(ce.Args[0]).Underlying().(*types.Chan); isChan {
						o := info.Defs[t.Lhs[0].(*ast.Ident)]
						// the done channel is the one the main body sends on
						ast.Inspect(fd.Body, func(m ast.Node) bool {
							if ss, ok := m.(*ast.SendStmt); ok && identObj(info, ss.Chan) == o {
								doneObj = o
								doneMake = ce
							}
							return true
						})
					}
				}
			}
		}
		return true
	})
	if mutexObj == nil || doneObj == nil {
		r.Undecided(rule, fi.Name, "outputMutex/outputDone", c.Pos(fd.Pos()), "local mutex or done channel not found")
		return
	}
	// (i) every Sample and every render inside a goroutine holds the mutex
	nGuarded := 0
	var mainUnit *bodyUnit
	var tickerUnit *bodyUnit
	for _, u := range units {
		if u.Decl != fd {
			continue
		}
		if u.Lit == nil {
			mainUnit = u
		} else if u.IsGo {
			tickerUnit = u
		}
	}
	if mainUnit == nil {
		r.Undecided(rule, fi.Name, "body", c.Pos(fd.Pos()), "function body not analysed")
		return
	}
	var finalRender *ast.CallExpr
	for _, u := range units {
		if u.Decl != fd {
			continue
		}
		inspectNoLit(u.Body, func(n ast.Node) bool {
			ce, ok := n.(*ast.CallExpr)
			if !ok {
				return true
			}
			isSample := false
			if se, ok := ce.Fun.(*ast.SelectorExpr); ok && identObj(info, se.X) == aggParam {
				isSample = true
			}
			// handing the aggregator to a helper is sampling as far as the lock is concerned
			for _, a := range ce.Args {
				if identObj(info, a) == aggParam {
					isSample = true
				}
			}
			isRender := identObj(info, ce.Fun) == renderParam
			if !isSample && !isRender {
				return true
			}
			id := u.FG.NodeOf(ce.Pos())
			held := id >= 0 && u.Locks[id].holdsW(mutexObj.Name())
			if isRender && u.Lit == nil && !held {
				// candidate final render (checked below)
				finalRender = ce
				return true
			}
			nGuarded++
			what := "aggregator method " + exprStr(ce.Fun)
			if isRender {
				what = "periodic render"
			}
			r.Check(held, rule+"/exclusion", fi.Name, exprStr(ce), c.Pos(ce.Pos()), "locked: "+mutexObj.Name()+" is held", what+" runs without "+mutexObj.Name()+": a render can observe a half-sampled batch (and races with Sample)")
			return true
		})
	}
	r.Floor(rule+"/exclusion", 2, "Sample in the processing loop and the ticker render")
	// (ii) final render
	if finalRender == nil {
		r.Bad(rule+"/final-render", fi.Name, "final render", c.Pos(fd.Body.Rbrace), "no render after the processing loop outside the mutex: the last matches are never drawn")
		return
	}
	fg := mainUnit.FG
	fnode := fg.NodeOf(finalRender.Pos())
	// post-dominates: exit unreachable when the node is a barrier
	post := !fg.Reaches(fg.Entry, fg.Exit, func(n *FNode) bool { return n.ID == fnode })
	if fnode == fg.Entry {
		post = false
	}
	r.Check(post, rule+"/final-render", fi.Name, "unconditional", c.Pos(finalRender.Pos()), "path: every path to the function's return passes through the final render", "the final render is conditional or can be skipped on some path: output may not reflect the last sampled matches")
	// dominated by the send on the done channel
	sendNode := -1
	for _, n := range fg.Nodes {
		if ss, ok := n.N.(*ast.SendStmt); ok && identObj(info, ss.Chan) == doneObj {
			sendNode = n.ID
		}
	}
	r.Check(sendNode >= 0 && fg.Dominates(sendNode, fnode), rule+"/final-render", fi.Name, "after done handshake", c.Pos(finalRender.Pos()), "order: dominated by the send on "+doneObj.Name(), "the final render is not ordered after the handshake that stops the ticker: it can run concurrently with a periodic render")
	// no Sample after the final render
	after := fg.ReachSet(fnode, nil, nil)
	sampleAfter := false
	for id := range after {
		if n := fg.Nodes[id].N; n != nil {
			for _, ce := range callsIn(n) {
				if se, ok := ce.Fun.(*ast.SelectorExpr); ok && identObj(info, se.X) == aggParam {
					sampleAfter = true
				}
			}
		}
	}
	r.Check(!sampleAfter, rule+"/final-render", fi.Name, "nothing sampled afterwards", c.Pos(finalRender.Pos()), "order: no aggregator call is reachable after the final render", "matches can be sampled after the final render")
	// the done channel is unbuffered
	unbuf := doneMake != nil && len(doneMake.Args) == 1
	if doneMake != nil && len(doneMake.Args) == 2 {
		if v, ok := constInt(info, doneMake.Args[1]); ok && v == 0 {
			unbuf = true
		}
	}
	r.Check(unbuf, rule+"/handshake", fi.Name, "make("+doneObj.Name()+")", c.Pos(doneMake.Pos()), "handshake: channel is unbuffered, so the send returns only when the ticker received it", "the done channel is buffered: the send no longer waits for the ticker, which may still be rendering when the final render starts")
	// the only receive is in the ticker closure, in a select arm that returns
	okRecv, nRecv := false, 0
	if tickerUnit != nil {
		ast.Inspect(fd.Body, func(n ast.Node) bool {
			ue, ok := n.(*ast.UnaryExpr)
			if !ok || ue.Op != token.ARROW || identObj(info, ue.X) != doneObj {
				return true
			}
			nRecv++
			if within(tickerUnit.Lit, ue.Pos()) {
				// find the comm clause
				ast.Inspect(tickerUnit.Lit.Body, func(m ast.Node) bool {
					cc, ok := m.(*ast.CommClause)
					if !ok || cc.Comm == nil || !within(cc.Comm, ue.Pos()) {
						return true
					}
					if len(cc.Body) > 0 {
						if _, isRet := cc.Body[len(cc.Body)-1].(*ast.ReturnStmt); isRet {
							okRecv = true
						}
					}
					return true
				})
			}
			return true
		})
	}
	r.Check(okRecv && nRecv == 1, rule+"/handshake", fi.Name, "<-"+doneObj.Name(), c.Pos(fd.Pos()), "handshake: the single receiver is the ticker's select arm, which returns", "the done signal is not received exactly once by a ticker arm that returns: the ticker can render again after the handshake")
	// the ticker takes the mutex around its render and releases it (lock/unlock pairing on all paths)
	if tickerUnit != nil {
		leak := false
		ex := tickerUnit.Locks[tickerUnit.FG.Exit]
		if ex.holds(mutexObj.Name()) {
			leak = true
		}
		// at the loop head (select) the mutex must not be held
		for _, n := range tickerUnit.FG.Nodes {
			if n.Block != nil && n.N == nil && n.Block.Kind.String() == "ForLoop" || (n.Block != nil && n.N == nil && n.Block.Kind.String() == "ForBody") {
				if tickerUnit.Locks[n.ID].holds(mutexObj.Name()) {
					leak = true
				}
			}
		}
		r.Check(!leak, rule+"/exclusion", fi.Name, "ticker releases "+mutexObj.Name(), c.Pos(tickerUnit.Lit.Pos()), "pairing: the mutex is not held across iterations or at exit", "the ticker goroutine can keep "+mutexObj.Name()+" locked: the processing loop then blocks forever")
	}
	// main loop releases the mutex as well
	if mainUnit.Locks[fnode].holds(mutexObj.Name()) {
		r.Bad(rule+"/exclusion", fi.Name, "final render under mutex", c.Pos(finalRender.Pos()), "mutex still held at the final render")
	}
	r.Floor(rule+"/final-render", 3, "unconditional, after handshake, nothing sampled afterwards")
	r.Floor(rule+"/handshake", 2, "unbuffered channel and single returning receiver")
}

// ---------------------------------------------------------------- (e) matcher per worker

func c05MatcherPerWorker(c *Ctx, r *Report) {
	const rule = "C05-e"
	fi := c.MustFunc(r, rule, "rare/pkg/extractor", "(*Extractor).asyncWorker")
	if fi == nil {
		return
	}
	info := fi.Pkg.TypesInfo
	n := 0
	forEachCall(c, func(p *packagesPkg, fd *ast.FuncDecl, call *ast.CallExpr) {
		name := calleeName(p.TypesInfo, call)
		if !strings.HasSuffix(name, ".CreateInstance") || !strings.Contains(name, "rare/pkg/matchers") {
			return
		}
		if isTestSupportPkg(p.PkgPath) {
			return
		}
		// allowed: inside asyncWorker (per goroutine), inside other CreateInstance implementations, or in cmd code that uses a matcher single-threaded
		where := fdName(p, fd)
		if fd == fi.Decl {
			n++
			// must not be inside the receive loop (once per goroutine) and must be a direct statement of the body
			inLoop := false
			ast.Inspect(fd.Body, func(x ast.Node) bool {
				switch t := x.(type) {
				case *ast.ForStmt:
					if within(t.Body, call.Pos()) {
						inLoop = true
					}
				case *ast.RangeStmt:
					if within(t.Body, call.Pos()) {
						inLoop = true
					}
				}
				return true
			})
			r.Check(!inLoop, rule, where, exprStr(call), c.Pos(call.Pos()), "per-worker: one matcher instance is created at the start of each worker goroutine", "matcher instance creation moved into the batch loop")
			return
		}
		r.OK(rule, where, exprStr(call), c.Pos(call.Pos()), "other use of CreateInstance outside the worker pool")
	})
	// the instance must not be stored into the shared Extractor
	shared := false
	ast.Inspect(fi.Decl.Body, func(x ast.Node) bool {
		if as, ok := x.(*ast.AssignStmt); ok {
			for _, l := range as.Lhs {
				if se, ok := ast.Unparen(l).(*ast.SelectorExpr); ok {
					if id, ok := se.X.(*ast.Ident); ok && fi.Decl.Recv != nil && len(fi.Decl.Recv.List[0].Names) == 1 && info.Uses[id] == info.Defs[fi.Decl.Recv.List[0].Names[0]] {
						shared = true
					}
				}
			}
		}
		return true
	})
	r.Check(!shared && n >= 1, rule, fi.Name, "instance stays in the worker", c.Pos(fi.Decl.Pos()), "confined: the worker does not store into the shared Extractor", "the worker writes to the shared Extractor (or no longer creates its own matcher instance): matcher state (index pool, context) would be shared between goroutines")
	r.Floor(rule, 2, "CreateInstance in asyncWorker and the confinement check")
}

// c05FreshInstance (…/fresh-instance): CreateInstance hands every caller its
// own matcher instance. Each implementation in rare/pkg/matchers/** must
// return a freshly built value (composite literal or the result of a call),
// or its receiver when the receiver type keeps no mutable state; returning a
// stored instance (a field, a package variable) gives the same instance - and
// its non-thread-safe index pool - to several workers.
func c05FreshInstance(c *Ctx, r *Report, rule string) {
	n := 0
	for _, fi := range c.AllFuncDecls("rare/pkg/matchers") {
		if fi.Decl.Recv == nil || fi.Decl.Name.Name != "CreateInstance" || isTestSupportPkg(fi.Pkg.PkgPath) {
			continue
		}
		info := fi.Pkg.TypesInfo
		n++
		var recv types.Object
		if len(fi.Decl.Recv.List) == 1 && len(fi.Decl.Recv.List[0].Names) == 1 {
			recv = info.Defs[fi.Decl.Recv.List[0].Names[0]]
		}
		// is the receiver type stateless (no method writes one of its fields)?
		recvStateless := func() bool {
			if recv == nil {
				return false
			}
			rt := recv.Type()
			if p, ok := rt.(*types.Pointer); ok {
				rt = p.Elem()
			}
			named, ok := rt.(*types.Named)
			if !ok {
				return false
			}
			stateless := true
			for _, m := range c.AllFuncDecls(fi.Pkg.PkgPath) {
				if m.Decl.Recv == nil || len(m.Decl.Recv.List) != 1 || len(m.Decl.Recv.List[0].Names) != 1 {
					continue
				}
				mr := m.Pkg.TypesInfo.Defs[m.Decl.Recv.List[0].Names[0]]
				if mr == nil {
					continue
				}
				mt := mr.Type()
				if p, ok := mt.(*types.Pointer); ok {
					mt = p.Elem()
				}
				if mn, ok := mt.(*types.Named); !ok || mn.Origin().Obj() != named.Origin().Obj() {
					continue
				}
				ast.Inspect(m.Decl.Body, func(x ast.Node) bool {
					var lhs []ast.Expr
					switch t := x.(type) {
					case *ast.AssignStmt:
						lhs = t.Lhs
					case *ast.IncDecStmt:
						lhs = []ast.Expr{t.X}
					}
					for _, l := range lhs {
						if id := rootIdent(l); id != nil && m.Pkg.TypesInfo.Uses[id] == mr {
							if _, isSel := ast.Unparen(l).(*ast.Ident); !isSel {
								stateless = false
							}
						}
					}
					return true
				})
			}
			return stateless
		}
		var classify func(e ast.Expr, depth int) string
		classify = func(e ast.Expr, depth int) string {
			e = ast.Unparen(e)
			switch t := e.(type) {
			case *ast.CompositeLit:
				return ""
			case *ast.UnaryExpr:
				if t.Op == token.AND {
					if _, ok := ast.Unparen(t.X).(*ast.CompositeLit); ok {
						return ""
					}
				}
			case *ast.CallExpr:
				return ""
			case *ast.Ident:
				o := info.Uses[t]
				if o == recv && recv != nil {
					if recvStateless() {
						return ""
					}
					return "the receiver, whose type keeps mutable state"
				}
				if v, ok := o.(*types.Var); ok && within(fi.Decl.Body, v.Pos()) && depth < 3 {
					bad, seen := "", false
					ast.Inspect(fi.Decl.Body, func(x ast.Node) bool {
						if vs, isSpec := x.(*ast.ValueSpec); isSpec {
							for i, nm := range vs.Names {
								if info.Defs[nm] == o && i < len(vs.Values) {
									seen = true
									if why := classify(vs.Values[i], depth+1); why != "" {
										bad = why
									}
								}
							}
							return true
						}
						as, ok := x.(*ast.AssignStmt)
						if !ok {
							return true
						}
						for i, l := range as.Lhs {
							if identObj(info, l) == o {
								seen = true
								if len(as.Rhs) == len(as.Lhs) {
									if why := classify(as.Rhs[i], depth+1); why != "" {
										bad = why
									}
								}
							}
						}
						return true
					})
					if seen {
						return bad
					}
				}
				return "the stored value " + t.Name
			case *ast.SelectorExpr:
				return "the stored value " + exprStr(t)
			}
			return "the expression " + exprStr(e)
		}
		bad := ""
		inspectNoLit(fi.Decl.Body, func(x ast.Node) bool {
			if rs, ok := x.(*ast.ReturnStmt); ok && len(rs.Results) == 1 {
				if why := classify(rs.Results[0], 0); why != "" {
					bad = why + " (" + c.Pos(rs.Pos()) + ")"
				}
			}
			return true
		})
		r.Check(bad == "", rule, fi.Name, "returned instance", c.Pos(fi.Decl.Pos()), "fresh: every return builds a new instance (or returns a receiver that keeps no state)",
			"CreateInstance returns "+bad+": two workers can receive the same matcher instance and share its non-thread-safe state (index pool), so results handed out for one line are overwritten by another worker")
	}
	r.Floor(rule, 4, "factoryWrapper, AlwaysMatch, compiledRegexp, Dissect")
}
