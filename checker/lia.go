package main

// Linear integer arithmetic over several variables for the E-PANIC guard
// rules. The difference-constraint system (prover.go) can only relate two
// terms; obligations such as s[i+j] under `i <= len(s)-n` and `j < n` need
// three. This layer takes everything the difference-constraint system knows
// (its edges), adds the branch facts linearised into sums of atoms, and
// decides a goal by Fourier-Motzkin elimination on the rationals: if
// facts /\ not(goal) has no rational solution it has no integer solution, so
// the proof is sound; failure to prove is never an error, only "not proven".
// As in prover.go, machine overflow of index arithmetic is assumed away.

import (
	"fmt"
	"go/ast"
	"go/token"
	"go/types"
	"os"
	"sort"
	"strings"
)

// lin is sum(co[a]*a) + c over atoms a (canonical expression strings).
type lin struct {
	co map[string]int64
	c  int64
}

func linConst(c int64) lin { return lin{co: map[string]int64{}, c: c} }
func linAtom(a string) lin {
	if a == "" {
		return linConst(0)
	}
	return lin{co: map[string]int64{a: 1}}
}

func (a lin) add(b lin, k int64) lin {
	out := lin{co: map[string]int64{}, c: a.c + k*b.c}
	for v, x := range a.co {
		out.co[v] = x
	}
	for v, x := range b.co {
		out.co[v] += k * x
		if out.co[v] == 0 {
			delete(out.co, v)
		}
	}
	return out
}

func (a lin) scale(k int64) lin {
	out := lin{co: map[string]int64{}, c: a.c * k}
	for v, x := range a.co {
		if x*k != 0 {
			out.co[v] = x * k
		}
	}
	return out
}

// linN linearises an integer expression into atoms. ok=false when e is not an
// integer expression.
func (p *prover) linN(e ast.Expr, depth int) (lin, bool) {
	e = ast.Unparen(e)
	if e == nil || depth > 12 {
		return lin{}, false
	}
	if v, ok := constInt(p.info, e); ok {
		return linConst(v), true
	}
	switch t := e.(type) {
	case *ast.BinaryExpr:
		switch t.Op {
		case token.ADD, token.SUB:
			// variable +- variable may wrap around unless both are sizes (bounded by some length on both
			// sides): `left + length` with a user-supplied length is not arithmetic we may reason about
			_, cx := constInt(p.info, t.X)
			_, cy := constInt(p.info, t.Y)
			if !cx && !cy && !(p.sizeBounded(t.X, 0) && p.sizeBounded(t.Y, 0)) {
				break
			}
			x, ok1 := p.linN(t.X, depth+1)
			y, ok2 := p.linN(t.Y, depth+1)
			if ok1 && ok2 {
				k := int64(1)
				if t.Op == token.SUB {
					k = -1
				}
				return x.add(y, k), true
			}
		case token.MUL:
			if c, ok := constInt(p.info, t.X); ok && c > -1024 && c < 1024 {
				if y, ok := p.linN(t.Y, depth+1); ok {
					return y.scale(c), true
				}
			}
			if c, ok := constInt(p.info, t.Y); ok && c > -1024 && c < 1024 {
				if x, ok := p.linN(t.X, depth+1); ok {
					return x.scale(c), true
				}
			}
		}
	case *ast.UnaryExpr:
		if t.Op == token.SUB {
			if x, ok := p.linN(t.X, depth+1); ok {
				return x.scale(-1), true
			}
		}
	case *ast.CallExpr:
		if n := calleeName(p.info, t); n == "builtin.len" && len(t.Args) == 1 {
			if tv, ok := p.info.Types[t.Args[0]]; ok {
				if k, isArr := arrayLen(tv.Type); isArr {
					return linConst(k), true
				}
			}
			// len(x[a:b]) of a simple slice expression is b - a (bounds are someone else's obligation)
			if sx, ok := ast.Unparen(t.Args[0]).(*ast.SliceExpr); ok && !sx.Slice3 {
				hi, okH := lin{}, false
				if sx.High != nil {
					hi, okH = p.linN(sx.High, depth+1)
				} else {
					hi, okH = linAtom(p.lenCanon(sx.X)), true
				}
				lo, okL := linConst(0), true
				if sx.Low != nil {
					lo, okL = p.linN(sx.Low, depth+1)
				}
				if okH && okL {
					return hi.add(lo, -1), true
				}
			}
			return linAtom(p.lenCanon(t.Args[0])), true
		}
	}
	if t := p.info.TypeOf(e); t == nil || !isIntegerType(t) {
		return lin{}, false
	}
	return linAtom(p.canon(e)), true
}

// liaSys is a conjunction of inequalities row <= 0.
type liaSys struct {
	rows []lin
}

func (s *liaSys) addLE0(r lin) { s.rows = append(s.rows, r) }

// addRel records a op b.
func (s *liaSys) addRel(a, b lin, op token.Token) {
	switch op {
	case token.LEQ:
		s.addLE0(a.add(b, -1))
	case token.LSS:
		r := a.add(b, -1)
		r.c++
		s.addLE0(r)
	case token.GEQ:
		s.addRel(b, a, token.LEQ)
	case token.GTR:
		s.addRel(b, a, token.LSS)
	case token.EQL:
		s.addRel(a, b, token.LEQ)
		s.addRel(b, a, token.LEQ)
	}
}

func gcd64(a, b int64) int64 {
	if a < 0 {
		a = -a
	}
	if b < 0 {
		b = -b
	}
	for b != 0 {
		a, b = b, a%b
	}
	return a
}

func normRow(r lin) (lin, bool) {
	g := int64(0)
	for _, x := range r.co {
		g = gcd64(g, x)
	}
	if g > 1 {
		out := lin{co: map[string]int64{}}
		for v, x := range r.co {
			out.co[v] = x / g
		}
		// integer tightening: sum <= -c/g  => floor
		c := r.c
		q := c / g
		if c%g != 0 && c > 0 {
			q++ // ceil for positive remainder: sum + c <= 0 with sum multiple of g
		}
		out.c = q
		r = out
	}
	const lim = int64(1) << 40
	if r.c > lim || r.c < -lim {
		return r, false
	}
	for _, x := range r.co {
		if x > lim || x < -lim {
			return r, false
		}
	}
	return r, true
}

func rowKey(r lin) string {
	vs := make([]string, 0, len(r.co))
	for v := range r.co {
		vs = append(vs, v)
	}
	sort.Strings(vs)
	b := make([]byte, 0, 64)
	for _, v := range vs {
		b = append(b, v...)
		b = append(b, '*')
		b = appendInt(b, r.co[v])
		b = append(b, ';')
	}
	return string(b)
}

func appendInt(b []byte, v int64) []byte {
	if v < 0 {
		b = append(b, '-')
		v = -v
	}
	var tmp [20]byte
	i := len(tmp)
	for {
		i--
		tmp[i] = byte('0' + v%10)
		v /= 10
		if v == 0 {
			break
		}
	}
	return append(b, tmp[i:]...)
}

// infeasible reports whether the system has no rational solution
// (Fourier-Motzkin elimination; gives up - returns false - when the system
// grows beyond a fixed size or coefficients get large).
func (s *liaSys) infeasible() bool {
	// dedupe: for rows with the same coefficient vector keep the strongest (largest c)
	dedupe := func(rows []lin) ([]lin, bool) {
		best := map[string]int{}
		var out []lin
		for _, r := range rows {
			r2, ok := normRow(r)
			if !ok {
				return nil, false
			}
			if len(r2.co) == 0 {
				if r2.c > 0 {
					return []lin{r2}, true // contradiction found
				}
				continue
			}
			k := rowKey(r2)
			if i, seen := best[k]; seen {
				if r2.c > out[i].c {
					out[i] = r2
				}
				continue
			}
			best[k] = len(out)
			out = append(out, r2)
		}
		return out, true
	}
	rows, ok := dedupe(s.rows)
	if !ok {
		return false
	}
	for iter := 0; iter < 64; iter++ {
		if len(rows) == 1 && len(rows[0].co) == 0 && rows[0].c > 0 {
			return true
		}
		// pick the variable with the smallest pos*neg product
		pos, neg := map[string]int{}, map[string]int{}
		for _, r := range rows {
			for v, x := range r.co {
				if x > 0 {
					pos[v]++
				} else {
					neg[v]++
				}
			}
		}
		if len(pos) == 0 && len(neg) == 0 {
			return false
		}
		bestV, bestCost := "", -1
		vars := map[string]bool{}
		for v := range pos {
			vars[v] = true
		}
		for v := range neg {
			vars[v] = true
		}
		vs := make([]string, 0, len(vars))
		for v := range vars {
			vs = append(vs, v)
		}
		sort.Strings(vs)
		for _, v := range vs {
			cost := pos[v] * neg[v]
			if bestCost < 0 || cost < bestCost {
				bestV, bestCost = v, cost
			}
		}
		var next []lin
		var P, N []lin
		for _, r := range rows {
			x := r.co[bestV]
			switch {
			case x > 0:
				P = append(P, r)
			case x < 0:
				N = append(N, r)
			default:
				next = append(next, r)
			}
		}
		if len(P)*len(N) > 4000 {
			return false
		}
		for _, a := range P {
			for _, b := range N {
				ca, cb := a.co[bestV], -b.co[bestV]
				g := gcd64(ca, cb)
				// (cb/g)*a + (ca/g)*b eliminates bestV
				r := a.scale(cb/g).add(b, ca/g)
				delete(r.co, bestV)
				next = append(next, r)
			}
		}
		rows, ok = dedupe(next)
		if !ok {
			return false
		}
		if len(rows) > 6000 {
			return false
		}
	}
	return false
}

// proves: does g <= 0 follow from the system?
func (s *liaSys) proves(g lin) bool {
	t := &liaSys{rows: append([]lin{}, s.rows...)}
	// not(g <= 0)  <=>  g >= 1  <=>  -g + 1 <= 0
	n := g.scale(-1)
	n.c++
	t.addLE0(n)
	return t.infeasible()
}

// baseLin maps a base string of the difference-constraint system to atoms.
func (p *prover) baseLin(base string) lin {
	if base == "" {
		return linConst(0)
	}
	if e, ok := p.bases[base]; ok {
		if l, ok := p.linN(e, 0); ok {
			return l
		}
	}
	return linAtom(base)
}

// walkRelFacts calls f for every comparison that the facts make true.
func walkRelFacts(facts []Fact, f func(x, y ast.Expr, op token.Token)) {
	var visit func(cond ast.Expr, tag ast.Expr, truth bool)
	visit = func(cond ast.Expr, tag ast.Expr, truth bool) {
		cond = ast.Unparen(cond)
		if tag != nil {
			if truth {
				f(tag, cond, token.EQL)
			}
			return
		}
		switch t := cond.(type) {
		case *ast.UnaryExpr:
			if t.Op == token.NOT {
				visit(t.X, nil, !truth)
			}
		case *ast.BinaryExpr:
			switch t.Op {
			case token.LAND:
				if truth {
					visit(t.X, nil, true)
					visit(t.Y, nil, true)
				}
				return
			case token.LOR:
				if !truth {
					visit(t.X, nil, false)
					visit(t.Y, nil, false)
				}
				return
			}
			op := t.Op
			if !truth {
				op = negate(op)
			}
			switch op {
			case token.LSS, token.LEQ, token.GTR, token.GEQ, token.EQL:
				f(t.X, t.Y, op)
			}
		}
	}
	for _, fc := range facts {
		visit(fc.Cond, fc.Tag, fc.Truth)
	}
}

// liaSystem: everything the difference-constraint system knows plus the
// branch facts in their general linear form.
func (p *prover) liaSystem(facts []Fact, mention ...ast.Expr) *liaSys {
	d := p.system(facts, mention...)
	p.bnd = d
	s := &liaSys{}
	us := make([]string, 0, len(d.w))
	for u := range d.w {
		us = append(us, u)
	}
	sort.Strings(us)
	for _, u := range us {
		m := d.w[u]
		vs := make([]string, 0, len(m))
		for v := range m {
			vs = append(vs, v)
		}
		sort.Strings(vs)
		for _, v := range vs {
			r := p.baseLin(u).add(p.baseLin(v), -1)
			r.c -= m[v]
			s.addLE0(r)
		}
	}
	walkRelFacts(facts, func(x, y ast.Expr, op token.Token) {
		a, ok1 := p.linN(x, 0)
		b, ok2 := p.linN(y, 0)
		if ok1 && ok2 {
			s.addRel(a, b, op)
		}
	})
	// atoms that are lengths or otherwise non-negative
	seen := map[string]bool{}
	noteAtoms := func(e ast.Expr) {
		if e == nil {
			return
		}
		ast.Inspect(e, func(n ast.Node) bool {
			x, ok := n.(ast.Expr)
			if !ok {
				return true
			}
			if p.nonNegTerm(x) {
				if l, ok := p.linN(x, 0); ok && len(l.co) == 1 && l.c == 0 {
					for a, k := range l.co {
						if k == 1 && !seen[a] {
							seen[a] = true
							s.addLE0(linAtom(a).scale(-1))
						}
					}
				}
			}
			return true
		})
	}
	// integer division of a non-negative quantity by a positive constant: for D = e / k,
	// k*D <= e <= k*D + (k-1). (D itself is an opaque atom of the linearisation.)
	seenDiv := map[string]bool{}
	noteDivs := func(e ast.Expr) {
		if e == nil {
			return
		}
		ast.Inspect(e, func(n ast.Node) bool {
			be, ok := n.(*ast.BinaryExpr)
			if !ok || be.Op != token.QUO {
				return true
			}
			k, isK := constInt(p.info, be.Y)
			if !isK || k < 2 || k > 1024 {
				return true
			}
			if t := p.info.TypeOf(be); t == nil || !isIntegerType(t) {
				return true
			}
			if !p.nonNegTerm(be.X) && !p.sizeBounded(be.X, 0) {
				return true
			}
			E, okE := p.linN(be.X, 0)
			if !okE {
				return true
			}
			d := p.canon(be)
			if seenDiv[d] {
				return true
			}
			seenDiv[d] = true
			D := linAtom(d)
			s.addLE0(D.scale(k).add(E, -1)) // k*D - e <= 0
			up := E.add(D.scale(k), -1)     // e - k*D - (k-1) <= 0
			up.c -= k - 1
			s.addLE0(up)
			s.addLE0(D.scale(-1))
			return true
		})
	}
	for _, m := range mention {
		noteAtoms(m)
		noteDivs(m)
	}
	walkRelFacts(facts, func(x, y ast.Expr, op token.Token) {
		noteAtoms(x)
		noteAtoms(y)
		noteDivs(x)
		noteDivs(y)
	})
	return s
}

// proveIndexLIA: 0 <= i < len(x) by linear arithmetic.
func (p *prover) proveIndexLIA(ix *ast.IndexExpr, facts []Fact) bool {
	s := p.liaSystem(facts, ix.Index, ix.X)
	i, ok := p.linN(ix.Index, 0)
	if !ok {
		return false
	}
	L, ok := p.lenLin(ix.X)
	if !ok {
		return false
	}
	s.addLE0(L.scale(-1)) // len >= 0
	lower := s.proves(i.scale(-1))
	up := i.add(L, -1)
	up.c++
	return lower && s.proves(up)
}

func (p *prover) lenLin(x ast.Expr) (lin, bool) {
	if tv, ok := p.info.Types[x]; ok {
		if n, isArr := arrayLen(tv.Type); isArr {
			return linConst(n), true
		}
	}
	return linAtom(p.lenCanon(x)), true
}

// proveSliceLIA: 0 <= lo <= hi <= len(x).
func (p *prover) proveSliceLIA(sx *ast.SliceExpr, facts []Fact) bool {
	if sx.Slice3 {
		return false
	}
	s := p.liaSystem(facts, sx.Low, sx.High, sx.X)
	L, ok := p.lenLin(sx.X)
	if !ok {
		return false
	}
	lo, hi := linConst(0), L
	if sx.Low != nil {
		if lo, ok = p.linN(sx.Low, 0); !ok {
			return false
		}
	}
	if sx.High != nil {
		if hi, ok = p.linN(sx.High, 0); !ok {
			return false
		}
	}
	s.addLE0(L.scale(-1))
	return s.proves(lo.scale(-1)) && s.proves(lo.add(hi, -1)) && s.proves(hi.add(L, -1))
}

var _ = types.Typ

// ---------------------------------------------------------------- callers establish the precondition

// callerEstablished: an index or slice expression in an unexported function
// whose bounds follow only from what its callers pass. The function must be
// used in call position only and must not be recursive. For every call site
// the caller's facts, the bindings parameter = argument (integers) and
// len(parameter) = len(argument) (strings, slices), and the callee's own
// facts at the construct are put into one system; the bound must follow at
// every call site.
func (pe *panicEngine) callerEstablished(info *types.Info, self ast.Node, calleePr *prover, calleeFacts []Fact, e ast.Expr) string {
	fd, ok := self.(*ast.FuncDecl)
	if !ok || fd.Name.IsExported() || fd.Type.Params == nil {
		return ""
	}
	var pkg *packagesPkg
	for _, p := range pe.c.Pkgs {
		if p.TypesInfo == info {
			pkg = p
		}
	}
	if pkg == nil {
		return ""
	}
	obj := info.Defs[fd.Name]
	// parameters (must be final in the callee)
	type param struct {
		obj types.Object
		id  *ast.Ident
	}
	var params []param
	for _, f := range fd.Type.Params.List {
		if len(f.Names) == 0 {
			return ""
		}
		if _, variadic := f.Type.(*ast.Ellipsis); variadic {
			return ""
		}
		for _, id := range f.Names {
			params = append(params, param{info.Defs[id], id})
		}
	}
	type site struct {
		decl *ast.FuncDecl
		call *ast.CallExpr
	}
	var sites []site
	asValue := false
	for _, f := range pkg.Syntax {
		for _, d := range f.Decls {
			cd, ok := d.(*ast.FuncDecl)
			if !ok || cd.Body == nil {
				continue
			}
			inCall := map[*ast.Ident]bool{}
			ast.Inspect(cd.Body, func(n ast.Node) bool {
				if ce, ok := n.(*ast.CallExpr); ok {
					if f := calleeFunc(info, ce); f != nil && f.Origin() == obj {
						sites = append(sites, site{cd, ce})
						switch fn := ast.Unparen(ce.Fun).(type) {
						case *ast.Ident:
							inCall[fn] = true
						case *ast.SelectorExpr:
							inCall[fn.Sel] = true
						}
					}
				}
				return true
			})
			ast.Inspect(cd.Body, func(n ast.Node) bool {
				if id, ok := n.(*ast.Ident); ok && info.Uses[id] == obj && !inCall[id] {
					asValue = true
				}
				return true
			})
		}
	}
	if asValue || len(sites) == 0 {
		return ""
	}
	for _, s := range sites {
		if s.decl == fd {
			return "" // recursive
		}
	}
	var mention []ast.Expr
	switch t := e.(type) {
	case *ast.IndexExpr:
		mention = []ast.Expr{t.Index, t.X}
	case *ast.SliceExpr:
		mention = []ast.Expr{t.Low, t.High, t.X}
	}
	type siteCtx struct {
		pr  *prover
		sys *liaSys
	}
	var ctxs []siteCtx
	intParamSized := map[int]bool{}
	for i, p := range params {
		if u, ok := p.obj.Type().Underlying().(*types.Basic); ok && u.Info()&types.IsInteger != 0 {
			intParamSized[i] = true
		}
	}
	for _, s := range sites {
		body := s.decl.Body
		for _, fl := range funcLitsIn(s.decl.Body) {
			if within(fl.Body, s.call.Pos()) && within(body, fl.Pos()) {
				body = fl.Body
			}
		}
		vi := analyseVars(info, s.decl)
		fg := NewFGraph(body, info)
		fg.SolveFacts(vi)
		callerPr := &prover{info: info, vi: vi, fg: fg, body: body}
		if len(s.call.Args) != len(params) {
			return ""
		}
		sys := callerPr.liaSystem(fg.FactsAtPos(s.call.Pos()), s.call.Args...)
		for i := range params {
			if intParamSized[i] && !callerPr.sizeBounded(s.call.Args[i], 0) {
				intParamSized[i] = false
			}
		}
		ctxs = append(ctxs, siteCtx{callerPr, sys})
	}
	// an integer parameter that is a size at every call site is a size in the callee
	cs := calleePr.liaSystem(calleeFacts, mention...)
	if calleePr.assumeB == nil {
		calleePr.assumeB = map[string]bool{}
	}
	for i, p := range params {
		if intParamSized[i] {
			calleePr.assumeB[calleePr.canon(p.id)] = true
		}
	}
	defer func() { calleePr.assumeB = nil }()
	cs = calleePr.liaSystem(calleeFacts, mention...)
	// goals in the callee's atoms
	var goals []lin
	var L lin
	switch t := e.(type) {
	case *ast.IndexExpr:
		i, ok1 := calleePr.linN(t.Index, 0)
		l, ok2 := calleePr.lenLin(t.X)
		if !ok1 || !ok2 {
			return ""
		}
		L = l
		up := i.add(l, -1)
		up.c++
		goals = []lin{i.scale(-1), up}
	case *ast.SliceExpr:
		if t.Slice3 {
			return ""
		}
		l, ok := calleePr.lenLin(t.X)
		if !ok {
			return ""
		}
		L = l
		lo, hi := linConst(0), l
		if t.Low != nil {
			if lo, ok = calleePr.linN(t.Low, 0); !ok {
				return ""
			}
		}
		if t.High != nil {
			if hi, ok = calleePr.linN(t.High, 0); !ok {
				return ""
			}
		}
		goals = []lin{lo.scale(-1), lo.add(hi, -1), hi.add(l, -1)}
	default:
		return ""
	}
	for _, p := range params {
		if calleePr.vi == nil || !calleePr.vi.final[p.obj] {
			// a parameter that is re-assigned no longer equals the argument
			used := false
			ast.Inspect(e, func(n ast.Node) bool {
				if id, ok := n.(*ast.Ident); ok && info.Uses[id] == p.obj {
					used = true
				}
				return true
			})
			if used {
				return ""
			}
		}
	}
	for si, s := range sites {
		callerPr, sys := ctxs[si].pr, ctxs[si].sys
		sys.rows = append(sys.rows, cs.rows...)
		sys.addLE0(L.scale(-1))
		for i, p := range params {
			arg := s.call.Args[i]
			pt := p.obj.Type().Underlying()
			switch u := pt.(type) {
			case *types.Basic:
				if u.Info()&types.IsInteger != 0 {
					if a, ok := callerPr.linN(arg, 0); ok {
						sys.addRel(linAtom(calleePr.canon(p.id)), a, token.EQL)
					}
				} else if u.Info()&types.IsString != 0 {
					if a, ok := callerPr.linN(&ast.CallExpr{Fun: ast.NewIdent("len"), Args: []ast.Expr{arg}}, 0); ok {
						_ = a
					}
					sys.addRel(linAtom(calleePr.lenCanon(p.id)), callerLen(callerPr, arg), token.EQL)
				}
			case *types.Slice:
				sys.addRel(linAtom(calleePr.lenCanon(p.id)), callerLen(callerPr, arg), token.EQL)
			}
		}
		for gi, g := range goals {
			if !sys.proves(g) {
				if os.Getenv("RARECHECK_LIA") != "" {
					fmt.Fprintf(os.Stderr, "LIA caller-guard fails for %s goal %d at call %s\n", exprStr(e), gi, exprStr(s.call))
					for _, r := range sys.rows {
						fmt.Fprintf(os.Stderr, "   %v + %d <= 0\n", r.co, r.c)
					}
					fmt.Fprintf(os.Stderr, "   GOAL %v + %d <= 0\n", g.co, g.c)
				}
				return ""
			}
		}
	}
	return fmt.Sprintf("caller-guard: bounds follow at each of the %d call site(s) of this unexported function from the caller's facts and the argument bindings (linear arithmetic)", len(sites))
}

// callerLen: len(arg) in the caller's atoms.
func callerLen(pr *prover, arg ast.Expr) lin {
	arg = ast.Unparen(arg)
	if s, ok := constString(pr.info, arg); ok {
		return linConst(int64(len(s)))
	}
	if sx, ok := arg.(*ast.SliceExpr); ok && !sx.Slice3 {
		hi, okH := linAtom(pr.lenCanon(sx.X)), true
		if sx.High != nil {
			hi, okH = pr.linN(sx.High, 0)
		}
		lo, okL := linConst(0), true
		if sx.Low != nil {
			lo, okL = pr.linN(sx.Low, 0)
		}
		if okH && okL {
			return hi.add(lo, -1)
		}
	}
	return linAtom(pr.lenCanon(arg))
}

// sizeBounded: e is known to lie between 0 (or a constant) and some length
// or constant, so adding two such terms cannot wrap around (lengths are
// bounded by the address space).
func (p *prover) sizeBounded(e ast.Expr, depth int) bool {
	e = ast.Unparen(e)
	if depth > 4 {
		return false
	}
	if _, ok := constInt(p.info, e); ok {
		return true
	}
	switch t := e.(type) {
	case *ast.CallExpr:
		if n := calleeName(p.info, t); n == "builtin.len" || n == "builtin.cap" {
			return true
		}
		if isConversion(p.info, t) && len(t.Args) == 1 {
			return p.sizeBounded(t.Args[0], depth+1)
		}
	case *ast.BinaryExpr:
		if t.Op == token.ADD || t.Op == token.SUB {
			return p.sizeBounded(t.X, depth+1) && p.sizeBounded(t.Y, depth+1)
		}
	}
	l := p.linear(e)
	if !l.ok {
		return false
	}
	if p.assumeB[l.base] {
		return true
	}
	if p.bnd == nil {
		return false
	}
	return p.bnd.reachesSize(l.base, true) && p.bnd.reachesSize(l.base, false)
}

// reachesSize: is base bounded above (up) / below (!up) by a constant or a length term?
func (d *dcs) reachesSize(base string, up bool) bool {
	isSize := func(b string) bool { return b == "" || strings.HasPrefix(b, "len(") || strings.HasPrefix(b, "cap(") }
	seen := map[string]bool{base: true}
	stack := []string{base}
	for len(stack) > 0 {
		u := stack[len(stack)-1]
		stack = stack[:len(stack)-1]
		if up {
			// u - v <= c : v bounds u from above
			for v := range d.w[u] {
				if isSize(v) {
					return true
				}
				if !seen[v] {
					seen[v] = true
					stack = append(stack, v)
				}
			}
		} else {
			// v - u <= c : v bounds u from below... only the constant zero counts as a floor
			for v, m := range d.w {
				if _, ok := m[u]; ok {
					if v == "" {
						return true
					}
					if !seen[v] {
						seen[v] = true
						stack = append(stack, v)
					}
				}
			}
		}
	}
	return false
}
